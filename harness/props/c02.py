"""C02 — pg.List / pg.Dict behave as Python list / dict under every mutation history.

Three parts:
  (a) the SPECIFICATION coq/Model/PyList.v, PyDict.v is validated against CPython's built-in list / dict
      (implementation driver = the built-in type), incl. slice.indices exhaustively;
  (b) SymCore + the C02 extension (coq/Model/SymCoreC02.v) is run against pg.List / pg.Dict on generated histories,
      with read-back of the target after every step (len, x[i], x[a:b:c], in/index/count, ==, keys, to_json);
  (c) the differential oracle: a plain list / dict is driven with the same operation; the first divergence
      (contents, order, return value, error class, read-back) is the replay.
"""
import contextlib, copy, itertools, time
from harness.props import symcore_driver as D
from harness.props import symcore_gen as G
from harness.lib import tr as trlib

META = dict(
    id='C02',
    model_run='PG.Model.SymCoreC02.run',
    runner_name='SymCoreC02',
    model_targets=['Model/PyList.vo', 'Model/PyDict.vo', 'Model/SymCoreC02.vo'],
    technique='Coq proof that the SymCore model of pg.List/pg.Dict (base catalogue + slice assignment/deletion, |) refines an executable reference semantics of '
              "Python's list/dict (PyList.v/PyDict.v) under erasure of identities, annotations and flags, step by step and over histories; the reference semantics is itself "
              'validated against the CPython built-ins (exhaustive slice.indices, generated histories); step-level correspondence of the model against pg.List/pg.Dict '
              'with read-back after every step; differential oracle against a plain list/dict driven by the same operation',
    design_ref='DESIGN.md §5 C02, design/C02.md',
    level_text=('Theorems (28): for a pg.List / pg.Dict at ANY position of a well-formed forest (C01\'s full invariant) and plain arguments, every operation of the list/dict '
                'API -- all 15 list and 9 dict operations of the base catalogue, slice assignment / deletion with any start/stop/step, d | m, m | d, rebind with one or several '
                'paths of any length (applied highest path first on lists; nested update of the plain value); item assignment / append / insert / dict item assignment with ANY '
                'argument (a literal, a value with a parent = copied, a root of another tree = adopted, the container itself, an opaque object) incl. histories whose arguments '
                'are read from the list itself -- leaves the erasure of the target equal to the Python reference '
                'step on the erasure before, with the same return value / error class, and re-establishes the invariants; by induction for every finite history, also from any '
                'constructed literal; the four documented extensions as equations; the read API (len, indexing, slicing, in/index/count, ==, keys, to_json) computed on a tree '
                'equals the same computed on its erasure. Tie: (a) PyList/PyDict vs the built-in list/dict (slice.indices for every start/stop/step in -7..7 or None on '
                'lengths 0..6, every slice shape on short lists, generated histories over the whole API); (b) SymCoreC02.run vs pg.List/pg.Dict on generated histories incl. '
                'read-back after every step, a multi-path rebind sweep on lists of 0..13 elements, a self-reference sweep (argument = target / its root / child / descendant / other '
                'root, every index class); (c) direct differential oracle on every step plus systematic slice, '
                'update-key, iterable-kind and aliasing sweeps.'),
    level_note=('Trusted: Coq kernel; extraction (ExtrOcamlBasic) cross-checked against vm_compute; the drivers and generators. Modelled, not verified: the Python code '
                '(tied by the correspondence only). Arguments that are existing symbolic nodes or opaque objects are proved for item assignment / append / insert / dict item '
                'assignment (weaker frame: nothing is claimed about the other roots; an opaque object written over itself needs equal tags); for extend / += / update / '
                'setdefault / slices / rebind they and MISSING_VALUE written into a list by rebind are covered by the correspondence and the oracle only. Not modelled: value '
                'specs (C03), change events (C09), pg.Ref / inferential values, sort with a user key function that raises.'),
    rule='a case is a history (initial contents, list of operations [with scopes and read-back probes]) or one slice.indices query; distinct by canonical text; '
         'non-trivial when at least one mutating operation succeeds on a non-empty container',
    trusted_base=['extraction: ExtrOcamlBasic only; ocaml/main.ml lexer/printer; cross-checked against vm_compute on a sample',
                  'implementation drivers harness/props/symcore_driver.py (shared) and c02.py (built-in list/dict driver, read-back, plain reference), generators symcore_gen.py and c02.py'],
    assumptions=['dict keys are strings and integers; list / dict values are None, bools, small ints, short strings, opaque objects with value equality, and nested containers',
                 'the key function of sort is total and yields integers'],
)

LSETSLICE, LDELSLICE, DOR, DROR = 50, 51, 52, 53
EXT_LIST, EXT_DICT = {LSETSLICE, LDELSLICE}, {DOR, DROR}
EXT_NAMES = {LSETSLICE: 'List.__setitem__(slice)', LDELSLICE: 'List.__delitem__(slice)', DOR: 'Dict.__or__', DROR: 'Dict.__ror__'}
# read-only tags of the reference semantics
PGET, PGETSLICE, PLEN, PCONTAINS, PINDEX, PCOUNT, PEQ = 60, 61, 62, 63, 64, 65, 66
QGET, QGETD, QCONTAINS, QLEN, QKEYS, QITEMS, QEQ = 70, 71, 72, 73, 74, 75, 76

def op_name(tag):
  return D.OP_NAMES.get(tag) or EXT_NAMES.get(tag) or str(tag)

# ---- extending the shared driver with the operations the base catalogue lacks (additive, installed on demand) ----------
_installed = []
def install():
  if _installed:
    return
  _installed.append(True)
  base_run_op, base_op_values = D.run_op, D.op_values
  def op_values2(op):
    if op[0] == LSETSLICE: return list(op[5])
    if op[0] in (DOR, DROR): return [v for _, v in op[2]]
    if op[0] == LDELSLICE: return []
    return base_op_values(op)
  def run_op2(impl, t, op, new_results, val):
    r = run_op3(impl, t, op, new_results, val)
    impl.last_ret = r          # the raw value of the call, for the oracle
    return r
  def run_op3(impl, t, op, new_results, val):
    tag = op[0]
    if tag == LSETSLICE:
      t[mk_slice(op[2:5])] = [val(v) for v in op[5]]; return None
    if tag == LDELSLICE:
      del t[mk_slice(op[2:5])]; return None
    if tag in (DOR, DROR):
      m = {D.dec_key(k): val(v) for k, v in op[2]}
      r = (t | m) if tag == DOR else (m | t)
      if D.is_sym(r): new_results.append(r)
      return r
    return base_run_op(impl, t, op, new_results, val)
  D.run_op, D.op_values = run_op2, op_values2
  D.LIST_OPS.update(EXT_LIST); D.DICT_OPS.update(EXT_DICT)
  D.OP_NAMES.update(EXT_NAMES)

def mk_slice(abc):
  return slice(*[(o[0] if o else None) for o in abc])

# ---- plain values <-> the pv encoding of the model ((0 leaf) | (1 kind ((key pv) ...))) -----------------------------------
class Junk:
  """Stands for a value no model leaf denotes (never equal to anything but itself)."""
  def __repr__(self): return 'Junk()'

def enc_leaf(v):
  P = D.pg()
  if v is None: return [0]
  if isinstance(v, bool): return [1, int(v)]
  if isinstance(v, int): return [2, v]
  if isinstance(v, str): return [3] + [ord(c) for c in v]
  if not D.is_sym(v) and P.MISSING_VALUE == v: return [4]
  if isinstance(v, D.Opq): return [5, 0, v.tag]
  return [9]

def to_pv(x):
  """The erasure of a live value (symbolic or plain): identities, annotations and flags are forgotten."""
  if D.is_sym(x):
    k = D.kind_of(x)
    return [1, k, [[D.enc_key(kk), to_pv(vv)] for kk, vv in D.sym_children(x)]]
  if isinstance(x, dict):
    return [1, 0, [[D.enc_key(k), to_pv(v)] for k, v in x.items()]]
  if isinstance(x, (list, tuple)):
    return [1, 1, [[[1, i], to_pv(v)] for i, v in enumerate(x)]]
  return [0, enc_leaf(x)]

def from_pv(p, opq=None):
  """A plain Python value denoted by a pv (objects of the three classes are rebuilt as objects)."""
  P = D.pg()
  if p[0] == 0:
    l = p[1]
    t = l[0]
    if t == 0: return None
    if t == 1: return bool(l[1])
    if t == 2: return int(l[1])
    if t == 3: return ''.join(map(chr, l[1:]))
    if t == 4: return P.MISSING_VALUE
    if t == 5: return D.Opq(l[2])
    return Junk()
  _, kind, items = p
  if kind == 1: return [from_pv(v) for _, v in items]
  if kind == 0: return {D.dec_key(k): from_pv(v) for k, v in items}
  return D.classes()[kind - 2](**{D.dec_key(k): from_pv(v) for k, v in items})

def plain(x):
  """Deep plain copy of a live value: pg.List -> list, pg.Dict -> dict, everything else as it is (by reference)."""
  P = D.pg()
  if isinstance(x, (P.List, list)) :
    return [plain(v) for v in (x.sym_values() if isinstance(x, P.List) else x)]
  if isinstance(x, P.Dict):
    return {k: plain(v) for k, v in x.sym_items()}
  if isinstance(x, dict):
    return {k: plain(v) for k, v in x.items()}
  return x

def json_to_pv(j):
  """pg.to_json output -> pv (typed dicts back to what they stand for)."""
  if isinstance(j, dict):
    t = j.get('_type')
    if isinstance(t, str):
      if t.endswith('MissingValue'): return [0, [4]]
      if t.endswith('_OpaqueObject'): return [0, [9]]
      for i, name in enumerate(('ObjA', 'ObjB', 'ObjC')):
        if t.endswith(name):
          return [1, 2 + i, [[D.enc_key(k), json_to_pv(v)] for k, v in j.items() if k != '_type']]
      return [0, [9]]
    return [1, 0, [[D.enc_key(k), json_to_pv(v)] for k, v in j.items()]]
  if isinstance(j, list):
    return [1, 1, [[[1, i], json_to_pv(v)] for i, v in enumerate(j)]]
  return [0, enc_leaf(j)]

PY_ERR = {IndexError: 3, KeyError: 2, TypeError: 4, ValueError: 5}
def py_err(e):
  for cls, code in PY_ERR.items():
    if isinstance(e, cls): return code
  return 9

# ---- (a) the built-in list / dict driven by a history of the reference semantics ----------------------------------------
def builtin_list_step(l, op):
  """Applies op to the built-in list l in place; returns the encoded value of the call."""
  tag = op[0]
  V = from_pv
  if tag == D.LSET: l[op[1]] = V(op[2]); return [0]
  if tag == D.LDEL: del l[op[1]]; return [0]
  if tag == D.LAPPEND: l.append(V(op[1])); return [0]
  if tag == D.LINSERT: l.insert(op[1], V(op[2])); return [0]
  if tag == D.LEXTEND: l.extend([V(v) for v in op[1]]); return [0]
  if tag == D.LPOP: return [1, to_pv(l.pop(*[op[1][0]] if op[1] else []))]
  if tag == D.LREMOVE: l.remove(V(op[1])); return [0]
  if tag == D.LCLEAR: l.clear(); return [0]
  if tag == D.LREVERSE: l.reverse(); return [0]
  if tag == D.LSORT:
    it = iter(list(op[1]) + [0] * len(l))
    l.sort(key=lambda x: next(it), reverse=bool(op[2])); return [0]
  if tag == D.LIADD:
    l += [V(v) for v in op[1]]; return [0]
  if tag == D.LIMUL:
    l *= op[1]; return [0]
  if tag == D.LADD: return [2, [to_pv(x) for x in l + [V(v) for v in op[1]]]]
  if tag == D.LMUL: return [2, [to_pv(x) for x in l * op[1]]]
  if tag == D.LCOPY: return [2, [to_pv(x) for x in l.copy()]]
  if tag == LSETSLICE: l[mk_slice(op[1:4])] = [V(v) for v in op[4]]; return [0]
  if tag == LDELSLICE: del l[mk_slice(op[1:4])]; return [0]
  if tag == PGET: return [1, to_pv(l[op[1]])]
  if tag == PGETSLICE: return [2, [to_pv(x) for x in l[mk_slice(op[1:4])]]]
  if tag == PLEN: return [3, len(l)]
  if tag == PCONTAINS: return [4, int(V(op[1]) in l)]
  if tag == PINDEX: return [3, l.index(V(op[1]))]
  if tag == PCOUNT: return [3, l.count(V(op[1]))]
  if tag == PEQ: return [4, int(l == [V(v) for v in op[1]])]
  raise ValueError('unknown list op %r' % (op,))

def builtin_dict_step(d, op):
  tag = op[0]
  V, K = from_pv, D.dec_key
  kvs = lambda x: {K(k): V(v) for k, v in x}
  enc_items = lambda m: [[D.enc_key(k), to_pv(v)] for k, v in m.items()]
  if tag == D.DSET: d[K(op[1])] = V(op[2]); return [0]
  if tag == D.DDEL: del d[K(op[1])]; return [0]
  if tag == D.DPOP: return [1, to_pv(d.pop(K(op[1]), *[V(op[2][0])] if op[2] else []))]
  if tag == D.DPOPITEM:
    k, v = d.popitem(); return [5, D.enc_key(k), to_pv(v)]
  if tag == D.DCLEAR: d.clear(); return [0]
  if tag == D.DSETDEFAULT: return [1, to_pv(d.setdefault(K(op[1]), V(op[2])))]
  if tag == D.DUPDATE: d.update(kvs(op[1])); return [0]
  if tag == D.DIOR:
    d |= kvs(op[1]); return [0]
  if tag == D.DCOPY: return [6, enc_items(d.copy())]
  if tag == DOR: return [6, enc_items(d | kvs(op[1]))]
  if tag == DROR: return [6, enc_items(kvs(op[1]) | d)]
  if tag == QGET: return [1, to_pv(d[K(op[1])])]
  if tag == QGETD: return [1, to_pv(d.get(K(op[1]), V(op[2])))]
  if tag == QCONTAINS: return [4, int(K(op[1]) in d)]
  if tag == QLEN: return [3, len(d)]
  if tag == QKEYS: return [7, [D.enc_key(k) for k in d.keys()]]
  if tag == QITEMS: return [6, enc_items(d)]
  if tag == QEQ: return [4, int(d == kvs(op[1]))]
  raise ValueError('unknown dict op %r' % (op,))

def run_builtin(case):
  """case = (0 init ops) | (1 init ops) | (2 n a b c): what the built-in type does."""
  if case[0] == 2:
    _, n, a, b, c = case
    try:
      s, e, st = mk_slice([a, b, c]).indices(n)
    except ValueError:
      return []
    return [s, e, st, list(range(s, e, st))]
  if case[0] == 0:
    x = [from_pv(p) for p in case[1]]
    step, enc_state = builtin_list_step, lambda: [to_pv(v) for v in x]
  else:
    x = {D.dec_key(k): from_pv(v) for k, v in case[1]}
    step, enc_state = builtin_dict_step, lambda: [[D.enc_key(k), to_pv(v)] for k, v in x.items()]
  outs = []
  for op in case[2]:
    try:
      r = step(x, op)
      outs.append([0, r, enc_state()])
    except (IndexError, KeyError, TypeError, ValueError) as e:
      outs.append([1, py_err(e)])
  return outs

# ---- generators for part (a) ---------------------------------------------------------------------------------------------
LEAVES = [[0], [1, 0], [1, 1], [2, 0], [2, 1], [2, 2], [2, -1], [2, 5], [3], [3, 97], [3, 98], [5, 0, 0], [5, 0, 1]]
KEYS = ['a', 'b', 'c', 'x', 'a.b', 0, 1, 2, 7, -1]

class PvGen:
  def __init__(self, rng):
    self.r = rng
  def pv(self, depth=2):
    r = self.r
    if depth > 0 and r.random() < 0.25:
      if r.random() < 0.5:
        return [1, 1, [[[1, i], self.pv(depth - 1)] for i in range(r.choice([0, 1, 2, 2, 3]))]]
      ks = []
      for _ in range(r.choice([0, 1, 2, 2, 3])):
        k = r.choice(KEYS)
        if k not in ks: ks.append(k)
      return [1, 0, [[D.enc_key(k), self.pv(depth - 1)] for k in ks]]
    return [0, r.choice(LEAVES)]
  def key(self):
    return D.enc_key(self.r.choice(KEYS))
  def oz(self, n):
    r = self.r
    if r.random() < 0.25: return []
    return [r.randrange(-n - 3, n + 4)]
  def step(self):
    r = self.r
    return r.choice([[], [], [1], [1], [-1], [-1], [2], [-2], [3], [-3], [0], [5]])
  def index(self, n):
    r = self.r
    k = r.random()
    if n > 0 and k < 0.55: return r.randrange(n)
    if n > 0 and k < 0.8: return -r.randrange(1, n + 1)
    return r.choice([n, n + 1, n + 3, -n - 1, -n - 2])

  def list_case(self, nops):
    r = self.r
    init = [self.pv() for _ in range(r.choice([0, 1, 2, 3, 4, 5, 6]))]
    shadow = [from_pv(p) for p in init]
    ops = []
    def existing():
      return to_pv(r.choice(shadow)) if shadow and r.random() < 0.6 else self.pv()
    tags = [D.LSET, D.LDEL, D.LAPPEND, D.LINSERT, D.LEXTEND, D.LPOP, D.LREMOVE, D.LCLEAR, D.LREVERSE, D.LSORT, D.LIADD, D.LIMUL, D.LADD, D.LMUL, D.LCOPY,
            LSETSLICE, LSETSLICE, LSETSLICE, LDELSLICE, LDELSLICE, PGET, PGETSLICE, PGETSLICE, PLEN, PCONTAINS, PINDEX, PCOUNT, PEQ]
    for _ in range(nops):
      n = len(shadow)
      t = r.choice(tags)
      if t == D.LCLEAR and r.random() < 0.7: t = LSETSLICE
      if t in (D.LSET, D.LINSERT): op = [t, self.index(n), self.pv()]
      elif t in (D.LDEL, PGET): op = [t, self.index(n)]
      elif t == D.LAPPEND: op = [t, self.pv()]
      elif t in (D.LEXTEND, D.LIADD, D.LADD): op = [t, [self.pv() for _ in range(r.choice([0, 1, 2, 3]))]]
      elif t == D.LPOP: op = [t, [] if r.random() < 0.4 else [self.index(n)]]
      elif t in (D.LREMOVE, PCONTAINS, PINDEX, PCOUNT): op = [t, existing()]
      elif t in (D.LCLEAR, D.LREVERSE, D.LCOPY, PLEN): op = [t]
      elif t == D.LSORT: op = [t, [r.randrange(4) for _ in range(n)], r.randrange(2)]
      elif t in (D.LIMUL, D.LMUL): op = [t, r.choice([0, 1, 2, 2, 3, -1])]
      elif t == LSETSLICE:
        st = self.step()
        a, b = self.oz(n), self.oz(n)
        m = r.choice([0, 1, 2, 3])
        if st and st[0] not in (0, 1) and r.random() < 0.7:      # extended slice: mostly the right number of values
          try: m = len(range(*mk_slice([a, b, st]).indices(n)))
          except ValueError: pass
        op = [t, a, b, st, [self.pv() for _ in range(m)]]
      elif t in (LDELSLICE, PGETSLICE): op = [t, self.oz(n), self.oz(n), self.step()]
      elif t == PEQ: op = [t, [to_pv(x) for x in shadow] if r.random() < 0.5 else [self.pv() for _ in range(r.choice([0, 1, n]))]]
      ops.append(op)
      try: builtin_list_step(shadow, op)
      except (IndexError, KeyError, TypeError, ValueError): pass
      if len(shadow) > 14: del shadow[7:]; ops.append([LDELSLICE, [7], [], []])
    return [0, init, ops]

  def dict_case(self, nops):
    r = self.r
    init, ks = [], []
    for _ in range(r.choice([0, 1, 2, 3, 4])):
      k = r.choice(KEYS)
      if k not in ks: ks.append(k); init.append([D.enc_key(k), self.pv()])
    shadow = {D.dec_key(k): from_pv(v) for k, v in init}
    def key(existing=0.6):
      if shadow and r.random() < existing: return D.enc_key(r.choice(list(shadow)))
      return self.key()
    def kvs():
      out, seen = [], set()
      for _ in range(r.choice([0, 1, 2, 2, 3])):
        k = key(0.4)
        if tuple(k) in seen: continue
        seen.add(tuple(k)); out.append([k, self.pv()])
      return out
    tags = [D.DSET, D.DSET, D.DDEL, D.DPOP, D.DPOPITEM, D.DCLEAR, D.DSETDEFAULT, D.DUPDATE, D.DIOR, D.DCOPY, DOR, DROR,
            QGET, QGETD, QCONTAINS, QLEN, QKEYS, QITEMS, QEQ]
    ops = []
    for _ in range(nops):
      t = r.choice(tags)
      if t == D.DCLEAR and r.random() < 0.7: t = D.DUPDATE
      if t in (D.DSET, D.DSETDEFAULT, QGETD): op = [t, key(0.5), self.pv()]
      elif t in (D.DDEL, QGET, QCONTAINS): op = [t, key(0.75)]
      elif t == D.DPOP: op = [t, key(0.7), [] if r.random() < 0.5 else [self.pv()]]
      elif t in (D.DPOPITEM, D.DCLEAR, D.DCOPY, QLEN, QKEYS, QITEMS): op = [t]
      elif t in (D.DUPDATE, D.DIOR, DOR, DROR): op = [t, kvs()]
      elif t == QEQ:
        items = [[D.enc_key(k), to_pv(v)] for k, v in shadow.items()]
        if r.random() < 0.5: r.shuffle(items)
        if items and r.random() < 0.3: items[0] = [items[0][0], self.pv()]
        op = [t, items]
      ops.append(op)
      try: builtin_dict_step(shadow, op)
      except (IndexError, KeyError, TypeError, ValueError): pass
    return [1, init, ops]

def ints(n):
  return [[0, [2, i]] for i in range(n)]

def slice_sweep_cases(max_len):
  """Every (len, start, stop, step) shape of x[a:b:c], del x[a:b:c] and x[a:b:c] = vs (0..3 values) on [0..len-1]."""
  out = []
  for n in range(max_len + 1):
    bounds = [[]] + [[i] for i in range(-n - 2, n + 3)]
    for a in bounds:
      for b in bounds:
        for c in ([], [1], [-1], [2], [-2], [3], [-3], [0]):
          out.append([0, ints(n), [[PGETSLICE, a, b, c], [LDELSLICE, a, b, c]]])
          for m in range(4):
            out.append([0, ints(n), [[LSETSLICE, a, b, c, [[0, [2, 100 + j]] for j in range(m)]]]])
  return out

def indices_cases():
  rng7 = [[]] + [[i] for i in range(-7, 8)]
  return [[2, n, a, b, c] for n in range(7) for a in rng7 for b in rng7 for c in rng7]

# ---- (b) SymCore histories with read-back ----------------------------------------------------------------------------------
def guarded(f, on_error=None):
  try:
    return f()
  except Exception as e:      # pylint: disable=broad-except
    return on_error(e) if on_error else [-9, D.err_code(e)]

def readback(impl, pos, probes):
  """What the read API of the target reports after the step (must print exactly what SymCoreC02.readback prints)."""
  P = D.pg()
  try:
    x = impl.at(pos)
  except D.NotApplicable:
    return []
  idxs, slices, vals, keys = probes
  item = impl.enc_ret_value
  def self_eq():
    return int(x == from_pv(to_pv(x)))
  def tojson():
    return json_to_pv(P.to_json(x))
  if isinstance(x, P.List):
    def get(i):
      try: return [0, item(x[i])]
      except IndexError: return [1, 3]
    def sl(s):
      try: return [0, [item(c) for c in x[mk_slice(s)]]]
      except ValueError: return [1, 5]
    def probe(p):
      v = from_pv(p)
      try: idx = [x.index(v)]
      except ValueError: idx = []
      return [int(v in x), idx, x.count(v), int(x == v)]
    return [1, guarded(lambda: len(x)), [guarded(lambda i=i: get(i)) for i in idxs], [guarded(lambda s=s: sl(s)) for s in slices],
            [guarded(lambda p=p: probe(p)) for p in vals], guarded(self_eq), guarded(tojson)]
  if isinstance(x, P.Dict):
    def get(k):
      try: return [0, item(x[D.dec_key(k)])]
      except KeyError: return [1, 2]
    return [0, guarded(lambda: len(x)), guarded(lambda: [D.enc_key(k) for k in x.keys()]), [guarded(lambda k=k: get(k)) for k in keys],
            [guarded(lambda p=p: int(x == from_pv(p))) for p in vals], guarded(self_eq), guarded(tojson)]
  return []

def run_case2(case, hook=None):
  """case = (3 quirks (lit ...) ((scope op probes) ...)) -> (snapshot0 ((result snapshot readback) ...))."""
  install()
  _, _, init, steps = case
  impl = D.Impl()
  for lt in init:
    impl.roots.append(impl.lit(lt))
  snap0 = impl.snapshot()
  outs = []
  for n, (scope, op, probes) in enumerate(steps):
    before = hook.prepare(impl, scope, op) if hook is not None else None
    res, info = D.apply_op(impl, scope, op)
    rb = readback(impl, op[1], probes)
    if hook is not None:
      try:
        hook(impl, n, scope, op, res, info, before)
      except Exception as e:      # pylint: disable=broad-except
        # an exception inside the comparison (e.g. the container cannot be iterated any more) is a finding with this case as
        # its witness, not a crash of the harness
        if not getattr(hook, 'failed', False):
          hook.failed = True
          hook.hits.append(('C02/crash/%s/%s' % (op_name(op[0]), type(e).__name__),
                            'comparing with the plain container after %s raises %s: %s' % (op_name(op[0]), type(e).__name__, str(e)[:160]), n))
    outs.append([res, guarded(impl.snapshot), rb])
  return [snap0, outs]

# ---- (c) the differential oracle ---------------------------------------------------------------------------------------------
def same(a, b):
  """Order-sensitive structural equality of plain values (dict == ignores the order; the property does not)."""
  if isinstance(a, list) and isinstance(b, list):
    return len(a) == len(b) and all(same(x, y) for x, y in zip(a, b))
  if isinstance(a, dict) and isinstance(b, dict):
    return len(a) == len(b) and all(k1 == k2 and type(k1) is type(k2) and same(v1, v2) for (k1, v1), (k2, v2) in zip(a.items(), b.items()))
  if isinstance(a, (list, dict)) or isinstance(b, (list, dict)):
    return False
  if isinstance(a, bool) != isinstance(b, bool):
    return False
  try:
    return bool(a == b)
  except Exception:      # pylint: disable=broad-except
    return False

def same_unordered(a, b):
  if isinstance(a, dict) and isinstance(b, dict):
    return len(a) == len(b) and all(k in b and same_unordered(v, b[k]) for k, v in a.items())
  if isinstance(a, list) and isinstance(b, list):
    return len(a) == len(b) and all(same_unordered(x, y) for x, y in zip(a, b))
  return same(a, b)

class Skip(Exception):
  """The step is outside the comparison (an extension that is not one of the documented four, a refused write, ...)."""

class Ins:
  def __init__(self, v): self.v = v

def holds_missing(x):
  """Some list at or below x holds the MISSING_VALUE marker (assigned while change notification was off): such a state is only
  reachable through the extensions, and copying it is the subject of the open C07 finding."""
  P = D.pg()
  if isinstance(x, P.List):
    vs = list(x.sym_values())
    return any((not D.is_sym(v)) and P.MISSING_VALUE == v for v in vs) or any(holds_missing(v) for v in vs)
  if isinstance(x, P.Dict):
    return any(holds_missing(v) for v in x.sym_values())
  return False

def plain_value(impl, v):
  """The plain value an operation argument denotes (before the operation runs)."""
  if v[0] == 0: return plain(impl.lit(v[1]))
  if v[0] == 1: return plain(impl.at((v[1], v[2])))
  if v[0] == 2:
    if v[1][0] == 2: raise Skip('nested insertion marker')
    return Ins(plain_value(impl, v[1]))
  raise Skip('value')

def is_missing(v):
  return (not isinstance(v, (list, dict, Ins))) and (not D.is_sym(v)) and D.pg().MISSING_VALUE == v

def path_cmp(p, r):
  """The documented order of the paths of a rebind batch: key by key, integers by value, anything else by its text."""
  for a, b in zip(p, r):
    if isinstance(a, int) and isinstance(b, int):
      if a != b: return -1 if a < b else 1
    elif str(a) != str(b):
      return -1 if str(a) < str(b) else 1
  return (len(p) > len(r)) - (len(p) < len(r))

def ref_list_write(l, k, v, rebind, touched=None):
  """The single list write with the documented extensions: an insertion marker inserts, (rebind) an index past the end appends,
  (rebind) MISSING_VALUE marks the element for removal at the next change notification."""
  if not isinstance(k, int) or isinstance(k, bool): raise Skip('non-integer list key')
  n = len(l)
  if is_missing(v):
    if not rebind: raise Skip('MISSING_VALUE written into a list')
    if k >= n: return
    l[k] = v            # IndexError below -len, as for any assignment
    if touched is not None: touched.append(l)
    return
  if isinstance(v, Ins):
    if is_missing(v.v): raise Skip('MISSING_VALUE written into a list')
    l.insert(k, v.v)
  elif rebind and k >= n:
    l.append(v)
  else:
    l[k] = v

def ref_dict_write(d, k, v):
  if isinstance(v, Ins): raise Skip('insertion marker written into a dict')
  if is_missing(v): d.pop(k, None)         # documented: assigning MISSING_VALUE deletes the key
  else: d[k] = v

def reference(x, op, vals, notify=True):
  """Drives the plain list / dict x with op.  Returns (value of the call, is_new_container)."""
  P = D.pg()
  tag = op[0]
  it = iter(vals)
  V = lambda: next(it)
  def novel(v):
    if isinstance(v, Ins) or is_missing(v): raise Skip('marker as a plain argument')
    return v
  if tag == D.LSET:
    v = V()
    if isinstance(v, Ins):       # l[i] = Insertion(v): bounds as for an assignment, then an insertion
      if not -len(x) <= op[2] < len(x): raise IndexError()
    ref_list_write(x, op[2], v, False); return None, False
  if tag == D.LDEL: del x[op[2]]; return None, False
  if tag == D.LAPPEND:
    v = V()
    x.append(v.v if isinstance(v, Ins) else novel(v)); return None, False
  if tag == D.LINSERT: x.insert(op[2], novel(V())); return None, False
  if tag in (D.LEXTEND, D.LIADD):
    x.extend([novel(v) for v in vals]); return None, False
  if tag == D.LPOP: return x.pop(*[op[2][0]] if op[2] else []), False
  if tag == D.LREMOVE: x.remove(from_pv([0, op[2]])); return None, False
  if tag == D.LCLEAR: x.clear(); return None, False
  if tag == D.LREVERSE: x.reverse(); return None, False
  if tag == D.LSORT:
    ks = iter(list(op[2]) + [0] * len(x))
    x.sort(key=lambda e: next(ks), reverse=bool(op[3])); return None, False
  if tag == D.LIMUL:
    x *= op[2]; return None, False
  if tag == D.LADD: return x + [novel(v) for v in vals], True
  if tag == D.LMUL: return x * op[2], True
  if tag in (D.LCOPY, D.DCOPY): return x.copy(), True
  if tag == LSETSLICE:
    x[mk_slice(op[2:5])] = [novel(v) for v in vals]; return None, False
  if tag == LDELSLICE: del x[mk_slice(op[2:5])]; return None, False
  if tag == D.DSET: ref_dict_write(x, D.dec_key(op[3]), V()); return None, False
  if tag == D.DDEL: del x[D.dec_key(op[3])]; return None, False
  if tag == D.DPOP:
    return x.pop(D.dec_key(op[2]), *[from_pv([0, op[3][0]])] if op[3] else []), False
  if tag == D.DPOPITEM: return x.popitem(), False
  if tag == D.DCLEAR: x.clear(); return None, False
  if tag == D.DSETDEFAULT: return x.setdefault(D.dec_key(op[2]), novel(V())), False
  if tag in (D.DUPDATE, D.DIOR):
    for (k, _), v in zip(op[2], vals): ref_dict_write(x, D.dec_key(k), v)
    return None, False
  if tag in (DOR, DROR):
    m = {}
    for (k, _), v in zip(op[2], vals):
      if isinstance(v, Ins): raise Skip('insertion marker written into a dict')
      m[D.dec_key(k)] = v
    r = (x | m) if tag == DOR else (m | x)
    # documented: a key bound to MISSING_VALUE is deleted (here: is not part of the new dict)
    return {k: v for k, v in r.items() if not is_missing(v)}, True
  if tag == D.REBIND:
    pairs = [([D.dec_key(k) for k in p], v) for (p, _), v in zip(op[2], vals)]
    if not pairs: raise ValueError()
    if isinstance(x, list):
      import functools
      pairs.sort(key=functools.cmp_to_key(lambda a, b: path_cmp(a[0], b[0])), reverse=True)   # documented: list updates are applied from the back
    touched = []
    for path, v in pairs:
      if not path: raise KeyError()
      c = x
      for k in path[:-1]:
        if isinstance(c, list):
          if not isinstance(k, int) or not -len(c) <= k < len(c): raise KeyError()
          c = c[k]
        elif isinstance(c, dict):
          if k not in c: raise KeyError()
          c = c[k]
        else:
          raise Skip('rebind through a non-container')
      if isinstance(c, list):
        if not isinstance(path[-1], int): raise Skip('non-integer list key')
        if path[-1] < -len(c) and not isinstance(v, Ins): raise IndexError()
        ref_list_write(c, path[-1], v, True, touched)
      elif isinstance(c, dict): ref_dict_write(c, path[-1], v)
      else: raise Skip('rebind of a non-container')
    if notify:           # the change notification at the end of a successful batch drops the marked elements
      for c in touched:
        c[:] = [e for e in c if not is_missing(e)]
    return None, False
  raise Skip('not a container operation')

def slice_shape(abc, n):
  a, b, c = [(o[0] if o else None) for o in abc]
  if c == 0: return 'step=0'
  s, e, st = slice(a, b, c).indices(n)
  if st < 0: return 'step<0'
  if st > 1: return 'step>1'
  if s > e: return 'start>stop'
  return 'step=1'

def discriminator(op, before):
  tag = op[0]
  if tag in (LSETSLICE, LDELSLICE) and isinstance(before, list):
    return slice_shape(op[2:5], len(before))
  if tag == D.REBIND and len(op[2]) >= 2:
    return 'batch'
  if tag in (D.DUPDATE, D.DIOR, DOR, DROR) and any(k[0] == 0 and any(chr(c) in '.[]' for c in k[1:]) for k, _ in op[2]):
    return 'key-with-path-characters'
  return '-'

def jsonable(p):
  if isinstance(p, list): return all(jsonable(v) for v in p)
  if isinstance(p, dict): return all(jsonable(v) for v in p.values())
  return p is None or isinstance(p, (bool, int, str))

def check_reads(x, probes_vals=(), slices=()):
  """The read API of a pg.List / pg.Dict against the same reads of its plain contents.  Returns [(what, detail)]."""
  P = D.pg()
  hits = []
  def bad(what, detail): hits.append((what, detail))
  def outcome(f):
    try: return ('ok', f())
    except (IndexError, KeyError, TypeError, ValueError) as e: return ('err', [c for c in PY_ERR if isinstance(e, c)][0].__name__)
    except Exception as e: return ('err', type(e).__name__)     # pylint: disable=broad-except
  def agree(what, f_sym, f_plain, detail):
    a, b = outcome(f_sym), outcome(f_plain)
    if a[0] != b[0] or (a[0] == 'err' and a[1] != b[1]) or (a[0] == 'ok' and not same(plain(a[1]), b[1])):
      bad(what, '%s: symbolic %s, plain %s' % (detail, a, b))
  p = plain(x)
  if isinstance(x, P.List):
    n = len(p)
    agree('iteration', lambda: list(x), lambda: list(p), 'list(x)')
    agree('iteration', lambda: list(reversed(x)), lambda: list(reversed(p)), 'list(reversed(x))')
    agree('len', lambda: len(x), lambda: len(p), 'len(x)')
    for i in range(-n - 1, n + 1):
      agree('indexing', lambda: x[i], lambda: p[i], 'x[%d] with len %d' % (i, n))
    sls = list(slices) + [[[], [], [-1]], [[1], [], []], [[], [-1], []], [[], [], [2]], [[n + 2], [-n - 2], [-2]]]
    for s in sls:
      agree('slicing/' + slice_shape(s, n), lambda: x[mk_slice(s)], lambda: p[mk_slice(s)], 'x[%r] with len %d' % (mk_slice(s), n))
    for v in list(probes_vals) + p[:3]:
      agree('in', lambda: v in x, lambda: v in p, '%r in x' % (v,))
      agree('index', lambda: x.index(v), lambda: p.index(v), 'x.index(%r)' % (v,))
      agree('count', lambda: x.count(v), lambda: p.count(v), 'x.count(%r)' % (v,))
    other = p + [Junk()]
  else:
    agree('iteration', lambda: dict(x), lambda: dict(p), 'dict(x)')
    agree('iteration', lambda: list(x), lambda: list(p), 'list(x)')
    agree('iteration', lambda: list(x.keys()), lambda: list(p.keys()), 'list(x.keys())')
    agree('iteration', lambda: list(x.values()), lambda: list(p.values()), 'list(x.values())')
    agree('iteration', lambda: [list(kv) for kv in x.items()], lambda: [list(kv) for kv in p.items()], 'list(x.items())')
    agree('len', lambda: len(x), lambda: len(p), 'len(x)')
    for k in list(p) + ['nope', 'a.b', 5]:
      agree('in', lambda: k in x, lambda: k in p, '%r in x' % (k,))
      agree('indexing', lambda: x[k], lambda: p[k], 'x[%r]' % (k,))
      agree('indexing', lambda: x.get(k, 'dflt'), lambda: p.get(k, 'dflt'), 'x.get(%r)' % (k,))
    other = dict(p); other['__other__'] = 1
  for what, f in (('x == plain', lambda: x == p), ('plain == x', lambda: p == x), ('not (x != plain)', lambda: not (x != p)),
                  ('x != other', lambda: x != other), ('not (x == other)', lambda: not (x == other))):
    r = outcome(f)
    if r != ('ok', True):
      bad('equality', '%s is %s' % (what, r))
  for v in probes_vals:
    agree('equality', lambda: x == v, lambda: p == v, 'x == %r' % (v,))
  if jsonable(p):
    agree('to_json', lambda: P.to_json(x), lambda: p, 'pg.to_json(x)')
  return hits

COMPARABLE = (D.LIST_OPS | D.DICT_OPS | {D.REBIND} | EXT_LIST | EXT_DICT)
NEW_CONTAINER_OPS = {D.LADD, D.LMUL, D.LCOPY, D.DCOPY, DOR, DROR}
_NO_RET = object()

class Oracle:
  """Drives a plain list / dict with the same operation as the symbolic one; the first divergence is reported."""
  def __init__(self):
    self.hits = []        # (signature, what, step)
    self.stats = {}
    self.failed = False
  def stat(self, k):
    self.stats[k] = self.stats.get(k, 0) + 1
  def prepare(self, impl, scope, op):
    P = D.pg()
    impl.last_ret = _NO_RET
    if self.failed or op[0] not in COMPARABLE:
      return None
    try:
      target = impl.at(op[1])
    except D.NotApplicable:
      return None
    if not isinstance(target, (P.List, P.Dict)):
      return None
    def holds_target(v):
      # an argument that is (or contains) the target itself: Python would store an alias, pg stores a copy made at write time
      if v[0] == 2: return holds_target(v[1])
      return v[0] == 1 and v[1] == op[1][0] and list(v[2]) == list(op[1][1][:len(v[2])])
    try:
      for v in D.op_values(op):
        if not D.value_ok(v): return None
      if any(holds_target(v) for v in D.op_values(op)):
        if op[0] not in (D.LSET, D.LAPPEND, D.LINSERT, D.DSET):
          # (setdefault returns its argument -- the target itself, as dict does; a batch applies its writes one after the other)
          self.stat('skipped:argument-contains-the-target'); return None
        def has_sym(x):
          if isinstance(x, Ins): return has_sym(x.v)
          if isinstance(x, dict): return any(has_sym(y) for y in x.values())
          if isinstance(x, list): return any(has_sym(y) for y in x)
          return D.is_sym(x)
        if has_sym(plain_value(impl, D.op_values(op)[0])):
          # a pg.Object on the way: it has no plain counterpart, the reference would hold the object itself
          self.stat('skipped:argument-contains-the-target'); return None
        # one argument that is (or contains) the target: pg stores a copy of what the argument denotes when the call starts
        # (C02_refines_python_reference_arguments_*); the reference below is driven with a deep plain copy taken before the call
        self.stat('compared:argument-contains-the-target')
      def in_target_tree(v):
        if v[0] == 2: return in_target_tree(v[1])
        return v[0] == 1 and v[1] == op[1][0]
      if len(D.op_values(op)) >= 2 and any(in_target_tree(v) for v in D.op_values(op)):
        # a batch whose earlier writes may change what a later argument refers to (Python stores aliases, pg copies at write time)
        self.stat('skipped:batch-argument-in-the-target-tree'); return None
      vals = [plain_value(impl, v) for v in D.op_values(op)]
    except (Skip, D.NotApplicable):
      self.stat('skipped:argument'); return None
    except Exception:      # pylint: disable=broad-except
      return None
    return dict(target=target, before=plain(target), vals=vals, held_missing=holds_missing(target))

  def hit(self, clause, op, before, what, n):
    if self.failed: return
    self.failed = True
    sig = 'C02/%s/%s/%s' % (clause, op_name(op[0]), discriminator(op, before))
    self.hits.append((sig, '%s: %s' % (op_name(op[0]), what), n))

  def __call__(self, impl, n, scope, op, res, info, before):
    P = D.pg()
    if self.failed:
      return
    if op[0] in EXT_NAMES and res != [1, D.ERR_NA]:
      # the operations this property adds to the catalogue must keep the tree integrity C01 checks for the base catalogue
      from harness.props import c01
      bad = guarded(lambda: c01.check_forest(impl), on_error=lambda e: [('crash', 'the integrity walk raises %s' % type(e).__name__)])
      self.stat('integrity-checked')
      if bad:
        self.failed = True
        self.hits.append(('C02/integrity/%s/%s' % (op_name(op[0]), bad[0][0]), 'after %s: %s' % (op_name(op[0]), bad[0][1]), n))
        return
    if before is None:
      return
    if res == [1, D.ERR_NA]:
      return
    exc = info.get('exception')
    if isinstance(exc, P.WritePermissionError):
      self.stat('skipped:refused-write'); return
    if before['held_missing']:
      self.stat('skipped:list-holds-MISSING'); return
    target, x0 = before['target'], before['before']
    x = copy.copy(x0) if False else x0
    shown = repr(plain(x0))[:200]
    try:
      ret_py, is_new = reference(x, op, before['vals'], notify=D.eff(scope[2], True) is not False)
      out_py = None
    except Skip as s:
      self.stat('skipped:%s' % s); return
    except (IndexError, KeyError, TypeError, ValueError) as e:
      out_py = [c for c in PY_ERR if isinstance(e, c)][0].__name__
    self.stat('compared')
    self.stat('compared:' + op_name(op[0]))
    out_sym = None if exc is None else type(exc).__name__ if not isinstance(exc, tuple(PY_ERR)) else [c for c in PY_ERR if isinstance(exc, c)][0].__name__
    args = trlib.to_line(op[2:])[:160]
    if out_py != out_sym:
      self.hit('error-class', op, x0, 'on %s with arguments %s the symbolic container %s, the plain one %s' % (
          shown, args, 'raises ' + out_sym if out_sym else 'succeeds', 'raises ' + out_py if out_py else 'succeeds'), n)
      return
    if out_py is not None:
      after = plain(target)
      if not same(after, x):
        self.hit('contents-after-error', op, x0, 'after the %s the symbolic container is %r, the plain one %r' % (out_py, after, x), n)
      return
    after = plain(target)
    if not same(after, x):
      clause = 'order' if same_unordered(after, x) else 'contents'
      self.hit(clause, op, x0, 'on %s with arguments %s the symbolic container becomes %r, the plain one %r' % (shown, args, after, x), n)
      return
    ret_sym = getattr(impl, 'last_ret', _NO_RET)
    if ret_sym is not _NO_RET:
      if is_new:
        want = P.List if isinstance(ret_py, list) else P.Dict
        if not isinstance(ret_sym, want):
          self.hit('result-type', op, x0, 'the result is a %s, not a %s (its nested containers stay plain / keep the operand as parent)' % (
              type(ret_sym).__name__, want.__name__), n)
          return
      rs = [plain(e) for e in ret_sym] if isinstance(ret_sym, tuple) else plain(ret_sym)
      rp = list(ret_py) if isinstance(ret_py, tuple) else ret_py
      if not same(rs, rp):
        self.hit('return', op, x0, 'on %s with arguments %s the call returns %r, on the plain container %r' % (shown, args, rs, rp), n)
        return
    # documented extension: nested plain containers become symbolic ones
    loose = []
    def visit(node, parent, key):
      for k, v in D.sym_children(node):
        if isinstance(v, (list, dict)) and not D.is_sym(v): loose.append(k)
    D.walk(target, visit)
    if loose:
      self.hit('nested-plain', op, x0, 'a plain %s is stored under key %r instead of a symbolic one' % ('container', loose[0]), n)
      return
    for obj in [target] + ([ret_sym] if is_new and D.is_sym(ret_sym) else []):
      rh = guarded(lambda: check_reads(obj, probes_vals=[v for v in before['vals'] if not isinstance(v, Ins)][:2]),
                   on_error=lambda e: [('crash', 'the read-back raises %s' % type(e).__name__)])
      if rh:
        what, detail = rh[0]
        self.failed = True
        self.hits.append(('C02/readback/%s/%s' % (what, 'List' if isinstance(obj, list) else 'Dict'), 'read-back after %s: %s' % (op_name(op[0]), detail), n))
        return

# ---- generator of SymCore histories for C02 ----------------------------------------------------------------------------------------
PATH_KEYS = ['a.b', 'x[0]', 'k]']
class Gen2(G.Gen):
  def __init__(self, rng, quirks=(), ext=0.3, focus=None):
    super().__init__(rng, cycles=False, focus=focus, quirks=quirks)
    self.ext = ext
    self.pvg = PvGen(rng)
  def node_lit(self, depth, plain=False, kind=None):
    if kind is None and not plain:
      kind = self.r.choice([0, 0, 0, 1, 1, 1, 1, 1, 2, 3])
    return super().node_lit(depth, plain=plain, kind=kind)
  def dkey(self):
    if self.r.random() < 0.06:
      return self.r.choice(PATH_KEYS)
    return super().dkey()
  def op(self, impl):
    r = self.r
    if r.random() >= self.ext:
      return super().op(impl)
    P = D.pg()
    nodes = list(impl.reachable().values())
    lists = [t for t in nodes if isinstance(t[0], P.List)]
    dicts = [t for t in nodes if isinstance(t[0], P.Dict)]
    tag = r.choice([LSETSLICE, LSETSLICE, LSETSLICE, LDELSLICE, LDELSLICE, DOR, DROR])
    pool = lists if tag in EXT_LIST else dicts
    if not pool:
      return super().op(impl)
    x, ri, keys = r.choice(pool)
    pos = [ri, [G.ek(k) for k in keys]]
    V = lambda **kw: self.value(impl, (ri, keys), nodes, **kw)
    if tag in EXT_LIST:
      n = len(x)
      a, b, st = self.pvg.oz(n), self.pvg.oz(n), self.pvg.step()
      if tag == LDELSLICE:
        return [tag, pos, a, b, st]
      m = r.choice([0, 1, 2, 3])
      if st and st[0] not in (0, 1) and r.random() < 0.75:
        try: m = len(range(*mk_slice([a, b, st]).indices(n)))
        except ValueError: pass
      return [tag, pos, a, b, st, [V() for _ in range(min(m, 5))]]
    kvs, seen = [], set()
    ks = [k for k, _ in D.sym_children(x)]
    for _ in range(r.choice([0, 1, 2, 2, 3])):
      k = r.choice(ks) if ks and r.random() < 0.5 else self.dkey()
      if k in seen: continue
      seen.add(k); kvs.append([G.ek(k), V(missing=0.05)])
    return [tag, pos, kvs]

  def probes(self, impl, op):
    """Read-back probes for the target of op as it is after the step."""
    r = self.r
    P = D.pg()
    try:
      x = impl.at(op[1])
    except D.NotApplicable:
      return [[], [], [], []]
    vals = [self.pvg.pv(1) for _ in range(2)]
    if isinstance(x, P.List):
      n = len(x)
      kids = [v for v in x.sym_values()]
      if kids: vals.append(to_pv(r.choice(kids)))
      if r.random() < 0.3: vals.append(to_pv(x))
      return [list(range(-n - 1, n + 1)), [[self.pvg.oz(n), self.pvg.oz(n), self.pvg.step()] for _ in range(3)], vals, []]
    if isinstance(x, P.Dict):
      ks = [k for k, _ in D.sym_children(x)]
      if r.random() < 0.5: vals.append(to_pv(x))
      return [[], [], vals, [G.ek(k) for k in ks[:4]] + [G.ek(self.dkey())]]
    return [[], [], [], []]

  def case(self, nops):
    install()
    r = self.r
    self.tags = {}; self.next_oid = 1
    init = [self.node_lit(r.choice([1, 2, 2, 3]), kind=r.choice([0, 1, 1])) for _ in range(r.choice([1, 1, 2, 3]))]
    impl = D.Impl()
    for lt in init:
      impl.roots.append(impl.lit(lt))
    steps = []
    for _ in range(nops):
      if sum(1 for x in impl.roots if x is not None) > 14:
        break
      op = self.op(impl)
      if op is None:
        break
      sc = self.scope() if r.random() < 0.5 else [[], [], [], []]
      D.apply_op(impl, sc, op)
      steps.append([sc, op, self.probes(impl, op)])
    return [3, list(self.quirks), init, steps]

def rebind_sweep_cases(rng, per_len, quirks):
  """Multi-path rebind on lists of 0..13 elements: batches of 2-4 paths mixing replacement, Insertion, MISSING_VALUE deletion,
  appends past the end and writes into nested dicts, indices from {0,1,2,9,10,11,len-1,len,len+1,-1,-2,-len}; the list is a root,
  a list inside a dict (target = the list), or reached from a dict target through a path ('a[10].x')."""
  cases = []
  for n in range(14):
    for _ in range(per_len):
      elems = [({'x': i} if rng.random() < 0.3 else i) for i in range(n)]
      pool = sorted({0, 1, 2, 9, 10, 11, n - 1, n, n + 1, -1, -2, -n})
      chosen = rng.sample(pool, rng.choice([2, 2, 3, 3, 4]))
      layout = rng.choice(['root-list', 'root-list', 'list-in-dict', 'dict-target'])
      pairs, used = [], set()
      for j, i in enumerate(chosen):
        at = i + n if -n <= i < 0 else i
        e = elems[at] if 0 <= at < n else None
        r = rng.random()
        if isinstance(e, dict) and (r < 0.4 or layout == 'dict-target'):
          # (through a dict target the batch is applied in the given order; the shared driver orders the values a batch detaches by
          #  the positions its paths address BEFORE the call, which an earlier insertion of the same batch can shift: there the
          #  stored dicts are only written into, never replaced)
          path, v = [i, 'x'], (D.V('MISSING') if rng.random() < 0.2 else D.V(50 + j))
        elif r < 0.55: path, v = [i], D.INS(D.V(100 + j) if rng.random() < 0.7 else D.V({'x': 100 + j}))
        elif r < 0.7: path, v = [i], D.V('MISSING')
        elif r < 0.8: path, v = [i], D.V([100 + j])
        else: path, v = [i], D.V(100 + j)
        if path[0] in used: continue
        used.add(path[0])
        pairs.append([path, v])
      if len(pairs) < 2: continue
      if rng.random() < 0.5: rng.shuffle(pairs)
      scope = D.sc(notify=[False]) if rng.random() < 0.12 else NS
      if layout == 'root-list':
        init, pos, pre = [elems], D.P(0), []
      elif layout == 'list-in-dict':
        init, pos, pre = [{'a': elems, 'b': 1}], D.P(0, 'a'), []
      else:
        init, pos, pre = [{'a': elems, 'b': 1}], D.P(0), ['a']
      enc = [[[D.enc_key(k) for k in pre + path], v] for path, v in pairs]
      # The shared driver orders the values a batch detaches by the positions its paths address BEFORE the call; growth of the list
      # inside the batch shifts what a later negative index addresses.  Keep the batches that detach at most one stored dict (the
      # order of the detached roots in the snapshot is then unambiguous); the others are dropped, not patched.
      try:
        tmp = D.Impl()
        def pval(v):
          x = tmp.value(v)
          return Ins(plain(x.value)) if isinstance(x, D.pg().Insertion) else plain(x)
        sim = plain(tmp.lit(D.mk(init[0])))
        held = [e for e in (sim if isinstance(sim, list) else sim['a']) if isinstance(e, dict)]
        try:
          reference(sim if layout != 'list-in-dict' else sim['a'], [D.REBIND, pos, enc], [pval(v) for _, v in enc], notify=scope is NS)
        except (IndexError, KeyError, TypeError, ValueError, Skip):
          pass
        now = sim if isinstance(sim, list) else sim['a']
        if sum(1 for e in held if not any(e is y for y in now)) > 1:
          continue
      except Exception:      # pylint: disable=broad-except
        continue
      probes = [list(range(-n - 4, n + 4)), [[[], [], [-1]], [[9], [], []], [[], [-2], [3]]], [[0, [2, 100]], [0, [2, 10]]],
                [D.enc_key('a'), D.enc_key('b')]]
      steps = [[scope, [D.REBIND, pos, enc], probes]]
      if layout == 'dict-target':     # read the nested list back as well
        steps.append([NS, [D.LAPPEND, D.P(0, 'a'), D.V(7)], probes])
      cases.append(([3, list(quirks), [D.mk(x) for x in init], steps], layout))
  return cases

def self_reference_sweep_cases(quirks):
  """Writes whose argument is read from the target's own tree (or is the target, its root, another root): l.append(l[i]),
  l[i] = l[j][k], l.insert(i, l), d[k] = d, d[k] = d[j] ... on a root list, a list inside a dict and a dict; every index class
  (each position, negative, the end, far past the end), followed by a plain write into the stored copy's source to show that the
  copy is not an alias.  Compared with a plain list / dict driven with the value the argument denotes when the call starts."""
  cases = []
  lst = [1, {'a': 2}, [3, [4]], 'b']
  layouts = [('root-list', [lst, {'k': [0]}], (0,)), ('list-in-dict', [{'l': lst, 'z': 0}, [9]], (0, 'l'))]
  for name, init, tp in layouts:
    pos = D.P(*tp)
    n = len(lst)
    args = [('self', D.R(*tp)), ('other-root', D.R(1))] + [('child', D.R(*tp, i)) for i in range(n)] + \
           [('deeper', D.R(*tp, 1, 'a')), ('deeper', D.R(*tp, 2, 1)), ('deeper', D.R(*tp, 2, 1, 0))]
    if len(tp) > 1: args.append(('own-root', D.R(tp[0])))
    for what, a in args:
      ops = [('append', [D.LAPPEND, pos, a])]
      ops += [('setitem', [D.LSET, pos, i, a]) for i in (0, 1, 2, 3, -1, -4, 4, -5)]
      ops += [('insert', [D.LINSERT, pos, i, a]) for i in (0, 1, 2, -1, 4, 9, -9)]
      for oname, op in ops:
        follow = [D.DSET, D.P(*tp, 1), 0, D.enc_key('a'), D.V(77)]      # the source dict changes: a stored copy must not
        for scope in (NS, D.sc(notify=[False])):
          probes = [list(range(-n - 3, n + 3)), [[[], [], [-1]], [[1], [], [2]]], [[0, [2, 1]], [0, [2, 2]]], [D.enc_key('a'), D.enc_key('l')]]
          steps = [[scope, op, probes], [NS, follow, default_probes()], [NS, [D.LAPPEND, pos, D.V(5)], probes]]
          cases.append(([3, list(quirks), [D.mk(x) for x in init], steps], '%s:%s:%s' % (name, oname, what)))
  dct = {'a': 1, 'b': {'c': [1, 2]}, 'l': [5, {'x': 6}]}
  for name, init, tp in [('root-dict', [dct, [7]], (0,)), ('dict-in-dict', [{'d': dct, 'z': 0}, [7]], (0, 'd'))]:
    pos = D.P(*tp)
    args = [('self', D.R(*tp)), ('other-root', D.R(1)), ('child', D.R(*tp, 'a')), ('child', D.R(*tp, 'b')), ('child', D.R(*tp, 'l')),
            ('deeper', D.R(*tp, 'b', 'c')), ('deeper', D.R(*tp, 'l', 1)), ('deeper', D.R(*tp, 'l', 1, 'x'))]
    if len(tp) > 1: args.append(('own-root', D.R(tp[0])))
    for what, a in args:
      for k in ('a', 'b', 'l', 'new'):
        for attr in (0, 1):
          for scope in (NS, D.sc(notify=[False])):
            follow = [D.LAPPEND, D.P(*tp, 'l'), D.V(88)]
            probes = [[], [], [[0, [2, 1]]], [D.enc_key('a'), D.enc_key('b'), D.enc_key('l'), D.enc_key('new')]]
            steps = [[scope, [D.DSET, pos, attr, D.enc_key(k), a], probes], [NS, follow, default_probes()],
                     [NS, [D.DSETDEFAULT, pos, D.enc_key('new'), a], probes]]
            cases.append(([3, list(quirks), [D.mk(x) for x in init], steps], '%s:setitem:%s' % (name, what)))
  return cases

def default_probes(n=4):
  return [list(range(-n - 1, n + 1)), [[[], [], [-1]], [[1], [], [2]], [[], [-1], []]], [[0, [2, 1]], [1, 1, [[[1, 0], [0, [2, 1]]]]]],
          [D.enc_key('a'), D.enc_key('a.b'), D.enc_key(0)]]

def case3(init, *steps):
  return [3, [], [D.mk(x) for x in init], [[s[0], s[1], default_probes()] for s in steps]]
NS = D.NS
def OZ(x): return [] if x is None else [x]
def KV(d): return [[D.enc_key(k), D.V(v)] for k, v in d.items()]
CORPUS2 = {
  'reversed-slice-read': case3([[1, 2, 3, 4]], (NS, [D.LAPPEND, D.P(0), D.V(5)])),
  'slice-assignment-start-after-stop': case3([[1, 2, 3, 4]], (NS, [LSETSLICE, D.P(0), OZ(3), OZ(1), OZ(None), [D.V(7)]])),
  'slice-deletion': case3([[1, {'a': 1}, [2], 4]], (NS, [LDELSLICE, D.P(0), OZ(0), OZ(2), OZ(None)]), (NS, [LDELSLICE, D.P(0), OZ(None), OZ(None), OZ(-1)])),
  'slice-assignment-stores-insertion-marker': case3([[0]], (NS, [LSETSLICE, D.P(0), OZ(1), OZ(-6), OZ(None), [D.V(100)]])),
  'slice-assignment-shrinks-and-grows': case3([[0, {'a': 1}, [2], 3, 4]], (NS, [LSETSLICE, D.P(0), OZ(1), OZ(4), OZ(None), [D.V({'b': 2})]]),
                                              (NS, [LSETSLICE, D.P(0), OZ(1), OZ(2), OZ(1), [D.V(7), D.V([8]), D.V(9)]]),
                                              (NS, [LSETSLICE, D.P(0), OZ(None), OZ(None), OZ(-2), [D.V('a'), D.V('b'), D.V({'c': 1})]]),
                                              (NS, [LSETSLICE, D.P(0), OZ(None), OZ(None), OZ(2), [D.V(1)]]),
                                              (NS, [LSETSLICE, D.P(0), OZ(0), OZ(2), OZ(0), [D.V(1)]])),
  'slice-assignment-of-own-elements': case3([[{'a': 1}, {'b': 2}, 3]], (NS, [LSETSLICE, D.P(0), OZ(0), OZ(2), OZ(None), [D.R(0, 1), D.R(0, 0)]]),
                                            (D.sc(notify=[False]), [LSETSLICE, D.P(0), OZ(None), OZ(None), OZ(-1), [D.R(0, 0), D.V(5), D.R(0, 2)]])),
  'slice-on-sealed-list': case3([D.F([1, 2, 3], sealed=1), D.F([1, 2], aw=0)], (NS, [LSETSLICE, D.P(0), OZ(0), OZ(1), OZ(None), [D.V(9)]]), (NS, [LDELSLICE, D.P(0), OZ(0), OZ(1), OZ(None)]),
                                (NS, [LSETSLICE, D.P(1), OZ(0), OZ(1), OZ(None), [D.V(9)]]), (D.sc(aw=[True]), [LDELSLICE, D.P(1), OZ(0), OZ(1), OZ(None)])),
  'update-key-with-path-characters': case3([{'a': {'b': 0}}], (NS, [D.DUPDATE, D.P(0), KV({'a.b': 1})]), (NS, [D.DIOR, D.P(0), KV({'x[0]': [1], 'a': 2})]),
                                           (NS, [D.DSETDEFAULT, D.P(0), D.enc_key('k]'), D.V({'q': 1})])),
  'rebind-batch-on-a-long-list': case3([list(range(12)), [0, 1, 2]],
      (NS, [D.REBIND, D.P(0), [[[D.enc_key(2)], D.INS(D.V(100))], [[D.enc_key(10)], D.V(101)], [[D.enc_key(11)], D.V('MISSING')]]]),
      (NS, [D.REBIND, D.P(1), [[[D.enc_key(-1)], D.INS(D.V(100))], [[D.enc_key(-2)], D.INS(D.V(101))], [[D.enc_key(5)], D.V(102)]]])),
  'dict-or': case3([{'a': 1, 'b': {'c': 2}}, {'z': [1]}], (NS, [DOR, D.P(0), KV({'b': 3, 'z': [1]})]), (NS, [DROR, D.P(0), KV({'z': {'y': 1}, 'a': 5})]),
                   (NS, [DOR, D.P(0), [[D.enc_key('r'), D.R(1)], [D.enc_key('s'), D.R(0, 'b')]]]), (D.sc(sealed=[True]), [DOR, D.P(0), KV({'q': 1})])),
}

# ---- systematic sweeps on the real objects (direct oracle, no model involved) -------------------------------------------------------
def outcome_of(f):
  try: return ('ok', f())
  except (IndexError, KeyError, TypeError, ValueError) as e: return ('err', [c for c in PY_ERR if isinstance(e, c)][0].__name__)
  except Exception as e: return ('err', type(e).__name__)     # pylint: disable=broad-except

def slice_check(n, a, b, c, m, kind):
  """One shape of the slice sweep on pg.List(range(n)) against list(range(n)).  Returns None or (signature, what)."""
  P = D.pg()
  s = slice(a, b, c)
  base = list(range(n))
  vals = [100 + j for j in range(m)]
  if kind == 'get':
    f_sym = lambda: list(P.List(base)[s]); f_py = lambda: base[s]; name = 'List.__getitem__(slice)'
  elif kind == 'set':
    def f_sym():
      l = P.List(base); l[s] = list(vals); return [plain(l), [type(v).__name__ for v in l.sym_values() if not isinstance(v, int)]]
    def f_py():
      l = list(base); l[s] = list(vals); return [l, []]
    name = 'List.__setitem__(slice)'
  else:
    def f_sym():
      l = P.List(base); del l[s]; return plain(l)
    def f_py():
      l = list(base); del l[s]; return l
    name = 'List.__delitem__(slice)'
  x, y = outcome_of(f_sym), outcome_of(f_py)
  if x == y:
    return None
  shape = 'step=0' if c == 0 else slice_shape([OZ(a), OZ(b), OZ(c)], n)
  clause = 'error-class' if x[0] != y[0] or x[0] == 'err' else ('readback/slicing' if kind == 'get' else 'contents')
  sig = 'C02/%s/%s/%s' % (clause, name, shape) if kind != 'get' else 'C02/readback/slicing/%s/List' % shape
  return sig, '%s: on list(range(%d)) with slice(%r, %r, %r)%s the symbolic list gives %r, the plain one %r' % (
      name, n, a, b, c, ' = %r' % vals if kind == 'set' else '', x, y)

def sweep_slices(ctx, max_len):
  shapes = bad = 0
  for n in range(max_len + 1):
    bounds = [None] + list(range(-n - 2, n + 3))
    for a in bounds:
      for b in bounds:
        for c in (None, 1, -1, 2, -2, 3, -3, 0):
          for kind, ms in (('get', [0]), ('del', [0]), ('set', [0, 1, 2, 3])):
            for m in ms:
              shapes += 1
              h = slice_check(n, a, b, c, m, kind)
              if h:
                bad += 1
                ctx.hit(h[0], h[1], dict(kind='slice-sweep', n=n, a=a, b=b, c=c, m=m, op=kind))
  ctx.extra['slice_sweep'] = dict(shapes=shapes, differing=bad, max_len=max_len,
                                  what='x[a:b:c], del x[a:b:c], x[a:b:c] = 0..3 values for every a, b in None or -len-2..len+2 and c in None, +-1, +-2, +-3, 0')

def binary_checks():
  """Operands of +, *, copy, | are not touched by the operation or by a later change of the result (and vice versa)."""
  P = D.pg()
  hits = []
  def chk(name, make, operate, mutate_result, mutate_operand):
    for which in ('result', 'operand'):
      x = make(); before = plain(x)
      r = operate(x)
      expect_r = plain(r)
      if not same(plain(x), before):
        hits.append(('C02/aliasing/%s/operand-changed-by-the-operation' % name, '%s changes its operand: %r -> %r' % (name, before, plain(x)))); return
      if which == 'result':
        mutate_result(r)
        if not same(plain(x), before):
          hits.append(('C02/aliasing/%s/result-shares-storage' % name, 'changing the result of %s changes the operand: %r -> %r' % (name, before, plain(x))))
      else:
        mutate_operand(x)
        if not same(plain(r), expect_r):
          hits.append(('C02/aliasing/%s/result-shares-storage' % name, 'changing the operand of %s afterwards changes the result: %r -> %r' % (name, expect_r, plain(r))))
  mkl = lambda: P.List([1, {'a': 1}, [2]])
  mkd = lambda: P.Dict(a=1, b={'c': 2}, l=[3])
  ml = lambda r: (r.append(9), r.__setitem__(0, 7))
  md = lambda r: (r.__setitem__('zz', 9), r.__setitem__('a', 7))
  chk('List.__add__', mkl, lambda x: x + [5, {'q': 1}], ml, ml)
  chk('List.__mul__', mkl, lambda x: x * 2, ml, ml)
  chk('List.__rmul__', mkl, lambda x: 2 * x, ml, ml)
  chk('List.copy', mkl, lambda x: x.copy(), ml, ml)
  chk('List.__getitem__(slice)', mkl, lambda x: x[:], ml, ml)
  chk('Dict.copy', mkd, lambda x: x.copy(), md, md)
  chk('Dict.__or__', mkd, lambda x: x | {'a': 5, 'n': {'m': 1}}, md, md)
  chk('Dict.__ror__', mkd, lambda x: {'a': 5, 'n': {'m': 1}} | x, md, md)
  return hits

def iterable_sweep():
  """The argument of extend / += / slice assignment / update / |= given as every kind of iterable Python accepts there."""
  P = D.pg()
  hits = []
  n = 0
  vals = [7, {'k': 1}, [8]]
  kinds = {'list': lambda v: list(v), 'tuple': lambda v: tuple(v), 'generator': lambda v: (x for x in v), 'iterator': lambda v: iter(list(v)),
           'pg.List': lambda v: P.List(copy.deepcopy(list(v))), 'dict-keys': None, 'range': None}
  lops = {'List.extend': lambda l, a: l.extend(a), 'List.__iadd__': lambda l, a: l.__iadd__(a),
          'List.__setitem__(slice)/step=1': lambda l, a: l.__setitem__(slice(1, 2), a), 'List.__setitem__(slice)/step>1': lambda l, a: l.__setitem__(slice(0, None, 2), a),
          'List.__setitem__(slice)/step<0': lambda l, a: l.__setitem__(slice(None, None, -1), a), 'List.__setitem__(slice)/empty': lambda l, a: l.__setitem__(slice(2, 1), a)}
  for name, f in lops.items():
    base = [0, {'a': 1}, 2] if 'step' not in name or 'step=1' in name else ([0, {'a': 1}, 2, 3, 4] if 'step>1' in name else [0, {'a': 1}, 2])
    for kname, mk in kinds.items():
      if mk is None:
        if kname == 'range': arg_of = lambda: range(3)
        else: arg_of = lambda: {5: 0, 6: 0, 9: 0}.keys()
      else:
        arg_of = lambda mk=mk: mk(copy.deepcopy(vals))
      n += 1
      def run(ctor):
        l = ctor(copy.deepcopy(base)); f(l, arg_of()); return plain(l)
      x, y = outcome_of(lambda: run(P.List)), outcome_of(lambda: run(list))
      if x[0] != y[0] or (x[0] == 'err' and x[1] != y[1]) or (x[0] == 'ok' and not same(x[1], y[1])):
        clause = 'error-class' if x[0] != y[0] or x[0] == 'err' else 'contents'
        hits.append(('C02/%s/%s/argument-%s' % (clause, name.split('/')[0], kname), '%s on %r with a %s: symbolic %r, plain %r' % (name, base, kname, x, y),
                     dict(kind='iterable-sweep')))
  dkinds = {'dict': lambda: {'a': 5, 'n': {'m': 1}}, 'pairs': lambda: [('a', 5), ('n', {'m': 1})], 'pair-generator': lambda: ((k, v) for k, v in [('a', 5), ('n', [1])]),
            'pg.Dict': lambda: P.Dict(a=5, n={'m': 1}), 'kwargs': None}
  dops = {'Dict.update': lambda d, a: d.update(a), 'Dict.__ior__': lambda d, a: d.__ior__(a)}
  for name, f in dops.items():
    for kname, mk in dkinds.items():
      n += 1
      def run(ctor):
        d = ctor({'a': 1, 'b': {'c': 2}})
        if mk is None: d.update(a=5, n={'m': 1})
        else: f(d, mk())
        return plain(d)
      x, y = outcome_of(lambda: run(P.Dict)), outcome_of(lambda: run(dict))
      if x[0] != y[0] or (x[0] == 'err' and x[1] != y[1]) or (x[0] == 'ok' and not same(x[1], y[1])):
        clause = 'error-class' if x[0] != y[0] or x[0] == 'err' else 'contents'
        hits.append(('C02/%s/%s/argument-%s' % (clause, name, kname), '%s with a %s: symbolic %r, plain %r' % (name, kname, x, y), dict(kind='iterable-sweep')))
  return hits, n

def update_sweep():
  """Dict.update / |= / | / setdefault / item assignment with every kind of key on every kind of dict, against dict."""
  P = D.pg()
  hits = []
  keys = ['a', 'a.b', 'x[0]', '[0]', 'k]', '', 'b.c.d', 0, 1, -1, 'a b']
  bases = [{}, {'a': 1}, {'a': {'b': 0}}, {'a.b': 0, 'a': {'b': 1}}, {0: 'z', 'x': [5]}]
  vals = [1, {'n': 1}, [1, 2], None]
  ops = {'Dict.update': lambda d, m: d.update(m), 'Dict.update(pairs)': lambda d, m: d.update(list(m.items())), 'Dict.__ior__': lambda d, m: d.__ior__(m),
         'Dict.__or__': lambda d, m: d | m, 'Dict.__ror__': lambda d, m: m | d,
         'Dict.__setitem__': lambda d, m: [d.__setitem__(k, v) for k, v in m.items()], 'Dict.setdefault': lambda d, m: [d.setdefault(k, v) for k, v in m.items()]}
  n = 0
  for name, f in ops.items():
    for b in bases:
      for k in keys:
        for v in vals:
          for extra in ({}, {'zz': 2}):
            m = dict(extra); m[k] = copy.deepcopy(v)
            n += 1
            def run(mk):
              d = mk(copy.deepcopy(b)); r = f(d, copy.deepcopy(m))
              return [plain(d), plain(r) if isinstance(r, dict) else None]
            x, y = outcome_of(lambda: run(P.Dict)), outcome_of(lambda: run(dict))
            if x[0] != y[0] or (x[0] == 'err' and x[1] != y[1]) or (x[0] == 'ok' and not same(x[1], y[1])):
              disc = 'key-with-path-characters' if isinstance(k, str) and any(c in k for c in '.[]') else '-'
              clause = 'error-class' if x[0] != y[0] or x[0] == 'err' else 'contents'
              hits.append(('C02/%s/%s/%s' % (clause, name.split('(')[0], disc), '%s on %r with %r: symbolic %r, plain %r' % (name, b, m, x, y),
                           dict(kind='update-sweep', op=name, base=repr(b), arg=repr(m))))
  return hits, n

# ---- the run -----------------------------------------------------------------------------------------------------------------------------
def describe_b(case, a, b):
  d = dict(case=trlib.to_line(case)[:3000])
  if a is None or b is None or not isinstance(b, list) or len(b) != 2:
    d['difference'] = 'no outcome from %s' % ('the implementation' if a is None else 'the model'); return d
  if a[0] != b[0]:
    d['difference'] = 'initial forest'; return d
  for n, (x, y) in enumerate(zip(a[1], b[1])):
    if x != y:
      op = case[3][n][1]
      i = [j for j in range(3) if x[j] != y[j]][0]
      d.update(step=n, op=op_name(op[0]), differs=('result', 'snapshot', 'read-back')[i],
               implementation=trlib.to_line(x[i])[:1500], model=trlib.to_line(y[i])[:1500])
      return d
  return d

def describe_a(case, a, b):
  d = dict(case=trlib.to_line(case)[:1500], builtin=trlib.to_line(a)[:800] if a is not None else None, model=trlib.to_line(b)[:800] if b is not None else None)
  if case[0] in (0, 1) and isinstance(a, list) and isinstance(b, list):
    for n, (x, y) in enumerate(zip(a, b)):
      if x != y:
        d.update(step=n, op=case[2][n][0]); break
  return d

def py_snippet(case):
  return ('import sys; sys.path[:0] = ["/verif", "/repo"]\nfrom harness.props import c02, symcore_driver as D\nfrom harness.lib import tr\n'
          'case = tr.parse_line(%r)\norc = c02.Oracle()\nc02.run_case2(case, hook=orc)\nprint(orc.hits)\n' % trlib.to_line(case))

HANGS = [0]      # cases in which the watchdog fired during this run (only the first one is run again with a long limit; the run stops comparing after the third)
def run_oracle_case(ctx, case, kind):
  orc = Oracle()
  try:
    out = run_case2(case, hook=orc)
    hung = any(step[0] == [1, D.ERR_HANG] for step in out[1])
    if hung:
      HANGS[0] += 1
    if hung and HANGS[0] <= 1:
      # the watchdog of the shared driver fired: on a loaded machine (or inside a long garbage collection) that is not a hang -- run the case again with a long limit
      old = D.WATCHDOG_S
      D.WATCHDOG_S = 120.0
      try:
        orc = Oracle()
        out = run_case2(case, hook=orc)
        ctx.hist('watchdog_reruns', 'still-hangs' if any(step[0] == [1, D.ERR_HANG] for step in out[1]) else 'spurious')
      finally:
        D.WATCHDOG_S = old
  except Exception as e:        # the driver itself failed: fail closed
    out = None
    ctx.broken.append(dict(kind='driver-crash', name=type(e).__name__, detail=repr(e)[:300] + ' on ' + trlib.to_line(case)[:600]))
  for sig, what, step in orc.hits:
    ctx.hit(sig, what, dict(case=trlib.to_line(case), step=step, snippet=py_snippet(case)))
  return out, orc

def run(ctx):
  install()
  ctx.build()
  rng = ctx.rng
  t0 = time.time()
  quirks = D.quirk_flags()
  ctx.extra['quirk_flags'] = dict(copy_drops_missing=quirks[0])
  # ---- (a) the specification against the built-in types
  ind = indices_cases()
  sweep = slice_sweep_cases(ctx.scale(3, 5))
  pg_ = PvGen(rng)
  hist_a = []
  for _ in range(ctx.scale(400, 6000)):
    hist_a.append(pg_.list_case(rng.choice([6, 10, 14])))
  for _ in range(ctx.scale(300, 4000)):
    hist_a.append(pg_.dict_case(rng.choice([6, 10, 14])))
  cases_a = ind + sweep + hist_a
  impl_a = []
  for c in cases_a:
    try:
      impl_a.append(run_builtin(c))
    except Exception as e:      # pylint: disable=broad-except
      impl_a.append(None)
      ctx.broken.append(dict(kind='driver-crash', name=type(e).__name__, detail=repr(e)[:300] + ' on ' + trlib.to_line(c)[:600]))
  for c, o in zip(hist_a, impl_a[len(ind) + len(sweep):]):
    for op, r in zip(c[2], o or []):
      ctx.hist('reference_operations', ('list.' if c[0] == 0 else 'dict.') + str(op[0]))
      ctx.hist('reference_outcomes', 'ok' if r[0] == 0 else {2: 'KeyError', 3: 'IndexError', 4: 'TypeError', 5: 'ValueError'}.get(r[1], r[1]))
  ctx.extra['reference_cases'] = dict(slice_indices=len(ind), slice_shapes=len(sweep), histories=len(hist_a))
  ctx.log('built-in list/dict ran %d cases in %.1fs' % (len(cases_a), time.time() - t0))
  # ---- (b) + (c): SymCore histories with read-back, differential oracle on every step
  t1 = time.time()
  cases_b, kinds = [], []
  for name, c in CORPUS2.items():
    cases_b.append([3, quirks, c[2], c[3]]); kinds.append('corpus:' + name)
  for name, c in D.CORPUS.items():
    cases_b.append([3, quirks, c[1], [[s[0], s[1], default_probes()] for s in c[2]]]); kinds.append('corpus:' + name)
  n = ctx.scale(450, 30000)
  container_ops = (D.LIST_OPS | D.DICT_OPS | {D.REBIND}) - EXT_LIST - EXT_DICT
  gens = [(Gen2(rng, quirks=quirks, ext=0.3, focus=container_ops), 'random', 0.6), (Gen2(rng, quirks=quirks, ext=0.75, focus=container_ops), 'slices-and-or', 0.25),
          (Gen2(rng, quirks=quirks, ext=0.1), 'any-operation', 0.15)]
  for g, kind, w in gens:
    for _ in range(int(n * w)):
      cases_b.append(g.case(rng.choice([4, 8, 10, 12]))); kinds.append(kind)
  rb_cases = rebind_sweep_cases(rng, ctx.scale(8, 120), quirks)
  for c, layout in rb_cases:
    cases_b.append(c); kinds.append('rebind-sweep')
    ctx.hist('rebind_sweep_layout', layout)
    ctx.hist('rebind_sweep_batch_size', len(c[3][0][1][2]))
    ctx.hist('rebind_sweep_list_len', len(c[2][0][4]) if layout == 'root-list' else len(c[2][0][4][0][1][4]))
  ctx.extra['rebind_sweep'] = dict(cases=len(rb_cases), what='multi-path rebind on lists of 0..13 elements: 2-4 paths of replace / Insertion / MISSING_VALUE / past-the-end / nested-dict writes, '
                                   'indices from {0,1,2,9,10,11,len-1,len,len+1,-1,-2,-len}; list as root, inside a dict, or reached through a dict target')
  sr_cases = self_reference_sweep_cases(quirks)
  for c, what in sr_cases:
    cases_b.append(c); kinds.append('self-reference-sweep')
    ctx.hist('self_reference_sweep', what.rsplit(':', 1)[1])
  ctx.extra['self_reference_sweep'] = dict(cases=len(sr_cases), what='append / item assignment (every index class) / insert / dict item assignment whose argument is the target itself, '
                                           'its root, a child, a deeper descendant or another root; list as root or inside a dict, dict as root or inside a dict; with and without notification; '
                                           'followed by a write into the source to show the stored value is a copy')
  impl_b = []
  stats = {}
  HANGS[0] = 0
  for i_case, (case, kind) in enumerate(zip(cases_b, kinds)):
    if HANGS[0] >= 3:
      # the implementation under test hangs again and again (each costs the watchdog limit): what ran so far already shows it
      ctx.extra['stopped_after_hangs'] = dict(ran=i_case, of=len(cases_b))
      del cases_b[i_case:], kinds[i_case:]
      break
    out, orc = run_oracle_case(ctx, case, kind)
    impl_b.append(out)
    for k, v in orc.stats.items():
      stats[k] = stats.get(k, 0) + v
    nontrivial = False
    if out is not None:
      for (sc_, op, _), (res, snap, rb) in zip(case[3], out[1]):
        ctx.hist('operations', op_name(op[0]))
        ctx.hist('target_depth', len(op[1][1]))
        if rb and rb[0] in (0, 1) and isinstance(rb[1], int):
          ctx.hist('target_size_after', min(rb[1], 12))
        ctx.hist('outcomes', 'ok' if res[0] == 0 else {1: 'WritePermissionError', 2: 'KeyError', 3: 'IndexError', 4: 'TypeError', 5: 'ValueError',
                                                        6: 'AssertionError', 7: 'AttributeError', 9: 'other', 97: 'hang', 99: 'not-applicable'}.get(res[1], res[1]))
        if op[0] in (LSETSLICE, LDELSLICE):
          ctx.hist('slice_steps', 'none' if not op[4] else op[4][0])
        if res[0] == 0 and (op[0] in D.MUTATING or op[0] in EXT_LIST) and rb and rb[1] not in (0, [-9]):
          nontrivial = True
      ctx.hist('steps_per_case', len(case[3]))
    ctx.count(trlib.to_line(case), nontrivial=nontrivial, kind=kind.split(':')[0],
              sample=dict(kind=kind, case=trlib.to_line(case)[:700]) if (nontrivial and kind == 'random' and len(ctx.samples) < 4) or len(ctx.samples) < 1 else None)
  ctx.extra['oracle_stats'] = dict(sorted(stats.items()))
  ctx.extra['corpus_cases'] = len(CORPUS2) + len(D.CORPUS)
  ctx.log('pg.List/pg.Dict ran %d histories in %.1fs' % (len(cases_b), time.time() - t1))
  model_outs = ctx.model_run(cases_a + cases_b)
  model_a, model_b = model_outs[:len(cases_a)], model_outs[len(cases_a):]
  da = {id(c): describe_a(c, a, b) for c, a, b in zip(cases_a, impl_a, model_a) if a != b}
  ctx.compare('PyList / PyDict (the specification) vs the built-in list / dict (every call: value or error class, contents after)',
              cases_a, impl_a, model_a, describe=lambda c: da.get(id(c)))
  db = {id(c): describe_b(c, a, b) for c, a, b in zip(cases_b, impl_b, model_b) if a != b}
  bad = ctx.compare('SymCoreC02.run vs pg.List / pg.Dict (outcome, snapshot of every root and read-back of the target after every step)',
                    cases_b, impl_b, model_b, describe=lambda c: db.get(id(c)))
  for c in cases_a:
    ctx.count(trlib.to_line(c), nontrivial=(c[0] == 2 or len(c[1]) > 0), kind=('reference-list', 'reference-dict', 'slice-indices')[c[0]])
  ctx.extra['slice_indices_exhaustive'] = dict(lengths='0..6', bounds='None, -7..7', cases=len(ind))
  # ---- systematic sweeps on the real objects (within the wall-clock budget of the tier, counted from the end of the build)
  t2 = time.time()
  budget = ctx.scale(90, 1300)
  skipped = []
  ctx.extra['skipped_for_time'] = skipped
  if time.time() - t0 > budget:
    skipped.append('slice sweep on pg.List (slice shapes are still covered by the reference sweep and the generated histories)')
  else:
    sweep_slices(ctx, ctx.scale(3, 6) if time.time() - t0 < budget / 2 else 2)
  for sig, what in binary_checks():
    ctx.hit(sig, what, dict(kind='binary-checks'))
  uh, un = update_sweep()
  for sig, what, case in uh:
    ctx.hit(sig, what, case)
  ctx.extra['update_sweep'] = dict(cases=un, differing=len(uh))
  ih, inn = iterable_sweep()
  for sig, what, case in ih:
    ctx.hit(sig, what, case)
  ctx.extra['iterable_sweep'] = dict(cases=inn, differing=len(ih))
  ctx.log('sweeps on pg.List / pg.Dict in %.1fs' % (time.time() - t2))
  # ---- violation search when something is broken and the oracle has not hit yet
  if ctx.is_broken() and not ctx.hits:
    ops = set()
    for i in bad[:50]:
      d = db.get(id(cases_b[i])) or {}
      ops |= {t for t in list(D.OP_NAMES) + list(EXT_NAMES) if op_name(t) == d.get('op')}
    g = Gen2(rng, quirks=quirks, ext=0.5 if ops & (EXT_LIST | EXT_DICT) else 0.1, focus=(ops - EXT_LIST - EXT_DICT) or None)
    for _ in range(ctx.scale(600, 6000)):
      case = g.case(8)
      run_oracle_case(ctx, case, 'search')
      if ctx.hits:
        break

def replay(ctx, rp):
  install()
  c = rp['case']
  if isinstance(c, dict) and c.get('kind') == 'slice-sweep':
    h = slice_check(c['n'], c['a'], c['b'], c['c'], c['m'], c['op'])
    if h: print('  still fails:', h[0], '|', h[1])
    return h is None
  if isinstance(c, dict) and c.get('kind') == 'binary-checks':
    hs = binary_checks()
    for h in hs: print('  still fails:', h[0], '|', h[1])
    return not hs
  if isinstance(c, dict) and c.get('kind') == 'iterable-sweep':
    hs, _ = iterable_sweep()
    for h in hs: print('  still fails:', h[0], '|', h[1])
    return not hs
  if isinstance(c, dict) and c.get('kind') == 'update-sweep':
    hs, _ = update_sweep()
    hs = [h for h in hs if h[2].get('op') == c.get('op') and h[2].get('base') == c.get('base') and h[2].get('arg') == c.get('arg')]
    for h in hs: print('  still fails:', h[0], '|', h[1])
    return not hs
  case = trlib.parse_line(c['case']) if isinstance(c, dict) else trlib.parse_line(c)
  orc = Oracle()
  run_case2(case, hook=orc)
  for h in orc.hits:
    print('  still fails:', h[0], '|', h[1])
  return not orc.hits

"""C20 — HTML views are well-formed and never let data break out of its text position."""
import copy, html as html_lib, html.parser, itertools, json, re
from harness.lib import tr as trlib
from harness.translators import html_styles

META = dict(
    id='C20',
    model_run='PG.Model.HtmlCtl.run',
    model_targets=['Model/HtmlCtl.vo'],
    technique=('Coq proof over an executable model of Html.element / html.escape / HtmlTreeView / Html.to_str (induction on the rendered tree and on the value, any depth, any strings) '
               '+ a strict HTML parser written as a pushdown automaton and proved to read back every rendered tree '
               '+ CSS constants and the document-assembly functions regenerated / re-checked from the source by a fail-closed ast translator '
               '+ differential correspondence (model output must equal pg.to_html_str character by character, content and whole document) + sentinel oracle on the real output'),
    design_ref='DESIGN.md §5 C20',
    level_text=('Theorems: escape never emits < > " \' and every & it emits starts one of five entities; unescape inverts escape; every tree built from element/text nodes and constant style blocks '
                'renders to a string the strict parser reads back as exactly that tree (well nested, closed, at any depth); for every value and option record (26 options: 15 plain ones, title, highlight/lowlight, the callable forms of key_style / include_keys / exclude_keys / uncollapse / key_color as arbitrary result tables, extra_flags) the tree view, and the whole '
                '<html><head><style>..</style></head><body>..</body></html> document, render to a string that parses to elements/options/attributes of a fixed vocabulary only, whatever strings the value carries; '
                'escape is blind (fixpoint iff no special character; twice = once only when nothing to escape) and applied exactly once on every data path (texts and attribute values of the parsed output are the data placed); every included key and every leaf is a text node (also of the parsed output); no text of the value is in the head; the head is the same for values of the same shape. '
                'Controls (Label, Badge, Tooltip, LabelGroup, ProgressBar, TabControl) are hnode builders with the same well-formedness / no-injection theorems; the JavaScript literal written by Html.escape(s, javascript_str=True) '
                'is lexed back as exactly s and ends at its closing quote (update scripts for textContent / innerHTML). '
                'Tie: the model is run on every generated (options, value) and its output compared, character by character, with pg.to_html_str(value, **options) both with content_only=True and as the full document; '
                'the CSS constants are regenerated from tree_view.py each run and the proofs re-checked; histories in one process (render / update controls / render again) and document histories (serialise, write / + / copy, serialise again; oracle after every step, grown documents compared with multi_document); '
                'the Python strict tokenizer used by the oracle is compared with the proved Coq parser on real, broken and mutated outputs; html.escape is compared with the model escape.'),
    level_note=('Trusted: Coq kernel; translator harness/translators/html_styles.py; extraction (ExtrOcamlBasic) cross-checked against vm_compute; the harness conversion of a Python value to the model value, which calls '
                'utils.format / repr / camel_to_snake to fill the strings the model treats as arbitrary (fmt, rep, cname). Modelled, not verified: those three functions (arbitrary strings in every theorem). '
                'Python repr of Latin-1 strings, ints, bools, None and the string tooltips are computed by the model; reprs of floats / opaque objects and container tooltips are carried. Covered by the oracle only: debug, child_config, pg.Ref / pg.Diff values; see coverage.options_oracle_only. Html-typed control texts: theorem hypothesis markup_ok. '
                'Trusted option strings of controls (id, css_classes, styles, link, target) are compared on metacharacter-free values; inside onclick the raw apostrophes of the code are compared as &#x27;.'),
    rule=('a case is (value, options) [or a control, a document for the tokenizer, a string for escape]; distinct by (generator seeds / literal, options); non-trivial when the value carries at least one string/key/class name with an HTML metacharacter'),
    trusted_base=['translator harness/translators/html_styles.py (fail-closed ast reader: CSS literals of HtmlTreeView, shapes of Html.to_str / head_section / style_section / script_section / body_section / Styles.content)',
                  'extraction: ExtrOcamlBasic only; ocaml/main.ml lexer/printer; cross-checked against vm_compute on a sample',
                  'harness value conversion (harness/props/c20.py conv): type name, css class name, repr and utils.format strings are computed by calling the library on the real value and passed to the model as data'],
    assumptions=['utils.format, repr and camel_to_snake are uninterpreted: the model and all theorems quantify over every string they could return'],
)

# ------------------------------------------------------------------------------------------------
# strict tokenizer: the same grammar as Model/Html.v parse_html.
#   doc  ::= node* ; node ::= text | '<' name (' ' name | ' ' name '="' text '"')* '>' node* '</' name '>'
#   text ::= ( any char except < > " ' & | &amp; | &lt; | &gt; | &quot; | &#x27; )*
ENT = {'amp;': '&', 'lt;': '<', 'gt;': '>', 'quot;': '"', '#x27;': "'"}
NAME_START = set('abcdefghijklmnopqrstuvwxyzABCDEFGHIJKLMNOPQRSTUVWXYZ')
NAME_CHAR = NAME_START | set('0123456789-_')
RAW_TAGS = ('style', 'script')

class Reject(Exception):
  def __init__(self, pos, why):
    super().__init__('%s at %d' % (why, pos)); self.pos = pos; self.why = why

def _read_text(s, i, stop, allow=''):
  out = []
  n = len(s)
  while i < n:
    c = s[i]
    if c == stop:
      break
    if c == '&':
      for e, ch in ENT.items():
        if s.startswith(e, i + 1):
          out.append(ch); i += 1 + len(e); break
      else:
        raise Reject(i, 'bare-ampersand')
      continue
    if c in '<>"\'' and c not in allow:
      raise Reject(i, 'raw-metacharacter-%s' % {'<': 'lt', '>': 'gt', '"': 'quot', "'": 'apos'}[c])
    out.append(c); i += 1
  return ''.join(out), i

def _read_name(s, i):
  j = i
  if j >= len(s) or s[j] not in NAME_START:
    raise Reject(i, 'name-expected')
  while j < len(s) and s[j] in NAME_CHAR:
    j += 1
  return s[i:j], j

def strict_parse(s, apos_in_attr=False):
  """Returns the list of top-level nodes ([0, tag, opts, attrs, kids] | [1, text]); raises Reject."""
  i, n = 0, len(s)
  kids = []
  stack = []
  while True:
    text, i = _read_text(s, i, '<')
    if text:
      kids.append([1, text])
    if i >= n:
      break
    i += 1   # '<'
    if i < n and s[i] == '/':
      j = i + 1
      while j < n and s[j] in NAME_CHAR:
        j += 1
      name = s[i + 1:j]
      if j >= n or s[j] != '>':
        raise Reject(j, 'bad-closing-tag')
      if not stack:
        raise Reject(i, 'unbalanced-closing-tag')
      (tag, opts, attrs, pkids) = stack.pop()
      if tag != name:
        raise Reject(i, 'mismatched-closing-tag')
      pkids.append([0, tag, opts, attrs, kids]); kids = pkids
      i = j + 1
      continue
    tag, i = _read_name(s, i)
    opts, attrs = [], []
    while True:
      if i >= n:
        raise Reject(i, 'unterminated-tag')
      if s[i] == '>':
        i += 1; break
      if s[i] != ' ':
        raise Reject(i, 'bad-character-in-tag')
      an, i = _read_name(s, i + 1)
      if i < n and s[i] == '=':
        if i + 1 >= n or s[i + 1] != '"':
          raise Reject(i, 'unquoted-attribute')
        val, i = _read_text(s, i + 2, '"', "'" if apos_in_attr else '')
        if i >= n:
          raise Reject(i, 'unterminated-attribute')
        i += 1
        attrs.append([an, val])
        if i < n and s[i] not in ' >':
          raise Reject(i, 'bad-character-after-attribute')
      else:
        opts.append(an)
    if tag in RAW_TAGS:       # raw-text element: the body runs to the next '<', which must start the matching closing tag
      if opts or attrs:
        raise Reject(i, 'raw-element-with-attributes')
      j = s.find('<', i)
      if j < 0:
        raise Reject(n, 'unclosed-element')
      body = s[i:j]
      if j + 1 >= n or s[j + 1] != '/':
        raise Reject(j, 'markup-inside-raw-element')
      k = j + 2
      while k < n and s[k] in NAME_CHAR:
        k += 1
      if k >= n or s[k] != '>':
        raise Reject(k, 'bad-closing-tag')
      if s[j + 2:k] != tag:
        raise Reject(j, 'mismatched-closing-tag')
      kids.append([3, tag, body]); i = k + 1
      continue
    stack.append((tag, opts, attrs, kids)); kids = []
  if stack:
    raise Reject(n, 'unclosed-element')
  return kids

def strict_parse_opt(s):
  try:
    return strict_parse(s)
  except Reject:
    return None

def enc_tree(t):
  if t[0] == 3:
    return [3, trlib.enc(t[1]), trlib.enc(t[2])]
  if t[0] == 0:
    return [0, trlib.enc(t[1]), [trlib.enc(o) for o in t[2]], [[trlib.enc(a), trlib.enc(v)] for a, v in t[3]], [enc_tree(k) for k in t[4]]]
  return [t[0], trlib.enc(t[1])]

def walk(nodes):
  for t in nodes:
    yield t
    if t[0] == 0:
      yield from walk(t[4])

def strict_unescape(s):
  """Model/Html.v unescape: decodes exactly the five entities html.escape emits."""
  out, i = [], 0
  while i < len(s):
    if s[i] == '&':
      for e, ch in ENT.items():
        if s.startswith(e, i + 1):
          out.append(ch); i += 1 + len(e); break
      else:
        out.append('&'); i += 1
    else:
      out.append(s[i]); i += 1
  return ''.join(out)

class _Events(html.parser.HTMLParser):
  def __init__(self):
    super().__init__(convert_charrefs=True); self.ev = []
  def handle_starttag(self, tag, attrs): self.ev.append(('s', tag, [(a, v) for a, v in attrs]))
  def handle_endtag(self, tag): self.ev.append(('e', tag))
  def handle_data(self, data):
    if self.ev and self.ev[-1][0] == 'd': self.ev[-1] = ('d', self.ev[-1][1] + data)
    else: self.ev.append(('d', data))
  def handle_comment(self, data): self.ev.append(('c', data))
  def handle_decl(self, d): self.ev.append(('decl', d))
  def handle_pi(self, d): self.ev.append(('pi', d))
  def unknown_decl(self, d): self.ev.append(('unk', d))

def stdlib_events(s):
  p = _Events(); p.feed(s); p.close(); return p.ev

def tree_events(nodes):
  ev = []
  for t in nodes:
    if t[0] == 1:
      ev.append(('d', t[1]))
    elif t[0] == 3:
      ev.append(('s', t[1], []))
      if t[2]: ev.append(('d', t[2]))
      ev.append(('e', t[1]))
    else:
      ev.append(('s', t[1].lower(), [(o.lower(), None) for o in t[2]] + [(a.lower(), v) for a, v in t[3]]))
      ev.extend(tree_events(t[4]))
      ev.append(('e', t[1].lower()))
  return ev

# ------------------------------------------------------------------------------------------------
# hostile data.  Every datum carries a unique sentinel ZQ<n>X so its occurrences in the output can be located.
FRAGMENTS = ['<', '>', '&', '"', "'", '</span>', '</div>', '</details>', '</td></tr></table>', '-->', '<!--', ']]>', '<![CDATA[', '<script>', '</script>',
             '<script>alert(1)</script>', '<i>', '<b>x</b>', '<img src=x onerror=alert(1)>', '" onmouseover="alert(1)', "' x='", '&amp;', '&lt;', '&#x27;', '&#60;', '&nosuch;',
             '<style>', '</summary>', '<a href="javascript:alert(1)">', ' ', '\n', '\t', '.', '[', ']', 'é', '\x7f', '\x85', '\xad', 'ÿ', '\r', 'Ω', '\U0001F600', ' ', '\\', '<>', '&&', '""', "''", '</', '/>', '=', ';', '<?', '?>', '<!']
SENT_RE = re.compile(r'ZQ\d+X')

class Data:
  """Allocates sentinel-tagged strings and remembers the role of each."""
  def __init__(self, rng, hostile=True, neutral=False):
    self.rng, self.hostile, self.neutral, self.n, self.roles, self.text = rng, hostile, neutral, 0, {}, {}
    self.exotic = False
  def s(self, role, long=False, pathsafe=False):
    self.n += 1
    sent = 'ZQ%dX' % self.n
    r = self.rng
    if pathsafe:     # pg.Dict itself refuses keys that do not parse as a key path (not a C20 matter)
      txt = ''.join(x for x in (r.choice(FRAGMENTS), sent, r.choice(FRAGMENTS)) if not any(c in x for c in '.[]'))
    elif not self.hostile:
      txt = sent + r.choice(['', 'abc', ' plain text', '_x'])
    else:
      k = r.choice([1, 1, 2, 2, 3, 4])
      parts = [r.choice(FRAGMENTS) for _ in range(k)]
      parts.insert(r.randint(0, len(parts)), sent)
      txt = ''.join(parts)
    if long:
      txt = txt + r.choice(['<p>pad</p>', 'pad&', 'x']) * r.randint(30, 60)
    if self.neutral:    # same draws, same lengths, no HTML metacharacter: the twin used for the data-independence check
      txt = re.sub(r'[<>&"\']', 'x', txt)
    self.roles[sent] = role; self.text[sent] = txt
    return txt

def pg():
  import pyglove as pg_
  return pg_

_CLASS_CACHE = {}
def object_class(name, nfields, frozen=False):
  """A pg.Object subclass with an arbitrary (possibly hostile) __name__ and identifier field names
  (optionally with a frozen field, which the view hides)."""
  key = (name, nfields, frozen)
  if key not in _CLASS_CACHE:
    p = pg()
    base = type('C20Base%d' % len(_CLASS_CACHE), (p.Object,), {})
    p.members([('f%d' % i, p.typing.Any(default=None)) for i in range(nfields)]
              + ([('fz', p.typing.Str().freeze('frozen <b>&"value'))] if frozen else []))(base)
    base.__name__ = name
    base.__qualname__ = name
    _CLASS_CACHE[key] = base
  return _CLASS_CACHE[key]

import collections as _collections, enum as _enum

def _hostile_text(cls):
  """Gives a builtin subclass a per-instance text returned by repr / str / format."""
  cls.__repr__ = lambda self: self._text
  cls.__str__ = lambda self: self._text
  cls.__format__ = lambda self, spec: self._text
  return cls

@_hostile_text
class IntSub(int):
  def __new__(cls, v, text): o = int.__new__(cls, v); o._text = text; return o
@_hostile_text
class FloatSub(float):
  def __new__(cls, v, text): o = float.__new__(cls, v); o._text = text; return o
@_hostile_text
class StrSub(str):
  def __new__(cls, v, text): o = str.__new__(cls, v); o._text = text; return o
@_hostile_text
class BytesSub(bytes):
  def __new__(cls, v, text): o = bytes.__new__(cls, v); o._text = text; return o
@_hostile_text
class TupleSub(tuple):
  def __new__(cls, v, text): o = tuple.__new__(cls, v); o._text = text; return o
@_hostile_text
class ListSub(list):
  def __init__(self, v, text): list.__init__(self, v); self._text = text
@_hostile_text
class DictSub(dict):
  def __init__(self, v, text): dict.__init__(self, v); self._text = text
Point = _collections.namedtuple('Point', ['x', 'y'])
_ENUMS = {}
def hostile_enum(text, intenum=False):
  """An enum member whose value (and, for a plain Enum, name shown by repr) carries the text."""
  key = (text, intenum)
  if key not in _ENUMS:
    _ENUMS[key] = (_enum.IntEnum('Level', {'LOW': 1, 'HIGH': 2}) if intenum else _enum.Enum('Mode', {'A': text, 'B': 'b'}))
  return _ENUMS[key]

class Opaque:
  """A non-symbolic object shown through its repr."""
  def __init__(self, text): self.text = text
  def __repr__(self): return self.text
  def __eq__(self, o): return isinstance(o, Opaque) and o.text == self.text
  def __hash__(self): return hash(self.text)

def gen_value(rng, data, depth, stats=None, sym=False):
  """A nested value: dict / list / tuple / pg.Dict / pg.List / pg.Object / leaves."""
  p = pg()
  kinds = ['int', 'str', 'str', 'longstr', 'none', 'bool', 'float', 'opaque', 'misc', 'subclass', 'subclass'] + (['exotic'] if data.exotic else []) + (['dict', 'dict', 'list', 'tuple', 'pgdict', 'pglist', 'object', 'object'] if depth > 0 else [])
  k = rng.choice(kinds)
  if sym and k == 'tuple':      # symbolic containers convert nested containers; keep the shapes stable
    k = 'list'
  if stats is not None:
    stats(k)
  if k == 'int': return rng.choice([0, 1, -7, 12345678901234567890])
  if k == 'str': return data.s('leaf-str')
  if k == 'longstr': return data.s('leaf-str', long=True)
  if k == 'none': return None
  if k == 'bool': return rng.choice([True, False])
  if k == 'float': return rng.choice([1.5, -0.25, 1e100, float('inf')])
  if k == 'opaque': return Opaque(data.s('opaque-repr'))
  if k == 'subclass':   # instances of subclasses of the builtins (and enum members, namedtuples) whose repr / str / format is user data
    e = rng.choice(['int', 'float', 'str', 'longstr', 'bytes', 'enum', 'intenum', 'namedtuple'] + ([] if sym or depth <= 0 else ['tuple', 'list', 'dict']))
    t_ = data.s('subclass-repr')
    if e == 'int': return IntSub(rng.choice([0, 7, -3]), t_)
    if e == 'float': return FloatSub(rng.choice([1.5, 0.0]), t_)
    if e == 'str': return StrSub(data.s('leaf-str'), t_)
    if e == 'longstr': return StrSub(data.s('leaf-str', long=True), t_)
    if e == 'bytes': return BytesSub(b'raw<b>', t_)
    if e == 'enum': return hostile_enum(t_).A
    if e == 'intenum': return hostile_enum('', True).HIGH
    if e == 'namedtuple': return Point(data.s('leaf-str'), rng.choice([1, None]))
    kids_ = [gen_value(rng, data, depth - 1, stats, sym) for _ in range(rng.choice([0, 1, 2]))]
    if e == 'tuple': return TupleSub(kids_, t_)
    if e == 'list': return ListSub(kids_, t_)
    return DictSub({data.s('dict-key'): x for x in kids_}, t_)
  if k == 'misc':       # other leaf / object kinds the default view handles: bytes, sets, classes, value specs, hyper values, partial objects
    e = rng.choice(['bytes', 'set', 'class', 'spec', 'oneof', 'partial'])
    if e == 'bytes': return data.s('leaf-str').encode('utf-8')
    if e == 'set': return frozenset([data.s('leaf-str'), 1])
    if e == 'class': return rng.choice([int, Opaque, object_class('FooBar', 0), object_class(data.s('class-name'), 0)])
    if e == 'spec': return p.typing.Enum(data.s('leaf-str'), [data.text['ZQ%dX' % data.n], 'b'])
    if e == 'oneof': return p.oneof([data.s('leaf-str'), data.s('leaf-str')])
    return object_class('FooBar', 2).partial(f0=data.s('leaf-str'))
  if k == 'exotic':     # values with a view extension of their own: oracle only
    e = rng.choice(['ref', 'diff'])
    hostile_cls = lambda: object_class(data.s('class-name') if rng.random() < 0.7 else 'Foo', 1)
    if e == 'ref': return p.Ref(rng.choice([lambda: hostile_cls()(f0=data.s('leaf-str')), lambda: {data.s('dict-key'): 1}, lambda: data.s('leaf-str'), lambda: Opaque(data.s('opaque-repr'))])())
    if rng.random() < 0.5:
      a_, b_ = hostile_cls(), hostile_cls()
      return p.diff(a_(f0=data.s('leaf-str')), rng.choice([a_, b_])(f0=rng.choice([data.s('leaf-str'), 1])), mode=rng.choice(['diff', 'both']))
    return p.diff(p.Dict({'a': data.s('leaf-str'), 'b': [1, data.s('leaf-str')]}), p.Dict({'a': data.s('leaf-str'), 'c': 2}), mode=rng.choice(['diff', 'both']))
  n = rng.choice([0, 1, 1, 2, 2, 3])
  if k in ('dict', 'pgdict'):
    d = {}
    for _ in range(n):
      key = data.s('dict-key') if rng.random() < 0.85 else rng.choice([0, 3, -1])
      if k == 'pgdict' or sym:
        key = data.s('dict-key', pathsafe=True)
      d[key] = gen_value(rng, data, depth - 1, stats, sym or k == 'pgdict')
    return p.Dict(d) if k == 'pgdict' else d
  if k in ('list', 'tuple', 'pglist'):
    items = [gen_value(rng, data, depth - 1, stats, sym or k == 'pglist') for _ in range(n)]
    if k == 'pglist':
      return p.List(items)
    return tuple(items) if k == 'tuple' else items
  cname = data.s('class-name') if rng.random() < 0.6 else rng.choice(['Foo', 'FooBar', 'HTTPServer', 'Tooltip', 'SimpleValue', 'Pyglove', 'x'])
  cls = object_class(cname, n, frozen=rng.random() < 0.25)
  vals = {}
  for i in range(n):
    vals['f%d' % i] = gen_value(rng, data, depth - 1, stats, True)
  return cls(**vals)

# ---- conversion of a real value to the model value (Model/Html.v pv) ------------------------------
_FLAGS = {}     # extra_flags of the case being converted (hide_frozen / hide_default_values / use_inferred), see HtmlTreeView.content
class view_flags:
  def __init__(self, flags): self.flags = dict(flags or {})
  def __enter__(self): self.old = dict(_FLAGS); _FLAGS.clear(); _FLAGS.update(self.flags)
  def __exit__(self, *a): _FLAGS.clear(); _FLAGS.update(self.old)

def child_items(value):
  p = pg()
  if isinstance(value, p.Symbolic):
    items = []
    for k, v in value.sym_items():
      field = value.sym_attr_field(k)
      if _FLAGS.get('hide_frozen', True) and field and field.frozen:
        continue
      if _FLAGS.get('use_inferred', False) and isinstance(v, p.symbolic.Inferential):
        v = value.sym_inferred(k, default=v)
      if field and _FLAGS.get('hide_default_values', False) and v == field.default_value:
        continue
      items.append((k, v))
    return items
  if isinstance(value, (tuple, list)):
    return list(enumerate(value))
  if isinstance(value, dict):
    return list(value.items())
  return None

def enc_key(k):
  return [0, k] if isinstance(k, int) else [1, trlib.enc(k)]

def conv(value, path):
  """The pv of Model/Html.v for `value` located at key list `path`."""
  p = pg()
  from pyglove.core import utils
  import inspect
  tname = type(value).__name__
  cname = utils.camel_to_snake(tname, '-')
  if inspect.isclass(value):
    tname, cname = 'type', utils.camel_to_snake(value.__name__ + '-class', '-')
  fmt = utils.format(value, root_path=utils.KeyPath(list(path)), compact=False, verbose=False, python_format=True, max_bytes_len=64, max_str_len=256)
  items = child_items(value)
  if items is None:
    # strings the model computes itself are sent empty: repr of Latin-1 strings (content and tooltip), of ints, bools and None
    if isinstance(value, str) and type(value) is not str:      # a str subclass: its repr is its own
      lk, raw, rep = 7, str.__str__(value), repr(value)
    elif isinstance(value, str):
      lat = all(ord(ch) < 256 for ch in value)
      lk, raw, rep = 2, value, ('' if lat else repr(value))
      if lat: fmt = ''
    elif type(value) is bool:
      lk, raw, rep, fmt = [6, 1 if value else 0], '', '', ''
    elif type(value) is int:
      lk, raw, rep, fmt = [5, value], '', '', ''
    elif value is None:
      lk, raw, rep, fmt = 1, '', '', ''
    else:
      lk = 4 if inspect.isclass(value) else 0 if isinstance(value, (bool, int, float)) else 3
      raw = ''
      rep = utils.format(value, compact=False, verbose=False, hide_default_values=True, python_format=True, use_inferred=True, max_bytes_len=64)
    return [0, lk, trlib.enc(tname), trlib.enc(cname), trlib.enc(raw), trlib.enc(rep), trlib.enc(fmt)]
  return [1, 1 if isinstance(value, (tuple, list)) else 0, trlib.enc(tname), trlib.enc(cname), trlib.enc(fmt),
          [[enc_key(k), conv(v, path + [k])] for k, v in items]]

# ---- options ------------------------------------------------------------------------------------------
# option name -> list of symbolic choices; resolved against the value by resolve_options
OPTION_SPACE = [
    ('enable_summary', [None, True, False]),
    ('enable_summary_for_str', [True, False]),
    ('max_summary_len_for_str', [80, 12, 0, 200]),
    ('enable_summary_tooltip', [True, False]),
    ('enable_key_tooltip', [True, False]),
    ('key_style', ['summary', 'label', 'fn']),
    ('include_keys', [None, 'some', 'none', 'all+absent', 'fn']),
    ('exclude_keys', [None, 'some', 'all', 'fn']),
    ('collapse_level', [1, None, 0, 2, -1]),
    ('uncollapse', [None, 'one', 'deep', 'fn']),
    ('name', [None, 'hostile', 'int', 'plain']),
    ('root_path', [None, 'hostile']),
    ('css_classes', [None, ['my-class'], ['c1', 'simple-value', 'c1', 'pyglove']]),
    ('summary_color', [None, ('red', None), ('#fff', 'rgb(1, 2, 3)'), 'fn']),
    ('key_color', [None, (None, 'blue'), ('white', 'darkblue'), 'fn']),
    ('highlight', [None, 'fn']),
    ('lowlight', [None, 'fn']),
    ('extra_flags', [None, dict(hide_default_values=True), dict(hide_frozen=False, use_inferred=True)]),
    ('title', [None, 'plain', 'hostile', 'empty']),
]
DEFAULTS = {k: v[0] for k, v in OPTION_SPACE}

def pairwise(space, rng, tries=40):
  """Greedy covering array of strength 2."""
  names = [n for n, _ in space]
  uncovered = set()
  for (i, (_, vi)), (j, (_, vj)) in itertools.combinations(list(enumerate(space)), 2):
    for a in range(len(vi)):
      for b in range(len(vj)):
        uncovered.add((i, a, j, b))
  rows = []
  while uncovered:
    best, best_gain = None, -1
    for _ in range(tries):
      row = [rng.randrange(len(v)) for _, v in space]
      # seed the row with one uncovered pair so progress is guaranteed
      (i, a, j, b) = next(iter(uncovered)) if _ == 0 else rng.choice(list(uncovered)) if len(uncovered) < 50 else (0, row[0], 1, row[1])
      row[i], row[j] = a, b
      gain = sum(1 for (i2, j2) in itertools.combinations(range(len(space)), 2) if (i2, row[i2], j2, row[j2]) in uncovered)
      if gain > best_gain:
        best, best_gain = row, gain
    rows.append(best)
    for (i2, j2) in itertools.combinations(range(len(space)), 2):
      uncovered.discard((i2, best[i2], j2, best[j2]))
  return [{names[i]: space[i][1][c] for i, c in enumerate(row)} for row in rows]

def all_paths(value, prefix=()):
  items = child_items(value)
  out = []
  for k, v in (items or []):
    out.append(prefix + (k,))
    out.extend(all_paths(v, prefix + (k,)))
  return out

def path_pred(salt, mod=3):
  """A deterministic callback (path, value, parent) -> bool that depends on all three."""
  # (sentinel numbers, not the characters of the keys: the data-independence twin has the same numbering but other characters)
  return lambda k, v, p: (sum(int(m[2:-1]) for m in SENT_RE.findall(str(k))) + len(k) + (3 if isinstance(v, str) else 5 if isinstance(v, (dict, list, tuple)) else 0)
                          + (7 if isinstance(p, (list, tuple)) else 0) + salt) % mod == 0

def resolve_options(sym, value, rng, data):
  """Turns symbolic choices into concrete to_html_str keyword arguments + the model's option record."""
  from pyglove.core import utils
  kw = {}
  items = child_items(value) or []
  keys = [k for k, _ in items]
  salt = rng.randrange(100)
  for name in ('enable_summary', 'enable_summary_for_str', 'max_summary_len_for_str', 'enable_summary_tooltip', 'enable_key_tooltip', 'key_style', 'collapse_level',
               'css_classes', 'summary_color', 'key_color', 'highlight', 'lowlight', 'extra_flags'):
    if name not in sym:
      continue
    if sym[name] == 'fn':
      pr = path_pred(salt + len(name))
      kw[name] = ((lambda pr: lambda k, v, p: 'label' if pr(k, v, p) else 'summary')(pr) if name == 'key_style' else
                  (lambda pr: lambda k, v, p: ('red', None) if pr(k, v, p) else (None, 'silver') if isinstance(v, str) else (None, None))(pr) if name in ('summary_color', 'key_color') else
                  path_pred(salt + len(name), 2 if name in ('highlight', 'lowlight') else 3))
    elif sym[name] != DEFAULTS[name] or rng.random() < 0.3:
      if sym[name] is not None or name not in ('highlight', 'lowlight', 'extra_flags'):
        kw[name] = sym[name]
  root = []
  if sym['root_path'] == 'hostile':
    root = [data.s('root-path-key'), rng.choice([0, 2]), data.s('root-path-key')][:rng.randint(1, 3)]
    kw['root_path'] = utils.KeyPath(list(root))
  inc = sym['include_keys']
  if inc == 'fn': kw['include_keys'] = (lambda pr: lambda k, v, p: not pr(k, v, p))(path_pred(salt + 1, 4))
  elif inc == 'some': kw['include_keys'] = [k for k in keys if rng.random() < 0.6][::rng.choice([1, -1])]
  elif inc == 'none': kw['include_keys'] = []
  elif inc == 'all+absent': kw['include_keys'] = list(keys) + ['absent<b>', 99] + keys[:1]
  exc = sym['exclude_keys']
  if exc == 'fn': kw['exclude_keys'] = path_pred(salt + 2, 4)
  elif exc == 'some': kw['exclude_keys'] = [k for k in keys if rng.random() < 0.4] + ['absent']
  elif exc == 'all': kw['exclude_keys'] = list(keys)
  unc = sym['uncollapse']
  paths = all_paths(value)
  if unc == 'fn':
    kw['uncollapse'] = path_pred(salt + 3, 2)
  elif unc and paths:
    chosen = [rng.choice(paths)] if unc == 'one' else [max(paths, key=len), rng.choice(paths)]
    chosen = [c for c in chosen if '$' not in c]
    kw['uncollapse'] = [utils.KeyPath(root + list(c)) for c in chosen]
  tt = sym.get('title')
  if tt == 'plain': kw['title'] = 'A plain title'
  elif tt == 'hostile': kw['title'] = data.s('title')
  elif tt == 'empty': kw['title'] = ''
  nm = sym['name']
  if nm == 'hostile': kw['name'] = data.s('root-name')
  elif nm == 'int': kw['name'] = 7
  elif nm == 'plain': kw['name'] = 'plain_name'
  return kw

def all_nodes(value, prefix=()):
  """(path, child value, parent) for every node below `value`."""
  out = []
  for k, v in (child_items(value) or []):
    out.append((prefix + (k,), v, value))
    out.extend(all_nodes(v, prefix + (k,)))
  return out

def model_options(kw, value=None):
  """Model/Html.v opts record for a set of keyword arguments (all modelled).  Callable options become the table of their
  results on the nodes of `value`."""
  from pyglove.core import utils
  g = lambda k: kw.get(k, DEFAULTS.get(k))
  keylist = lambda l: [enc_key(k) for k in l]
  root = list(kw['root_path'].keys) if 'root_path' in kw else []
  nodes = all_nodes(value) if value is not None else []
  kp = lambda path: utils.KeyPath(root + list(path))
  table = lambda fn, pred=bool: [keylist(root + list(path)) for path, v, parent in nodes if pred(fn(kp(path), v, parent))]
  callable_or = lambda k: kw.get(k) if callable(kw.get(k)) else None
  inc, exc, ks, unc, kc, sc = (callable_or(k) for k in ('include_keys', 'exclude_keys', 'key_style', 'uncollapse', 'key_color', 'summary_color'))
  if sc is not None:
    scolor = sc(kp(()), value, None)
  else:
    scolor = kw.get('summary_color') or (None, None)
  color = lambda c: [trlib.opt(c[0]), trlib.opt(c[1])]
  return [trlib.opt(kw.get('name'), enc_key), keylist(root), trlib.opt(g('enable_summary')), trlib.enc(bool(g('enable_summary_for_str'))),
          g('max_summary_len_for_str'), trlib.enc(bool(g('enable_summary_tooltip'))), trlib.enc(bool(g('enable_key_tooltip'))),
          1 if g('key_style') == 'label' else 0,
          trlib.opt(None if inc else kw.get('include_keys'), keylist), trlib.opt(None if exc else kw.get('exclude_keys'), keylist), trlib.opt(g('collapse_level'), lambda z: z),
          [] if unc else [keylist(list(p.keys)) for p in kw.get('uncollapse', [])],
          [trlib.enc(c) for c in (kw.get('css_classes') or [])],
          color(scolor), color((None, None) if kc else (kw.get('key_color') or (None, None))),
          table(kw['highlight']) if kw.get('highlight') else [], table(kw['lowlight']) if kw.get('lowlight') else [],
          [table(ks, lambda r: r == 'label')] if ks else [],
          [table(inc)] if inc else [], [table(exc)] if exc else [],
          [([keylist(root)] if unc(kp(()), value, None) else []) + table(unc)] if unc else [],
          [[[keylist(root + list(path)), color(kc(kp(path), v, parent))] for path, v, parent in nodes]] if kc else [],
          trlib.opt(kw.get('title'))]

MODELLED = {'name', 'root_path', 'enable_summary', 'enable_summary_for_str', 'max_summary_len_for_str', 'enable_summary_tooltip', 'enable_key_tooltip',
            'key_style', 'include_keys', 'exclude_keys', 'collapse_level', 'uncollapse', 'css_classes', 'summary_color', 'key_color',
            'highlight', 'lowlight', 'extra_flags', 'title'}

# ------------------------------------------------------------------------------------------------
# cases: a value and keyword arguments, rebuilt deterministically from seeds (so a replay file is small)
import random

def build_case(spec):
  """spec: dict(kind='gen', sseed, dseed, hostile, sym, depth) | dict(kind='literal', value=<json>, kw=<json>, cls=<name>?)
  returns (value, kw, data)"""
  if spec['kind'] == 'literal':
    data = Data(random.Random(0))
    value = spec['value']
    if spec.get('cls') is not None:
      value = object_class(spec['cls'], len(value))(**{'f%d' % i: v for i, v in enumerate(value)})
    if spec.get('opaque'):
      value = Opaque(value)
    kw = dict(spec.get('kw', {}))
    def note(x, role):
      if isinstance(x, str):
        for m in SENT_RE.findall(x):
          data.roles[m] = role; data.text[m] = x
      elif isinstance(x, dict):
        for k, v in x.items():
          note(k, 'dict-key'); note(v, 'leaf-str')
      elif isinstance(x, (list, tuple)):
        for v in x:
          note(v, 'leaf-str')
    note(spec['value'], 'opaque-repr' if spec.get('opaque') else 'leaf-str'); note(spec.get('cls'), 'class-name'); note(kw.get('name'), 'root-name')
    return value, kw, data
  srng = random.Random(spec['sseed'])
  data = Data(random.Random(spec['dseed']), hostile=spec['hostile'], neutral=spec.get('neutral', False))
  data.exotic = spec.get('extra') == 'exotic'
  value = gen_value(srng, data, spec['depth'])
  while not child_items(value) and srng.random() < 0.85:     # mostly non-empty containers at the root
    value = gen_value(srng, data, spec['depth'])
  kw = resolve_options(spec['sym'], value, srng, data)
  kw.update(extra_options(spec.get('extra'), value, srng, data))
  return value, kw, data

def extra_options(extra, value, rng, data):
  """Options that the model does not cover (oracle only)."""
  if not extra or extra == 'exotic':
    return {}
  if extra == 'debug': return dict(debug=True)
  if extra == 'css_classes': return dict(css_classes=['my-class', 'other'])
  if extra == 'title': return dict(title='A plain title')
  if extra == 'colors': return dict(summary_color=('red', 'blue'), key_color=('white', None))
  if extra == 'color_fn': return dict(summary_color=lambda k, v, p: ('red', None) if isinstance(v, (dict, list)) else (None, 'yellow'), key_color=lambda k, v, p: (None, 'gray') if len(k) % 2 else ('green', None) if isinstance(v, str) else (None, None), name='colored')
  if extra == 'highlight': return dict(highlight=lambda k, v, p: isinstance(v, str) or len(k) == 2, lowlight=lambda k, v, p: isinstance(v, (int, str)) and not isinstance(p, list))
  if extra == 'key_style_fn': return dict(key_style=lambda k, v, p: 'label' if isinstance(v, (str, int)) else 'summary')
  if extra == 'include_fn': return dict(include_keys=lambda k, v, p: not isinstance(v, float), exclude_keys=lambda k, v, p: v is None)
  if extra == 'uncollapse_fn': return dict(uncollapse=lambda k, v, p: len(k) % 2 == 0, collapse_level=0)
  if extra == 'hide_default': return dict(extra_flags=dict(hide_default_values=True, hide_frozen=False, use_inferred=True))
  if extra == 'child_config':
    # utils.merge (view_options) reads the keys of an option dict as key paths: only path-safe keys can be configured
    keys = [k for k, _ in (child_items(value) or []) if not (isinstance(k, str) and any(c in k for c in '.[]'))]
    return dict(child_config={k: dict(collapse_level=None, enable_summary_tooltip=False) for k in keys[:1]} | {'__default__': dict(key_style='label')})
  raise ValueError(extra)
EXTRAS = ['exotic', 'debug', 'color_fn', 'highlight', 'key_style_fn', 'include_fn', 'uncollapse_fn', 'hide_default', 'child_config']

def render(value, kw, content_only=True, scoped=()):
  """pg.to_html_str; the options named in `scoped` are given by an enclosing pg.view_options(...) scope instead of as arguments."""
  if scoped:
    outer = {k: v for k, v in kw.items() if k in scoped}
    inner = {k: v for k, v in kw.items() if k not in scoped}
    with pg().view_options(**outer):
      return pg().to_html_str(value, content_only=content_only, **inner)
  return pg().to_html_str(value, content_only=content_only, **kw)

SCOPABLE = ('enable_summary', 'enable_summary_for_str', 'max_summary_len_for_str', 'enable_summary_tooltip', 'enable_key_tooltip', 'key_style', 'collapse_level',
            'include_keys', 'exclude_keys', 'css_classes', 'summary_color', 'key_color', 'uncollapse')

class Exploding:
  """An object whose repr raises: rendering must propagate the error and leave no per-thread state behind."""
  def __repr__(self): raise RuntimeError('boom')

def shape_of(value):
  items = child_items(value)
  if not items:
    return (1, 0)
  subs = [shape_of(v) for _, v in items]
  return (1 + sum(n for n, _ in subs), 1 + max(d for _, d in subs))

def snap(value):
  items = child_items(value)
  if items is None:
    return (type(value).__name__, repr(value))
  return (type(value).__name__, tuple((repr(k), snap(v)) for k, v in items))

def json_or_none(value):
  try:
    return json.dumps(pg().to_json(value), sort_keys=True, default=repr)
  except Exception as e:   # values holding non-symbolic objects have no JSON form
    return 'unserialisable:' + type(e).__name__

def tls_state():
  from pyglove.core import utils
  from pyglove.core.views import base as vbase
  return (utils.thread_local_get(vbase._TLS_KEY_OPERAND_STACK_BY_METHOD, None) or None, utils.thread_local_get(vbase._TLS_KEY_VIEW_OPTIONS, None) or None)

VOCAB_TAGS = {'details', 'summary', 'div', 'span', 'table', 'tr', 'td'}
VOCAB_ATTRS = {'class', 'style'}
VOCAB_OPTS = {'open'}

def context_of(out, idx):
  """Where in the document position idx lies: inside a tag (which attribute) or in the text of which element."""
  lt, gt = out.rfind('<', 0, idx), out.rfind('>', 0, idx)
  if lt > gt:
    m = re.search(r'([A-Za-z][\w-]*)="[^"]*$', out[lt:idx])
    return 'attr-' + (m.group(1) if m else 'unknown')
  m = None
  for m in re.finditer(r'class="([^" ]*)', out[:idx]):
    pass
  return 'text-of-' + (m.group(1) if m else 'unknown')

def expected_visible(value, kw):
  """Keys and leaves the options ask to show: [(what, role-ish, text)]. The same notion as Proofs/Html: visible."""
  es, fs = kw.get('enable_summary'), kw.get('enable_summary_for_str', True)
  maxlen = kw.get('max_summary_len_for_str', 80)
  out = []
  def has_summary_with_name(v):
    if es is not None: return es
    if isinstance(v, str) and not fs: return False
    return True
  def go(v, depth, path):
    items = child_items(v)
    if items is None:
      if isinstance(v, str):
        out.append(('leaf', repr(v) if len(v) < maxlen else v))
      else:
        from pyglove.core import utils
        out.append(('leaf', utils.format(v, compact=False, verbose=False, hide_default_values=True, python_format=True, use_inferred=True, max_bytes_len=64)))
      return
    keys = [k for k, _ in items]
    d = dict(items)
    inc, exc, ks = kw.get('include_keys'), kw.get('exclude_keys'), kw.get('key_style', 'summary')
    if kw.get('child_config'):
      return None
    kp = lambda k: utils_.KeyPath(root + path + [k])
    if callable(inc): keys = [k for k in keys if inc(kp(k), d[k], v)]          # a callable filter is asked at every level
    elif depth == 0 and inc is not None: keys = [k for k in inc if k in d]
    if callable(exc): keys = [k for k in keys if not exc(kp(k), d[k], v)]
    elif depth == 0 and exc is not None: keys = [k for k in keys if k not in set(exc)]
    for k in keys:
      c = d[k]
      style = 'label' if isinstance(v, (tuple, list)) else (ks(kp(k), c, v) if callable(ks) else ks)
      if style == 'label':
        out.append(('key', str(k)))
      elif has_summary_with_name(c):
        out.append(('key', '[%d]' % k if isinstance(k, int) else k))
      go(c, depth + 1, path + [k])
  from pyglove.core import utils as utils_
  root = list(kw['root_path'].keys) if 'root_path' in kw else []
  with view_flags(kw.get('extra_flags')):
    go(value, 0, [])
  return out

def oracle(value, kw, data, twin=None, presence=True):
  """The property on the real output.  Returns [(signature, what)]."""
  hits = []
  before, jbefore, tls0 = snap(value), json_or_none(value), tls_state()
  try:
    out = render(value, kw)
    full = render(value, kw, content_only=False)
  except Exception as e:
    return [('C20/raises/%s' % type(e).__name__, 'rendering raises %s: %s' % (type(e).__name__, str(e)[:120]))]
  if snap(value) != before or json_or_none(value) != jbefore:
    hits.append(('C20/value-modified', 'rendering changed the value'))
  if tls_state() != tls0:
    hits.append(('C20/view-state-leak', 'per-thread view options / rendering stack not restored after rendering'))
  # (a) unescaped occurrences of a datum
  seen = set()
  for sent, d in data.text.items():
    esc = html_lib.escape(d)
    if esc == d:
      continue
    i = out.find(d)
    while i >= 0:
      if out[i:i + len(esc)] != esc:
        ctx_ = context_of(out, i)
        sig = 'C20/unescaped/%s/%s' % (data.roles[sent], ctx_)
        if sig not in seen:
          seen.add(sig)
          hits.append((sig, '%s %r is written without escaping (%s): ...%s...' % (data.roles[sent], d, ctx_, out[max(0, i - 40):i + len(d) + 20])))
      i = out.find(d, i + 1)
  # (b) strict tokenisation, balanced
  tree = None
  try:
    tree = strict_parse(out)
  except Reject as r:
    if not seen:
      hits.append(('C20/malformed/%s/%s' % (r.why, context_of(out, r.pos)), 'output is not well formed: %s; ...%s...' % (r, out[max(0, r.pos - 60):r.pos + 30])))
  if tree is not None:
    # (c) vocabulary and sentinel positions
    ntext = 0
    for t in walk(tree):
      if t[0] == 1:
        ntext += len(SENT_RE.findall(t[1]))
      elif t[0] == 3:     # a <style>/<script> element inside the content: no view writes one there
        hits.append(('C20/vocabulary/element/%s' % t[1], 'the content contains a <%s> element' % t[1]))
      else:
        bad = ([('element', t[1])] if t[1] not in VOCAB_TAGS else []) + [('option', o) for o in t[2] if o not in VOCAB_OPTS] + [('attribute', a) for a, _ in t[3] if a not in VOCAB_ATTRS]
        for what, nm in bad:
          hits.append(('C20/vocabulary/%s/%s' % (what, nm if not SENT_RE.search(nm) else 'data'), 'the output contains %s %r which no view emits' % (what, nm)))
        ntext += sum(len(SENT_RE.findall(v)) for _, v in t[3])
    if ntext != len(SENT_RE.findall(out)):
      hits.append(('C20/sentinel-outside-text', 'a datum occurs outside text / quoted attribute value position'))
    # (d) Python's html.parser sees the same document
    if stdlib_events(out) != tree_events(tree):
      hits.append(('C20/tokenizer-disagreement', 'html.parser and the strict tokenizer read different documents'))
    # (e) every visible key and leaf is present as text
    texts = [t[1] for t in walk(tree) if t[0] == 1]
    vis = expected_visible(value, kw) if presence else []
    for what, text in (vis or []):
      if text and not any(text == x if what == 'key' else text in x for x in texts):
        hits.append(('C20/missing/%s' % what, '%s %r is not present as text in the output' % (what, text))); break
  # (f) document wrapper and constant blocks
  m = re.fullmatch(r'<html>\n<head>\n(.*)\n</head>\n<body>\n(.*)\n</body>\n</html>', full, re.S)
  if not m or m.group(2) != out:
    hits.append(('C20/document-wrapper', 'full document is not <html><head>blocks</head><body>content</body></html> around the content'))
  else:
    head = m.group(1)
    if SENT_RE.search(head):
      hits.append(('C20/data-in-head', 'a datum occurs inside a <style>/<script> block'))
    blocks = re.fullmatch(r'(<style>\n.*?\n</style>)?\n?(<script>\n.*?\n</script>)?', head, re.S)
    if not blocks or '</style' in (blocks.group(1) or '')[7:-8] or '</script' in (blocks.group(2) or '')[8:-9]:
      hits.append(('C20/head-blocks', 'head is not a <style> block followed by an optional <script> block'))
    if twin is not None:
      tv, tkw = twin
      tfull = render(tv, tkw, content_only=False)
      tm = re.fullmatch(r'<html>\n<head>\n(.*)\n</head>\n<body>\n(.*)\n</body>\n</html>', tfull, re.S)
      if not tm or tm.group(1) != head:
        hits.append(('C20/head-depends-on-data', 'the <style>/<script> blocks differ between two assignments of the data'))
  return hits

# ------------------------------------------------------------------------------------------------
# arbitrary trees built with nested Html.element calls: ties Model/Html.v render to Html.element itself (not only to the tree view)
GOOD_NAMES = ['div', 'span', 'details', 'summary', 'table', 'tr', 'td', 'p', 'a', 'b', 'h1', 'x-y', 'A1', 'ul', 'li', 'q_r']
BAD_NAMES = ['1a', '', 'a b', 'a>', 'style', 'script', 'é', 'a"b', '-a', 'a=b', 'a/b']
ATTR_NAMES = ['id', 'title', 'data-x', 'href', 'aria-label', 'onclick']

def gen_tree(rng, depth, bad=0.06):
  r = rng.random()
  frag = lambda: ''.join(rng.choice(FRAGMENTS + ['a', 'text', 'ZQ1X']) for _ in range(rng.randint(0, 3)))
  if depth <= 0 or r < 0.3:
    return [1, frag()]
  if r < 0.3 + bad / 2:
    return [2, frag()]
  if r < 0.3 + bad:
    return [3, rng.choice(['style', 'script', 'style', 'div']), rng.choice(['a { b: c; }', 'x > y & "z"', 'a<b', '', '</style>'])]
  name = lambda: rng.choice(BAD_NAMES) if rng.random() < bad else rng.choice(GOOD_NAMES)
  opts = []
  for _ in range(rng.choice([0, 0, 0, 1, 1, 2])):
    o = rng.choice(['open', 'hidden', 'checked', 'x-y']) if rng.random() > bad else rng.choice(BAD_NAMES[:3] + ['a b'])
    if o not in opts and o != '':
      opts.append(o)
  attrs = []
  if rng.random() < 0.4: attrs.append(['class', frag() or 'c'])
  if rng.random() < 0.2: attrs.append(['style', frag() or 'color:red;'])
  for a in rng.sample(ATTR_NAMES, rng.choice([0, 0, 1, 2])):
    attrs.append([a, frag()])
  return [0, name(), opts, attrs, [gen_tree(rng, depth - 1, bad) for _ in range(rng.choice([0, 1, 1, 2, 3]))]]

def build_tree(t):
  from pyglove.core.views.html.base import Html
  if t[0] == 1: return Html.escape(t[1])
  if t[0] == 2: return t[1]
  if t[0] == 3: return Html.element(t[1], [t[2]])
  kw = {}
  for n, v in t[3]:
    if n == 'class': kw['css_classes'] = Html.escape(v)
    elif n == 'style': kw['styles'] = Html.escape(v)
    else: kw[n.replace('-', '_')] = Html.escape(v)
  return Html.element(t[1], [build_tree(k) for k in t[4]], options=t[2] or None, **kw)

def py_name_ok(n):
  return bool(n) and n[0] in NAME_START and all(c in NAME_CHAR for c in n)

def py_names_ok(t):
  if t[0] == 1: return True
  if t[0] == 2: return False
  if t[0] == 3: return t[1] in RAW_TAGS and '<' not in t[2]
  return (py_name_ok(t[1]) and t[1] not in RAW_TAGS and all(py_name_ok(o) for o in t[2]) and all(py_name_ok(a) for a, _ in t[3])
          and all(py_names_ok(k) for k in t[4]))

def py_normalize(ts):
  out, txt = [], ''
  for t in ts:
    if t[0] in (1, 2):
      txt += t[1]
    else:
      if txt: out.append([1, txt]); txt = ''
      out.append([0, t[1], t[2], t[3], py_normalize(t[4])] if t[0] == 0 else [3, t[1], t[2]])
  if txt: out.append([1, txt])
  return out

# ------------------------------------------------------------------------------------------------
# HTML controls (views/html/controls): oracle only.  Data: label text, tooltip text, sub-progress names, tab labels and the
# values shown in tab contents.  Trusted (benign in the cases): id, css_classes, styles, link, target, for_element.
CONTROL_KINDS = ['label', 'label+tooltip', 'badge', 'label-link', 'label-group', 'tooltip', 'tabs', 'progress', 'label-markup', 'tooltip-markup']
CTRL_TAGS = VOCAB_TAGS | {'a', 'button'}
CTRL_ATTRS = VOCAB_ATTRS | {'id', 'href', 'target', 'onclick'}

def build_control(spec):
  from pyglove.core.views.html import controls as c
  p = pg()
  r = random.Random(spec['cseed'])
  data = Data(random.Random(spec['dseed']), hostile=True, neutral=spec.get('neutral', False))
  k = spec['which']
  shown = []      # texts that must be present
  def text(role):
    t = data.s(role); shown.append(t); return t
  if k == 'label': ctl = c.Label(text('label-text'))
  elif k == 'label+tooltip': ctl = c.Label(text('label-text'), tooltip=c.Tooltip(text('tooltip-text')), css_classes=['my-label'], styles=dict(color='red'))
  elif k == 'badge': ctl = c.Badge(text('label-text'), id='badge-1')
  elif k == 'label-link': ctl = c.Label(text('label-text'), link='https://example.com/a?b=1', target='_blank')
  elif k == 'label-group': ctl = c.LabelGroup([c.Label(text('label-text')), c.Badge(text('label-text'), tooltip=text('tooltip-text'))], name=c.Label(text('label-text')))
  elif k == 'tooltip': ctl = c.Tooltip(text('tooltip-text'), for_element='.some-element')
  elif k == 'label-markup':      # the text is an Html object: application markup around escaped data
    ctl = c.Label(p.Html.element('span', [p.Html.escape(text('label-text')), p.Html.element('div', [p.Html.escape(text('label-text'))], css_classes=['inner'])]) + p.Html.escape(text('label-text')),
                  tooltip=c.Tooltip(text('tooltip-text')) if r.random() < 0.5 else None)
  elif k == 'tooltip-markup':
    ctl = c.Tooltip(p.Html.element('div', [p.Html.escape(text('tooltip-text'))], css_classes=['rich']), for_element='.some-element')
  elif k == 'tabs':
    tabs = []
    for i in range(r.randint(1, 3)):
      content = r.choice(['dict', 'label', 'html'])
      if content == 'dict': cont = p.Dict({data.s('dict-key', pathsafe=True): data.s('leaf-str')})
      elif content == 'label': cont = c.Label(text('label-text'))
      else: cont = p.Html('<span>constant</span>')
      tabs.append(c.Tab(label=c.Label(text('label-text')), content=cont, name='tab%d' % i))
    ctl = c.TabControl(tabs, selected=0, tab_position=r.choice(['top', 'left']))
  elif k == 'progress':
    ctl = c.ProgressBar([c.SubProgress(name=data.s('subprogress-name'), value=r.randint(0, 5)) for _ in range(r.randint(1, 3))], total=r.choice([None, 10]))
  else:
    raise ValueError(k)
  return ctl, data, shown

def oracle_control(spec):
  ctl, data, shown = build_control(spec)
  return control_hits(spec['which'], ctl, data, shown)

def control_hits(which, ctl, data, shown):
  """The oracle on one rendering of a control: (hits, content)."""
  spec = dict(which=which)
  hits = []
  csnap = lambda: pg().format(ctl, compact=True, verbose=True, hide_default_values=False)   # (to_json pickles pg.Html objects, whose lazily cached content makes the pickle differ)
  jbefore = csnap()
  try:
    out = ctl.to_html_str(content_only=True)
    full = ctl.to_html_str()
  except Exception as e:
    return [('C20/control-raises/%s/%s' % (spec['which'], type(e).__name__), 'rendering a %s control raises %s: %s' % (spec['which'], type(e).__name__, str(e)[:120]))], None
  if csnap() != jbefore:
    hits.append(('C20/control-value-modified/%s' % spec['which'], 'rendering changed the control'))
  seen = set()
  for sent, d in data.text.items():
    esc = html_lib.escape(d)
    if esc == d:
      continue
    i = out.find(d)
    while i >= 0:
      if out[i:i + len(esc)] != esc:
        sig = 'C20/unescaped/%s/%s' % (data.roles[sent], context_of(out, i))
        if sig not in seen:
          seen.add(sig); hits.append((sig, '%s %r is written without escaping in a %s control: ...%s...' % (data.roles[sent], d, spec['which'], out[max(0, i - 40):i + len(d) + 20])))
      i = out.find(d, i + 1)
  tree = None
  try:
    tree = strict_parse(out, apos_in_attr=True)
  except Reject as r:
    if not seen:
      hits.append(('C20/control-malformed/%s/%s/%s' % (spec['which'], r.why, context_of(out, r.pos)), 'control output is not well formed: %s; ...%s...' % (r, out[max(0, r.pos - 60):r.pos + 30])))
  if tree is not None:
    n = 0
    for t in walk(tree):
      if t[0] == 1:
        n += len(SENT_RE.findall(t[1]))
      elif t[0] == 3:
        hits.append(('C20/control-vocabulary/element/%s' % t[1], 'the %s control content contains a <%s> element' % (spec['which'], t[1])))
      else:
        for what, nm in ([('element', t[1])] if t[1] not in CTRL_TAGS else []) + [('option', o) for o in t[2] if o not in VOCAB_OPTS] + [('attribute', a) for a, _ in t[3] if a not in CTRL_ATTRS]:
          hits.append(('C20/control-vocabulary/%s/%s' % (what, nm if not SENT_RE.search(nm) else 'data'), 'the %s control output contains %s %r' % (spec['which'], what, nm)))
        n += sum(len(SENT_RE.findall(v)) for _, v in t[3])
    if n != len(SENT_RE.findall(out)):
      hits.append(('C20/control-sentinel-outside-text/%s' % spec['which'], 'a datum occurs outside text / quoted attribute value position'))
    texts = [t[1] for t in walk(tree) if t[0] == 1]
    for d in shown:
      if not any(d in x for x in texts):
        hits.append(('C20/control-missing-text/%s' % spec['which'], 'text %r is not present in the %s control output' % (d, spec['which']))); break
    if stdlib_events(out) != tree_events(tree):
      hits.append(('C20/control-tokenizer-disagreement/%s' % spec['which'], 'html.parser and the strict tokenizer read different documents'))
  m = re.fullmatch(r'<html>\n<head>\n(.*)\n</head>\n<body>\n(.*)\n</body>\n</html>', full, re.S)
  if not m or m.group(2) != out:
    hits.append(('C20/control-document-wrapper/%s' % spec['which'], 'full document is not head + body around the content'))
  elif SENT_RE.search(m.group(1)):
    hits.append(('C20/control-data-in-head/%s' % spec['which'], 'a datum occurs inside a <style>/<script> block'))
  return hits, out

# ------------------------------------------------------------------------------------------------
# controls -> Model/HtmlCtl.v ctl (wire format documented there)
class NotModelled(Exception):
  pass

def conv_common(ctl, id_, styles=None):
  st = ctl.styles if styles is None else styles
  return [trlib.opt(id_), [trlib.enc(x) for x in ctl.css_classes], [[trlib.enc(k.replace('_', '-')), trlib.enc(str(v))] for k, v in st.items() if v is not None]]

def markup_trees(html):
  """The trees of an Html object's content (application markup), or NotModelled when the strict grammar does not cover it."""
  t = strict_parse_opt(html.content)
  if t is None or any(x[0] == 3 for x in walk(t)):
    raise NotModelled('markup outside the strict grammar')
  return [enc_tree(x) for x in t]

def conv_label(l):
  markup = None if isinstance(l.text, str) else markup_trees(l.text)
  tip = None
  if l.tooltip is not None:
    if not isinstance(l.tooltip.content, str):
      raise NotModelled('markup tooltip')
    tip = [conv_common(l.tooltip, l.tooltip.element_id()), trlib.enc(l.tooltip.content)]
  return [conv_common(l, l.element_id()), trlib.opt(l.link), trlib.opt(l.target), trlib.enc(l.text if markup is None else ''), [] if tip is None else [tip],
          [] if markup is None else [markup]]

def conv_control(ctl):
  from pyglove.core.views.html import controls as c
  from pyglove.core import utils
  p = pg()
  if isinstance(ctl, c.Label):
    return [0, conv_label(ctl)]
  if isinstance(ctl, c.Tooltip):
    if not isinstance(ctl.content, str):
      return [5, conv_common(ctl, ctl.element_id()), markup_trees(ctl.content)]
    return [1, conv_common(ctl, ctl.element_id()), trlib.enc(ctl.content)]
  if isinstance(ctl, c.LabelGroup):
    return [2, conv_common(ctl, ctl.id or None), [] if ctl.name is None else [conv_label(ctl.name)], [conv_label(l) for l in ctl.labels]]
  if isinstance(ctl, c.ProgressBar):
    subs = []
    for sp in ctl.subprogresses:
      st = dict(sp.styles); st.update(width=sp.width)
      subs.append([conv_common(sp, sp.element_id(), st), trlib.enc(utils.camel_to_snake(sp.name, '-'))])
    return [3, subs, conv_label(ctl._progress_label)]
  if isinstance(ctl, c.TabControl):
    tabs = []
    for i, t in enumerate(ctl.tabs):
      if isinstance(t.content, c.Label): cont = [0, conv_label(t.content)]
      elif isinstance(t.content, (p.Dict, p.List)): cont = [1, model_options({}), conv(t.content, [])]
      else: raise NotModelled('tab content')
      tabs.append([conv_label(t.label), [trlib.enc(x) for x in t.css_classes], trlib.opt(ctl.element_id(str(i))), cont])
    return [4, conv_common(ctl, None), 1 if ctl.tab_position == 'left' else 0, ctl.selected, trlib.opt(ctl.element_id()),
            trlib.opt(ctl.element_id('button-group')), trlib.opt(ctl.element_id('content-group')), tabs]
  raise NotModelled(type(ctl).__name__)

def normalise_onclick(out):
  """The one normalisation: inside onclick="..." the code writes raw apostrophes, the model writes them as &#x27; (the same attribute value)."""
  return re.sub(r'onclick="([^"]*)"', lambda m: 'onclick="' + m.group(1).replace("'", '&#x27;') + '"', out)

def py_lex_js_string(l):
  """Model/HtmlCtl.v lex_js_string."""
  if not l or l[0] != '"':
    return None
  acc, i, n = [], 1, len(l)
  while i < n:
    ch = l[i]
    if ch == '\\':
      if i + 1 >= n or l[i + 1] not in JS_UNESC: return None
      acc.append(JS_UNESC[l[i + 1]]); i += 2
    elif ch == '"':
      return [''.join(acc), l[i + 1:]]
    elif ch in '\r\n':
      return None
    else:
      acc.append(ch); i += 1
  return None

# ------------------------------------------------------------------------------------------------
# histories: rendering, updating interactive controls (which emits JavaScript) and rendering again, in one process, over a
# shared pool of hostile strings.  Every output of the sequence goes through the oracle; so does every update script.
JS_UNESC = {'n': '\n', 'r': '\r', 't': '\t', '\\': '\\', '"': '"', "'": "'"}

def js_escape_ref(s):
  """What Html.escape(s, javascript_str=True) is documented to do (reference for the differential check)."""
  return s.replace('\\', '\\\\').replace('"', '\\"').replace('\r', '\\r').replace('\n', '\\n').replace('\t', '\\t')

def js_literals(code):
  """Lexes the string literals of a script.  Returns ([(quote, decoded)], [problem])."""
  lits, problems, i, n = [], [], 0, len(code)
  while i < n:
    c = code[i]
    if code.startswith('//', i):
      j = code.find('\n', i); i = n if j < 0 else j + 1
    elif code.startswith('/*', i):
      j = code.find('*/', i + 2); i = n if j < 0 else j + 2
    elif c in '"\'':
      j, buf = i + 1, []
      while True:
        if j >= n:
          problems.append('unterminated-string-literal'); break
        d = code[j]
        if d == '\\':
          e = code[j + 1] if j + 1 < n else ''
          if e not in JS_UNESC:
            problems.append('bad-escape-in-string-literal'); buf.append(e)
          else:
            buf.append(JS_UNESC[e])
          j += 2; continue
        if d in '\n\r':
          problems.append('raw-newline-in-string-literal'); break
        if d == c:
          break
        buf.append(d); j += 1
      stmt = code[code.rfind(';', 0, i) + 1:i].rstrip()
      markup = c == '"' and (('innerHTML' in stmt and stmt.endswith('=')) or ('insertAdjacentHTML' in stmt and stmt.endswith(',')))
      lits.append(('markup' if markup else c, ''.join(buf))); i = j + 1
    else:
      i += 1
  return lits, problems

def script_hits(scripts, expect_texts, data, where):
  """The oracle on update scripts: every string literal is closed on its line; each updated text is the value of a literal
  (so it reaches textContent unchanged); every literal holding markup (innerHTML / insertAdjacentHTML) passes the HTML oracle."""
  hits = []
  all_lits = []
  for code in scripts:
    lits, problems = js_literals(code)
    for pr in problems:
      hits.append(('C20/update-script/%s/%s' % (where, pr), 'an update script has a broken string literal (%s): %s' % (pr, code[:200])))
    all_lits += [v for _, v in lits]
    for q, v in lits:
      if q == 'markup':
        try:
          tree = strict_parse(v, apos_in_attr=True)
        except Reject as r:
          hits.append(('C20/update-script/%s/markup-malformed/%s' % (where, r.why), 'markup passed to innerHTML / insertAdjacentHTML is not well formed: %s ...%s...' % (r, v[max(0, r.pos - 50):r.pos + 30])))
          continue
        n = 0
        for t in walk(tree):
          if t[0] == 1: n += len(SENT_RE.findall(t[1]))
          elif t[0] == 0:
            n += sum(len(SENT_RE.findall(x)) for _, x in t[3])
            if t[1] not in CTRL_TAGS or any(a not in CTRL_ATTRS for a, _ in t[3]):
              hits.append(('C20/update-script/%s/markup-vocabulary/%s' % (where, t[1] if not SENT_RE.search(t[1]) else 'data'), 'markup passed to innerHTML contains element/attribute of the data: %s' % v[:200]))
        if n != len(SENT_RE.findall(v)):
          hits.append(('C20/update-script/%s/markup-sentinel-outside-text' % where, 'a datum sits outside text position in markup passed to innerHTML: %s' % v[:200]))
  for t in expect_texts:
    if t not in all_lits:
      hits.append(('C20/update-script/%s/text-literal-differs' % where, 'the text %r given to update() is not the value of any string literal of the update scripts: %s' % (t, ' | '.join(scripts)[:300])))
  return hits

def escape_purity_hits(strings, rng, rounds=3):
  """Html.escape is a function of (string, mode) only: whatever was escaped before, in whatever mode."""
  from pyglove.core.views.html.base import Html
  hits = []
  calls = [(s, m) for s in strings for m in (False, True)] * rounds
  rng.shuffle(calls)
  for s, m in calls:
    got = Html.escape(''.join(list(s)), javascript_str=m)     # an equal string built at run time
    want = js_escape_ref(s) if m else html_lib.escape(s)
    if got != want:
      hits.append(('C20/escape-impure/%s' % ('javascript-mode' if m else 'html-mode'),
                   'Html.escape(%r, javascript_str=%s) returns %r after other calls; a first call returns %r' % (s, m, got, want)))
      break
  return hits

def fresh_escape(strings, mode):
  """Html.escape of each string in a fresh interpreter that has escaped nothing else in the other mode."""
  import subprocess, sys
  from harness.lib.common import REPO, PY
  code = ('import sys, json; sys.path.insert(0, %r)\n'
          'from pyglove.core.views.html.base import Html\n'
          'print(json.dumps([Html.escape(s, javascript_str=%r) for s in json.loads(sys.stdin.read())]))' % (REPO, mode))
  p = subprocess.run([PY, '-W', 'ignore', '-c', code], input=json.dumps(strings), capture_output=True, text=True, timeout=300)
  return json.loads(p.stdout.strip().split('\n')[-1])

SEQ_STEPS = ['render-value', 'render-value', 'render-controls', 'update-label', 'update-tooltip', 'update-badge', 'update-group', 'update-progress', 'tabs-append', 'tabs-insert',
             'escape-js', 'escape-html']

def run_sequence(spec):
  """spec: dict(kind='sequence', seed, steps=[...]|None).  Returns [(signature, what, step-index)]."""
  from pyglove.core.views.html import controls as c
  from pyglove.core.views.html.base import Html
  p = pg()
  r = random.Random(spec['seed'])
  data = Data(random.Random(spec['seed'] + 1), hostile=True)
  pool = [data.s('pool-string') for _ in range(r.randint(3, 6))]
  pool.append(data.s('pool-string') + '"\n\\' + "'")       # quote, newline, backslash, apostrophe for the JavaScript side
  pick = lambda: r.choice(pool)
  label = c.Label(pick(), tooltip=c.Tooltip(pick()), interactive=True)
  badge = c.Badge(pick(), interactive=True)
  group = c.LabelGroup([c.Label(pick()), c.Badge(pick(), tooltip=c.Tooltip(pick(), interactive=True))], name=c.Label(pick()), interactive=True)
  tooltip = c.Tooltip(pick(), for_element='.some-element', interactive=True)
  tabs = c.TabControl([c.Tab(label=c.Label(pick()), content=p.Html('<span>constant</span>'), name='t0')])
  bar = c.ProgressBar([c.SubProgress(name=pick()), c.SubProgress(name=pick())], total=None)
  ctls = dict(label=label, badge=badge, group=group, tooltip=tooltip, tabs=tabs, progress=bar)
  def label_texts(l):
    return [l.text] + ([l.tooltip.content] if l.tooltip is not None and isinstance(l.tooltip.content, str) else [])
  def shown(name):
    if name == 'label': return label_texts(label)
    if name == 'badge': return label_texts(badge)
    if name == 'group': return sum([label_texts(l) for l in group.labels], []) + label_texts(group.name)
    if name == 'tooltip': return [tooltip.content]
    if name == 'tabs': return [t.label.text for t in tabs.tabs]
    return []
  hits = []
  def add(new, i, step):
    for sig, what in new:
      hits.append((sig, 'step %d (%s): %s' % (i, step, what), i))
  def render_controls(i, step):
    for name, ctl in ctls.items():
      hs, _ = control_hits(name if name != 'group' else 'label-group', ctl, data, shown(name))
      add(hs, i, step + ':' + name)
  render_controls(-1, 'first-render')        # updates only emit scripts for controls that have been rendered
  steps = spec.get('steps') or [r.choice(SEQ_STEPS) for _ in range(r.randint(6, 12))]
  for i, step in enumerate(steps):
    scripts, expect = [], []
    if step == 'render-value':
      keys = r.sample(pool, min(len(pool), r.randint(1, 3)))
      value = {k: r.choice([pick(), [pick(), {pick(): 1}], 1]) for k in keys}
      if r.random() < 0.3:
        value = object_class(pick(), 2)(f0=value, f1=pick())
      kw = r.choice([{}, dict(key_style='label', collapse_level=None), dict(max_summary_len_for_str=0, enable_summary_for_str=False), dict(name=pick()),
                     dict(enable_key_tooltip=False, enable_summary_tooltip=False, collapse_level=None)])
      add(oracle(value, kw, data), i, step)
    elif step == 'render-controls':
      render_controls(i, step)
    elif step == 'escape-js':
      s_ = pick()
      if Html.escape(s_, javascript_str=True) != js_escape_ref(s_):
        add([('C20/escape-impure/javascript-mode', 'Html.escape(%r, javascript_str=True) = %r' % (s_, Html.escape(s_, javascript_str=True)))], i, step)
    elif step == 'escape-html':
      s_ = pick()
      if Html.escape(s_) != html_lib.escape(s_):
        add([('C20/escape-impure/html-mode', 'Html.escape(%r) = %r' % (s_, Html.escape(s_)))], i, step)
    else:
      with c.HtmlControl.track_scripts() as scripts:
        if step == 'update-label':
          t, tt = pick(), pick(); label.update(text=t, tooltip=tt); expect = [t, tt]
        elif step == 'update-tooltip':
          t = pick(); tooltip.update(t); expect = [t]
        elif step == 'update-badge':
          t = pick(); badge.update(text=t, add_class=['seen']); expect = [t]
        elif step == 'update-group':
          t, u = pick(), pick(); group.labels[0].update(text=t); group.labels[1].update(text=u, tooltip=t); group.name.update(text=u); expect = [t, u]
        elif step == 'update-progress':
          if bar.total is None: bar.update(total=10)
          r.choice(bar.subprogresses).increment()
          expect = ['\n'.join('%s: %s (%d/%d)' % (sp.name, '{:.1%}'.format(sp.value / bar.total), sp.value, bar.total) for sp in bar.subprogresses)]
        elif step == 'tabs-append':
          tabs.append(c.Tab(label=c.Label(pick()), content=p.Dict({'k': pick()}) if r.random() < 0.5 else c.Label(pick()), name='t%d' % len(tabs.tabs)))
        elif step == 'tabs-insert':
          tabs.insert(0, c.Tab(label=c.Label(pick()), content=c.Label(pick()), name='i%d' % len(tabs.tabs)))
      add(script_hits(list(scripts), expect, data, step), i, step)
  render_controls(len(steps), 'last-render')
  add(escape_purity_hits(pool, r, rounds=1), len(steps), 'escape-purity')
  return hits, steps

# ------------------------------------------------------------------------------------------------
# document histories: one Html object that is rendered, serialised, extended (write / + / copy), styled and serialised again.
# The reference is the concatenation model: content = the pieces in writing order, head = the shared parts in first-occurrence
# order (Model/HtmlDoc.v multi_document when every piece is a rendered value); checked after EVERY step on EVERY live document.
import inspect as _inspect

def expected_full(styles, scripts, content):
  """Html.to_str as views/html/base.py assembles it."""
  st = '<style>\n%s\n</style>' % '\n'.join(_inspect.cleandoc(x) for x in styles) if styles else ''
  sc = '<script>\n%s\n</script>' % '\n'.join(_inspect.cleandoc(x) for x in scripts) if scripts else ''
  head = '\n'.join(x for x in ['<head>', st, sc, '</head>'] if x)
  return '\n'.join(x for x in ['<html>', head, '<body>\n%s\n</body>' % content, '</html>'] if x)

class DocState:
  def __init__(self, doc, pieces, styles, scripts, values, modelled):
    self.doc, self.pieces, self.styles, self.scripts, self.values, self.modelled = doc, list(pieces), list(styles), list(scripts), list(values), (None if modelled is None else list(modelled))
  def clone_with(self, doc):
    return DocState(doc, self.pieces, self.styles, self.scripts, self.values, self.modelled)
  def absorb(self, piece_content, styles, scripts, value_entry=None, model_entry=None):
    self.pieces.append(piece_content)
    for x in styles:
      if x not in self.styles: self.styles.append(x)
    for x in scripts:
      if x not in self.scripts: self.scripts.append(x)
    if value_entry is not None: self.values.append(value_entry)
    if model_entry is None: self.modelled = None
    elif self.modelled is not None: self.modelled.append(model_entry)

DOC_TAGS = VOCAB_TAGS | {'html', 'head', 'body'}
DOC_STEPS = ['to_str', 'to_str', 'to_str_content', 'str', 'hash', 'repr_html', 'format', 'write-rendered', 'write-rendered', 'write-rendered', 'write-str', 'write-html',
             'add', 'radd', 'copy', 'from_value', 'add_style', 'add_script']

def doc_hits(st, step):
  """The oracle on one live document."""
  hits = []
  tag = 'C20/document-history/%s'
  try:
    body = st.doc.to_str(content_only=True)
    full = st.doc.to_str()
  except Exception as e:
    return [(tag % ('raises/' + type(e).__name__), 'serialising the document raises %s after %s' % (type(e).__name__, step))]
  want = ''.join(st.pieces)
  if body != want:
    hits.append((tag % 'content-differs', 'after %s: to_str(content_only=True) is not the concatenation of what was written (%d vs %d chars)' % (step, len(body), len(want))))
  m = re.fullmatch(r'<html>\n<head>\n(.*)</head>\n<body>\n(.*)\n</body>\n</html>', full, re.S)
  if not m:
    hits.append((tag % 'wrapper', 'after %s: the full document is not <html><head>..</head><body>..</body></html>' % step))
  elif m.group(2) != body:
    hits.append((tag % 'body-differs-from-content', 'after %s: the <body> of to_str() (%d chars) differs from to_str(content_only=True) (%d chars): what was appended after a serialisation is missing' % (step, len(m.group(2)), len(body))))
  if full != expected_full(st.styles, st.scripts, want) and not hits:
    hits.append((tag % 'document-differs', 'after %s: the full document differs from head(shared parts in first-occurrence order) + body(concatenated content)' % step))
  for x in st.styles + st.scripts:
    if full.count(_inspect.cleandoc(x)) != 1:
      hits.append((tag % 'shared-part-count', 'after %s: a style / script block occurs %d times in the document' % (step, full.count(_inspect.cleandoc(x))))); break
  if str(st.doc) != full or st.doc._repr_html_() != full:
    hits.append((tag % 'str-differs', 'after %s: str(doc) / _repr_html_() differ from to_str()' % step))
  try:
    tree = strict_parse(full)
  except Reject as r:
    hits.append((tag % ('malformed/' + r.why), 'after %s: the full document is not well formed: %s ...%s...' % (step, r, full[max(0, r.pos - 60):r.pos + 30])))
    return hits
  n = 0
  for t in walk(tree):
    if t[0] == 1: n += len(SENT_RE.findall(t[1]))
    elif t[0] == 3: n += 0
    else:
      n += sum(len(SENT_RE.findall(v)) for _, v in t[3])
      if t[1] not in DOC_TAGS or any(a not in VOCAB_ATTRS for a, _ in t[3]):
        hits.append((tag % ('vocabulary/%s' % (t[1] if not SENT_RE.search(t[1]) else 'data')), 'after %s: element / attribute introduced by data' % step))
  if n != len(SENT_RE.findall(full)):
    hits.append((tag % 'sentinel-outside-text', 'after %s: a datum occurs outside text / quoted attribute value position' % step))
  texts = [t[1] for t in walk(tree) if t[0] == 1]
  for value, kw, snapshot in st.values:
    if snap(value) != snapshot:
      hits.append((tag % 'value-modified', 'after %s: a rendered value was modified' % step)); break
    missing = [(w, x) for w, x in (expected_visible(value, kw) or []) if x and not any(x == y if w == 'key' else x in y for y in texts)]
    if missing:
      hits.append((tag % ('missing/' + missing[0][0]), 'after %s: %s %r of a value rendered into the document is not present as text' % (step, missing[0][0], missing[0][1]))); break
  return hits

_DOC_ROWS = []
def doc_rows():
  if not _DOC_ROWS:
    _DOC_ROWS.extend(pairwise(OPTION_SPACE, random.Random(12345)))
  return _DOC_ROWS

def run_doc_history(spec, rows=None):
  """spec: dict(kind='doc-history', seed, steps?).  Returns (hits, steps, model cases [(tr, impl_out)])."""
  p = pg()
  Html = p.Html
  rows = doc_rows()
  r = random.Random(spec['seed'])
  data = Data(random.Random(spec['seed'] + 7), hostile=True)
  def rendered():
    value = gen_value(r, data, r.choice([1, 2, 2]))
    while not child_items(value) and r.random() < 0.8:
      value = gen_value(r, data, 2)
    sym = dict(DEFAULTS); sym.update(r.choice(rows)) if r.random() < 0.6 else None
    sym['root_path'] = None
    kw = resolve_options(sym, value, r, data)
    h = p.to_html(value, **kw)
    with view_flags(kw.get('extra_flags')):
      me = [model_options(kw, value), conv(value, [])]
    return h, (value, kw, snap(value)), me
  h, ve, me = rendered()
  live = [DocState(h, [h.content], list(h.styles.parts), list(h.scripts.parts), [ve], [me])]
  hits = []
  steps = spec.get('steps') or [r.choice(DOC_STEPS) for _ in range(r.randint(5, 10))]
  def verify(step):
    for st in live:
      for sig, what in doc_hits(st, step):
        hits.append((sig, what))
  verify('render')
  for i, step in enumerate(steps):
    st = r.choice(live)
    d = st.doc
    if step == 'to_str': d.to_str()
    elif step == 'to_str_content': d.to_str(content_only=True)
    elif step == 'str': str(d)
    elif step == 'hash': hash(d)
    elif step == 'repr_html': d._repr_html_()
    elif step == 'format': d.format(compact=True); repr(d)
    elif step == 'write-rendered':
      h, ve, me = rendered(); hc, hs, hj = h.content, list(h.styles.parts), list(h.scripts.parts)
      d.write(h); st.absorb(hc, hs, hj, ve, me)
    elif step == 'write-str':
      d.write('<div class="sep"></div>', None, lambda: '<span class="note"></span>'); st.absorb('<div class="sep"></div><span class="note"></span>', [], [], None, None)
    elif step == 'write-html':
      x = Html('<span class="note">note</span>').add_style('.note { color: red; }', '.other { margin: 0 }').add_script('function noted() { return 1; }')
      d.write(x); st.absorb('<span class="note">note</span>', ['.note { color: red; }', '.other { margin: 0 }'], ['function noted() { return 1; }'], None, None)
    elif step == 'add':
      h, ve, me = rendered(); hc, hs, hj = h.content, list(h.styles.parts), list(h.scripts.parts)
      n_ = st.clone_with(d + h); n_.absorb(hc, hs, hj, ve, me); live.append(n_)
    elif step == 'radd':
      n_ = DocState('<div class="pre"></div>' + d, ['<div class="pre"></div>'] + st.pieces, st.styles, st.scripts, st.values, None); live.append(n_)
    elif step == 'copy':
      live.append(st.clone_with(Html.from_value(d, copy=True)))
    elif step == 'from_value':
      if Html.from_value(d) is not d:
        hits.append(('C20/document-history/from-value-copies', 'Html.from_value(html) without copy returns another object'))
    elif step == 'add_style':
      d.add_style('.extra-%d { color: blue; }' % (i % 2)); st.absorb('', ['.extra-%d { color: blue; }' % (i % 2)], [], None, None)
    elif step == 'add_script':
      d.add_script('function extra() { return 2; }'); st.absorb('', [], ['function extra() { return 2; }'], None, None)
    live[:] = live[-4:] if len(live) > 4 else live
    verify('step %d (%s)' % (i, step))
  cases = []
  for st in live:
    if st.modelled:
      cases.append(([11, [list(x) for x in st.modelled]], [11, trlib.enc(st.doc.to_str())]))
  return hits, steps, cases

# ------------------------------------------------------------------------------------------------
LITERALS = [
    dict(kind='literal', value={'k<i>ZQ1X': 1}, kw={}),
    dict(kind='literal', value={'k<i>ZQ1X': 1}, kw={'key_style': 'label'}),
    dict(kind='literal', value={'ZQ1X</div></details><script>alert(1)</script>': {'b"ZQ2X': "x'ZQ3X"}}, kw={'collapse_level': None}),
    dict(kind='literal', value=['<b>ZQ1X</b>', {'a&b ZQ2X': None}], kw={'enable_summary': False}),
    dict(kind='literal', value=[1, 'ZQ2X<'], cls='A<b x="1">ZQ1X', kw={}),
    dict(kind='literal', value=[], cls='B"onclick="ZQ1X', kw={'enable_summary': True}),
    dict(kind='literal', value='<P obj & "q" ZQ1X>', opaque=True, kw={}),
    dict(kind='literal', value='ZQ1X<script>', kw={'name': 'n<m>ZQ2X', 'enable_summary': True}),
    dict(kind='literal', value={'a.b[0]ZQ1X<': {'c': 1}}, kw={'collapse_level': 0}),
    dict(kind='literal', value={}, kw={}),
    dict(kind='literal', value={'ZQ1X]]>': 1}, kw={'key_style': 'label'}),
    dict(kind='literal', value={'<![CDATA[ZQ1X': {'a.b ZQ2X': [1]}}, kw={'collapse_level': None}),
    dict(kind='literal', value='ZQ1X]]>-->' + 'x' * 100, kw={}),
]

def mutate(s, rng):
  """Small edits of a document: most results are malformed, which is the point."""
  if not s:
    return '<'
  i = rng.randrange(len(s))
  k = rng.randrange(6)
  if k == 0: return s[:i] + s[i + 1:]
  if k == 1: return s[:i] + rng.choice('<>&"\' =/;a') + s[i:]
  if k == 2: return s[:i] + rng.choice('<>&"\' =/;a') + s[i + 1:]
  if k == 3:
    j = rng.randrange(len(s)); i, j = min(i, j), max(i, j)
    return s[:i] + s[j:]
  if k == 4:
    m = list(re.finditer(r'</?[a-z]+', s))
    if m:
      x = rng.choice(m); return s[:x.start()] + s[x.end():]
  return s[:i] + rng.choice(['&amp;', '&lt', '&#x27;', '</span>', '<b>', ' open', ' a="b"', '<a b>', '<a b="c" d>']) + s[i:]

GENERATED = {'Gen/HtmlStyles.v': html_styles.translate}

def run(ctx):
  ctx.regen('Gen/HtmlStyles.v', html_styles.translate)
  ctx.build()
  rng = ctx.rng
  # ---- histories in one process (render / update controls / render again; both orders), then everything else in the same process
  nseq = nsteps = 0
  forced = [['escape-js', 'render-value', 'render-controls', 'update-label', 'render-controls', 'render-value', 'render-value'],
            ['render-value', 'escape-html', 'update-label', 'update-tooltip', 'update-badge', 'update-group', 'render-controls', 'render-value'],
            ['update-label', 'update-tooltip', 'update-progress', 'tabs-append', 'tabs-insert', 'render-controls', 'render-value', 'render-value', 'update-label']]
  import time as _time
  budget = (lambda frac: (not ctx.thorough) and _time.time() - ctx.t0 > 100 * frac)    # quick tier: wall-clock budget of 100 s, skipped work is reported
  skipped = {}
  for k in range(ctx.scale(40, 600)):
    if budget(0.25) and k >= 3:
      skipped['sequences'] = skipped.get('sequences', 0) + 1; continue
    spec = dict(kind='sequence', seed=rng.getrandbits(32), steps=forced[k] if k < len(forced) else None)
    shits, steps = run_sequence(spec)
    for sig, what, i in shits:
      ctx.hit(sig, what, dict(spec=dict(spec, steps=steps)))
    nseq += 1; nsteps += len(steps)
    for st in steps: ctx.hist('sequence_steps', st)
    ctx.count(json.dumps(spec, sort_keys=True), nontrivial=True, kind='sequence')
  ctx.extra['sequences'] = dict(sequences=nseq, steps=nsteps, note='every rendering and every update script of a sequence goes through the oracle')
  specs = list(LITERALS)
  rows = pairwise(OPTION_SPACE, random.Random(rng.getrandbits(32)))
  ctx.extra['pairwise_rows'] = len(rows)
  # ---- document histories (render, serialise, extend, serialise again ...), oracle after every step on every live document
  doc_cases = []
  ndoc = ndocsteps = 0
  forced_doc = [['to_str', 'write-rendered', 'to_str', 'write-str', 'write-rendered'], ['str', 'add', 'copy', 'write-rendered', 'hash', 'write-html'],
                ['repr_html', 'radd', 'add_style', 'write-rendered', 'add_script', 'to_str_content', 'add']]
  for k in range(ctx.scale(30, 400)):
    if budget(0.4) and k >= 3:
      skipped['document_histories'] = skipped.get('document_histories', 0) + 1; continue
    spec = dict(kind='doc-history', seed=rng.getrandbits(32), steps=forced_doc[k] if k < len(forced_doc) else None)
    dh, dsteps, dcases = run_doc_history(spec)
    for sig, what in dh:
      ctx.hit(sig, what, dict(spec=dict(spec, steps=dsteps)))
    doc_cases += dcases; ndoc += 1; ndocsteps += len(dsteps)
    for st_ in dsteps: ctx.hist('document_history_steps', st_)
    ctx.count(json.dumps(spec, sort_keys=True), nontrivial=True, kind='document-history')
  ctx.extra['document_histories'] = dict(histories=ndoc, steps=ndocsteps, documents_compared_with_multi_document=len(doc_cases))
  nvalues = ctx.scale(24, 160)
  for vi in range(nvalues):
    sseed = rng.getrandbits(32)
    for row in rows:
      specs.append(dict(kind='gen', sseed=sseed if vi % 2 == 0 else rng.getrandbits(32), dseed=rng.getrandbits(32), hostile=True, sym=row, depth=rng.choice([1, 2, 2, 3])))
  for _ in range(ctx.scale(400, 8000)):      # default options, deeper values
    specs.append(dict(kind='gen', sseed=rng.getrandbits(32), dseed=rng.getrandbits(32), hostile=rng.random() < 0.9, sym=dict(DEFAULTS), depth=rng.choice([2, 3, 4])))
  if ctx.thorough:                           # full product of the interacting options (reduced domains) on small values
    PRODUCT = [('enable_summary', [None, True, False]), ('enable_summary_for_str', [True, False]), ('max_summary_len_for_str', [80, 12]),
               ('enable_summary_tooltip', [True, False]), ('enable_key_tooltip', [True, False]), ('key_style', ['summary', 'label']),
               ('include_keys', [None, 'some', 'none']), ('exclude_keys', [None, 'some']), ('collapse_level', [1, None, 0, 2]), ('uncollapse', [None, 'deep'])]
    nprod = 0
    for combo in list(itertools.product(*[v for _, v in PRODUCT])) * 2:
      sym = {n: c for (n, _), c in zip(PRODUCT, combo)}
      for n_, v_ in OPTION_SPACE[10:]: sym[n_] = rng.choice(v_)
      specs.append(dict(kind='gen', sseed=rng.getrandbits(32), dseed=rng.getrandbits(32), hostile=True, sym=sym, depth=rng.choice([1, 2]))); nprod += 1
    ctx.extra['full_product_cases'] = nprod
  nextra = 0
  for ex in EXTRAS:                           # options outside the model: oracle only
    for _ in range(ctx.scale(12, 150) * (6 if ex == 'exotic' else 1)):
      sym = dict(DEFAULTS)
      if rng.random() < 0.5:
        sym.update(rng.choice(rows))
        for k in ('include_keys', 'exclude_keys', 'uncollapse', 'key_style', 'collapse_level'):
          if ex in ('include_fn', 'uncollapse_fn', 'key_style_fn'): sym[k] = DEFAULTS[k]
      specs.append(dict(kind='gen', sseed=rng.getrandbits(32), dseed=rng.getrandbits(32), hostile=True, sym=sym, depth=rng.choice([1, 2, 3]), extra=ex)); nextra += 1
  ctx.extra['options_modelled'] = sorted(MODELLED)
  ctx.extra['options_oracle_only'] = ['exotic (pg.Ref, pg.Diff)', 'debug', 'child_config']
  ctx.log('%d cases (%d pairwise rows x %d values, %d oracle-only)' % (len(specs), len(rows), nvalues, nextra))

  # ---- run implementation, oracle, and collect model cases
  trs, impl_outs, descr = [], [], []
  outputs = []
  nsent = 0
  for ispec, spec in enumerate(specs):
    if budget(0.6) and ispec > len(LITERALS) + 200:
      skipped['tree_view_cases'] = skipped.get('tree_view_cases', 0) + 1; continue
    value, kw, data = build_case(spec)
    twin = None
    if spec['kind'] == 'gen' and rng.random() < 0.25:
      tv, tkw, _ = build_case(dict(spec, neutral=True))
      twin = (tv, tkw)
    for sig, what in oracle(value, kw, data, twin, presence=spec.get('extra') != 'exotic'):
      ctx.hit(sig, what, dict(spec=spec, value=repr(value)[:300], options=repr(kw)[:300]))
    hostile_data = any(html_lib.escape(d) != d for d in data.text.values())
    modelled = set(kw) <= MODELLED and spec.get('extra') != 'exotic'
    key = json.dumps(spec, sort_keys=True, default=str)
    ctx.count(key, nontrivial=hostile_data,
              sample=dict(value=repr(value)[:200], options=repr(kw)[:200]) if hostile_data and spec['kind'] == 'gen' and len(ctx.samples) < 4 else None,
              kind='modelled' if modelled else 'oracle-only')
    nsent += len(data.text)
    for r in set(data.roles.values()): ctx.hist('data_roles', r)
    ctx.hist('root_type', type(value).__name__ if not SENT_RE.search(type(value).__name__) else 'hostile-class-name')
    ctx.hist('options_given', len(kw))
    shape = shape_of(value)
    ctx.hist('value_nodes', '1' if shape[0] == 1 else '2-5' if shape[0] <= 5 else '6-15' if shape[0] <= 15 else '16+')
    ctx.hist('value_depth', shape[1])
    scoped = tuple(k for k in SCOPABLE if k in kw and rng.random() < 0.5) if rng.random() < 0.3 else ()
    ctx.hist('options_from_enclosing_scope', len(scoped))
    try:
      out = render(value, kw, scoped=scoped)
    except Exception as e:
      out = None
    if out is not None:
      ctx.hist('output_len', '<1k' if len(out) < 1000 else '<4k' if len(out) < 4000 else '<16k' if len(out) < 16000 else '>=16k')
      outputs.append(out)
    if modelled:
      with view_flags(kw.get('extra_flags')):
        mo, mv = model_options(kw, value), conv(value, list(kw['root_path'].keys) if 'root_path' in kw else [])
      trs.append([0, mo, mv])
      impl_outs.append([0, trlib.enc(out)] if out is not None else None)
      descr.append(dict(spec=spec, value=repr(value)[:300], options=repr(kw)[:300]))
      try:
        full = render(value, kw, content_only=False, scoped=scoped)
      except Exception:
        full = None
      trs.append([3, mo, mv])      # the whole document, head included
      impl_outs.append([3, trlib.enc(full)] if full is not None else None)
      descr.append(dict(spec=spec, value=repr(value)[:300], options=repr(kw)[:300], what='full document'))
      if full is not None and len(full) < 9000 and rng.random() < 0.1:
        outputs.append(full)
  ctx.extra['sentinel_tagged_data'] = nsent
  ctx.extra['skipped_for_wall_clock_budget'] = skipped
  # ---- an error in the middle of rendering propagates and leaves the per-thread view state clean
  for probe in ([1, {'a': Exploding()}], {'k': [Exploding()]}, Exploding()):
    t0 = tls_state()
    try:
      with pg().view_options(enable_summary_tooltip=True):
        render(probe, dict(collapse_level=None))
      raised = False
    except RuntimeError:
      raised = True
    if not raised or tls_state() != t0:
      ctx.hit('C20/view-state-leak/after-error', 'an exception while rendering is swallowed or leaves view options / rendering stack behind', dict(spec=dict(kind='exploding')))
    ctx.count(('exploding', repr(type(probe))), nontrivial=True, kind='error-propagation')
  n_tree = len(trs) // 2
  # ---- controls (oracle only)
  nctl = 0
  for which in CONTROL_KINDS:
    for _ in range(ctx.scale(15, 200)):
      spec = dict(kind='control', which=which, cseed=rng.getrandbits(32), dseed=rng.getrandbits(32))
      hits, out = oracle_control(spec)
      for sig, what in hits:
        ctx.hit(sig, what, dict(spec=spec))
      ctx.count(json.dumps(spec, sort_keys=True), nontrivial=True, kind='control-' + which); nctl += 1
      if out is not None:
        outputs.append(re.sub(r'control-\d+', 'control-1', out))
      # the same control against Model/HtmlCtl.v ctl_node (a second build: element ids are addresses, so convert and render the same object)
      ctl, _, _ = build_control(spec)
      try:
        ct = conv_control(ctl)
        trs.append([5, ct]); impl_outs.append([5, trlib.enc(normalise_onclick(ctl.to_html_str(content_only=True)))]); descr.append(dict(spec=spec, what='control vs model'))
        ctx.hist('controls_modelled', which)
      except NotModelled as e:
        ctx.hist('controls_not_modelled', '%s: %s' % (which, e))
  ctx.extra['control_cases'] = nctl

  # ---- the Python strict tokenizer against the proved Coq parser (real, mutated and hand-written documents)
  docs = ['', 'a', '<a></a>', '<a>', '</a>', '<a></b>', '<a b></a>', '<a b="c"></a>', '<a b="c" d></a>', '<a b=c></a>', '<a b="c"d></a>', '<a ></a>', '<a  b></a>',
          '&amp;', '&', '&amp', '&#x27;&quot;&lt;&gt;', '&#39;', '&AMP;', 'a>b', 'a"b', "a'b", '<a b="&lt;&quot;"></a>', '<a b="<"></a>', '<a b=">"></a>', "<a b=\"'\"></a>",
          '<style></style>', '<style>a > b & c "x"</style>', '<style>a<b</style>', '<style>a</script>', '<style a></style>', '<style a="b"></style>', '<script>x</script>y', '<style>x',
          '<style>x</style', '<style>x<', '<style>x</', '<a><style>q</style></a>', '<styles>x</styles>', '<style>&amp;</style>',
          '<1></1>', '<a-b_c1></a-b_c1>', '<A></a>', '<a/>', '<a></a >', '<!-- x -->', '<![CDATA[x]]>', '<span>k<i></span>', '<span>k<i></i></span>', '<a><b></a></b>', 'x<a>y</a>z']
  short = [o for o in outputs if len(o) < 6000]
  for o in rng.sample(short, min(len(short), ctx.scale(150, 1500))):
    docs.append(o)
    for _ in range(2):
      docs.append(mutate(o, rng))
  for d in docs:
    t = strict_parse_opt(d)
    trs.append([1, trlib.enc(d)])
    impl_outs.append([1, [] if t is None else [[enc_tree(x) for x in t]]])
    descr.append(dict(document=d[:300]))
    ctx.hist('tokenizer_docs', 'accepted' if t is not None else 'rejected')
    ctx.count(('doc', d), nontrivial=True, kind='tokenizer-vs-coq-parser')

  for tr_, out_ in doc_cases:
    trs.append(tr_); impl_outs.append(out_); descr.append(dict(what='grown document vs multi_document'))
  # ---- arbitrary trees through nested Html.element calls against Model render / names_ok / reads_back
  ntrees = 0
  for _ in range(ctx.scale(400, 6000)):
    t = gen_tree(rng, rng.choice([1, 2, 3, 4]), bad=rng.choice([0, 0.06, 0.2]))
    try:
      out = build_tree(t)
      out = out if isinstance(out, str) else out.to_str(content_only=True)
    except Exception as e:
      ctx.hist('element_trees', 'raises-' + type(e).__name__); continue
    ok = py_names_ok(t)
    back = strict_parse_opt(out) == py_normalize([t])
    if ok and not back:
      ctx.hit('C20/element/well-named-tree-not-read-back', 'Html.element output of a well-named tree is not read back by the strict tokenizer', dict(spec=dict(kind='tree', tree=t)))
    trs.append([4, enc_tree(t)]); impl_outs.append([4, trlib.enc(out), 1 if ok else 0, 1 if back else 0]); descr.append(dict(tree=json.dumps(t)[:400]))
    ctx.hist('element_trees', 'names-ok' if ok else 'bad-names-or-raw'); ntrees += 1
    ctx.count(('tree', json.dumps(t)), nontrivial=True, kind='html-element-tree')
  ctx.extra['html_element_trees'] = ntrees

  # ---- the JavaScript side: Html.escape(javascript_str=True), the literal lexer and the update scripts against Model/HtmlCtl.v
  from pyglove.core.views.html.base import Html as Html_
  from pyglove.core.views.html import controls as ctl_lib
  jstrs = [''.join(t) for n_ in range(0, 4) for t in itertools.product('\\"\n\r\t\'a', repeat=n_)]
  jstrs += [''.join(rng.choice(FRAGMENTS + ['\\', '"', '\n', '\r', '\t', 'ZQ1X', '\u2028', "'"]) for _ in range(rng.randint(1, 6))) for _ in range(ctx.scale(300, 3000))]
  for js_ in jstrs:
    rest = rng.choice(['', ';', '"; x = "y"', '\n', 'abc'])
    e_ = Html_.escape(js_, javascript_str=True)
    trs.append([6, trlib.enc(js_), trlib.enc(rest)])
    lx = py_lex_js_string('"' + e_ + '"' + rest)
    impl_outs.append([6, trlib.enc(e_), [] if lx is None else [[trlib.enc(lx[0]), trlib.enc(lx[1])]]]); descr.append(dict(js_string=js_, rest=rest))
    if lx is None or lx[0] != js_ or lx[1] != rest:
      ctx.hit('C20/js-literal/breaks-out', 'the JavaScript literal of %r does not end at its closing quote or does not decode to the string' % js_, dict(spec=dict(kind='js', s=js_)))
    ctx.count(('js', js_, rest), nontrivial=any(c_ in js_ for c_ in '\\"\n\r'), kind='escape-js')
  for _ in range(ctx.scale(300, 3000)):      # arbitrary (mostly broken) literals: the Python lexer against the Coq lexer
    src = '"' + ''.join(rng.choice(['\\', '"', '\n', 'a', '\\n', '\\"', '\\x', "'", ' ', '\\\\']) for _ in range(rng.randint(0, 6))) + rng.choice(['"', '', '";'])
    if rng.random() < 0.1: src = src[1:]
    lx = py_lex_js_string(src)
    trs.append([9, trlib.enc(src)]); impl_outs.append([9, [] if lx is None else [[trlib.enc(lx[0]), trlib.enc(lx[1])]]]); descr.append(dict(js_source=src))
    ctx.count(('jslex', src), nontrivial=True, kind='js-lexer-vs-coq')
  lab = ctl_lib.Label('x', interactive=True); lab.to_html()
  tip = ctl_lib.Tooltip('x', for_element='.e', interactive=True); tip.to_html()
  for js_ in rng.sample(jstrs, min(len(jstrs), ctx.scale(150, 1500))):
    with ctl_lib.HtmlControl.track_scripts() as scr:
      lab.update(text=js_)
    trs.append([7, trlib.enc(lab.element_id()), trlib.enc(js_)]); impl_outs.append([7, trlib.enc(scr[0])]); descr.append(dict(update_text=js_))
    ctx.count(('upd', js_), nontrivial=True, kind='update-script')
  for _ in range(ctx.scale(100, 1000)):
    t_ = gen_tree(rng, rng.choice([1, 2, 3]), bad=rng.choice([0, 0.1]))
    b_ = build_tree(t_)
    with ctl_lib.HtmlControl.track_scripts() as scr:
      tip.update(Html_(b_) if isinstance(b_, str) else b_)
    trs.append([8, trlib.enc(tip.element_id()), [enc_tree(t_)]]); impl_outs.append([8, trlib.enc(scr[0])]); descr.append(dict(update_inner_html=json.dumps(t_)[:300]))
    ctx.count(('inner', json.dumps(t_)), nontrivial=True, kind='update-script')

  # ---- Python's repr of a str against Model py_repr: every Latin-1 character alone and next to either quote, then random strings
  rstrs = [chr(c_) + q_ for c_ in range(256) for q_ in ('', "'", '"', '\'"')]
  rstrs += [''.join(rng.choice(FRAGMENTS + [chr(rng.randrange(256)), "'", '"', '\\']) for _ in range(rng.randint(0, 5))) for _ in range(ctx.scale(500, 5000))]
  for rs_ in rstrs:
    if not all(ord(ch) < 256 for ch in rs_):
      continue
    trs.append([10, trlib.enc(rs_)])
    impl_outs.append([10, 1, trlib.enc(repr(rs_))])
    descr.append(dict(repr_of=rs_))
    ctx.count(('repr', rs_), nontrivial=True, kind='python-repr')

  # ---- html.escape against the model escape (exhaustive on short strings over the critical alphabet, then random)
  alpha = '&<>"\';a#x27lt'
  strs = ['']
  for n in range(1, ctx.scale(4, 5)):
    if n <= 3:
      strs += [''.join(t) for t in itertools.product(alpha[:8], repeat=n)]
    else:
      strs += [''.join(rng.choice(alpha) for _ in range(n)) for _ in range(ctx.scale(400, 4000))]
  for _ in range(ctx.scale(300, 3000)):
    strs.append(''.join(rng.choice(FRAGMENTS + ['ZQ1X', 'a']) for _ in range(rng.randint(1, 6))))
  from pyglove.core.views.html.base import Html
  order = list(range(len(strs))); rng.shuffle(order)
  for i in order:          # a random half of the strings goes through the JavaScript mode first, the rest afterwards
    if rng.random() < 0.5 and Html.escape(strs[i], javascript_str=True) != js_escape_ref(strs[i]):
      ctx.hit('C20/escape-impure/javascript-mode', 'Html.escape(s, javascript_str=True) differs from the documented replacement chain', dict(spec=dict(kind='escape', s=strs[i])))
  for s in strs:
    e = Html.escape(s)     # pyglove's escape, with whatever history this process has; the model's escape and html.escape are the references
    if e != html_lib.escape(s):
      ctx.hit('C20/escape-impure/html-mode', 'Html.escape(%r) returns %r, html.escape returns %r' % (s, e, html_lib.escape(s)), dict(spec=dict(kind='escape', s=s)))
    if Html.escape(s, javascript_str=True) != js_escape_ref(s):
      ctx.hit('C20/escape-impure/javascript-mode', 'Html.escape(%r, javascript_str=True) returns %r after an HTML-mode call' % (s, Html.escape(s, javascript_str=True)), dict(spec=dict(kind='escape', s=s)))
    ok = not any(c in e for c in '<>"\'') and all(any(e.startswith(x, i + 1) for x in ENT) for i, c in enumerate(e) if c == '&')
    trs.append([2, trlib.enc(s)])
    impl_outs.append([2, trlib.enc(e), trlib.enc(strict_unescape(s)), 1 if ok else 0])
    descr.append(dict(string=s))
    ctx.count(('esc', s), nontrivial=any(c in s for c in '&<>"\''), kind='escape')
    if html_lib.unescape(html_lib.escape(s)) != s or strict_unescape(html_lib.escape(s)) != s:
      ctx.hit('C20/escape-not-invertible', 'unescape(escape(s)) != s', dict(spec=dict(kind='escape', s=s)))
  # ---- Html.escape is independent of the call history: compare with fresh interpreters that only ever used one mode
  sample = [x for x in rng.sample(strs, min(len(strs), ctx.scale(300, 3000)))]
  for hit in escape_purity_hits(sample, rng, rounds=2):
    ctx.hit(hit[0], hit[1], dict(spec=dict(kind='escape', s='(history)')))
  try:
    fresh_html, fresh_js = fresh_escape(sample, False), fresh_escape(sample, True)
    for s_, fh, fj in zip(sample, fresh_html, fresh_js):
      if Html.escape(s_) != fh:
        ctx.hit('C20/escape-impure/html-mode', 'Html.escape(%r) is %r in this process (after other calls) but %r in a fresh interpreter' % (s_, Html.escape(s_), fh), dict(spec=dict(kind='escape', s=s_)))
      if Html.escape(s_, javascript_str=True) != fj:
        ctx.hit('C20/escape-impure/javascript-mode', 'Html.escape(%r, javascript_str=True) is %r in this process but %r in a fresh interpreter' % (s_, Html.escape(s_, javascript_str=True), fj), dict(spec=dict(kind='escape', s=s_)))
      ctx.count(('fresh', s_), nontrivial=True, kind='escape-vs-fresh-interpreter')
    ctx.extra['escape_vs_fresh_interpreter'] = len(sample)
  except Exception as e:
    ctx.broken.append(dict(kind='harness', name='fresh interpreter', detail=repr(e)[:300]))

  model_outs = ctx.model_run(trs)
  lookup = {id(t): d for t, d in zip(trs, descr)}
  ctx.compare('Html.run vs pg.to_html_str / strict tokenizer / html.escape', trs, impl_outs, model_outs, describe=lambda c: lookup.get(id(c)))
  ctx.extra['tree_view_cases_compared_char_by_char'] = n_tree
  ctx.exhaustive = False

def replay(ctx, rp):
  spec = rp['case']['spec']
  if spec.get('kind') == 'escape':
    from pyglove.core.views.html.base import Html
    s = spec['s']
    if s == '(history)':
      return not escape_purity_hits(['a<b', '"q"', "x'&y"], random.Random(1), rounds=3)
    js = Html.escape(s, javascript_str=True); h = Html.escape(s); js2 = Html.escape(s, javascript_str=True)
    return html_lib.unescape(html_lib.escape(s)) == s and h == html_lib.escape(s) and js == js2 == js_escape_ref(s)
  if spec.get('kind') == 'doc-history':
    hits, _, _ = run_doc_history(spec)
    for h in hits[:5]:
      print('  still fails:', h)
    return not hits
  if spec.get('kind') == 'sequence':
    hits, _ = run_sequence(spec)
    for h in hits:
      print('  still fails:', h[:2])
    return not hits
  if spec.get('kind') == 'exploding':
    t0 = tls_state()
    try:
      render([1, {'a': Exploding()}], dict(collapse_level=None)); return False
    except RuntimeError:
      return tls_state() == t0
  if spec.get('kind') == 'tree':
    out = build_tree(spec['tree'])
    out = out if isinstance(out, str) else out.to_str(content_only=True)
    return not py_names_ok(spec['tree']) or strict_parse_opt(out) == py_normalize([spec['tree']])
  if spec.get('kind') == 'control':
    hits, _ = oracle_control(spec)
  else:
    value, kw, data = build_case(spec)
    hits = oracle(value, kw, data, presence=spec.get('extra') != 'exotic')
  for h in hits:
    print('  still fails:', h)
  return not hits

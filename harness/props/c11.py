"""C11 — search-space enumeration is exact: every valid DNA once, nothing else."""
import random as pyrandom
from harness.lib import tr as trlib
from harness.props import geno_gen as G

META = dict(
    id='C11',
    model_run='PG.Model.GenoRun.run',
    runner_name='Geno',
    model_targets=['Model/Geno.vo', 'Model/GenoViews.vo', 'Model/GenoRun.vo'],
    technique=('Coq proofs over an executable model of pyglove.core.geno (specifications, structured decisions, the two next_dna odometers, '
               'the space_size recurrences, validate / use_spec on arbitrary DNA trees, random_dna over an abstract PRNG) + differential correspondence '
               'against the library on an exhaustive small-scope sweep of specifications and on random larger ones + a direct set-equality oracle'),
    design_ref='DESIGN.md §5 C11',
    level_text='(filled in below)',
    level_note='(filled in below)',
    rule=('a case is (operation, specification[, DNA | corrupted DNA tree | recorded draws]); distinct by its full wire text; non-trivial when the '
          'specification has a multi-choice (k >= 2) or a conditional sub-space, or the input is a corrupted tree'),
    trusted_base=['extraction: ExtrOcamlBasic only; ocaml/main.ml lexer/printer; cross-checked against vm_compute on a sample',
                  'harness/props/geno_gen.py builds the real pg.geno objects and the wire form from one Python description of each spec'],
    assumptions=['random.Random is a Section variable of the model: sample(range(n), k) returns k distinct indices below n, randint(0, n-1) stays below n, '
                 'uniform(lo, hi) stays in [lo, hi] (hypotheses of C11_random_member); the check replays the recorded draws of the real generator',
                 'bool DNA values (DNA(True) == DNA(1) in Python) are outside the model',
                 'children under a custom decision point are user-defined by the documentation and are not constrained'],
)
META['level_text'] = (
    'Theorems (every well-formed specification, any nesting, any k and number of candidates, all four distinct x sorted modes): membership in the '
    'specification list all_valid is exactly validity; its length is the value computed by the transcribed space_size recurrences; it is strictly '
    'increasing; first_dna is its head; next_dna of a valid DNA is valid, greater, and the immediate successor in the list (None exactly at the end), '
    'hence iteration and the sweeping generator produce exactly that list; random_dna returns a member for every PRNG meeting its contract. '
    'Tie: the model is run against the library on every specification of the small scope (thorough) or a seeded sample (quick) and on random larger ones: '
    'iteration, size, first/next of every valid DNA, validate / use_spec verdicts on every valid DNA and every one-step corruption, random_dna with recorded draws, '
    'DNA ordering, Sweeping; the direct oracle checks the property text on the library alone (set equality with an independent enumeration), including the sweep as a tuning '
    'backend runs it: k proposals, rewards for a subset (pending trials in the middle and 0..3 at the tail), a fresh Sweeping recovered from the history (in one or two recover calls) '
    'and continued - history ++ continuation is the enumeration, num_proposals agrees - and the enumeration resumed from a member (spec.iter_dna(dna), dna.iter_dna(), next_dna chain) is the tail after it.')
META['level_note'] = (
    'Trusted: Coq kernel; extraction cross-checked with vm_compute; the harness. Modelled, not verified: the Python code itself (tied by the correspondence); '
    'next_dna is modelled on structured decisions and compared through the library\'s own DNA constructor (normalize); statements that are only partly proved are '
    'named *_partial in coq/Properties/C11.v and listed in design/C11.md.')

# ------------------------------------------------------------------------------------------------
FIXED_SPECS = [
    ('S', []),
    ('S', [('C', 1, [('S', [])] * 3, True, False, ('a',), None, ())]),
    ('S', [('C', 2, [('S', [])] * 3, True, True, ('a',), None, ())]),
    ('S', [('C', 3, [('S', [])] * 4, True, False, ('a',), None, ())]),
    ('S', [('C', 3, [('S', [])] * 3, False, True, ('a',), None, ())]),
    ('S', [('C', 2, [('S', [])] * 3, False, False, ('a',), None, ())]),
    ('S', [('F', 0.0, 1.0, ('a',), None)]),
    ('S', [('X', ('a',), None)]),
    ('S', [('C', 1, [('S', []), ('S', [('F', -1.0, 1.0, ('f',), None)])], True, False, ('a',), None, ()), ('F', 0.0, 1.0, ('b',), None)]),
    # the specification of space_test.py / base_test.py
    ('S', [('C', 1, [('S', [('C', 1, [('S', [])] * 2, True, False, ('x',), None, ())]),
                     ('S', [('C', 2, [('S', [])] * 3, True, False, ('y',), None, ())]),
                     ('S', []), ('S', [('X', ('z',), None)]), ('S', [('F', -1.0, 1.0, ('w',), None)])], True, False, ('a',), None, ()),
           ('F', 0.0, 1.0, ('b',), None)]),
    ('S', [('C', 2, [('S', [('C', 2, [('S', [])] * 2, False, True, ('x',), None, ())]),
                     ('S', [('C', 1, [('S', [])] * 2, True, False, ('y',), None, ()), ('C', 1, [('S', [])] * 2, True, False, ('z',), None, ())]),
                     ('S', [])], True, True, ('a',), None, ())]),
]

def has_multi(s):
  return any(p[0] == 'C' and (p[1] >= 2 or any(c[1] for c in p[2]) or any(has_multi(c) for c in p[2])) for p in s[1])

def mode_key(s):
  ks = set()
  def walk(s):
    for p in s[1]:
      if p[0] == 'C':
        ks.add('k%d%s%s' % (min(p[1], 3), 'D' if p[3] else '', 'S' if p[4] else '') if p[1] > 1 else 'k1')
        for c in p[2]: walk(c)
      else:
        ks.add('float' if p[0] == 'F' else 'custom')
  walk(s)
  return '+'.join(sorted(ks)) or 'empty'

class RecRandom(pyrandom.Random):
  """random.Random that records what the three methods used by random_dna return."""
  def __init__(self, seed):
    super().__init__(seed); self.log = []
  def sample(self, population, k, **kw):
    r = super().sample(population, k, **kw); self.log.append([0] + [int(x) for x in r]); return r
  def randint(self, a, b):
    r = super().randint(a, b); self.log.append([1, r]); return r
  def uniform(self, a, b):
    # the real uniform() is a + (b-a)*random(): snap to the 1/64 grid inside [a, b] so that the model's dyadic floats can carry it
    r = super().uniform(a, b)
    r = min(max(round(r * 64) / 64.0, a), b)
    self.log.append([2, G.f64(r)]); return r

def verdict(fn):
  """0 = accepted, 1 = rejected with an exception; returns (verdict, exception class name)."""
  try:
    fn(); return 0, None
  except Exception as e:   # pylint: disable=broad-except
    return 1, type(e).__name__

def detect_quirks(ctx):
  """Replays the witness of every open finding that has a quirk flag; returns the flags as the model wants them."""
  from pyglove.core import geno
  spec = geno.floatv(0.0, 1.0)
  v, _ = verdict(lambda: geno.DNA(0.5, [geno.DNA(1)]).use_spec(spec))
  return dict(float_bind_kids=(v == 0))

class Rec:
  """What a worker process records for the parent: the same API as the parts of Ctx a spec needs."""
  def __init__(self): self.events = []; self.cases = []; self.impl = []; self.descr = []; self.oracle = 0
  def count(self, key, nontrivial=True, sample=None, kind=None): self.events.append(('count', key, nontrivial, sample, kind))
  def hist(self, name, key, n=1): self.events.append(('hist', name, key, n))
  def hit(self, sig, what, case): self.events.append(('hit', sig, what, case))
  def add(self, case, out, d): self.cases.append(case); self.impl.append(out); self.descr.append(d)

def process_spec(job):
  """Everything the check does with one specification (runs in a worker process)."""
  si, s, origin, seed, qtr, P = job
  from pyglove.core import geno
  import time
  rng = pyrandom.Random(seed)
  ctx = Rec()
  if time.time() > P['deadline']:      # wall-clock guard of the tier: the spec is reported as skipped, never silently
    ctx.hist('skipped_for_time_budget', origin); return ctx
  add = ctx.add
  str_ = G.spec_tr(s)
  try:
    pg = G.to_pg(s)
  except Exception as e:   # a generated spec the library refuses: generator bug, fail closed
    raise RuntimeError('generated specification refused by the library: %s: %s' % (G.describe(s), e))
  fin = G.is_finite(s)
  sdesc = G.describe(s)
  ctx.hist('spec_origin', origin); ctx.hist('spec_modes', mode_key(s)); ctx.hist('spec_points', G.count_points(s)); ctx.hist('spec_depth', G.depth(s))
  nontriv = has_multi(s)
  ctx.hist('hypothesis:finite', fin); ctx.hist('hypothesis:nocustom', 'custom' not in mode_key(s))
  members = None
  L = None
  valid_sds = None
  nvalid = G.size(s) if fin else None
  if fin:
    ctx.hist('space_size_log2', nvalid.bit_length())
  if fin and nvalid <= P['limit']:
    valid_sds = G.all_valid(s)
    members = {G.freeze(G.normalize(sd)) for sd in valid_sds}
    # (0) iteration, size, sweeping
    ERR = [-2]          # the outcome of an operation that raised where the model says it cannot: never equal to a model outcome
    try:
      L = list(pg.iter_dna())
    except Exception as e:   # pylint: disable=broad-except
      ctx.hit('C11/iteration-raises/%s' % mode_key(s), 'iter_dna raises %s: %s for %s' % (type(e).__name__, str(e)[:100], sdesc), dict(op='iter', spec=s))
      L = None
    swl = []
    if L is not None:
      try:
        sw = geno.Sweeping(); sw.setup(pg)
        try:
          for _ in range(len(L) + 2): swl.append(sw.propose())
        except StopIteration:
          pass
      except Exception as e:   # pylint: disable=broad-except
        ctx.hit('C11/sweeping-raises/%s' % mode_key(s), 'Sweeping raises %s for %s' % (type(e).__name__, sdesc), dict(op='iter', spec=s)); swl = None
    size = pg.space_size
    if L is None or swl is None:
      add([0, str_, P['limit'] + 5], ERR, dict(op='iter', spec=sdesc))
    else:
      add([0, str_, P['limit'] + 5], [trlib.opt(None if size == -1 else size), [G.tree_tr(G.dna_to_tree(d)) for d in L],
                                      [G.tree_tr(G.dna_to_tree(d)) for d in swl]], dict(op='iter', spec=sdesc))
    ctx.count(('iter', trlib.to_line(str_)), nontrivial=nontriv, kind='iter',
              sample=dict(op='iter', spec=sdesc, space_size=size, first=str(L[0]) if L else None, last=str(L[-1]) if L else None) if nontriv and si % 7 == 0 else None)
    # (7) the specification list itself against the oracle's independent enumeration
    add([7, str_, P['limit'] + 5], [[G.tree_tr(G.normalize(sd)) for sd in valid_sds]], dict(op='all_valid', spec=sdesc))
    ctx.count(('all_valid', trlib.to_line(str_)), nontrivial=nontriv, kind='all_valid')
    if L is not None and swl is not None:
      oracle_iter(ctx, s, pg, L, swl, size, valid_sds, members, sdesc)
      if L and (si % 2 == 0 or not P['resume_every_other']):
        oracle_resume(ctx, s, pg, L, sdesc, rng, P['resume_budget_deep'] if si % 6 == 0 else P['resume_budget']); ctx.oracle += 1
    ctx.oracle += 1
  else:
    size = pg.space_size
    add([0, str_, 0], [trlib.opt(None if size == -1 else size), [], []], dict(op='size', spec=sdesc))
    ctx.count(('size', trlib.to_line(str_)), nontrivial=nontriv, kind='size')
    if fin and size != nvalid:
      ctx.hit('C11/size-differs-from-count/%s' % mode_key(s), 'space_size = %s but %d DNAs satisfy the constraints of %s' % (size, nvalid, sdesc), dict(op='size', spec=s))
  has_custom = 'custom' in mode_key(s)
  # (5) first_dna
  if not has_custom:
    try:
      out = [G.tree_tr(G.dna_to_tree(pg.first_dna()))]
    except Exception as e:   # pylint: disable=broad-except
      ctx.hit('C11/first-raises/%s' % mode_key(s), 'first_dna raises %s: %s for %s' % (type(e).__name__, str(e)[:100], sdesc), dict(op='iter', spec=s)); out = [-2]
    add([5, str_], out, dict(op='first', spec=sdesc))
    ctx.count(('first', trlib.to_line(str_)), nontrivial=nontriv, kind='first')
  # valid decisions to work on: next_dna on `nwork` of them, corruptions on `ncwork` of them
  if valid_sds is not None and len(valid_sds) <= P['nwork']:
    work = list(valid_sds)
  else:
    work = [G.random_sdna(rng, s) for _ in range(P['nwork'] - 2)]
    if valid_sds: work += [valid_sds[0], valid_sds[-1]]
  cwork = set(rng.sample(range(len(work)), min(P['ncwork'], len(work))))
  ncorr = 0
  for wi, sd in enumerate(work):
    t = G.normalize(sd)
    d = G.build_dna(sd)
    # (6) valid + normalize: the library's constructor against the model's normalize
    add([6, str_, G.sdna_tr(sd)], [1, G.tree_tr(G.dna_to_tree(d))], dict(op='normalize', spec=sdesc, dna=str(d)))
    ctx.count(('norm', trlib.to_line(str_), trlib.to_line(G.sdna_tr(sd))), nontrivial=nontriv, kind='normalize')
    # (2) next_dna (when the whole space was iterated every successor was already compared: only a few more)
    if fin and (L is None or wi < 4):
      try:
        nd = pg.next_dna(d); out = [trlib.opt(None if nd is None else G.dna_to_tree(nd), G.tree_tr)]
      except Exception as e:   # pylint: disable=broad-except
        ctx.hit('C11/next-raises/%s' % mode_key(s), 'next_dna(%s) raises %s: %s for %s' % (d, type(e).__name__, str(e)[:100], sdesc), dict(op='iter', spec=s)); out = [-2]
      add([2, str_, G.sdna_tr(sd)], out, dict(op='next', spec=sdesc, dna=str(d)))
      ctx.count(('next', trlib.to_line(str_), trlib.to_line(G.sdna_tr(sd))), nontrivial=nontriv, kind='next')
    # (1) verdicts on the valid DNA itself and on its corruptions
    trees = [('valid', t)] + (G.corruptions(rng, s, sd, limit=P['ncorr']) if wi in cwork else [])
    for kind, raw in trees:
      try:
        dn = G.tree_to_dna(raw)
      except Exception as e:   # the constructor refuses the tree (type check): not a DNA-shaped input
        ctx.hist('corruption_unconstructible', type(e).__name__); continue
      actual = G.dna_to_tree(dn)
      v1, e1 = verdict(lambda: pg.validate(dn))
      v2, e2 = verdict(lambda: dn.use_spec(pg))
      add([1, qtr, str_, G.tree_tr(actual)], [1 - v1, 1 - v2], dict(op='validate/bind', spec=sdesc, kind=kind, tree=repr(actual)))
      ctx.count(('verdict', trlib.to_line(str_), repr(actual)), nontrivial=True, kind='verdict:' + ('valid' if kind == 'valid' else 'corrupted'),
                sample=dict(op='validate/bind', spec=sdesc, corruption=kind, tree=repr(actual), validate='accept' if v1 == 0 else e1, bind='accept' if v2 == 0 else e2) if kind != 'valid' and (ncorr + si) % 97 == 5 else None)
      ncorr += 1
      ctx.hist('corruption_kinds', kind)
      ctx.hist('validate_outcome', e1 or 'accept'); ctx.hist('bind_outcome', e2 or 'accept')
      oracle_verdict(ctx, s, sdesc, kind, actual, v1 == 0, v2 == 0, e1, e2, members); ctx.oracle += 1
  # (3) random_dna with recorded draws
  if not has_custom:
    for seed_ in range(P['nseeds']):
      rr = RecRandom(seed_ * 7919 + si)
      try:
        rd = pg.random_dna(rr)
      except Exception as e:   # pylint: disable=broad-except
        ctx.hit('C11/random-raises/%s' % mode_key(s), 'random_dna raises %s: %s for %s' % (type(e).__name__, str(e)[:100], sdesc), dict(op='random', spec=s, seed=seed_ * 7919 + si))
        add([3, str_, rr.log], [-2], dict(op='random', spec=sdesc, seed=seed_)); continue
      add([3, str_, rr.log], [G.tree_tr(G.dna_to_tree(rd)), 0], dict(op='random', spec=sdesc, seed=seed_))
      ctx.count(('random', trlib.to_line(str_), seed_), nontrivial=nontriv, kind='random')
      t = G.dna_to_tree(rd)
      member = (G.freeze(t) in members) if members is not None else (G.parse_tree(s, t) is not None)
      ctx.oracle += 1
      if not member:
        ctx.hit('C11/random-nonmember/%s' % mode_key(s), 'random_dna returned %r which is not a valid DNA of %s' % (t, sdesc), dict(op='random', spec=s, seed=seed_ * 7919 + si))
  # (4) DNA ordering
  if L is not None and len(L) >= 2:
    pairs = [(L[i], L[i + 1]) for i in rng.sample(range(len(L) - 1), min(2, len(L) - 1))] + [(L[-1], L[0]), (L[0], L[0])]
    for a, b in pairs:
      add([4, G.tree_tr(G.dna_to_tree(a)), G.tree_tr(G.dna_to_tree(b))], [trlib.opt(cmp_impl(a, b))], dict(op='cmp', a=str(a), b=str(b)))
      ctx.count(('cmp', str(a), str(b)), nontrivial=nontriv, kind='cmp')
  return ctx

def run_jobs_with(fn, jobs, nproc):
  import multiprocessing as mp
  if nproc <= 1 or len(jobs) < 8:
    return [fn(j) for j in jobs]
  with mp.get_context('fork').Pool(nproc) as pool:
    return pool.map(fn, jobs, chunksize=max(1, len(jobs) // (nproc * 8)))

def process_spec_safe(job):
  """An exception escaping the per-spec driver is itself a failing input (the spec is replayable), never a crash of the check."""
  try:
    return process_spec(job)
  except Exception as e:   # pylint: disable=broad-except
    import traceback
    rec = Rec()
    rec.hit('C11/unexpected-exception/%s' % type(e).__name__,
            'the library raised %s: %s on %s (%s)' % (type(e).__name__, str(e)[:150], G.describe(job[1]), traceback.format_exc().strip().split('\n')[-3].strip()[:120]),
            dict(op='iter', spec=job[1]))
    return rec

def run_jobs(jobs, nproc):
  return run_jobs_with(process_spec_safe, jobs, nproc)

def run(ctx):
  ctx.build()
  import os
  from pyglove.core import geno
  rng = ctx.rng
  q = detect_quirks(ctx)
  qtr = [int(q['float_bind_kids'])]
  ctx.extra['quirk_flags_from_witness_replay'] = q
  import time
  P = dict(limit=ctx.scale(100, 400), nwork=ctx.scale(8, 14), ncwork=ctx.scale(3, 4), ncorr=ctx.scale(12, 30), nseeds=ctx.scale(3, 20), resume_budget=ctx.scale(40, 40), resume_budget_deep=ctx.scale(40, 200), resume_every_other=ctx.thorough,
           deadline=time.time() + ctx.scale(70, 1100))
  ctx.extra['per_spec_parameters'] = {k: v for k, v in P.items() if k != 'deadline'}
  # ---- specifications ---------------------------------------------------------------------------
  small = G.small_specs()
  small2 = [s for s in small if G.count_points(s) <= 2]
  small3 = [s for s in small if G.count_points(s) == 3]
  ctx.extra['small_scope'] = dict(bounds='<= 3 decision points (a multi-choice counts once), <= 3 candidates, k <= 3, all distinct x sorted modes, conditional nesting <= 2',
                                  specs_with_at_most_2_points=len(small2), specs_with_3_points=len(small3))
  if ctx.thorough:
    chosen_small = small2 + [small3[i] for i in sorted(rng.sample(range(len(small3)), 4000))]
    ctx.extra['small_scope']['swept'] = 'every spec with <= 2 decision points (exhaustive) + a seeded sample of 4000 of the 13 200 3-point specs'
  else:
    small1 = [s for s in small2 if G.count_points(s) <= 1]          # every (n, k, distinct, sorted) mode of one decision point: always swept
    small2b = [s for s in small2 if G.count_points(s) == 2]
    chosen_small = small1 + [small2b[i] for i in sorted(rng.sample(range(len(small2b)), 28))] + [small3[i] for i in sorted(rng.sample(range(len(small3)), 22))]
    ctx.extra['small_scope']['swept'] = 'all %d specs with <= 1 decision point (every n x k x distinct x sorted mode) + seeded sample: 28 specs with 2 points, 22 with 3 points' % len(small1)
  rand_specs = []
  for i in range(ctx.scale(25, 1200)):
    fin = rng.random() < 0.6
    rand_specs.append(G.random_spec(rng, budget=rng.choice([3, 4, 5, 6, 8]), d=rng.choice([2, 3, 3, 4]), allow_inf=not fin,
                                    max_cands=rng.choice([3, 4, 5]), max_k=3))
  # order: fixed and the <= 2-point specs first; the 3-point sample and the random specs are shuffled together (seeded), so that
  # when the wall-clock guard of the tier cuts the run short on a busy machine it cuts both groups proportionally
  head = [(s, 'fixed') for s in FIXED_SPECS] + [(s, 'small') for s in chosen_small if G.count_points(s) <= 2]
  tail = [(s, 'small') for s in chosen_small if G.count_points(s) > 2] + [(s, 'random') for s in rand_specs]
  rng.shuffle(tail)
  specs = head + tail
  if os.environ.get('C11_MAXSPECS'):
    specs = specs[::max(1, len(specs) // int(os.environ['C11_MAXSPECS']))]
  jobs = [(si, s, origin, rng.getrandbits(48), qtr, P) for si, (s, origin) in enumerate(specs)]
  nproc = int(os.environ.get('VERIF_JOBS', str(min(12, os.cpu_count() or 2))))
  recs = run_jobs(jobs, nproc)
  ctx.log('implementation ran on %d specifications (%d worker processes)' % (len(specs), nproc))
  cases, impl, descr = [], [], []
  ocount = 0
  for r in recs:
    cases += r.cases; impl += r.impl; descr += r.descr; ocount += r.oracle
    for ev in r.events:
      if ev[0] == 'count': ctx.count(ev[1], nontrivial=ev[2], sample=ev[3], kind=ev[4])
      elif ev[0] == 'hist': ctx.hist(ev[1], ev[2], ev[3])
      else: ctx.hit(ev[1], ev[2], ev[3])
  def add(case, out, d):
    cases.append(case); impl.append(out); descr.append(d)
  # (DNA.__cmp__ across different shapes / value types is outside the property: only DNAs of one specification are compared)
  ctx.log('%d cases over %d specifications; running the model' % (len(cases), len(specs)))
  outs = ctx.model_run(cases)
  look = {id(c): d for c, d in zip(cases, descr)}
  bad = ctx.compare('Geno.run vs pyglove.core.geno', cases, impl, outs, describe=lambda c: look.get(id(c)))
  ctx.extra['oracle_evaluations'] = ocount
  ctx.exhaustive = False
  if ctx.thorough:
    ctx.extra['small_scope']['exhaustive_part'] = 'specs with <= 2 decision points'
  # targeted search when something is broken and the oracle found nothing yet: iterate many more small specs with the oracle only
  if ctx.is_broken() and not ctx.hits:
    probe = Rec()
    t_search = time.time()
    for s in small[:: max(1, len(small) // 400)]:
      if time.time() - t_search > ctx.scale(25, 300): break
      if G.size(s) > 120: continue
      pg = G.to_pg(s)
      vs = G.all_valid(s)
      L = list(pg.iter_dna())
      oracle_iter(probe, s, pg, L, None, pg.space_size, vs, {G.freeze(G.normalize(sd)) for sd in vs}, G.describe(s))
      if probe.events: break
    for ev in probe.events:
      if ev[0] == 'hit': ctx.hit(ev[1], ev[2], ev[3])

def cmp_impl(a, b):
  try:
    lt, eq = a < b, a == b
  except ValueError:
    return None
  return -1 if lt else (0 if eq else 1)

# ------------------------------------------------------------------------------------------------
# the direct oracle: the property text on the library alone
def oracle_iter(ctx, s, pg, L, swl, size, valid_sds, members, sdesc):
  mk = mode_key(s)
  case = dict(op='iter', spec=s)
  trees = [G.freeze(G.dna_to_tree(d)) for d in L]
  if size != len(L):
    ctx.hit('C11/size-differs-from-iteration/%s' % mk, 'space_size = %s but iteration yields %d DNAs for %s' % (size, len(L), sdesc), case)
  if len(set(trees)) != len(trees):
    ctx.hit('C11/iteration-repeats/%s' % mk, 'iteration yields a DNA twice for %s' % sdesc, case)
  for i in range(len(L) - 1):
    if not (L[i] < L[i + 1]):
      ctx.hit('C11/iteration-not-increasing/%s' % mk, 'iteration of %s is not strictly increasing at position %d: %s then %s' % (sdesc, i, L[i], L[i + 1]), case); break
  got = set(trees)
  if got != members:
    missing = sorted(members - got, key=repr)[:1]; extra = sorted(got - members, key=repr)[:1]
    ctx.hit('C11/iteration-set-differs/%s/%s' % (mk, 'skips-valid' if missing else 'yields-invalid'),
            'iteration of %s %s' % (sdesc, ('never yields the valid DNA %r' % (missing[0],)) if missing else ('yields %r which violates the constraints' % (extra[0],))), case)
  if L and L[-1].next_dna() is not None:
    ctx.hit('C11/last-has-successor/%s' % mk, 'the last DNA of the iteration of %s has a successor' % sdesc, case)
  if swl is not None and [G.freeze(G.dna_to_tree(d)) for d in swl] != trees:
    ctx.hit('C11/sweeping-differs/%s' % mk, 'Sweeping proposes a different sequence than iter_dna for %s' % sdesc, case)

def resume_scenarios(n, rng, budget):
  """(k proposals, rewarded positions) of an interrupted sweep over n DNAs: j = 0..3 pending trials at the tail, each with no /
  one / alternating pending trials in the middle; k runs over every prefix length when the space is small, otherwise over
  0, 1, j, j+1, n//2, n-1, n and random ones, within a budget of about `budget` proposals."""
  out = []
  ks_all = list(range(n + 1)) if n <= 8 else sorted(set([0, 1, 2, 3, 4, n // 2, n - 2, n - 1, n] + [rng.randrange(n + 1) for _ in range(3)]))
  combos = [(k, j, mid) for k in ks_all for j in range(4) if j <= k for mid in ('none', 'one', 'alternate') if mid == 'none' or k - j >= 2]
  rng.shuffle(combos)
  combos.sort(key=lambda c: 0 if (c[1] >= 1 and c[0] not in (0, n)) else 1)     # a wall-clock / size cut keeps the interesting ones
  seen_jm = set(); first = []; rest = []
  for c in combos:
    (first if (c[1], c[2]) not in seen_jm else rest).append(c); seen_jm.add((c[1], c[2]))
  spent = 0
  for k, j, mid in first + rest:
    if spent > budget: break
    done = set(range(k - j))
    if mid == 'one': done.discard(rng.randrange(k - j - 1))            # never the last rewarded one: the tail stays exactly j long
    elif mid == 'alternate': done -= set(range(0, k - j - 1, 2))
    out.append((k, j, mid, done)); spent += n + 2
  return out

def oracle_resume(ctx, s, pg, L, sdesc, rng, budget):
  """The sweep as a tuning backend runs it: k proposals, rewards for a subset (pending trials in the middle and at the tail),
  a FRESH Sweeping recovered from [(dna, reward or None)], continued: history ++ continuation is the enumeration.
  And the enumeration resumed from a member (iter_dna(dna), dna.iter_dna(), next_dna) is the tail after that member.
  Cost control (a proposal costs 10-40 ms): short histories are proposed by a live generator, long ones are the first k members of
  the enumeration (equal to the proposals by the sweeping clause of op 0); the continuation is drained to exhaustion when at most
  6 DNAs remain and in the first scenario, otherwise 3 proposals are compared; `budget` counts proposals."""
  from pyglove.core import geno
  import itertools
  mk = mode_key(s)
  trees = [G.freeze(G.dna_to_tree(d)) for d in L]
  n = len(L)
  fz = lambda ds: [G.freeze(G.dna_to_tree(d)) for d in ds]
  spent = 0
  for si_, (k, j, mid, done) in enumerate(resume_scenarios(n, rng, 10 ** 9)):
    if spent > budget: break
    live = k <= 6
    full = (n - k <= 6) or (si_ == 0 and n <= 60)
    ncont = n - k + 3 if full else 3
    spent += (k if live else 0) + min(ncont, n - k + 1) + 1
    case = dict(op='resume', spec=s, k=k, pending_tail=j, rewarded=sorted(done))
    ctx.hist('sweep_resume', 'tail-pending=%d/middle-pending=%s' % (j, mid))
    ctx.hist('sweep_resume_history', ('proposed-live' if live else 'members') + ('/drained' if full else '/3-more'))
    try:
      a1 = None
      if live:
        a1 = geno.Sweeping(); a1.setup(pg)
        proposed = []
        for i in range(k):
          d = a1.propose(); proposed.append(d)
          if i in done and (i % 2 == 0): a1.feedback(d, float(i))            # some rewards arrive at once, the others later, out of order
        for i in sorted(done, reverse=True):
          if i % 2 == 1: a1.feedback(proposed[i], float(i))
      else:
        proposed = L[:k]
      history = [(d, float(i) if i in done else None) for i, d in enumerate(proposed)]
      cont1 = None
      if live and si_ == 0:          # the interrupted generator simply goes on
        cont1 = []
        try:
          for _ in range(ncont): cont1.append(a1.propose())
        except StopIteration:
          pass
      a2 = geno.Sweeping(); a2.setup(pg)
      half = rng.randrange(len(history) + 1) if (k + j) % 3 == 0 else len(history)
      a2.recover(history[:half])                                             # recover may be called several times (several sources of history)
      if half < len(history): a2.recover(history[half:])
      cont2 = []
      try:
        for _ in range(ncont):
          d = a2.propose(); cont2.append(d)
          if len(cont2) % 2: a2.feedback(d, 1.0)
      except StopIteration:
        pass
    except Exception as e:   # pylint: disable=broad-except
      ctx.hit('C11/sweeping-resume-raises/%s' % type(e).__name__, 'sweeping %d of %d, %d pending at the tail, recovering and continuing raises %s: %s (spec %s)' % (k, n, j, type(e).__name__, str(e)[:100], sdesc), case)
      return
    for who, cont, algo in (('interrupted', cont1, a1), ('recovered', cont2, a2)):
      if cont is None: continue
      whole = fz(proposed) + fz(cont)
      want = trees if full else trees[:k + 3]
      if whole != want:
        kind = 'repeats' if len(set(whole)) != len(whole) else 'skips' if len(whole) < len(want) else 'differs'
        ctx.hit('C11/sweeping-resume/%s/%s/tail-pending=%s/middle-pending=%s' % (who, kind, 'yes' if j else 'no', mid),
                'after %d proposals (rewards for %s; %d pending at the tail) the %s sweep continues with %s instead of %s: %d DNAs so far, the enumeration has %d at this point (space size %d; spec %s)'
                % (k, sorted(done), j, who, [str(d) for d in cont[:2]], [str(d) for d in L[k:k + 2]], len(whole), len(want), n, sdesc), case)
        return
      if algo.num_proposals != len(want):
        ctx.hit('C11/sweeping-resume/%s/num_proposals' % who, 'the %s sweep handed out %d DNAs overall but reports num_proposals = %d (spec %s)' % (who, len(want), algo.num_proposals, sdesc), case)
        return
  # the enumeration resumed from a member
  idx = list(range(n)) if n <= 5 else sorted(set([0, n - 2, n - 1, rng.randrange(n), rng.randrange(n)]))
  for i in idx:
    case = dict(op='resume', spec=s, k=i, pending_tail=0, rewarded=[])
    cap0 = n if (n <= 5 or i >= n - 2) else 4
    for how, make in (('spec.iter_dna(dna)', lambda: pg.iter_dna(L[i])), ('dna.iter_dna()', lambda: L[i].iter_dna()),
                      ('spec.iter_dna(rebuilt dna)', lambda: pg.iter_dna(G.tree_to_dna(G.dna_to_tree(L[i])))),
                      ('next_dna chain', lambda: _next_chain(L[i]))):
      cap = cap0 if how == 'spec.iter_dna(dna)' else min(cap0, 2)      # one way runs to the end, the others must start right
      want = trees[i + 1:i + 1 + cap]
      try:
        got = fz(itertools.islice(make(), cap + (1 if cap == n else 0)))
      except Exception as e:   # pylint: disable=broad-except
        ctx.hit('C11/iteration-resumed-raises/%s' % type(e).__name__, '%s from member %d (%s) raises %s (spec %s)' % (how, i, L[i], type(e).__name__, sdesc), case); return
      if got != want:
        ctx.hit('C11/iteration-resumed-differs/%s' % how.split('(')[0], '%s from member %d (%s) yields %s..., the enumeration continues with %s... (spec %s)' % (how, i, L[i], got[:2], want[:2], sdesc), case); return
    ctx.hist('iteration_resumed_from', 'first' if i == 0 else 'last' if i == n - 1 else 'middle')

def _next_chain(d):
  while True:
    d = d.next_dna()
    if d is None: return
    yield d

def oracle_verdict(ctx, s, sdesc, kind, tree, val_ok, bind_ok, e1, e2, members):
  why = G.reject_reason(s, tree)
  member = why is None
  if members is not None and member != (G.freeze(tree) in members):
    raise RuntimeError('oracle inconsistency: parse_tree and the enumerated member set disagree on %r for %s' % (tree, sdesc))
  case = dict(op='verdict', spec=s, tree=tree)
  if val_ok != member:
    ctx.hit('C11/validate-%s/%s' % ('accepts-nonmember' if val_ok else 'rejects-member', why or kind),
            'spec.validate %s %r (%s) for %s' % ('accepts the non-member' if val_ok else 'rejects (%s) the valid DNA' % e1, tree, kind, sdesc), case)
  if bind_ok != member:
    ctx.hit('C11/bind-%s/%s' % ('accepts-nonmember' if bind_ok else 'rejects-member', why or kind),
            'DNA.use_spec %s %r (%s) for %s' % ('accepts the non-member' if bind_ok else 'rejects (%s) the valid DNA' % e2, tree, kind, sdesc), case)

def _thaw(x):
  if isinstance(x, list) and len(x) == 2 and isinstance(x[1], list) and not isinstance(x[0], list):
    return (x[0], [_thaw(c) for c in x[1]])
  return x

def _spec_from_json(j):
  if j[0] == 'S': return ('S', [_spec_from_json(p) for p in j[1]])
  if j[0] == 'C': return ('C', j[1], [_spec_from_json(c) for c in j[2]], j[3], j[4], tuple(j[5]), j[6], tuple(j[7]))
  if j[0] == 'F': return ('F', j[1], j[2], tuple(j[3]), j[4])
  return ('X', tuple(j[1]), j[2])

def replay(ctx, rp):
  c = rp['case']
  s = _spec_from_json(c['spec'])
  pg = G.to_pg(s)
  class Probe:
    def __init__(self): self.hits = []
    def hit(self, sig, what, case): self.hits.append((sig, what))
  p = Probe()
  sdesc = G.describe(s)
  if c['op'] == 'iter':
    vs = G.all_valid(s)
    from pyglove.core import geno
    try:
      L = list(pg.iter_dna()); pg.first_dna()
      for sd in vs[:50]: pg.next_dna(G.build_dna(sd))
    except Exception as e:   # pylint: disable=broad-except
      print('  still fails: iteration raises', repr(e)[:200]); return False
    sw = geno.Sweeping(); sw.setup(pg); swl = []
    try:
      for _ in range(len(L) + 2): swl.append(sw.propose())
    except StopIteration:
      pass
    oracle_iter(p, s, pg, L, swl, pg.space_size, vs, {G.freeze(G.normalize(sd)) for sd in vs}, sdesc)
  elif c['op'] == 'resume':
    L = list(pg.iter_dna())
    class P2(Probe):
      def hist(self, *a): pass
    p = P2()
    for seed in range(6):
      oracle_resume(p, s, pg, L, sdesc, pyrandom.Random(seed), 600)
      if p.hits: break
  elif c['op'] == 'verdict':
    tree = _thaw(c['tree'])
    dn = G.tree_to_dna(tree); dn2 = G.tree_to_dna(tree)
    v1, e1 = verdict(lambda: pg.validate(dn)); v2, e2 = verdict(lambda: dn2.use_spec(pg))
    oracle_verdict(p, s, sdesc, 'replay', G.dna_to_tree(dn), v1 == 0, v2 == 0, e1, e2, None)
  elif c['op'] == 'random':
    try:
      rd = pg.random_dna(RecRandom(c['seed']))
      if G.parse_tree(s, G.dna_to_tree(rd)) is None:
        p.hits.append(('C11/random-nonmember', repr(rd)))
    except Exception as e:   # pylint: disable=broad-except
      p.hits.append(('C11/random-raises', repr(e)[:100]))
  for h in p.hits:
    print('  still fails:', h)
  return not p.hits

"""C18 — symbolized callables keep Python call semantics."""
import collections, inspect, itertools, json, sys
from harness.lib import tr as trlib
from harness.translators import binding_calltime

GENERATED = {'Gen/BindingCallTime.v': binding_calltime.translate}

META = dict(
    id='C18',
    model_run='PG.Model.BindingRun.run',
    model_targets=['Model/BindingRun.vo'],
    instance_obligations=['generated_code_agrees_on_grid (Proofs/BindingGen.v: the program regenerated from Functor._parse_call_time_overrides agrees with the hand model on a finite grid, vm_compute, re-checked on the code regenerated from the current source)'],
    technique=('Coq proof over an executable model of (1) the language rule binding call arguments to a signature, (2) Functor.__init__ / _on_change / '
               '_parse_call_time_overrides / __call__, Object.__init__ + ClassWrapper._call_init, Signature.to_schema/from_schema/make_function and '
               '(3) the specification "same effective arguments passed directly"; differential correspondence of all three against the code and the '
               'interpreter; Functor._parse_call_time_overrides regenerated from the source by a fail-closed ast translator into a deep-embedded program (Gen/BindingCallTime.v) that is proved equal to the hand model on a finite grid and compared with it on every case of every run; direct differential oracle against the original callable'),
    design_ref='DESIGN.md §5 C18',
    level_text=('Theorems: for every signature (any number of positional parameters with or without defaults, positional-only ones, *args, keyword-only parameters, **kwargs) and every '
                'construction call, sequence of later bindings, call-time arguments and override/ignore_extra flags, the functor model yields exactly what the '
                'language rule yields on the effective call, or TypeError in both; the bookkeeping (specified arguments, stored attributes) describes the effective '
                'arguments; clone and JSON round trip preserve them; the generated __init__ signature equals the original; the same for symbolized classes. '
                'Tie: the model of the language rule is run against the interpreter itself (a real call and inspect.signature.bind), the functor / class model against '
                'pg.functor / pg.symbolize objects, the effective-call specification against an independent Python reading; a direct oracle compares every case with a '
                'direct call of the original function.'),
    level_note=('Trusted: Coq kernel; extraction (ExtrOcamlBasic) cross-checked against vm_compute; the translator for _parse_call_time_overrides and the interpreter of its '
                'Python subset; the hand-written model of Functor.__init__/_on_change, object.py __init__, class_wrapper.py _call_init and callable_signature.py '
                '(tied by the correspondence run only). The regenerated call-time code is proved equal to the hand model on a finite grid, not for all inputs. '
                'Not modelled: dict iteration order (unobservable through ==), value specs other than Any/int annotations, MISSING_VALUE as an argument; '
                'subclasses of symbolized classes and pg.Functor subclasses with _call are covered by correspondence against the class / functor model and by the oracle, '
                'without a model of their own.'),
    rule=('a case is (signature, symbolization kind, construction call, flags, later bindings, call-time arguments, call-time flags, clone/JSON step); distinct by all '
          'of these; non-trivial when at least two of the supply routes (construction, later binding, call time) carry an argument or an error is expected'),
    trusted_base=['translator harness/translators/binding_calltime.py (fail-closed ast reader; conventions: value-spec apply is the identity on untyped arguments, exception messages are not evaluated, utils.auto_plural/comma_delimited_str are message helpers) and the interpreter coq/Model/BindingLang.v of the Python subset',
                  'extraction: ExtrOcamlBasic only; ocaml/main.ml lexer/printer; cross-checked against vm_compute on a sample',
                  'hand-written Gallina transcription of Functor.__init__ / _on_change / object.py __init__ / class_wrapper.py _call_init / callable_signature.py (no translator for these; _parse_call_time_overrides is regenerated): tied by the differential run on every case',
                  'Python exec of generated source text to create the functions and classes under test'],
    assumptions=['the wrapped callable itself is deterministic and only observed through the arguments it receives (it returns dict(locals()))'],
)

# ------------------------------------------------------------------------------------------------
NAMES = dict(a=1, b=2, c=3, k=4, m=5, args=10, kw=11, zz=20, yy=21)
CODE = {v: k for k, v in NAMES.items()}
POS_NAMES, KW_NAMES = 'abc', 'km'

def mk_sig(npos, pdef, va, nkw, kdef, vk):
  """pdef / kdef: tuples of bools (has default)."""
  return dict(pos=[(POS_NAMES[i], 10 + i if pdef[i] else None) for i in range(npos)], varargs='args' if va else None,
              kwonly=[(KW_NAMES[i], 20 + i if kdef[i] else None) for i in range(nkw)], varkw='kw' if vk else None)

def all_sigs(maxpos, maxkw):
  for npos in range(maxpos + 1):
    for nd in range(npos + 1):                      # defaults are a suffix (the language requires it)
      pdef = tuple(i >= npos - nd for i in range(npos))
      for va in (False, True):
        for nkw in range(maxkw + 1):
          for kdef in itertools.product((False, True), repeat=nkw):
            for vk in (False, True):
              yield mk_sig(npos, pdef, va, nkw, kdef, vk)

def sig_key(sig):
  return json.dumps(sig, sort_keys=True)

def param_text(sig, annotated):
  ps = []
  ann = ': int' if annotated else ''
  for i, (n, d) in enumerate(sig['pos']):
    ps.append(n + ann + ('' if d is None else ' = %d' % d))
    if i + 1 == sig.get('posonly', 0):
      ps.append('/')
  if sig['varargs']:
    ps.append('*' + sig['varargs'] + ann)
  elif sig['kwonly']:
    ps.append('*')
  for n, d in sig['kwonly']:
    ps.append(n + ann + ('' if d is None else ' = %d' % d))
  if sig['varkw']:
    ps.append('**' + sig['varkw'] + ann)
  return ps

def fn_source(sig, annotated=False):
  return 'def f(%s):\n  return dict(locals())\n' % ', '.join(param_text(sig, annotated))

def cls_source(sig, annotated=False):
  return ('class C:\n  def __init__(%s):\n    self.rec = {k_: v_ for k_, v_ in locals().items() if k_ != "self"}\n'
          % ', '.join(['self'] + param_text(sig, annotated)))

_CACHE = {}
def build(sig, kind, annotated=False):
  """kind: 'functor' (pg.functor), 'symbolize' (pg.symbolize of a function), 'class' (pg.symbolize of a class).
  Returns (original callable, symbolic class)."""
  import pyglove as pg
  key = (sig_key(sig), kind, annotated)
  if key not in _CACHE:
    import types
    mod = types.ModuleType('c18_generated_%d' % len(_CACHE))
    sys.modules[mod.__name__] = mod
    ns = mod.__dict__
    if kind == 'subclassed':
      # a subclass of pg.Functor with fields and _call; the original callable is the function of the same parameters
      # (a required field after one with a default is not a legal def: it gets a sentinel default that raises TypeError)
      ns['pg'] = pg; ns['_REQ'] = object()
      seen, ps, chk = False, [], []
      for n, d in sig['pos']:
        if d is not None: seen = True; ps.append('%s = %d' % (n, d))
        elif seen: ps.append('%s = _REQ' % n); chk.append("  if %s is _REQ: raise TypeError('missing %s')\n" % (n, n))
        else: ps.append(n)
      exec('def f(%s):\n%s  return dict(locals())\n' % (', '.join(ps), ''.join(chk)), ns)
      orig = ns['f']
      body = ''.join('  %s: int%s\n' % (n, '' if d is None else ' = %d' % d) for n, d in sig['pos'])
      members = 'dict(%s)' % ', '.join('%s=self.%s' % (n, n) for n, _ in sig['pos'])
      inner = ('self(%s=99, override_args=True)' % sig['pos'][0][0]) if sig['pos'] else 'self()'
      ns['_REENTER'] = [False]; ns['_DEPTH'] = [0]
      # _call may re-enter the functor (once); what it reads before and after the inner call must be the same
      exec('class S(pg.Functor):\n%s  def _call(self):\n    before = %s\n'
           '    if _REENTER[0] and _DEPTH[0] == 0:\n      _DEPTH[0] += 1\n      try:\n        %s\n      except Exception:\n        pass\n      finally:\n        _DEPTH[0] -= 1\n'
           '    after = %s\n    if before != after:\n      raise AssertionError(\'the members _call reads changed while it ran\')\n    return after\n' % (body, members, inner, members), ns)
      sym = ns['S']
      sym._c18_ns = ns
    elif kind == 'class':
      exec(cls_source(sig, annotated), ns)
      orig = ns['C']
      sym = pg.symbolize(orig, auto_typing=True) if annotated else pg.symbolize(orig)
    else:
      exec(fn_source(sig, annotated), ns)
      orig = ns['f']
      if kind == 'functor':
        sym = pg.functor(orig) if not annotated else pg.functor(auto_typing=True)(orig)
      else:
        sym = pg.symbolize(orig, auto_typing=True) if annotated else pg.symbolize(orig)
    _CACHE[key] = (orig, sym)
  return _CACHE[key]

def base_call_text(sigb):
  """How the subclass __init__ calls super().__init__: every positional parameter of the base by position, required keyword-only ones by keyword."""
  if sigb is None: return ''
  parts = ['0'] * len(sigb['pos']) + ['%s=0' % n for n, d in sigb['kwonly'] if d is None]
  return ', '.join(parts)

def base_source(sigb):
  return 'class C:\n  pass\n' if sigb is None else cls_source(sigb)

def sub_source(sigb, sigd, sub_init='own-super'):
  """sub_init: 'none' (the subclass has no __init__ of its own), 'own-super' (its own __init__ calls super().__init__),
  'own-nosuper' (its own __init__ does not)."""
  if sub_init == 'none':
    return 'class D(B):\n  pass\n'
  return ('class D(B):\n  def __init__(%s):\n%s'
          '    self.rec = {k_: v_ for k_, v_ in locals().items() if k_ not in ("self", "__class__")}\n'
          % (', '.join(['self'] + param_text(sigd, False)), '    super().__init__(%s)\n' % base_call_text(sigb) if sub_init == 'own-super' else ''))

_PAIRS = {}
def build_pair(pair_id, sigb, sigd, order, sub_init='own-super'):
  """A symbolized base class (with an __init__ of shape sigb, or without one when sigb is None) and a subclass of the wrapper
  with or without its own __init__ (pyglove symbolizes it automatically), next to the same pair left plain.
  order: 'sub-first' (the subclass is used before the base ever is), 'base-first' (the base is instantiated first),
  'base-rebound-first' (instantiated and rebound first). Returns (plain subclass, symbolic subclass)."""
  import pyglove as pg, types
  if pair_id not in _PAIRS:
    out = []
    for symbolic in (False, True):
      mod = types.ModuleType('c18_pair_%d_%d' % (len(_PAIRS), int(symbolic)))
      sys.modules[mod.__name__] = mod
      ns = mod.__dict__
      exec(base_source(sigb), ns)
      B = ns['C']
      if symbolic:
        B = pg.symbolize(B)
      ns['B'] = B
      if order != 'sub-first':
        b = B() if sigb is None else B(*[0] * len(sigb['pos']), **{n: 0 for n, d in sigb['kwonly'] if d is None})
        if order == 'base-rebound-first' and symbolic and sigb is not None:
          names = [n for n, _ in sigb['pos'] + sigb['kwonly']]
          if names: b.rebind({names[0]: 5})
          b.clone(deep=True)
      exec(sub_source(sigb, sigd, sub_init), ns)
      out.append(ns['D'])
    _PAIRS[pair_id] = tuple(out)
  return _PAIRS[pair_id]

def rec_of(obj):
  """What the user __init__ recorded ({} when no class of the hierarchy has an __init__)."""
  return getattr(obj, 'rec', {})

def class_under_test(case):
  if case['kind'] == 'subclass':
    return build_pair(case['pair'], case['base_sig'], case['sig'], case['order'], case.get('sub_init', 'own-super'))
  return build(case['sig'], 'class', case.get('annotated', False))

# ---- tree encodings (must print exactly what Model/Binding.v prints) --------------------------------
def enc_val(v):
  if isinstance(v, (list, tuple)) or type(v).__name__ == 'List':
    return [int(x) for x in v]
  return int(v)

def enc_sig(sig):
  return [[[NAMES[n], trlib.opt(d)] for n, d in sig['pos']], trlib.opt(sig['varargs'] and NAMES[sig['varargs']]),
          [[NAMES[n], trlib.opt(d)] for n, d in sig['kwonly']], trlib.opt(sig['varkw'] and NAMES[sig['varkw']]), sig.get('posonly', 0)]

def enc_call(c):
  return [[enc_val(v) for v in c[0]], [[NAMES[k], enc_val(v)] for k, v in c[1]]]

def enc_kvs(items):
  return [[c, enc_val(v)] for c, v in sorted((NAMES[k], v) for k, v in items)]

def err_kind(e):
  return 1 if isinstance(e, TypeError) else 2 if isinstance(e, KeyError) else 3

def enc_bound(sig, d):
  """d = what the original callable saw (dict of its locals)."""
  if any(n not in d for n, _ in sig['pos'] + sig['kwonly']) or (sig['varargs'] and sig['varargs'] not in d) or (sig['varkw'] and sig['varkw'] not in d):
    return [3]          # the __init__ with these parameters never ran on the object
  named = [[NAMES[n], enc_val(d[n])] for n, _ in sig['pos'] + sig['kwonly']]
  var = [enc_val(v) for v in d[sig['varargs']]] if sig['varargs'] else []
  kw = enc_kvs(d[sig['varkw']].items()) if sig['varkw'] else []
  return [0, named, var, kw]

def enc_names(names):
  return sorted(NAMES[n] for n in names)

def attrs_of(sig, x):
  import pyglove as pg
  items = [(k, v) for k, v in x.sym_init_args.sym_items() if k != sig['varargs'] and v != pg.MISSING_VALUE]
  vattr = list(x.sym_init_args.sym_getattr(sig['varargs'], [])) if sig['varargs'] else []
  return enc_kvs(items), [enc_val(v) for v in vattr]

# ---- implementation drivers ----------------------------------------------------------------------------
_HOLDER = []
def holder_class():
  """A pg.Object with a field that holds the functor (and another field for batched rebinds)."""
  import pyglove as pg
  if not _HOLDER:
    class C18Holder(pg.Object):
      fn: pg.typing.Any()
      z: int = 0
    _HOLDER.append(C18Holder)
  return _HOLDER[0]

def make_container(kind, x):
  import pyglove as pg
  if kind == 'dict': return pg.Dict(fn=x, other=0)
  if kind == 'list': return pg.List([x, 0])
  if kind == 'object': return holder_class()(fn=x)
  return None

def child_of(kind, root):
  return root.fn if kind in ('dict', 'object') else root[0]

def bind_later(case, i, x, root, k, v):
  """One later binding, by the route case['routes'][i]: on the functor itself (rebind / attribute assignment) or by rebinding
  the container that holds it with a deep path, alone or batched with another path, with change notification on or off."""
  import pyglove as pg
  r = case['routes'][i] if case.get('routes') else {}
  route = r.get('route') or ('setattr' if case.get('setattr') else 'rebind')
  fields = [n for n, _ in case['sig']['pos'] + case['sig']['kwonly']] + [case['sig']['varargs']]
  if v is None and r.get('how', 'missing') == 'del':
    with pg.notify_on_change(bool(r.get('notify', True))):
      delattr(x, k)
    return
  if v is None:
    v = pg.MISSING_VALUE
  with pg.notify_on_change(bool(r.get('notify', True))):
    if route == 'ancestor' and root is not None:
      kind = case['container']
      prefix = {'dict': 'fn.', 'object': 'fn.', 'list': '[0].'}[kind]
      upd = {prefix + k: v}
      if r.get('batch'):
        upd[{'dict': 'other', 'object': 'z', 'list': '[1]'}[kind]] = i + 1
      root.rebind(upd, raise_on_no_change=False)
    elif route == 'setattr' and k in fields:
      setattr(x, k, v)
    else:
      x.rebind({k: v}, raise_on_no_change=False)

def late_notify(case, i):
  return bool(case['routes'][i].get('notify', True)) if case.get('routes') else True

def run_functor_impl(case, typecheck=True):
  """Returns (tree, x) for a functor case."""
  import pyglove as pg
  sig = case['sig']
  orig, F = build(sig, case['kind'], case.get('annotated', False))
  import contextlib
  cm = contextlib.nullcontext() if typecheck else pg.enable_type_check(False)
  with cm:
    try:
      x = F(*case['ctor'][0], **dict(case['ctor'][1]), override_args=case['ov'], ignore_extra_args=case['ie'])
    except Exception as e:
      return [[1, 0, err_kind(e)], []], None
    if case['kind'] == 'subclassed':
      F._c18_ns['_REENTER'][0] = bool(case.get('reenter'))
    root = make_container(case.get('container'), x)
    if root is not None:
      x = child_of(case['container'], root)
    for i, (k, v) in enumerate(case['lates']):
      try:
        bind_later(case, i, x, root, k, v)
      except Exception as e:
        return [[1, 1, err_kind(e)], []], None
    if case['post'] == 1:
      original = x
      x = x.clone(deep=bool(case.get('deep')))
      if case.get('decoy'):
        # the clone must be independent: bind something on the original afterwards
        try: original.rebind({case['decoy'][0]: case['decoy'][1]}, raise_on_no_change=False)
        except Exception: pass
    elif case['post'] == 2:
      x = pg.from_json(json.loads(json.dumps(x.to_json()))) if not case.get('json_str') else pg.from_json_str(x.to_json_str())
    attrs, vattr = attrs_of(sig, x)
    state = [attrs, vattr, enc_names(x.specified_args), enc_names(x.default_args), enc_names(x.non_default_args),
             int(bool(x._override_args)), int(bool(x._ignore_extra_args))]
    kw = {}
    if case['ovo'] is not None: kw['override_args'] = case['ovo']
    if case['ieo'] is not None: kw['ignore_extra_args'] = case['ieo']
    try:
      r = x(*case['call'][0], **dict(case['call'][1]), **kw)
      out = enc_bound(sig, r)
    except Exception as e:
      out = [1, err_kind(e)]
  return [[0, state], out], x

def run_class_impl(case):
  import pyglove as pg
  sig = case['sig']
  orig, X = class_under_test(case)
  try:
    x = (X.partial if case['partial'] else X)(*case['ctor'][0], **dict(case['ctor'][1]))
  except Exception as e:
    return [[1, 0, err_kind(e)], []], None
  root = make_container(case.get('container'), x)
  if root is not None:
    x = child_of(case['container'], root)
  for i, (k, v) in enumerate(case['lates']):
    try:
      bind_later(case, i, x, root, k, v)
    except Exception as e:
      return [[1, 1, err_kind(e)], []], None
  post = case.get('post', 0)
  if post and not x.sym_partial:
    # clone / JSON round trip re-run the user __init__: it must receive the same arguments again
    try:
      if post == 1: x = x.clone(deep=bool(case.get('deep')))
      else: x = pg.from_json(json.loads(json.dumps(x.to_json())))
    except Exception as e:
      return [[1, 2, err_kind(e)], []], None
  attrs, vattr = attrs_of(sig, x)
  if x.sym_partial:
    out = [2]
  else:
    out = enc_bound(sig, rec_of(x))
  return [[0, attrs, vattr], out], x

def direct(orig, sig, cpos, ckw, is_class=False):
  """The original callable called directly: bound tree or (1 kind)."""
  try:
    r = orig(*cpos, **dict(ckw))
    return enc_bound(sig, rec_of(r) if is_class else r)
  except Exception as e:
    return [1, err_kind(e)]

def bind_by_inspect(orig, sig, cpos, ckw):
  """inspect.signature(f).bind + apply_defaults, in the same encoding."""
  try:
    ba = inspect.signature(orig).bind(*cpos, **dict(ckw))
  except TypeError as e:
    return [1, 1]
  ba.apply_defaults()
  return enc_bound(sig, dict(ba.arguments))

def init_sig_tree(sig, cls):
  """inspect.signature(cls.__init__) without self, in the encoding of e_sig."""
  ps = list(inspect.signature(cls.__init__).parameters.values())
  if not ps or ps[0].name != 'self':
    return ['no-self']
  pos, va, ko, vk = [], None, [], None
  npo = sum(1 for p in ps[1:] if p.kind == p.POSITIONAL_ONLY)
  def dflt(p):
    if p.default is inspect.Parameter.empty: return []
    return [enc_val(p.default)] if isinstance(p.default, (int, list)) else [0]
  for p in ps[1:]:
    code = NAMES.get(p.name, 99)
    if p.kind in (p.POSITIONAL_ONLY, p.POSITIONAL_OR_KEYWORD): pos.append([code, dflt(p)])
    elif p.kind == p.VAR_POSITIONAL: va = code
    elif p.kind == p.KEYWORD_ONLY: ko.append([code, dflt(p)])
    else: vk = code
  return [pos, trlib.opt(va), ko, trlib.opt(vk), npo]

# ---- the property read directly (independent of the Coq model) ------------------------------------------
class Conflict(Exception):
  pass

def supply(sig, named, var, c, ovr, drop):
  """One way of supplying arguments; returns the new (named, var). Raises Conflict where a direct call would raise TypeError."""
  posn = [n for n, _ in sig['pos']]
  params = posn + [n for n, _ in sig['kwonly']]
  va = sig['varargs']
  named = collections.OrderedDict(named)
  given = set()
  for i, v in enumerate(c[0][:len(posn)]):
    if posn[i] in named and not ovr: raise Conflict('positional re-supplies %s' % posn[i])
    named[posn[i]] = v; given.add(posn[i])
  over = list(c[0][len(posn):])
  if over:
    if va:
      if var is not None and not ovr: raise Conflict('*args re-supplied')
      var = over; given.add(va)
    elif not drop:
      raise Conflict('too many positional arguments')
  for k, v in c[1]:
    if k in given: raise Conflict('%s given twice in one call' % k)
    given.add(k)
    if va and k == va:
      if var is not None and not ovr: raise Conflict('*args re-supplied')
      if not isinstance(v, list): raise Conflict('*args needs a list')
      var = list(v)
    elif k in named and not ovr: raise Conflict('keyword re-supplies %s' % k)
    elif k in params or sig['varkw']: named[k] = v
    elif not drop: raise Conflict('unexpected keyword %s' % k)
  return named, var

def apply_step(sig, named, var, k, v):
  """One step after construction: bind k to v, or (v is None) un-bind it: the argument is no longer supplied."""
  if v is None:
    named = collections.OrderedDict(named)
    if sig['varargs'] and k == sig['varargs']: return named, None
    named.pop(k, None)
    return named, var
  return supply(sig, named, var, ([], [(k, v)]), True, False)

def effective(sig, ctor, lates, call, override, ie):
  """('err', why) or ('call', pos, kw, named, var) — the direct call with the same effective arguments."""
  try:
    named, var = supply(sig, {}, None, ctor, False, False)
    for k, v in lates:
      named, var = apply_step(sig, named, var, k, v)
    bound_named, bound_var = dict(named), var
    if call is not None:
      named, var = supply(sig, named, var, call, override, ie)
  except Conflict as e:
    return ('err', str(e))
  rest = dict(named)
  pos = []
  for n, d in sig['pos']:
    if n in rest: pos.append(rest.pop(n))
    elif d is not None: pos.append(d)
    else: return ('missing', n, dict(named), var)
  return ('call', pos + list(var or []), rest, dict(named), var)

def expected_outcome(orig, sig, eff, is_class=False):
  if eff[0] == 'err':
    return [1, 1]
  if eff[0] == 'missing':
    # a required positional parameter has no value: whichever way the call is written Python reports TypeError
    out = direct(orig, sig, [], eff[2], is_class)
    return out if out[0] == 1 else [1, 1]
  return direct(orig, sig, eff[1], eff[2], is_class)

def features(case, with_call=True):
  """Discriminators used in hit signatures, most specific first."""
  sig = case['sig']
  posn = [n for n, _ in sig['pos']]
  dflt = dict(sig['pos'] + sig['kwonly'])
  va = sig['varargs']
  f = []
  call = (case.get('call') if with_call else None) or ([], [])
  if set(posn[:len(call[0])]) & set(k for k, _ in call[1]): f.append('positional-and-keyword-in-one-call')
  ctor_var = len(case['ctor'][0]) > len(posn) or any(k == va for k, _ in case['ctor'][1]) or any(k == va for k, _ in case['lates'])
  if va and ctor_var and len(call[0]) > len(posn): f.append('bound-varargs-resupplied')
  if va and any(k == va for k, _ in call[1]): f.append('varargs-name-as-call-keyword')
  # a later binding that sets an unbound parameter to the default it already shows
  try:
    named, var = supply(sig, {}, None, case['ctor'], False, False)
    for k, v in case['lates']:
      if v is not None and k != va and k not in named and dflt.get(k) is not None and dflt.get(k) == v:
        f.append('late-binding-of-unbound-default'); break
      named, var = apply_step(sig, named, var, k, v)
  except Conflict:
    pass
  if any(v is None for _, v in case['lates']): f.append('un-binding')
  if case.get('reenter'): f.append('re-entrant-call')
  if case.get('routes') and any(not r.get('notify', True) for r in case['routes']): f.append('notification-off')
  if case.get('routes') and any(r.get('route') == 'ancestor' for r in case['routes']) and case.get('container'): f.append('bound-through-%s' % case['container'])
  if case.get('post') == 1 and case.get('decoy'): f.append('original-rebound-after-clone')
  if sig.get('posonly') and set(n for n, _ in sig['pos'][:sig['posonly']]) & set(k for k, _ in case['ctor'][1] + case['lates'] + (list(call[1]))): f.append('positional-only-bound-by-name')
  if sig.get('posonly'): f.append('positional-only-parameters')
  if va and (any(k == va for k, _ in case['ctor'][1]) or any(k == va for k, _ in case['lates'])): f.append('varargs-bound-by-name')
  if case.get('post') == 2: f.append('json')
  if case.get('post') == 1: f.append('clone')
  if case['lates']: f.append('late-binding')
  return f

def classify_hit(case, got, exp, tag=''):
  f = features(case)
  d = ('own-init-never-ran' if got[0] == 3 else 'returns-where-direct-raises' if got[0] == 0 and exp[0] == 1 else 'raises-where-direct-returns' if got[0] == 1 and exp[0] == 0
       else 'different-arguments' if got[0] == 0 else 'different-error-class')
  return 'C18/call/%s/%s/%s' % ((case['kind'] if case['kind'] in ('class', 'subclass') else 'functor') + tag, d, f[0] if f else 'plain')

# ---- generators ----------------------------------------------------------------------------------------
VALS = [1, 2, 3, 10, 11, 12, 20, 21]

def gen_supply(rng, sig, allow_va_kw, extra_names=('zz', 'yy'), bias=None, tidy=False, taken=(), name_posonly=False):
  """One way of supplying arguments. tidy: a supply that is acceptable on its own (no surplus, no unknown or repeated name,
  nothing from [taken]); otherwise anything goes."""
  posn = [n for n, _ in sig['pos']]
  po = 0 if name_posonly else sig.get('posonly', 0)
  if tidy:
    free = 0
    while free < len(posn) and posn[free] not in taken: free += 1
    npos = rng.randint(0, free) if rng.random() < .8 else free
    if sig['varargs'] and npos == len(posn) and sig['varargs'] not in taken and rng.random() < .4: npos += rng.randint(1, 2)
    if npos < po and rng.random() < .7: npos = min(po, free)
    pos = [rng.choice(VALS) for _ in range(npos)]
    names = [n for n in posn[max(npos, po):] + [n for n, _ in sig['kwonly']] + (list(extra_names) if sig['varkw'] else []) if n not in taken]
    kws = [(n, rng.choice(VALS)) for n in rng.sample(names, min(len(names), rng.choice([0, 1, 1, 2, 3])))]
    if allow_va_kw and sig['varargs'] and npos <= len(posn) and sig['varargs'] not in taken and rng.random() < .15 and not any(k == sig['varargs'] for k, _ in kws):
      kws.append((sig['varargs'], [rng.randint(1, 3) for _ in range(rng.randint(0, 2))]))
    return pos, kws
  names = posn[po:] + [n for n, _ in sig['kwonly']] + list(extra_names)
  npos = rng.choice([0, 0, 1, 1, 2, len(posn), len(posn) + 1, len(posn) + 2]) if bias != 'kw' else rng.choice([0, 0, 1])
  pos = [rng.choice(VALS) for _ in range(npos)]
  kws = []
  nk = rng.choice([0, 0, 1, 1, 2, 3])
  for n in rng.sample(names, min(nk, len(names))):
    v = rng.choice(VALS) if rng.random() < .93 else [rng.randint(1, 3) for _ in range(rng.randint(0, 2))]
    kws.append((n, v))
  if allow_va_kw and sig['varargs'] and rng.random() < .2 and not any(k == sig['varargs'] for k, _ in kws):
    kws.append((sig['varargs'], [rng.randint(1, 3) for _ in range(rng.randint(0, 2))]))
    rng.shuffle(kws)
  return pos, kws

def gen_lates(rng, sig, n, name_posonly=False):
  valid = [nn for nn, _ in sig['pos'][0 if name_posonly else sig.get('posonly', 0):] + sig['kwonly']] + (['zz', 'yy'] if sig['varkw'] else [])
  out = []
  for _ in range(n):
    if sig['varargs'] and rng.random() < .15:
      out.append((sig['varargs'], [rng.randint(1, 3) for _ in range(rng.randint(0, 2))]))
    elif valid:
      k = rng.choice(valid)
      d = dict(sig['pos'] + sig['kwonly']).get(k)
      out.append((k, d if d is not None and rng.random() < .25 else rng.choice(VALS)))
  return out

def add_unbinds(rng, c, how=('del', 'missing'), required=True):
  """Interleaves un-binding steps (del f.k / rebind(k=MISSING_VALUE)) with the binding steps, mostly of names bound so far."""
  sig = c['sig']
  n = rng.choice([0, 0, 0, 1, 1, 2])
  if not n: return
  dflt = dict(sig['pos'] + sig['kwonly'])
  everything = list(dflt) + ([sig['varargs']] if sig['varargs'] else []) + (['zz', 'yy'] if sig['varkw'] else [])
  if not everything: return
  for _ in range(n):
    at = rng.randint(0, len(c['lates']))
    try:
      named, var = supply(sig, {}, None, c['ctor'], False, False)
      for k, v in c['lates'][:at]: named, var = apply_step(sig, named, var, k, v)
      bound = list(named) + ([sig['varargs']] if var is not None and sig['varargs'] else [])
    except Conflict:
      bound = []
    k = rng.choice(bound) if bound and rng.random() < .7 else rng.choice(everything)
    if not required and dflt.get(k, 0) is None: continue
    c['lates'].insert(at, (k, None))
    c.setdefault('unbind_how', {})

def finish_routes(rng, c, how=('del', 'missing')):
  """How each un-binding step is done; del f.k of a **kwargs key that is not there is a KeyError (like del of a missing attribute), so such a key is un-bound through MISSING_VALUE."""
  sig = c['sig']
  try: named, var = supply(sig, {}, None, c['ctor'], False, False)
  except Conflict: named, var = {}, None
  for i, (k, v) in enumerate(c['lates']):
    if v is None:
      h = rng.choice(how)
      fields = [n for n, _ in sig['pos'] + sig['kwonly']] + [sig['varargs']]
      if h == 'del' and k not in fields and k not in named: h = 'missing'
      c['routes'][i]['how'] = h
      if h == 'del': c['routes'][i]['route'] = 'rebind'
    try: named, var = apply_step(sig, named, var, k, v)
    except Conflict: pass

def names_supplied(sig, c):
  posn = [n for n, _ in sig['pos']]
  out = set(posn[:len(c[0])]) | set(k for k, _ in c[1])
  if len(c[0]) > len(posn) and sig['varargs']: out.add(sig['varargs'])
  return out

def bound_names(sig, c):
  """The names that hold a supplied argument after construction and the later steps."""
  try:
    named, var = supply(sig, {}, None, c['ctor'], False, False)
    for k, v in c['lates']: named, var = apply_step(sig, named, var, k, v)
  except Conflict:
    return names_supplied(sig, c['ctor']) | set(k for k, v in c['lates'] if v is not None)
  return set(named) | ({sig['varargs']} if var is not None and sig['varargs'] else set())

def gen_functor_case(rng, sig, kind=None):
  c = dict(kind=kind or rng.choice(['functor', 'functor', 'symbolize']), sig=sig, annotated=False)
  byname = bool(sig.get('posonly')) and rng.random() < .35      # pyglove lets a positional-only parameter be bound by name (an extension)
  c['ctor'] = gen_supply(rng, sig, True, tidy=rng.random() < .7, name_posonly=byname)
  c['ov'] = rng.random() < .2; c['ie'] = rng.random() < .2
  c['lates'] = gen_lates(rng, sig, rng.choice([0, 0, 0, 1, 1, 2]), name_posonly=byname)
  add_unbinds(rng, c)
  c['setattr'] = rng.random() < .3
  c['ovo'] = rng.choice([None, None, None, True, False]); c['ieo'] = rng.choice([None, None, None, True, False])
  ov = c['ov'] if c['ovo'] is None else c['ovo']
  taken = () if ov or rng.random() < .15 else bound_names(sig, c)
  c['call'] = gen_supply(rng, sig, False, tidy=rng.random() < .7, taken=taken, name_posonly=byname)
  if rng.random() < .5:
    # complete the call: give every still missing required parameter a value
    have = bound_names(sig, c) | names_supplied(sig, c['call'])
    po = 0 if byname else sig.get('posonly', 0)
    posn = [n for n, _ in sig['pos']]
    for i, (n, d) in enumerate(sig['pos'] + sig['kwonly']):
      if d is None and n not in have and not (i < po):
        c['call'][1].append((n, rng.choice(VALS)))
  c['post'] = rng.choice([0, 0, 0, 1, 2])
  c['deep'] = rng.random() < .5; c['json_str'] = rng.random() < .5
  add_routes(rng, c)
  finish_routes(rng, c)
  if c['post'] == 1 and rng.random() < .5:
    names = [n for n, _ in sig['pos'] + sig['kwonly']] + (['zz'] if sig['varkw'] else [])
    if names: c['decoy'] = (rng.choice(names), 77)
  return c

def add_routes(rng, c, notify_off=True):
  """The route of every later binding: on the object itself or through the container that holds it."""
  c['container'] = rng.choice([None, None, 'dict', 'list', 'object']) if c['lates'] else None
  c['routes'] = []
  for _ in c['lates']:
    # symbolized classes do not allow symbolic assignment (x.k = v is a plain attribute there): rebind routes only
    route = rng.choice(['rebind'] + (['setattr'] if c['kind'] not in ('class', 'subclass') else []) + (['ancestor'] * 3 if c['container'] else []))
    c['routes'].append(dict(route=route, batch=rng.random() < .4, notify=not (notify_off and rng.random() < .15)))

def gen_subclassed_case(rng):
  """A pg.Functor subclass: positional fields only, defaults anywhere, integer values."""
  n = rng.randint(0, 3)
  sig = dict(pos=[(POS_NAMES[i], 10 + i if rng.random() < .5 else None) for i in range(n)], varargs=None, kwonly=[], varkw=None)
  c = gen_functor_case(rng, sig, kind='subclassed')
  fix = lambda kv: [(k, v if isinstance(v, int) or v is None else 3) for k, v in kv]
  c['ctor'] = (c['ctor'][0], fix(c['ctor'][1])); c['call'] = (c['call'][0], fix(c['call'][1])); c['lates'] = fix(c['lates'])
  c['reenter'] = rng.random() < .5
  return c

def gen_class_case(rng, sig):
  c = dict(kind='class', sig=sig, annotated=False)
  byname = bool(sig.get('posonly')) and rng.random() < .35
  c['ctor'] = gen_supply(rng, sig, False, tidy=rng.random() < .7, name_posonly=byname)
  c['lates'] = gen_lates(rng, sig, rng.choice([0, 0, 1, 1, 2]), name_posonly=byname)
  c['partial'] = rng.random() < .5
  add_unbinds(rng, c, required=c['partial'])     # a complete object refuses to lose a required argument (ValueError, documented)
  c['post'] = rng.choice([0, 0, 0, 1, 2]); c['deep'] = rng.random() < .5
  add_routes(rng, c, notify_off=False)       # without notification the user __init__ is not re-run (documented), nothing to compare
  finish_routes(rng, c, how=('missing',))      # del x.k is a plain attribute deletion on a symbolized class
  return c

def gen_subclass_case(rng, pair, sigb, sigd, order, sub_init='own-super'):
  c = gen_class_case(rng, sigd)
  c.update(kind='subclass', pair=pair, base_sig=sigb, order=order, sub_init=sub_init, post=rng.choice([0, 0, 1, 1, 2]), deep=rng.random() < .5)
  return c

EMPTY_SIG = dict(pos=[], varargs=None, kwonly=[], varkw=None)
def shuffled_names(rng, sig):
  """The same shape with the positional names in another order (c, a, b ...): a subclass whose positional parameters are named / ordered differently."""
  names = list(POS_NAMES); rng.shuffle(names)
  return dict(sig, pos=[(names[i], d) for i, (_, d) in enumerate(sig['pos'])])

def grid_supplies(sig):
  """A finite grid of ways to supply arguments: 0..n+1 positional values x at most one keyword among the parameters and one unknown name."""
  posn = [n for n, _ in sig['pos']]
  names = posn + [n for n, _ in sig['kwonly']] + ['zz']
  out = []
  for npos in range(len(posn) + 2):
    pos = [1 + i for i in range(npos)]
    out.append((pos, []))
    for n in names:
      out.append((pos, [(n, 30 + NAMES[n])]))
  return out

def grid_functor_cases(sig):
  g = grid_supplies(sig)
  for ctor in g:
    for call in g:
      for ov in (False, True):
        for ie in (False, True):
          yield dict(kind='functor', sig=sig, annotated=False, ctor=ctor, ov=ov, ie=ie, lates=[], setattr=False, call=call, ovo=None, ieo=None, post=0, deep=False, json_str=False)

def grid_class_cases(sig):
  names = [n for n, _ in sig['pos'] + sig['kwonly']]
  for ctor in grid_supplies(sig):
    for partial in (False, True):
      for lates in ([], [(names[0], 7)] if names else []):
        if lates == [] and names and False: continue
        yield dict(kind='class', sig=sig, annotated=False, ctor=ctor, lates=lates, partial=partial)

def random_sig(rng, maxpos=3, maxkw=2, posonly=False):
  npos = rng.randint(0, maxpos); nd = rng.randint(0, npos)
  nkw = rng.randint(0, maxkw)
  sig = mk_sig(npos, tuple(i >= npos - nd for i in range(npos)), rng.random() < .5, nkw, tuple(rng.random() < .5 for _ in range(nkw)), rng.random() < .5)
  if posonly and npos and rng.random() < .3:
    sig['posonly'] = rng.randint(1, npos)      # positional-only parameters are only ever supplied by position (see design/C18.md)
  return sig

def enc_steps(case):
  out = []
  for i, (k, v) in enumerate(case['lates']):
    if v is None:
      out.append([NAMES[k], [], int(late_notify(case, i)), int(bool(case.get('routes')) and case['routes'][i].get('how') == 'del')])
    else:
      out.append([NAMES[k], enc_val(v), int(late_notify(case, i))])
  return out

def case_tree(case, q):
  s = enc_sig(case['sig'])
  if case['kind'] in ('class', 'subclass'):
    return [1, s, enc_call(case['ctor']), int(case['partial']), enc_steps(case)]
  return [0, [int(q['noop_rebind'])], s, enc_call(case['ctor']), [int(case['ov']), int(case['ie'])],
          enc_steps(case), enc_call(case['call']),
          [trlib.opt(case['ovo'], int), trlib.opt(case['ieo'], int)], case['post']]

def eff_flags(case):
  ov = case['ov'] if case['ovo'] is None else case['ovo']
  ie = case['ie'] if case['ieo'] is None else case['ieo']
  if case['post'] == 2 and case['ovo'] is None: ov = False      # the two flags are constructor options, not arguments: JSON does not carry them
  if case['post'] == 2 and case['ieo'] is None: ie = False
  return ov, ie

# ---- quirk detection: replay the witness of every open finding on the implementation ------------------
def detect_quirks():
  q = dict(noop_rebind=False)
  try:
    sig = mk_sig(2, (False, True), False, 0, (), False)      # def f(a, b=11)
    orig, F = build(sig, 'functor')
    x = F(5)
    x.rebind({'b': 11}, raise_on_no_change=False)
    q['noop_rebind'] = 'b' not in x.specified_args
  except Exception:
    pass
  return q

# ---- oracle ---------------------------------------------------------------------------------------------
def reported_expectation(sig, named, var):
  dflt = dict(sig['pos'] + sig['kwonly'])
  va = sig['varargs']
  attrs = dict(named)
  for n, d in dflt.items():
    if n not in attrs and d is not None: attrs[n] = d
  spec = set(named) | ({va} if va and var is not None else set())
  nond = {n for n in named if dflt.get(n) is None or dflt[n] != named[n]} | ({va} if va and var else set())
  dd = {n for n, d in dflt.items() if d is not None and (n not in named or named[n] == d)} | ({va} if va and not var else set())
  return enc_kvs(attrs.items()), [enc_val(v) for v in (var or [])], enc_names(spec), enc_names(dd), enc_names(nond)

def oracle_functor(ctx, case, out, hit):
  """out = implementation tree. Calls hit(signature, what) for every failure of the property text."""
  sig = case['sig']
  orig, F = build(sig, case['kind'], case.get('annotated', False))
  ov, ie = eff_flags(case)
  eff = effective(sig, case['ctor'], case['lates'], case['call'], ov, ie)
  exp = expected_outcome(orig, sig, eff)
  got = out[1] if out[0][0] == 0 else [1, out[0][2]]
  if got != exp:
    hit(classify_hit(case, got, exp), '%s: %s gives %s but the direct call with the same effective arguments gives %s' % (
        describe(case), 'functor', show(got), show(exp)))
  if out[0][0] == 0:
    b = effective(sig, case['ctor'], case['lates'], None, False, False)
    if b[0] != 'err':
      named, var = (b[3], b[4]) if b[0] == 'call' else (b[2], b[3])
      e_attrs, e_vattr, e_spec, e_dflt, e_nond = reported_expectation(sig, named, var)
      st = out[0][1]
      f = features(case, False)
      disc = f[0] if f else 'plain'
      if st[0] != e_attrs or st[1] != e_vattr:
        hit('C18/reported/sym_init_args/%s' % disc, '%s: sym_init_args reports %s / *%s, effective arguments are %s / *%s' % (describe(case, False), st[0], st[1], e_attrs, e_vattr))
      if st[2] != e_spec:
        hit('C18/reported/specified_args/%s' % disc, '%s: specified_args reports %s, arguments supplied are %s' % (describe(case, False), names_of(st[2]), names_of(e_spec)))
      silent = bool(case.get('routes')) and any(not r.get('notify', True) for r in case['routes'])   # skip_notification: "use it only when
      # the rebind does not invalidate internal states" - the default / non-default classification is such a state
      if st[3] != e_dflt and not silent:
        hit('C18/reported/default_args/%s' % disc, '%s: default_args reports %s, arguments at their default are %s' % (describe(case, False), names_of(st[3]), names_of(e_dflt)))
      if st[4] != e_nond and not silent:
        hit('C18/reported/non_default_args/%s' % disc, '%s: non_default_args reports %s, arguments off their default are %s' % (describe(case, False), names_of(st[4]), names_of(e_nond)))

def typecheck_variant_hit(c, out):
  """The same case under pg.enable_type_check(False): the arguments are untyped, so the outcome must be the one with checking on
  (or the one of the direct call, when the run with checking on is itself a reported deviation)."""
  out2, _ = run_functor_impl(c, typecheck=False)
  got = out2[1] if out2[0][0] == 0 else [1, out2[0][2]]
  exp = out[1] if out[0][0] == 0 else [1, out[0][2]]
  ov, ie = eff_flags(c)
  eff = effective(c['sig'], c['ctor'], c['lates'], c['call'], ov, ie)
  if got != exp and got != expected_outcome(build(c['sig'], c['kind'])[0], c['sig'], eff):
    return (classify_hit(c, got, exp, '-type-check-disabled'),
            '%s: under pg.enable_type_check(False) the functor gives %s, with checking on %s' % (describe(c), show(got), show(exp)))
  return None

def oracle_class(ctx, case, out, hit):
  sig = case['sig']
  orig, X = class_under_test(case)
  eff = effective(sig, case['ctor'], case['lates'], None, False, False)
  exp = expected_outcome(orig, sig, eff, True)
  if not case['partial']:
    # a plain construction must already be a complete call; later rebinds re-run __init__ with the merged arguments
    first = expected_outcome(orig, sig, effective(sig, case['ctor'], [], None, False, False), True)
    if first[0] == 1: exp = first
  if out[0][0] == 1:
    got = [1, out[0][2]]
  elif out[1] == [2]:
    # still partial: the user __init__ has not run; a direct call with these arguments must be the one that fails for a missing argument
    got = [1, 1]
    if not case['partial']:
      hit('C18/call/class/partial-without-asking/plain', '%s: object left partial' % describe(case))
  else:
    got = out[1]
  if got != exp and not (case['partial'] and exp == [1, 1] and out[0][0] == 0 and out[1] == [2]):
    hit(classify_hit(case, got, exp), '%s: symbolized class gives %s but the direct construction with the same effective arguments gives %s' % (describe(case), show(got), show(exp)))
  if out[0][0] == 0 and eff[0] != 'err':
    named, var = (eff[3], eff[4]) if eff[0] == 'call' else (eff[2], eff[3])
    e_attrs, e_vattr = reported_expectation(sig, named, var)[:2]
    if out[0][1] != e_attrs or out[0][2] != e_vattr:
      f = features(case)
      hit('C18/reported/sym_init_args-class/%s' % (f[0] if f else 'plain'), '%s: sym_init_args reports %s / *%s, effective arguments are %s / *%s' % (describe(case), out[0][1], out[0][2], e_attrs, e_vattr))

def names_of(codes):
  return [CODE.get(c, c) for c in codes]

def show(b):
  if b[0] == 1: return {1: 'TypeError', 2: 'KeyError', 3: 'another exception'}[b[1]]
  if b[0] == 2: return 'a partial object'
  if b[0] == 3: return 'an object whose own __init__ never ran'
  return 'f(%s)' % ', '.join(['%s=%s' % (CODE[k], v) for k, v in b[1]] + ['*%s' % b[2]] + ['**{%s}' % ', '.join('%s: %s' % (CODE[k], v) for k, v in b[3])])

def fmt_call(c):
  return '(%s)' % ', '.join([repr(v) for v in c[0]] + ['%s=%r' % tuple(kv) for kv in c[1]])

def describe(case, with_call=True):
  is_cls = case['kind'] in ('class', 'subclass')
  src = fn_source(case['sig'], case.get('annotated')).split('\n')[0] if not is_cls else cls_source(case['sig'], case.get('annotated')).split('\n')[1].strip()
  if case['kind'] == 'subclassed':
    src = 'class S(pg.Functor) with fields (%s) and _call' % ', '.join(n + ('' if d is None else '=%d' % d) for n, d in case['sig']['pos'])
  if case['kind'] == 'subclass':
    si = case.get('sub_init', 'own-super')
    base = 'without __init__' if case['base_sig'] is None else cls_source(case['base_sig']).split('\n')[1].strip()
    src = 'subclass %s of symbolized base %s, %s' % ('without __init__' if si == 'none' else src + (' calling super().__init__(%s)' % base_call_text(case['base_sig']) if si == 'own-super' else ' not calling super'), base, case['order'])
  s = '%s [%s] ctor%s' % (src, case['kind'], fmt_call(case['ctor']))
  if not is_cls:
    s += ' override_args=%s ignore_extra_args=%s' % (case['ov'], case['ie'])
  else:
    s += ' partial=%s' % case['partial']
  for i, (k, v) in enumerate(case['lates']):
    r = case['routes'][i] if case.get('routes') else {}
    if v is None and r.get('how') == 'del':
      s += ' del .%s' % k
    elif r.get('route') == 'ancestor' and case.get('container'):
      s += ' <%s holding it>.rebind({...%s: %s%s})' % (case['container'], k, 'MISSING_VALUE' if v is None else repr(v), ', other path' if r.get('batch') else '')
    elif r.get('route') == 'setattr' or (not r and case.get('setattr')):
      s += ' .%s = %s' % (k, 'MISSING_VALUE' if v is None else repr(v))
    else:
      s += ' .rebind(%s=%s)' % (k, 'MISSING_VALUE' if v is None else repr(v))
    if not r.get('notify', True): s += '[notification off]'
  if case.get('decoy') and case.get('post') == 1: s += ' (original.rebind(%s=%r) after the clone)' % tuple(case['decoy'])
  if case.get('reenter'): s += ' (_call re-enters the functor)'
  if case.get('post') == 1: s += ' .clone()'
  if case.get('post') == 2: s += ' from_json(to_json())'
  if with_call and not is_cls:
    s += ' call%s' % fmt_call(case['call'])
    if case['ovo'] is not None: s += ' override_args=%s' % case['ovo']
    if case['ieo'] is not None: s += ' ignore_extra_args=%s' % case['ieo']
  return s

# ---- the run --------------------------------------------------------------------------------------------
def eff_tree(eff):
  if eff[0] == 'err': return [1, 1]
  if eff[0] == 'missing': return [0, [[], enc_kvs(eff[2].items())]]
  return [0, [[enc_val(v) for v in eff[1]], enc_kvs(eff[2].items())]]

def nontrivial(case):
  routes = (1 if case['ctor'][0] or case['ctor'][1] else 0) + (1 if case['lates'] else 0)
  if case['kind'] == 'subclass': routes += 1
  if case['kind'] == 'subclass' and case.get('sub_init') != 'none' and case.get('base_sig') is None: routes += 1
  if case['kind'] not in ('class', 'subclass'):
    routes += 1 if case['call'][0] or case['call'][1] else 0
  return routes >= 2

def run(ctx):
  from harness.lib.common import use_repo
  use_repo()
  import pyglove as pg
  info = ctx.regen('Gen/BindingCallTime.v', binding_calltime.translate)
  ctx.extra['regenerated_call_time_code'] = info
  ctx.build()
  rng = ctx.rng
  q = detect_quirks()
  ctx.extra['quirk_flags_from_implementation'] = q
  trs, impl, descr = [], [], []
  def add(t, o, d):
    trs.append(t); impl.append(o); descr.append(d)

  # (A) the language rule itself: model vs a real call and vs inspect.signature.bind
  sigs2 = list(all_sigs(2, 2))
  pyb = []
  for sig in sigs2:
    orig, _ = build(sig, 'functor')
    for _ in range(ctx.scale(6, 60)):
      c = gen_supply(rng, sig, rng.random() < .3, extra_names=('zz', 'yy', 'args', 'kw'), tidy=rng.random() < .5)
      pyb.append((sig, c))
  for _ in range(ctx.scale(600, 9000)):
    sig = random_sig(rng, 3, 2, posonly=True)
    pyb.append((sig, gen_supply(rng, sig, rng.random() < .5, extra_names=('zz', 'yy', 'args', 'kw'), tidy=rng.random() < .5, name_posonly=rng.random() < .6)))
  n_bind_mismatch = 0; n_bind_quirk = 0
  for sig, c in pyb:
    orig, _ = build(sig, 'functor')
    o = direct(orig, sig, c[0], c[1])
    o2 = bind_by_inspect(orig, sig, c[0], c[1])
    if o != o2:
      # CPython 3.12 inspect.Signature.bind rejects a keyword that has the name of a positional-only parameter even when the function
      # has **kwargs and the real call puts it there; the real call is the authority
      if o[0] == 0 and o2[0] == 1 and sig.get('posonly') and set(n for n, _ in sig['pos'][:sig['posonly']]) & set(k for k, _ in c[1]):
        n_bind_quirk += 1
      else:
        n_bind_mismatch += 1
    add([2, enc_sig(sig), enc_call(c)], o, dict(kind='py_bind', sig=sig, call=c))
    ctx.count(('py', sig_key(sig), json.dumps(c)), nontrivial=bool(c[0] or c[1]), kind='py_bind')
    ctx.hist('py_bind_outcome', 'returns' if o[0] == 0 else 'TypeError')
  ctx.extra['interpreter_call_vs_inspect_bind_mismatches'] = n_bind_mismatch
  ctx.extra['inspect_bind_positional_only_name_in_kwargs_quirk_cases'] = n_bind_quirk
  if n_bind_mismatch:
    ctx.broken.append(dict(kind='correspondence', name='interpreter call vs inspect.signature.bind', detail='%d mismatches' % n_bind_mismatch))

  # (B) generated __init__ signature, every signature shape
  sig_shapes = sigs2 + [random_sig(rng, 3, 2, posonly=True) for _ in range(ctx.scale(60, 600))]
  for sig in sig_shapes:
    for kind in ('functor', 'symbolize'):
      for annotated in (False, True):
        orig, F = build(sig, kind, annotated)
        t = init_sig_tree(sig, F)
        add([3, enc_sig(sig)], t, dict(kind='signature', sig=sig, via=kind, annotated=annotated))
        ctx.count(('sig', sig_key(sig), kind, annotated), nontrivial=bool(sig['pos'] or sig['kwonly'] or sig['varargs'] or sig['varkw']), kind='signature')
        want = enc_sig(dict(sig, posonly=0))     # the schema has no positional-only marker (C18_signature: drop_posonly)
        if t != want:
          ctx.hit('C18/signature/%s/init-differs' % kind, 'inspect.signature(%s.__init__) is %s, the function has %s' % (fn_source(sig, annotated).split('\n')[0], t, want),
                  dict(op='signature', sig=sig, via=kind, annotated=annotated))
        if not sig.get('posonly') and str(inspect.signature(F.__init__)) != '(self' + (', ' if str(inspect.signature(orig)) != '()' else '') + str(inspect.signature(orig))[1:]:
          ctx.hit('C18/signature/%s/init-text-differs' % kind, 'inspect.signature(__init__) = %s for %s' % (inspect.signature(F.__init__), inspect.signature(orig)),
                  dict(op='signature', sig=sig, via=kind, annotated=annotated))
    # symbolized class keeps the user's __init__ signature
    origc, X = build(sig, 'class')
    if str(inspect.signature(X.__init__)) != str(inspect.signature(origc.__init__)):
      ctx.hit('C18/signature/class/init-differs', 'inspect.signature of the symbolized class __init__ is %s, the class has %s' % (inspect.signature(X.__init__), inspect.signature(origc.__init__)),
              dict(op='signature', sig=sig, via='class', annotated=False))

  # generated __init__ of pg.Functor subclasses, incl. a required field after one with a default (make_function then forces a default)
  for _ in range(ctx.scale(40, 400)):
    c0 = gen_subclassed_case(rng)
    orig, S = build(c0['sig'], 'subclassed')
    t = init_sig_tree(c0['sig'], S)
    add([3, enc_sig(c0['sig'])], t, dict(kind='signature', sig=c0['sig'], via='subclassed', annotated=True))
    ctx.count(('sig-subclassed', sig_key(c0['sig'])), nontrivial=bool(c0['sig']['pos']), kind='signature')
  # (C) functors, (D) classes, (E) the effective call of the specification side
  fcases, ccases = [], []
  per_sig = ctx.scale(24, 400)
  for sig in sigs2:
    for _ in range(per_sig):
      fcases.append(gen_functor_case(rng, sig))
    for _ in range(max(2, per_sig // 3)):
      ccases.append(gen_class_case(rng, sig))
  # the finite grid (every shape with <= 2 parameters of each kind x construction pattern x call pattern x flags): complete in the
  # thorough tier, a seeded sample of it in the quick tier
  grid_f = [c for sig in sigs2 for c in grid_functor_cases(sig)]
  grid_c, seen_c = [], set()
  for sig in sigs2:
    for c in grid_class_cases(sig):
      k = json.dumps(c, sort_keys=True)
      if k not in seen_c:
        seen_c.add(k); grid_c.append(c)
  ctx.extra['grid'] = dict(functor_cases=len(grid_f), class_cases=len(grid_c), complete=ctx.thorough,
                           what='168 signature shapes x (0..n+1 positional values x <=1 keyword) at construction x the same at the call x override_args x ignore_extra_args; classes: x partial x one rebind')
  if not ctx.thorough:
    grid_f = rng.sample(grid_f, 2500); grid_c = rng.sample(grid_c, 600)
  fcases += grid_f; ccases += grid_c
  for _ in range(ctx.scale(1500, 40000)):
    fcases.append(gen_functor_case(rng, random_sig(rng, 3, 2, posonly=True)))
  for _ in range(ctx.scale(500, 12000)):
    ccases.append(gen_class_case(rng, random_sig(rng, 3, 2, posonly=True)))
  # (G) inheritance: a symbolized base class and a subclass of the wrapper with its own __init__ of another shape, used in both
  # orders (the Coq model has no subclassing: the subclass must behave as a symbolized class of its own signature)
  npairs = ctx.scale(260, 4000)
  small = list(all_sigs(1, 1))
  for i in range(npairs):
    sigb = rng.choice(small) if rng.random() < .8 else random_sig(rng, 2, 1)
    sigd = rng.choice(sigs2) if rng.random() < .5 else random_sig(rng, 3, 2, posonly=True)
    order = rng.choice(['sub-first', 'base-first', 'base-first', 'base-rebound-first'])
    if rng.random() < .4: sigd = shuffled_names(rng, sigd)
    if rng.random() < .3: sigb = None                                   # the symbolized base class has no __init__ of its own
    sub_init = rng.choice(['own-super', 'own-super', 'own-nosuper', 'none'])
    eff = sigd if sub_init != 'none' else (sigb if sigb is not None else EMPTY_SIG)   # the signature a construction is read against
    for _ in range(4):
      ccases.append(gen_subclass_case(rng, 'p%d' % i, sigb, eff, order, sub_init))
    ctx.hist('inheritance_order', order)
    ctx.hist('inheritance_shape', 'base %s __init__, subclass %s' % ('without' if sigb is None else 'with', {'none': 'without __init__', 'own-super': 'with __init__ calling super', 'own-nosuper': 'with __init__ not calling super'}[sub_init]))
  # (H) subclassed functors: pg.Functor subclasses with fields and _call (call-time arguments override the members _call reads)
  for _ in range(ctx.scale(600, 12000)):
    fcases.append(gen_subclassed_case(rng))
  for c in fcases:
    if c['kind'] != 'subclassed' and rng.random() < .1: c['annotated'] = all(isinstance(v, int) for v in c['ctor'][0] + [v for _, v in c['ctor'][1] + [kv for kv in c['lates'] if kv[1] is not None] + c['call'][1]] + c['call'][0]
                                                 if True) and not any(k == c['sig']['varargs'] for k, _ in c['ctor'][1] + c['lates'])
  hits_before = len(ctx.hits)
  def hitter(case):
    return lambda s, w: ctx.hit(s, w, dict(op='case', case=case))
  n_tc = 0
  for c in fcases:
    out, x = run_functor_impl(c)
    add(case_tree(c, q), out, c)
    ov, ie = eff_flags(c)
    eff = effective(c['sig'], c['ctor'], c['lates'], c['call'], ov, ie)
    add([4, enc_sig(c['sig']), enc_call(c['ctor']), enc_steps(c), enc_call(c['call']), int(ov), int(ie)],
        eff_tree(eff), dict(kind='effective', case=c))
    nt = nontrivial(c)
    ctx.count(json.dumps(c, sort_keys=True, default=str), nontrivial=nt,
              sample=dict(case=describe(c), functor=show(out[1]) if out[0][0] == 0 else 'binding fails: ' + show([1, out[0][2]])) if nt and rng.random() < .01 else None, kind=c['kind'])
    ctx.hist('functor_outcome', 'bind-error' if out[0][0] == 1 else ('returns' if out[1][0] == 0 else show(out[1])))
    ctx.hist('supply_routes', '%s%s%s' % ('C' if c['ctor'][0] or c['ctor'][1] else '-', 'L' if c['lates'] else '-', 'A' if c['call'][0] or c['call'][1] else '-'))
    ctx.hist('post_step', {0: 'none', 1: 'clone', 2: 'json'}[c['post']])
    for r in c.get('routes') or []:
      ctx.hist('late_binding_route', '%s%s%s' % (r['route'] if r['route'] != 'ancestor' else 'through-' + str(c.get('container')), '+batched' if r['route'] == 'ancestor' and r['batch'] else '', '' if r['notify'] else ' (notification off)'))
    ctx.hist('flags', 'ov=%s ie=%s' % (ov, ie))
    ctx.hist('signature_shape', '%dpos%s%s %dkwonly%s' % (len(c['sig']['pos']), '(%d/)' % c['sig']['posonly'] if c['sig'].get('posonly') else '', '+*' if c['sig']['varargs'] else '', len(c['sig']['kwonly']), '+**' if c['sig']['varkw'] else ''))
    oracle_functor(ctx, c, out, hitter(c))
    # the same case with run-time type checking switched off must behave the same (arguments are untyped)
    # (without type checking the attribute container is not filled from the schema, so del f.k of an unbound name is a KeyError: no variant for un-binding cases)
    if c['kind'] != 'subclassed' and not any(v is None for _, v in c['lates']) and not c.get('annotated') and not any(k == c['sig']['varargs'] and v is not None and not isinstance(v, list) for k, v in c['ctor'][1] + c['lates']) and rng.random() < .35:
      n_tc += 1
      h = typecheck_variant_hit(c, out)
      if h: ctx.hit(h[0], h[1], dict(op='case', case=c, typecheck=False))
  ctx.extra['type_check_disabled_variants'] = n_tc
  for c in ccases:
    out, x = run_class_impl(c)
    add(case_tree(c, q), out, c)
    nt = nontrivial(c)
    ctx.count(json.dumps(c, sort_keys=True, default=str), nontrivial=nt, sample=dict(case=describe(c)) if nt and rng.random() < .005 else None, kind=c['kind'])
    ctx.hist('%s_outcome' % c['kind'], 'bind-error' if out[0][0] == 1 else ('partial' if out[1] == [2] else 'initialised'))
    ctx.hist('class_post_step', {0: 'none', 1: 'clone', 2: 'json'}[c.get('post', 0)])
    oracle_class(ctx, c, out, hitter(c))

  model = ctx.model_run(trs)
  lookup = {id(t): d for t, d in zip(trs, descr)}
  def dsc(t):
    d = lookup.get(id(t))
    if d is None: return None
    if d.get('kind') in ('py_bind', 'signature'): return d
    if d.get('kind') == 'effective': return dict(effective_call_of=describe(d['case']))
    return describe(d)
  bad = ctx.compare('Binding.run vs interpreter / pg.functor / pg.symbolize / direct reading', trs, impl, model, describe=dsc)
  ctx.extra['cases'] = dict(py_bind=len(pyb), signature=len(sig_shapes) * 4, functor=len(fcases), effective=len(fcases), classes=len(ccases))
  ctx.exhaustive = False
  # targeted search when something no longer checks and the oracle has not produced an input yet
  if ctx.is_broken() and len(ctx.hits) == hits_before:
    kinds = collections.Counter(descr[i].get('kind') for i in bad)
    ctx.log('targeted search around', dict(kinds))
    for i in bad[:2000]:
      d = descr[i]
      c = d['case'] if d.get('kind') == 'effective' else d
      if c.get('kind') in ('functor', 'symbolize', 'subclassed'):
        for _ in range(20):
          c2 = dict(c); c2['call'] = gen_supply(rng, c['sig'], False); c2['post'] = rng.choice([0, 1, 2])
          out, x = run_functor_impl(c2)
          oracle_functor(ctx, c2, out, hitter(c2))
      elif c.get('kind') in ('class', 'subclass'):
        for _ in range(20):
          c2 = gen_class_case(rng, c['sig']) if c['kind'] == 'class' else gen_subclass_case(rng, c['pair'], c['base_sig'], c['sig'], c['order'])
          out, x = run_class_impl(c2)
          oracle_class(ctx, c2, out, hitter(c2))
      if ctx.hits: break

def replay(ctx, rp):
  from harness.lib.common import use_repo
  use_repo()
  c = rp['case']
  hits = []
  h = lambda s, w: hits.append((s, w))
  if c.get('op') == 'signature':
    sig = c['sig']
    orig, F = build(sig, c['via'], c.get('annotated', False))
    a, b = str(inspect.signature(F.__init__)), str(inspect.signature(orig.__init__ if c['via'] == 'class' else orig))
    if c['via'] == 'class':
      ok = a == b
    else:
      ok = a == '(self' + (', ' if b != '()' else '') + b[1:]
    if not ok: hits.append(('signature', '%s vs %s' % (a, b)))
  else:
    case = c['case']
    if case['kind'] in ('class', 'subclass'):
      out, x = run_class_impl(case)
      oracle_class(ctx, case, out, h)
    else:
      out, x = run_functor_impl(case)
      oracle_functor(ctx, case, out, h)
      if c.get('typecheck') is False:
        hv = typecheck_variant_hit(case, out)
        if hv: hits.append(hv)
  want = rp.get('signature')
  rel = [x for x in hits if want is None or x[0] == want]
  for x in rel:
    print('  still fails:', x)
  return not rel

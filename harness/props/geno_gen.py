"""Specification / DNA generators and converters shared by C11, C12 (and reusable by C13, C14).

Python mirror of the types of coq/Model/Geno.v:
  spec  = ('S', [point, ...])
  point = ('C', k, [spec, ...], distinct, sorted, loc, name, lits) | ('F', lo, hi, loc, name) | ('X', loc, name)
          loc  = tuple of keys (str | int), name = str | None, lits = tuple of (str | int | float) (empty = none),
          lo/hi = floats that are multiples of 1/64
  sdna  = [pdna, ...]           (one per element of the Space)
  pdna  = ('c', [(index, sdna), ...]) | ('f', x) | ('s', text)
  tree  = (value, [tree, ...])  the concrete DNA(value, children) in constructor normal form
"""
import itertools

# ------------------------------------------------------------------------------------------------
# construction of the real objects
def to_pg(spec):
  from pyglove.core import geno
  from pyglove.core import utils
  def loc_of(loc):
    return utils.KeyPath(list(loc))
  def sp(s):
    return geno.Space([pt(p) for p in s[1]])
  def pt(p):
    if p[0] == 'C':
      _, k, cands, dist, srt, loc, name, lits = p
      return geno.Choices(k, [sp(c) for c in cands], list(lits) if lits else None, dist, srt,
                          location=loc_of(loc), name=name)
    if p[0] == 'F':
      return geno.Float(float(p[1]), float(p[2]), location=loc_of(p[3]), name=p[4])
    return geno.CustomDecisionPoint(location=loc_of(p[1]), name=p[2])
  return sp(spec)

def mk(v, kids):
  """DNA.__init__ normalisation, on trees (mirror of Geno.mk; used by the oracle's own enumeration)."""
  if len(kids) == 1 and kids[0][0] is None:
    kids = kids[0][1]
  if v is None and len(kids) == 1:
    return kids[0]
  return (v, list(kids))

def normalize(sd):
  return mk(None, [norm_p(p) for p in sd])

def norm_p(p):
  if p[0] == 'c':
    return mk(None, [mk(c, [normalize(sub)]) for c, sub in p[1]])
  return (p[1], [])

def build_dna(sd):
  """The real DNA built from decisions the way the library does it (the constructor normalises)."""
  from pyglove.core.geno import DNA
  def sp(sd):
    return DNA(None, [pt(p) for p in sd])
  def pt(p):
    if p[0] == 'c':
      return DNA(None, [DNA(c, [sp(sub)]) for c, sub in p[1]])
    return DNA(p[1])
  return sp(sd)

def tree_to_dna(t):
  """A real DNA with exactly this value/children (the constructor may normalise further)."""
  from pyglove.core.geno import DNA
  return DNA(t[0], [tree_to_dna(c) for c in t[1]])

def dna_to_tree(d):
  return (d.value, [dna_to_tree(c) for c in d.children])

def freeze(t):
  return (('f', float(t[0])) if isinstance(t[0], float) else t[0], tuple(freeze(c) for c in t[1]))

# ------------------------------------------------------------------------------------------------
# wire format (coq/Model/GenoRun.v)
def f64(x):
  v = x * 64
  assert v == int(v), x
  return int(v)

def key_tr(k):
  return [0, [ord(c) for c in k]] if isinstance(k, str) else [1, k]

def nm_tr(loc, name):
  return [[key_tr(k) for k in loc], [] if name is None else [[ord(c) for c in name]]]

def lit_tr(l):
  if isinstance(l, str): return [0, [ord(c) for c in l]]
  if isinstance(l, int): return [1, l]
  return [2, f64(l)]

def spec_tr(s):
  return [point_tr(p) for p in s[1]]

def point_tr(p):
  if p[0] == 'C':
    _, k, cands, dist, srt, loc, name, lits = p
    return [0, k, [spec_tr(c) for c in cands], int(dist), int(srt), nm_tr(loc, name), [lit_tr(l) for l in lits]]
  if p[0] == 'F':
    return [1, f64(p[1]), f64(p[2]), nm_tr(p[3], p[4])]
  return [2, nm_tr(p[1], p[2])]

def val_tr(v):
  if v is None: return [0]
  if isinstance(v, bool): raise TypeError('bool DNA values are outside the model')
  if isinstance(v, int): return [1, v]
  if isinstance(v, float): return [2, f64(v)]
  return [3, [ord(c) for c in v]]

def tree_tr(t):
  return [val_tr(t[0])] + [tree_tr(c) for c in t[1]]

def sdna_tr(sd):
  return [pdna_tr(p) for p in sd]

def pdna_tr(p):
  if p[0] == 'c': return [0] + [[c, sdna_tr(sub)] for c, sub in p[1]]
  if p[0] == 'f': return [1, f64(p[1])]
  return [2, [ord(c) for c in p[1]]]

def tr_tree(t):
  """Decodes the model's e_dna back to a tree."""
  v = t[0]
  if v[0] == 0: val = None
  elif v[0] == 1: val = v[1]
  elif v[0] == 2: val = v[1] / 64.0
  else: val = ''.join(chr(c) for c in v[1])
  return (val, [tr_tree(c) for c in t[1:]])

# ------------------------------------------------------------------------------------------------
# the oracle's own notion of the valid set, written directly from the property text
def allowed(dist, srt, prior, c):
  if dist and c in prior: return False
  if srt and prior and prior[-1] > c: return False
  return True

def is_finite(s):
  return all(p[0] == 'C' and all(is_finite(c) for c in p[2]) for p in s[1])

def all_valid(s):
  """All valid structured decisions of a finite spec, in lexicographic order."""
  per = [all_valid_p(p) for p in s[1]]
  return [list(x) for x in itertools.product(*per)]

def all_valid_p(p):
  assert p[0] == 'C'
  _, k, cands, dist, srt = p[:5]
  subs = [all_valid(c) for c in cands]
  def tuples(m, prior):
    # in the order of the DNA comparison: (c0, sub0) first, then (c1, sub1), ...
    if m == 0: return [[]]
    out = []
    for c in range(len(cands)):
      if not allowed(dist, srt, prior, c): continue
      rest = tuples(m - 1, prior + [c])
      for sub in subs[c]:
        out += [[(c, sub)] + r for r in rest]
    return out
  return [('c', t) for t in tuples(k, [])]

def valid(s, sd):
  return len(sd) == len(s[1]) and all(valid_p(p, x) for p, x in zip(s[1], sd))

def valid_p(p, x):
  if p[0] == 'C':
    if x[0] != 'c': return False
    _, k, cands, dist, srt = p[:5]
    idx = [c for c, _ in x[1]]
    if len(idx) != k or any(not (0 <= c < len(cands)) for c in idx): return False
    if dist and len(set(idx)) != k: return False
    if srt and idx != sorted(idx): return False
    return all(valid(cands[c], sub) for c, sub in x[1])
  if p[0] == 'F':
    return x[0] == 'f' and p[1] <= x[1] <= p[2]
  return x[0] == 's'

class Reject(Exception):
  """Why a concrete tree is not the normal form of a valid decision (the oracle's discriminator)."""

def parse_tree(s, t):
  """Inverse of normalize relative to a spec: the structured decisions a concrete tree stands for,
  or None when it is not the normal form of any valid decision.  Independent of the library."""
  try:
    return parse_space(s, t)
  except Reject:
    return None

def reject_reason(s, t):
  try:
    parse_space(s, t); return None
  except Reject as e:
    return e.args[0]

def parse_space(s, t):
  es = s[1]
  if len(es) == 1:
    return [parse_point(es[0], t)]
  if len(t[1]) != len(es): raise Reject('arity')
  if t[0] is not None: raise Reject('value-on-space-node')
  return [parse_point(p, c) for p, c in zip(es, t[1])]

def parse_point(p, t):
  if p[0] == 'F':
    if not isinstance(t[0], float): raise Reject('type')
    if not (p[1] <= t[0] <= p[2]): raise Reject('float-range')
    if t[1]: raise Reject('float-children')
    return ('f', t[0])
  if p[0] == 'X':
    if not isinstance(t[0], str): raise Reject('type')
    return ('s', t[0])     # children of a custom decision are user-defined: not constrained
  _, k, cands, dist, srt = p[:5]
  def single(t):
    v = t[0]
    if not isinstance(v, int) or isinstance(v, bool): raise Reject('type')
    if v < 0: raise Reject('negative-index')
    if v >= len(cands): raise Reject('index-too-large')
    sub = parse_space(cands[v], mk(None, t[1]))
    # the children must be exactly what the constructor makes of the sub-space decision
    if freeze(mk(v, [normalize(sub)])) != freeze((v, t[1])): raise Reject('not-normal-form')
    return (v, sub)
  if k == 1:
    return ('c', [single(t)])
  if len(t[1]) != k: raise Reject('arity')
  if t[0] is not None: raise Reject('value-on-multi-choice-node')
  cs = [single(c) for c in t[1]]
  idx = [c for c, _ in cs]
  if dist and len(set(idx)) != k: raise Reject('not-distinct')
  if srt and idx != sorted(idx): raise Reject('not-sorted')
  return ('c', cs)

def size(s):
  """Number of valid decisions of a finite spec (by summing over the admissible index tuples, not by the library's recurrences)."""
  n = 1
  for p in s[1]:
    _, k, cands, dist, srt = p[:5]
    subs = [size(c) for c in cands]
    tot = 0
    for idx in itertools.product(range(len(cands)), repeat=k):
      if dist and len(set(idx)) != k: continue
      if srt and list(idx) != sorted(idx): continue
      m = 1
      for c in idx: m *= subs[c]
      tot += m
    n *= tot
  return n

# ------------------------------------------------------------------------------------------------
# generators
LOCS = ['a', 'b', 'c', 'd', 'e']

def count_points(s):
  return sum(1 + sum(count_points(c) for c in p[2]) if p[0] == 'C' else 1 for p in s[1])

def depth(s):
  return max([0] + [1 + max(depth(c) for c in p[2]) if p[0] == 'C' else 1 for p in s[1]])

def small_specs(max_points=3, max_cands=3, max_k=3, max_depth=2):
  """Every finite spec with at most max_points decision points (a multi-choice counts once), at most
  max_cands candidates, k <= max_k, every distinct/sorted combination, conditional nesting <= max_depth.
  To keep the product of independent elements from dominating, a Space with several elements draws
  them (and so does a nested sub-space) from the points with <= 2 candidates and k <= 2 (all modes) -- the Space odometer treats its elements
  uniformly, the interesting combinatorics is inside one multi-choice and in the nesting."""
  memo_pts, memo_sp = {}, {}
  def modes_of(k):
    return [(True, False), (False, True)] if k == 1 else [(True, True), (True, False), (False, True), (False, False)]
  def points(budget, d, narrow):
    key = (budget, d, narrow)
    if key in memo_pts: return memo_pts[key]
    res = []
    for n in range(1, (2 if narrow else max_cands) + 1):
      for split in splits(budget - 1, n):
        cand_lists = [spaces_exact(b, d - 1, True) for b in split]
        for cands in itertools.product(*cand_lists):
          for k in range(1, (2 if narrow else max_k) + 1):
            for dist, srt in modes_of(k):
              if dist and k > n: continue
              res.append(('C', k, list(cands), dist, srt, ('x',), None, ()))
    memo_pts[key] = res
    return res
  def spaces_exact(budget, d, narrow=False):
    """Spaces using exactly `budget` decision points."""
    key = (budget, d, narrow)
    if key in memo_sp: return memo_sp[key]
    out = []
    if budget == 0:
      out = [('S', [])]
    elif d > 0:
      for p in points(budget, d, narrow):
        out.append(('S', [relabel(p, LOCS[0])]))
      def rec(prefix, left):
        if left == 0:
          if len(prefix) >= 2:
            out.append(('S', [relabel(p, LOCS[i]) for i, p in enumerate(prefix)]))
          return
        for b in range(1, left + 1):
          for p in points(b, d, True):
            rec(prefix + [p], left - b)
      rec([], budget)
    memo_sp[key] = out
    return out
  def splits(total, n):
    if n == 1:
      yield (total,); return
    for a in range(total + 1):
      for rest in splits(total - a, n - 1):
        yield (a,) + rest
  out = []
  for b in range(0, max_points + 1):
    out += spaces_exact(b, max_depth)
  return out

def relabel(p, loc):
  if p[0] == 'C': return p[:5] + ((loc,),) + p[6:]
  if p[0] == 'F': return p[:3] + ((loc,),) + p[4:]
  return (p[0], (loc,)) + p[2:]

def random_spec(rng, budget=6, d=3, allow_inf=True, names=False, lits=False, max_cands=4, max_k=3, _ctr=None):
  """A random spec; locations are unique inside each Space, names (if any) unique in the whole spec."""
  ctr = _ctr if _ctr is not None else [0]
  def space(budget, d, top=False):
    pts = []
    n = rng.choice([1, 1, 2, 2, 3]) if top else rng.choice([0, 0, 1, 1, 2])
    for i in range(n):
      if budget <= 0: break
      b = rng.randint(1, budget)
      budget -= b
      pts.append(point(b, d, i))
    return ('S', pts)
  def name():
    if not names or rng.random() < 0.5: return None
    ctr[0] += 1
    return 'n%d' % ctr[0]
  def point(budget, d, i):
    loc = (rng.choice([LOCS[i], LOCS[i], i, LOCS[i] + 'x']),) if rng.random() < 0.9 else (LOCS[i], i)
    r = rng.random()
    if allow_inf and r < 0.12:
      lo = rng.randint(-64, 64) / 64.0
      return ('F', lo, lo + rng.randint(0, 128) / 64.0, loc, name())
    if allow_inf and r < 0.18:
      return ('X', loc, name())
    n = rng.randint(1, max_cands)
    k = rng.choice([1, 1, 1, 2, 2, 3][:max_k * 2])
    dist, srt = rng.choice([(True, False), (True, True), (False, True), (False, False)])
    if dist and k > n: k = n
    cands = []
    left = budget - 1
    for j in range(n):
      if d <= 1 or left <= 0 or rng.random() < 0.5:
        cands.append(('S', []))
      else:
        b = rng.randint(1, left); left -= b
        cands.append(space(b, d - 1))
    ls = ()
    if lits and rng.random() < 0.6:
      kind = rng.random()
      if kind < 0.6: ls = tuple('v%d' % j for j in range(n))
      elif kind < 0.8: ls = tuple(10 + j for j in range(n))
      else: ls = tuple(j + 0.5 for j in range(n))
    return ('C', k, cands, dist, srt, loc, name(), ls)
  return space(budget, d, top=True)

def random_sdna(rng, s):
  """A uniformly-ish random valid decision (by rejection-free construction)."""
  return [random_pdna(rng, p) for p in s[1]]

def random_pdna(rng, p):
  if p[0] == 'F':
    lo, hi = f64(p[1]), f64(p[2])
    return ('f', rng.randint(lo, hi) / 64.0)
  if p[0] == 'X':
    return ('s', rng.choice(['', 'abc', 'x y', 'é']))
  _, k, cands, dist, srt = p[:5]
  n = len(cands)
  idx = rng.sample(range(n), k) if dist else [rng.randrange(n) for _ in range(k)]
  if srt: idx = sorted(idx)
  return ('c', [(c, random_sdna(rng, cands[c])) for c in idx])

def corruptions(rng, s, sd, limit=None):  # children under a custom (str) node are user-defined: not corrupted
  """One-step corruptions of the concrete tree of a valid decision: list of (kind, tree)."""
  t = normalize(sd)
  out = []
  nodes = []
  def walk(t, path):
    nodes.append(path)
    for i, c in enumerate(t[1]): walk(c, path + (i,))
  walk(t, ())
  def get(t, path):
    for i in path: t = t[1][i]
    return t
  def put(t, path, new):
    if not path: return new
    kids = list(t[1]); kids[path[0]] = put(kids[path[0]], path[1:], new)
    return (t[0], kids)
  for path in nodes:
    node = get(t, path)
    v, kids = node
    if isinstance(v, int):
      for kind, nv in [('index+1', v + 1), ('index-1', v - 1), ('index=-1', -1), ('index=len', 3), ('index=-len', -3), ('index=4', 4),
                       ('int->float', float(v)), ('int->str', str(v)), ('int->none', None)]:
        out.append((kind, put(t, path, (nv, kids))))
    elif isinstance(v, float):
      for kind, nv in [('float+2', v + 2.0), ('float-2', v - 2.0), ('float->int', int(v)), ('float->str', 'x'), ('float->none', None)]:
        out.append((kind, put(t, path, (nv, kids))))
      out.append(('float+child', put(t, path, (v, [(0, [])]))))
    elif isinstance(v, str):
      for kind, nv in [('str->int', 0), ('str->none', None), ('str->float', 0.5)]:
        out.append((kind, put(t, path, (nv, kids))))
    else:
      out.append(('none->int', put(t, path, (0, kids))))
      out.append(('none->5', put(t, path, (5, kids))))
    if kids:
      out.append(('drop-last-child', put(t, path, (v, kids[:-1]))))
      out.append(('drop-first-child', put(t, path, (v, kids[1:]))))
      out.append(('dup-child', put(t, path, (v, kids + [kids[-1]]))))
      out.append(('dup-first-child', put(t, path, (v, [kids[0]] + kids))))
      if len(kids) >= 2:
        out.append(('swap-children', put(t, path, (v, [kids[1], kids[0]] + kids[2:]))))
        out.append(('copy-child', put(t, path, (v, [kids[0], kids[0]] + kids[2:]))))
        out.append(('copy-child-back', put(t, path, (v, kids[:-2] + [kids[-1], kids[-1]]))))
    if not isinstance(v, str):
      out.append(('extra-child', put(t, path, (v, kids + [(0, [])]))))
      out.append(('extra-child-none', put(t, path, (v, kids + [(None, [])]))))
  if limit is not None and len(out) > limit:
    out = rng.sample(out, limit)
  return out

def renorm(t):
  """What the constructor makes of a raw tree (children first)."""
  return mk(t[0], [renorm(c) for c in t[1]])

def describe(s):
  def sp(s): return '[' + ', '.join(pt(p) for p in s[1]) + ']'
  def pt(p):
    if p[0] == 'C':
      _, k, cands, dist, srt, loc, name, lits = p
      return 'choices(k=%d,%s%s n=%d: %s)' % (k, 'D' if dist else '', 'S' if srt else '', len(cands), ' | '.join(sp(c) for c in cands))
    if p[0] == 'F': return 'float(%s,%s)' % (p[1], p[2])
    return 'custom'
  return sp(s)

# ------------------------------------------------------------------------------------------------
# systematic family: a decision point inside a candidate of a multi-choice, active once / twice
def shared_point_family(ks=(2, 3)):
  """For every decision-point kind (choice, float, custom) x named/unnamed, placed inside candidate 1 of a
  manyof(k, [const, <inner>, const]) in all four distinct x sorted modes: the specification together with DNAs
  that pick that candidate once, twice with equal sub-values and twice with different sub-values (the last two
  only exist when the multi-choice is not distinct).  A named inner point is then one *name* shared by several
  active decisions.  Returns [(label, spec, [(dna_label, sdna), ...]), ...]."""
  out = []
  inners = {
      'choice': (lambda name: ('C', 1, [('S', []), ('S', [])], True, False, ('q',), name, ()), [('c', [(0, [])]), ('c', [(1, [])])]),
      'choice+lits': (lambda name: ('C', 1, [('S', []), ('S', [])], True, False, ('q',), name, ('u', 'v')), [('c', [(0, [])]), ('c', [(1, [])])]),
      'float': (lambda name: ('F', 0.0, 1.0, ('q',), name), [('f', 0.25), ('f', 0.75)]),
      'custom': (lambda name: ('X', ('q',), name), [('s', 'u'), ('s', 'v w')]),
  }
  for k in ks:
    for dist, srt in [(True, True), (True, False), (False, True), (False, False)]:
      for kind, (mkinner, (va, vb)) in inners.items():
        for named in (False, True):
          for outer_named in ((False, True) if named else (False,)):
            inner = mkinner('inner' if named else None)
            outer = ('C', k, [('S', []), ('S', [inner]), ('S', [])], dist, srt, ('m',), 'outer' if outer_named else None, ())
            spec = ('S', [outer])
            def dna(idx, vals):
              it = iter(vals)
              return [('c', [(c, [next(it)] if c == 1 else []) for c in idx])]
            dnas = []
            if k == 2:
              dnas.append(('once', dna([0, 1], [va])))
              if not dist:
                dnas.append(('twice-equal', dna([1, 1], [va, va])))
                dnas.append(('twice-different', dna([1, 1], [va, vb])))
                dnas.append(('twice-different-rev', dna([1, 1], [vb, va])))
            else:
              dnas.append(('once', dna([0, 1, 2], [vb])))
              if not dist:
                dnas.append(('twice-different', dna([0, 1, 1], [va, vb])))
                dnas.append(('thrice-mixed', dna([1, 1, 1], [vb, va, vb])))
                dnas.append(('twice-equal', dna([1, 1, 2], [vb, vb])))
                if not srt:
                  dnas.append(('twice-different-apart', dna([1, 0, 1], [vb, va])))
            dnas = [(l, d) for l, d in dnas if valid(spec, d)]
            label = 'k%d%s%s/%s/%s%s' % (k, 'D' if dist else '', 'S' if srt else '', kind, 'named' if named else 'unnamed', '+outer-named' if outer_named else '')
            out.append((label, spec, dnas))
  return out

# ------------------------------------------------------------------------------------------------
# systematic family: chains of conditional single choices of every depth ending in every kind of sub-space
def nesting_chain_family(max_depth=4):
  """oneof -> oneof -> ... -> terminal, depth 1..max_depth, where terminal is a leaf (constant), a float, a custom point,
  a Space with 2 or 3 points, or a manyof with k = 2 / 3 (distinct and not).  At every level the continuing candidate is
  tried at index 0 and at the last index; the root Space holds the chain alone or next to a second decision point.
  DNAs: every branch of the chain is chosen (stop at level j < depth by picking the constant, or go all the way) with
  every (small) terminal decision.  Returns [(label, spec, [(dna_label, sdna), ...]), ...]."""
  def c2(loc, name=None): return ('C', 1, [('S', []), ('S', [])], True, False, (loc,), name, ())
  terminals = {
      'leaf': (('S', []), [[]]),
      'float': (('S', [('F', 0.0, 1.0, ('t',), None)]), [[('f', 0.5)]]),
      'custom': (('S', [('X', ('t',), None)]), [[('s', 'abc')]]),
      'space2': (('S', [c2('t0'), c2('t1')]), [[('c', [(0, [])]), ('c', [(1, [])])], [('c', [(1, [])]), ('c', [(1, [])])]]),
      'space3': (('S', [c2('t0'), ('F', 0.0, 1.0, ('t1',), None), c2('t2')]), [[('c', [(1, [])]), ('f', 0.25), ('c', [(0, [])])]]),
      'manyof2': (('S', [('C', 2, [('S', [])] * 3, True, False, ('t',), None, ())]), [[('c', [(2, []), (0, [])])], [('c', [(0, []), (1, [])])]]),
      'manyof3': (('S', [('C', 3, [('S', [])] * 3, False, True, ('t',), None, ())]), [[('c', [(0, []), (0, []), (2, [])])]]),
      'manyof2-nested': (('S', [('C', 2, [('S', []), ('S', [c2('u')])], False, False, ('t',), None, ())]),
                         [[('c', [(1, [('c', [(1, [])])]), (0, [])])], [('c', [(1, [('c', [(0, [])])]), (1, [('c', [(1, [])])])])]]),
  }
  out = []
  for depth in range(1, max_depth + 1):
    for tname, (tspace, tdecs) in terminals.items():
      for cont_last in (False, True):
        # build from the inside out; level j's oneof has candidates [const, next] or [next, const, const]
        def build(j):
          if j == depth: return tspace
          nxt = build(j + 1)
          cands = [('S', []), ('S', []), nxt] if cont_last else [nxt, ('S', [])]
          return ('S', [('C', 1, cands, True, False, ('l%d' % j,), None, ())])
        chain = build(0)
        ci = 2 if cont_last else 0          # index that continues the chain
        si = 0 if cont_last else 1          # index that stops
        def dna(stop_at, tdec):
          # stop_at = j: levels 0..j-1 continue, level j picks the constant; stop_at = depth: all the way with tdec
          def lvl(j):
            if j == depth: return tdec
            if j == stop_at: return [('c', [(si, [])])]
            return [('c', [(ci, lvl(j + 1))])]
          return lvl(0)
        for with_sibling in (False, True):
          spec = ('S', chain[1] + ([c2('z')] if with_sibling else []))
          dnas = []
          for stop_at in range(depth):
            dnas.append(('stop@%d' % stop_at, dna(stop_at, None)))
          for ti, tdec in enumerate(tdecs):
            dnas.append(('full/%d' % ti, dna(depth, tdec)))
          if with_sibling:
            dnas = [(l, d + [('c', [(1, [])])]) for l, d in dnas]
          dnas = [(l, d) for l, d in dnas if valid(spec, d)]
          out.append(('depth%d/%s/%s%s' % (depth, tname, 'last' if cont_last else 'first', '+sibling' if with_sibling else ''), spec, dnas))
  return out

def mixed_nesting_family(max_depth=4, kinds='OM', terminals=('float', 'choice', 'custom'), arrangements=('siblings', 'candidates', 'subchoices')):
  """Two branches with IDENTICAL inner locations under a common root.  A branch is a chain of `depth` levels, each level a
  single choice 'O' (oneof [next, const]), a distinct multi-choice 'M' (manyof 2 of [next, const, const]) or a non-distinct
  multi-choice 'N' (manyof 2 of [next, const], both subchoices may take `next`), in every sequence over `kinds` of length
  1..max_depth, ending in a decision point (float / choice / custom) at location 't'.  Level j sits at location 'l<j>' in
  both branches, so the ids of the two branches differ only in the prefix contributed by the root.  Arrangements:
    siblings    root Space holds the two branches with their level-0 location renamed to 'a1' / 'a2';
    candidates  root oneof 'r' with candidates [branch, branch, const];
    subchoices  root non-distinct manyof(2) 'r' with candidates [branch, const] (both subchoices can take the branch).
  DNAs: both branches active all the way with different terminal decisions ('both'; for 'candidates' one branch at a time:
  'first' / 'second'), and one branch stopped at its first level ('one').  Inside an 'N' level of the 'both' DNA the two
  subchoices both continue, with different terminal decisions.  Returns [(label, spec, [(dna_label, sdna), ...]), ...]."""
  import itertools
  const = ('S', [])
  def c2(loc): return ('C', 1, [const, const], True, False, (loc,), None, ())
  term_point = {'float': ('F', 0.0, 1.0, ('t',), None), 'choice': c2('t'), 'custom': ('X', ('t',), None)}
  term_decs = {'float': [('f', 0.25), ('f', 0.75), ('f', 0.5), ('f', 0.125)],
               'choice': [('c', [(0, [])]), ('c', [(1, [])]), ('c', [(1, [])]), ('c', [(0, [])])],
               'custom': [('s', 'u'), ('s', 'v'), ('s', 'w'), ('s', 'x y')]}
  def level(kind, loc, nxt):
    if kind == 'O': return ('C', 1, [nxt, const], True, False, (loc,), None, ())
    if kind == 'M': return ('C', 2, [nxt, const, const], True, False, (loc,), None, ())
    return ('C', 2, [nxt, const], False, False, (loc,), None, ())
  def branch(seq, tname, loc0):
    sp = ('S', [term_point[tname]])
    for j in reversed(range(len(seq))):
      sp = ('S', [level(seq[j], loc0 if j == 0 else 'l%d' % j, sp)])
    return sp
  def branch_dna(seq, tname, counter, stop=False):
    """Decisions of one branch; `counter` hands out different terminal decisions to the different active copies."""
    def lvl(j):
      if j == len(seq):
        d = term_decs[tname][counter[0] % 4]; counter[0] += 1
        return [d]
      k = seq[j]
      if stop and j == 0:
        return [('c', [(1, [])])] if k == 'O' else [('c', [(1, []), (2, [])])] if k == 'M' else [('c', [(1, []), (1, [])])]
      if k == 'O': return [('c', [(0, lvl(j + 1))])]
      if k == 'M': return [('c', [(0, lvl(j + 1)), (1, [])])]
      return [('c', [(0, lvl(j + 1)), (0, lvl(j + 1))])]
    return lvl(0)
  out = []
  for depth in range(1, max_depth + 1):
    for seq in itertools.product(kinds, repeat=depth):
      for tname in terminals:
        for arr in arrangements:
          cnt = [0]
          if arr == 'siblings':
            spec = ('S', branch(seq, tname, 'a1')[1] + branch(seq, tname, 'a2')[1])
            dnas = [('both', branch_dna(seq, tname, cnt) + branch_dna(seq, tname, cnt)),
                    ('one', branch_dna(seq, tname, cnt, stop=True) + branch_dna(seq, tname, cnt))]
          elif arr == 'candidates':
            b = branch(seq, tname, 'l0')
            spec = ('S', [('C', 1, [b, b, const], True, False, ('r',), None, ())])
            dnas = [('first', [('c', [(0, branch_dna(seq, tname, cnt))])]), ('second', [('c', [(1, branch_dna(seq, tname, cnt))])]),
                    ('one', [('c', [(1, branch_dna(seq, tname, cnt, stop=True))])])]
          else:
            b = branch(seq, tname, 'l0')
            spec = ('S', [('C', 2, [b, const], False, False, ('r',), None, ())])
            dnas = [('both', [('c', [(0, branch_dna(seq, tname, cnt)), (0, branch_dna(seq, tname, cnt))])]),
                    ('one', [('c', [(1, []), (0, branch_dna(seq, tname, cnt))])])]
          dnas = [(l, d) for l, d in dnas if valid(spec, d)]
          out.append(('depth%d/%s/%s/%s' % (depth, ''.join(seq), tname, arr), spec, dnas))
  return out

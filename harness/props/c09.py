"""C09 — change notification contract and freshness of derived state.

Builds on the SymCore model / driver (harness/props/symcore_driver.py, never edited: imported and configured):
the forest literals carry a 4th flag (bit 0 of the opaque annotation = the node has an onchange_callback), the three
object classes are replaced by classes with the same fields that override _on_change (class 0), only _on_bound
(class 1) or nothing (class 2), opaque leaves with tag 1 / 2 are NonDeterministic / PureSymbolic placeholders.
After every step the driver prints what coq/Model/SymCoreEvents.v prints: outcome, snapshot, the event log of the
call (receiver, its path, payload with old and new contents), which memoised facts every node holds, and (when the
step observes) the four derived facts of every node."""
import contextlib, inspect, time
from harness.props import symcore_driver as D
from harness.props import c01 as C01
from harness.translators import notify_src

REBINDX, QUERY = 50, 60

META = dict(
    id='C09',
    model_run='PG.Model.SymCoreEvents.run',
    runner_name='SymCoreEvents',
    model_targets=['Model/SymCoreEvents.vo'],
    instance_obligations=['generated_write_sites_invalidate / generated_write_sites_report (Proofs/SymCoreEventsInstance.v, vm_compute on the table of raw write sites of '
                          'pg.List / pg.Dict regenerated from the current source: each invalidates the content caches and reports its update)',
                          'generated_invalidate_is_the_model_reset / generated_notify_is_the_model_delivery (the shapes of Symbolic._invalidate_content_cache and '
                          'Symbolic._notify_field_updates recognised by the fail-closed translator are those SymCoreEvents.reset_of / deliver are written after)'],
    technique='Coq proof over the SymCore forest model extended with a trace of writes and notifications per call (event log, memoised-fact tables) '
              '+ step-level differential correspondence of event logs, cache occupancy and reported facts against pg.Dict/pg.List/pg.Object '
              '+ direct oracles (event contract from before/after diffs; derived facts against a copy rebuilt from JSON)',
    design_ref='DESIGN.md §5 C09, design/C09.md',
    level_text=('Theorems (any forest, any operation of the SymCore catalogue, any scope stack): a call delivers at most one notification and nobody hears about it twice; '
                'the receivers are exactly the observing nodes among the written containers and the containers above them; every event carries exactly the updates at or below its '
                'receiver, keyed by relative path, with the items the forest held before / holds after the write; inside a disabled scope, for Dict.update and for skip_notification=True '
                'nothing is delivered; the notification names exactly the containers the call wrote, and with notification enabled a call that wrote and did not raise has notified; receivers are notified children first (on every int key and every string key that does not look like a number, where the KeyPath comparison is an order); every operation resets the memoised facts of every '
                'node whose contents it changes, queries answer with the fact of the current contents, hence after any history every node reports what a computation from scratch gives. '
                'Tie: step-level correspondence of event logs (receiver, path, payload with old and new contents), of which memo attributes every live node holds, and of the observed facts, '
                'on a systematic sweep (every mutator x depth x subscriber placement x notification on/off), batch-shape and re-seat-then-write sweeps and generated histories (observer classes created afresh per case, in five inheritance shapes); direct oracles for the event contract (incl. every reported location leads to the new value; true parent / path of every node after every step) and for freshness '
                'against a copy rebuilt from JSON, also on typed trees with required/default fields, MISSING_VALUE and pg.oneof.'),
    level_note=('Trusted: Coq kernel; extraction cross-checked against vm_compute; the SymCore driver and the C09 observers (test classes, callbacks, reading the memo attributes). '
                'Modelled, not verified: the Python code (tied by the correspondence). '
                'Children-first is proved for paths of int keys and of string keys that do not start with a digit or a minus sign (where sorted() is determined; outside the comparison has a cycle, C09_key_order_cycle). Typed fields and pg.oneof are covered by the direct oracle only. '
                'Two open findings (event for a write that changes nothing; intermediate locations of overlapping batches), exhibited by C09_spurious_refuted / C09_overlapping_batch_refuted.'),
    rule='a case is (forest literal with callback flags, list of (scope stack, operation, observe?)); distinct by canonical text; non-trivial when at least one '
         'step delivers an event to a subscribing ancestor or changes a memoised fact of a node that held it',
    trusted_base=['translator harness/translators/notify_src.py (fail-closed ast reader of base.py / list.py / dict.py; never imports pyglove)',
                  'extraction: ExtrOcamlBasic only; ocaml/main.ml lexer/printer; cross-checked against vm_compute on a sample',
                  'implementation driver harness/props/symcore_driver.py + the observers of harness/props/c09.py (test classes, callbacks, cache inspection)'],
    assumptions=['histories are finite sequences of the modelled operations; rebind batches generated for the correspondence are prefix-free',
                 'C09_fresh: history_ok -- an opaque leaf identity has one content (where the identity test of sort/reverse says nothing moved, the items are the same list)',
                 'C09_children_first: the keys on the receivers\' paths are simple (any int; strings not starting with a digit or a minus sign); counted per run in coverage.hypotheses',
                 'C09_write_is_told: step_tells -- the operation is not Dict.update / |= / l * n and not a clear() of an empty container (these write without telling by design)'],
)

# ---- observers ---------------------------------------------------------------------------------------------------------------
LOG = []              # (receiver object, path keys at delivery, encoded payload, raw updates | None) in delivery order
RECORDING = [False]

def enc_val(v):
  """Contents only (no identities, paths, flags)."""
  if D.is_sym(v):
    return [1, D.kind_of(v), [[D.enc_key(k), enc_val(c)] for k, c in D.sym_children(v)]]
  return [0, _IMPL[0].enc_leaf(v, None)]
_IMPL = [None]

def _payload(updates):
  return [[[D.enc_key(k) for k in rel.keys], enc_val(u.old_value), enc_val(u.new_value)] for rel, u in updates.items()]

def _callback(updates):
  """onchange_callback of every subscribing pg.Dict / pg.List (clone shares the function, so the receiver is read off the caller)."""
  if RECORDING[0]:
    me = inspect.currentframe().f_back.f_locals.get('self')
    LOG.append((me, list(me.sym_path.keys), _payload(updates), dict(updates)))

# The three object classes of a case (class 0: overrides _on_change; class 1: overrides _on_bound only; class 2: nothing) come as a FAMILY that is
# created afresh for every case (whatever pyglove keeps per class -- e.g. a memo of "does this class subscribe" -- starts empty, and the order
# in which the classes of one family are first notified is the order of the case).  The family has one of several inheritance SHAPES with the same
# observable classes: which class defines the handler and which inherits is part of the case (chosen by a stable hash of the case text).
FAMILY_SHAPES = ['flat', 'handler-in-subclass-of-the-plain-class', 'two-levels-below-the-plain-class', 'handler-inherited-from-a-base',
                 'common-base-without-handler']
_OPQ9 = None
def opq_classes():
  global _OPQ9
  if _OPQ9 is None:
    P = D.pg()
    class PureOpq(D.Opq, P.PureSymbolic, P.JSONConvertible):
      def to_json(self, **kw): return self.to_json_dict(dict(tag=self.tag))
    class NondetOpq(D.Opq, P.symbolic.NonDeterministic, P.JSONConvertible):
      def to_json(self, **kw): return self.to_json_dict(dict(tag=self.tag))
    class PlainOpq(D.Opq, P.JSONConvertible):
      def to_json(self, **kw): return self.to_json_dict(dict(tag=self.tag))
    _OPQ9 = dict(opq={1: NondetOpq, 2: PureOpq}, plain=PlainOpq)
  return _OPQ9

def new_family(shape=0):
  P = D.pg()
  Any = P.typing.Any
  F = lambda *names: [(nm, Any(default=None)) for nm in names]
  def on_change(self, field_updates):
    if RECORDING[0]:
      LOG.append((self, list(self.sym_path.keys), _payload(field_updates), dict(field_updates)))
    return P.Object._on_change(self, field_updates)
  def on_init(self):
    self._in_init = True
    try:
      P.Object._on_init(self)
    finally:
      self._in_init = False
  def on_bound(self):
    P.Object._on_bound(self)
    if RECORDING[0] and not getattr(self, '_in_init', False):
      LOG.append((self, list(self.sym_path.keys), [], None))
  bare = dict(allow_symbolic_assignment=True, allow_symbolic_mutation=True, _on_init=on_init, _on_bound=on_bound)
  full = dict(allow_symbolic_assignment=False, allow_symbolic_mutation=True, _on_change=on_change)
  none = dict(allow_symbolic_mutation=False)
  def mk(name, bases, attrs, fields):
    cls = type(name, bases, dict(attrs, __module__=__name__, __qualname__=name))
    return P.members(fields)(cls) if fields else cls
  name = FAMILY_SHAPES[shape]
  if name == 'flat':
    EvC = mk('EvC', (P.Object,), none, F('x'))
    EvA = mk('EvA', (P.Object,), full, F('x', 'y'))
    EvB = mk('EvB', (P.Object,), bare, F('x', 'y', 'z'))
  elif name == 'handler-in-subclass-of-the-plain-class':
    # the plain class (no handler) is the base of the class with the handler and of the class with _on_bound
    EvC = mk('EvC', (P.Object,), none, F('x'))
    EvA = mk('EvA', (EvC,), full, F('y'))
    EvB = mk('EvB', (EvC,), bare, F('y', 'z'))
  elif name == 'two-levels-below-the-plain-class':
    EvC = mk('EvC', (P.Object,), none, F('x'))
    Mid = mk('EvMid', (EvC,), {}, None)
    EvA = mk('EvA', (Mid,), full, F('y'))
    EvB = mk('EvB', (Mid,), bare, F('y', 'z'))
  elif name == 'handler-inherited-from-a-base':
    HB = mk('EvHandlerBase', (P.Object,), full, None)
    EvA = mk('EvA', (HB,), {}, F('x', 'y'))
    EvC = mk('EvC', (P.Object,), none, F('x'))
    EvB = mk('EvB', (P.Object,), bare, F('x', 'y', 'z'))
  else:
    NB = mk('EvPlainBase', (P.Object,), {}, None)
    EvC = mk('EvC', (NB,), none, F('x'))
    EvA = mk('EvA', (NB,), full, F('x', 'y'))
    EvB = mk('EvB', (NB,), bare, F('x', 'y', 'z'))
  return dict(objs=[EvA, EvB, EvC], shape=name, **opq_classes())

_FAMILY = [None]
def classes9():
  if _FAMILY[0] is None:
    _FAMILY[0] = new_family(0)
  return _FAMILY[0]
def family_shape_of(case):
  import zlib
  return zlib.crc32(repr(case[1:]).encode()) % len(FAMILY_SHAPES)
def has_objects(t):
  """does a case mention a pg.Object literal (forest or operation values)?"""
  if isinstance(t, list):
    if len(t) == 5 and t[0] == 1 and isinstance(t[1], int) and t[1] >= 2 and isinstance(t[2], list) and isinstance(t[4], list):
      return True
    return any(has_objects(x) for x in t)
  return False
def family_for(case):
  """a fresh family for a case with objects (creating one costs ~5 ms); the others never look at the object classes"""
  return new_family(family_shape_of(case)) if has_objects(case[1:]) else None

class Impl9(D.Impl):
  def __init__(self):
    super().__init__()
    self.rebind_kw = {}
  def leaf(self, l):
    if l[0] == 5:
      if l[1] not in self.opq:
        c = classes9()
        self.opq[l[1]] = c['opq'].get(l[2], c['plain'])(l[2])
      return self.opq[l[1]]
    return super().leaf(l)
  def lit(self, lt):
    if lt[0] == 0:
      return self.leaf(lt[1])
    _, kind, flags, plain, items = lt
    sealed, aw, partial = map(bool, flags[:3])
    cb = _callback if len(flags) > 3 and flags[3] % 2 == 1 else None
    P = D.pg()
    if kind == 1:
      vals = [self.lit(v) for _, v in items]
      return vals if plain else P.List(vals, sealed=sealed, accessor_writable=aw, allow_partial=partial, onchange_callback=cb)
    kv = {D.dec_key(k): self.lit(v) for k, v in items}
    if kind == 0:
      return kv if plain else P.Dict(kv, sealed=sealed, accessor_writable=aw, allow_partial=partial, onchange_callback=cb)
    o = classes9()['objs'][kind - 2](sealed=sealed, allow_partial=partial, **kv)
    o.set_accessor_writable(aw)
    return o

@contextlib.contextmanager
def installed(family=None):
  """The SymCore driver configured for C09 (classes, rebind keyword arguments); restored afterwards.  [family]: a fresh class family for this case."""
  old_classes, old_run_op, old_family = D._CLASSES, D.run_op, _FAMILY[0]
  if family is not None:
    _FAMILY[0] = family
  D._CLASSES = classes9()['objs']
  def run_op9(impl, t, op, new_results, val):
    if op[0] == D.REBIND and getattr(impl, 'rebind_kw', None):
      P = D.pg()
      t.rebind({P.KeyPath([D.dec_key(k) for k in p]): val(v) for p, v in op[2]}, **impl.rebind_kw)
      return None
    return old_run_op(impl, t, op, new_results, val)
  D.run_op = run_op9
  try:
    yield
  finally:
    D._CLASSES, D.run_op = old_classes, old_run_op
    _FAMILY[0] = old_family

# ---- observations -------------------------------------------------------------------------------------------------------------
def live_nodes(impl):
  out = []
  for r in impl.roots:
    if r is not None:
      D.walk(r, lambda x, parent, key: out.append(x))
  return out

def enc_mv(v):
  if D.is_sym(v): return [1]
  if isinstance(v, dict): return [2, [[D.enc_key(k), enc_mv(x)] for k, x in v.items()]]
  return [0, _IMPL[0].enc_leaf(v, None)]

def filled_of(x):
  has_cb = int(getattr(x, '_onchange_callback', None) is not None) if D.kind_of(x) in (0, 1) else 0
  return [int(getattr(x, '_sym_puresymbolic') is not None), int(getattr(x, '_sym_missing_values') is not None),
          int(getattr(x, '_sym_nondefault_values') is not None), has_cb]

def observe(x):
  return [int(bool(x.sym_puresymbolic)), int(bool(x.is_deterministic)), enc_mv(x.sym_missing(flatten=False)), enc_mv(x.sym_nondefault(flatten=False))]

def run_case9(case, oracle=None):
  """case = (quirks, (lit ...), ((scope op observe) ...)).  Returns the outcome tree (see coq/Model/SymCoreEvents.v)."""
  _, init, steps = case
  with installed(family_for(case)):
    impl = Impl9()
    _IMPL[0] = impl
    for lt in init:
      impl.roots.append(impl.lit(lt))
    snap0 = impl.snapshot()
    outs = []
    for n, (scope, op, ob) in enumerate(steps):
      before = oracle.prepare(impl, scope, op) if oracle is not None else None
      del LOG[:]
      RECORDING[0] = True
      try:
        if op[0] == QUERY:
          res = run_query(impl, op)
          info = dict(tag=QUERY, pos=op[1], exception=None)
        elif op[0] == REBINDX:
          impl.rebind_kw = dict(notify_parents=bool(op[4]))
          if op[3]:
            impl.rebind_kw['skip_notification'] = bool(op[3][0])
          try:
            res, info = D.apply_op(impl, scope, [D.REBIND, op[1], op[2]])
          finally:
            impl.rebind_kw = {}
        else:
          res, info = D.apply_op(impl, scope, op)
      finally:
        RECORDING[0] = False
      log = list(LOG)
      events = []
      for me, keys, payload, _ in log:
        loc = impl.locate(me)
        events.append([[loc[1], loc[2]] if loc else [], [D.enc_key(k) for k in keys], payload])
      nodes = live_nodes(impl)
      filled = [filled_of(x) for x in nodes]
      if oracle is not None:
        oracle(impl, n, scope, op, res, info, before, log)
      observed = [observe(x) for x in nodes] if ob else []
      outs.append([res, impl.snapshot(), events, filled, observed])
  return [snap0, outs]

def run_query(impl, op):
  try:
    x = impl.at(op[1])
    if not D.is_sym(x) or D.kind_of(x) < 0:
      raise D.NotApplicable()
  except D.NotApplicable:
    return [1, D.ERR_NA]
  if op[2] == 0: x.sym_puresymbolic           # pylint: disable=pointless-statement
  elif op[2] == 1: x.sym_missing()
  else: x.sym_nondefault()
  return [0, [0]]

# ---- generator ------------------------------------------------------------------------------------------------------------------
def make_gen(rng, focus=None, quirks=(), notify_off=0.25):
  from harness.props import symcore_gen as G
  class Gen9(G.Gen):
    """SymCore generator with callback flags, placeholder leaves, observe flags, skip_notification / notify_parents and query steps."""
    def flags(self, p=0.08):
      f = super().flags(p)
      return f + [int(self.r.random() < 0.45)]
    def leaf(self, missing=0.0):
      r = self.r
      if r.random() < 0.22 and r.random() >= missing:
        if self.next_oid > 1 and r.random() < 0.3:
          oid = r.randrange(1, self.next_oid)
          return [5, oid, self.tags[oid]]
        oid = self.next_oid; self.next_oid += 1
        self.tags[oid] = r.choice([0, 1, 2, 2])
        return [5, oid, self.tags[oid]]
      return super().leaf(missing)
    def scope(self):
      sc = super().scope()
      if not sc[2] and self.r.random() < notify_off:
        sc = [sc[0], sc[1], [0] if self.r.random() < 0.8 else [0, 1], sc[3]]
      return sc
    def op9(self, impl):
      r = self.r
      k = r.random()
      if k < self.query_p:
        nodes = list(impl.reachable().values())
        if nodes:
          x, ri, keys = r.choice(nodes)
          return [QUERY, [ri, [G.ek(kk) for kk in keys]], r.randrange(3)]
      op = self.op(impl)
      if op is not None and op[0] == D.REBIND and r.random() < 0.35:
        skip = r.choice([[], [], [0], [1], [1]])
        return [REBINDX, op[1], op[2], skip, int(r.random() < 0.5)]
      return op
    def case(self, nops):
      r = self.r
      self.tags = {}
      self.next_oid = 1
      # how much is asked between the mutations varies per case: everything after most steps ... almost nothing but single queries
      self.observe_p, self.query_p = r.choice([(0.6, 0.07), (0.6, 0.07), (0.25, 0.2), (0.05, 0.3)])
      init = [self.node_lit(r.choice([1, 2, 2, 3])) for _ in range(r.choice([1, 2, 2, 3]))]
      impl = Impl9()
      _IMPL[0] = impl
      for lt in init:
        impl.roots.append(impl.lit(lt))
      steps = []
      for _ in range(nops):
        if sum(1 for x in impl.roots if x is not None) > 12:
          break
        op = self.op9(impl)
        if op is None:
          break
        sc = self.scope()
        steps.append([sc, op, int(r.random() < self.observe_p)])
        apply_any(impl, sc, op)
      return [list(self.quirks), init, steps]
  return Gen9(rng, cycles=True, focus=focus, quirks=quirks)

def apply_any(impl, scope, op):
  if op[0] == QUERY:
    return run_query(impl, op), {}
  if op[0] == REBINDX:
    impl.rebind_kw = dict(notify_parents=bool(op[4]))
    if op[3]:
      impl.rebind_kw['skip_notification'] = bool(op[3][0])
    try:
      return D.apply_op(impl, scope, [D.REBIND, op[1], op[2]])
    finally:
      impl.rebind_kw = {}
  return D.apply_op(impl, scope, op)

def op_name(op):
  return {REBINDX: 'rebind(skip/notify_parents)', QUERY: 'query'}.get(op[0]) or D.OP_NAMES.get(op[0], str(op[0]))

def batch_sweep_cases(stride=1):
  """every ordered pair / triple of rebind entries from a pool of writes at several depths of one tree -- two fields of one element, an
  Insertion or deletion that re-seats the elements of the list, appends, dict keys set / deleted, plain fields -- as ONE batch on a
  Dict-rooted and on an Object-rooted tree whose containers all observe (entries whose paths overlap are left to the corpus)."""
  def tree(root_kind):
    l = ('cb', [('cb', {'x': 1, 'y': 2}), ('cb', {'x': 3, 'y': 4}), 5])
    cfg = ('cb', {'a': 1, 'b': 2})
    if root_kind == 'dict':
      return ('cb', {'l': l, 'cfg': cfg, 'n': 0}), ['l'], ['cfg'], ['n']
    return ('obj', 0, {'x': l, 'y': cfg}), ['x'], ['y'], None
  def pool(L, C, N):
    k = lambda *ks: [ek(x) for x in ks]
    P = [(k(*L, 0, 'x'), val(9)), (k(*L, 0, 'y'), val(9)), (k(*L, 1, 'x'), val(9)), (k(*L, 1, 'y'), val({'q': 1})),
         (k(*L, 0), [2, val(7)]), (k(*L, 1), [2, val({'x': 0})]), (k(*L, 0), val('MISSING')), (k(*L, 2), val(8)), (k(*L, 3), val(6)),
         (k(*C, 'a'), val(9)), (k(*C, 'b'), val('MISSING')), (k(*C, 'c'), val([1]))]
    if N is not None:
      P.append((k(*N), val(1)))
    return P
  def overlap(p, q):
    n = min(len(p), len(q))
    return p[:n] == q[:n]
  out = []
  idx = 0
  for root_kind in ('dict', 'obj'):
    t, L, C, N = tree(root_kind)
    P = pool(L, C, N)
    n = len(P)
    combos = [(a, b) for a in range(n) for b in range(n) if a != b]
    combos += [(a, b, c) for a in range(n) for b in range(n) for c in range(n) if len({a, b, c}) == 3]
    for combo in combos:
      paths = [P[i][0] for i in combo]
      if any(overlap(paths[i], paths[j]) for i in range(len(paths)) for j in range(i + 1, len(paths))):
        continue
      if {6, 7} <= set(combo) and ({4, 5} & set(combo)):
        continue      # two nodes removed after a re-seating: the driver orders the removed roots by pre-call positions (symcore_driver rank)
      idx += 1
      # an Insertion / deletion between two writes below list elements re-seats what lives at a path: always run; the rest is strided
      reseat = len(combo) == 3 and len(set(combo) & {4, 5, 6}) == 1 and len(set(combo) & {0, 1, 2, 3}) == 2
      if len(combo) == 3 and stride > 1 and idx % stride and not reseat:
        continue
      pvs = [[P[i][0], P[i][1]] for i in combo]
      out.append(('batch:%s/%s' % (root_kind, '+'.join(map(str, combo))), case9([t], (NS, NOP()), (NS, [D.REBIND, pos(0), pvs]))))
  # batches whose paths are NOT prefix-free: write below P, replace / insert / delete at P, write below P again -- in every order, on a Dict-,
  # an Object- and a List-rooted tree; the old and the new container and all ancestors observe
  import itertools
  newd = lambda: val(('cb', {'x': 0, 'y': 0}))
  for root_kind in ('dict', 'obj', 'list'):
    if root_kind == 'list':
      t = ('cb', [('cb', {'x': 1, 'y': 2}), ('cb', {'x': 3, 'y': 4}), 5]); L = []; C = None
    else:
      t, L, C, N = tree(root_kind)
    k = lambda *ks: [ek(x) for x in ks]
    fams = [(k(*L, 0), [(k(*L, 0, 'x'), val(9)), (k(*L, 0, 'y'), val(8))]), (k(*L, 1), [(k(*L, 1, 'x'), val(9)), (k(*L, 1, 'y'), val(8))])]
    if C is not None:
      fams.append((k(*C), [(k(*C, 'a'), val(9)), (k(*C, 'b'), val(8))]))
    for fi, (P_, below) in enumerate(fams):
      ats = [('replace', [P_, newd()]), ('delete', [P_, val('MISSING')])]
      if P_ and P_[-1][0] == 1:       # a list position: insertion before it / at it
        ats.append(('insert', [P_, [2, newd()]]))
        ats.append(('insert-before', [P_[:-1] + [[1, 0]], [2, val(7)]]))
      for aname, at in ats:
        for m in (2, 3):
          entries = [list(below[0]), at] + ([list(below[1])] if m == 3 else [])
          for perm in itertools.permutations(range(m)):
            pvs = [entries[i] for i in perm]
            out.append(('batch-overlap:%s/P%d/%s/%s' % (root_kind, fi, aname, ''.join(map(str, perm))), case9([t], (NS, NOP()), (NS, [D.REBIND, pos(0), pvs]))))
  return out

def reseat_then_write_cases(full=True):
  """two-phase histories on ONE list of symbolic elements (at the root, below a Dict, below an Object; list, elements and ancestors observe):
  phase 1 re-seats the elements -- a batch that deletes two or three of them by MISSING_VALUE (every subset; as one rebind on the list, as one
  rebind from the root, with notify_parents=False, or with the first deletion made silently -- skip_notification / disabled scope -- so that ONE
  later notification drops several placeholders), batches of Insertions, mixed batches, del / pop / insert / reverse; phase 2 writes inside
  EVERY element of the list afterwards, at depth 1 and at depth 2, one call each.  The event log of every step is compared with the model;
  the location and path-integrity clauses of the oracle apply.  (full=False, the quick tier: below a Dict / an Object only the two-element
  deletions, and without the reversed-order and all-skipped variants.)"""
  import itertools
  N = 4
  elem = lambda i: ('cb', {'x': i, 's': {'y': i}})
  newe = lambda i: val(('cb', {'x': 50 + i, 's': {'y': 50 + i}}))
  MISS = lambda: val('MISSING')
  out = []
  for root_kind in ('list', 'dict', 'obj'):
    L = ('cb', [elem(i) for i in range(N)])
    if root_kind == 'list':
      t, LP = L, []
    elif root_kind == 'dict':
      t, LP = ('cb', {'l': L, 'n': 0}), ['l']
    else:
      t, LP = ('obj', 0, {'x': L, 'y': 1}), ['x']
    lp = pos(0, *LP)
    kpath = lambda *ks: [ek(x) for x in list(LP) + list(ks)]
    phases = []       # (name, steps of phase 1, raw list afterwards: labels, None = a placeholder that is still there)
    subsets = [c for m in ((2, 3) if full or root_kind == 'list' else (2,)) for c in itertools.combinations(range(N), m)]
    for S in subsets:
      nm = ''.join(map(str, S))
      left = [i for i in range(N) if i not in S]
      dels = [[[ek(i)], MISS()] for i in S]
      phases.append(('del%s/batch' % nm, [(NS, [D.REBIND, lp, dels])], left))
      if full:
        phases.append(('del%s/batch-reversed' % nm, [(NS, [D.REBIND, lp, dels[::-1]])], left))
      if LP:
        phases.append(('del%s/from-root' % nm, [(NS, [D.REBIND, pos(0), [[kpath(i), MISS()] for i in S]])], left))
      phases.append(('del%s/notify-parents-false' % nm, [(NS, [REBINDX, lp, dels, [], 0])], left))
      phases.append(('del%s/skip-then-notified' % nm, [(NS, [REBINDX, lp, dels[:-1], [1], 1]), (NS, [D.REBIND, lp, dels[-1:]])], left))
      phases.append(('del%s/off-then-notified' % nm, [(OFF, [D.REBIND, lp, dels[:-1]]), (NS, [D.REBIND, lp, dels[-1:]])], left))
      # every deletion silent: the placeholders are dropped by the notification of the first write of phase 2
      phases.append(('del%s/all-off' % nm, [(OFF, [D.REBIND, lp, dels])], [None if i in S else i for i in range(N)]))
      if full or root_kind == 'list':
        phases.append(('del%s/all-skipped' % nm, [(NS, [REBINDX, lp, dels, [1], 1])], [None if i in S else i for i in range(N)]))
    phases.append(('ins02/batch', [(NS, [D.REBIND, lp, [[[ek(0)], [2, newe(0)]], [[ek(2)], [2, newe(1)]]]])], list(range(N + 2))))
    phases.append(('del0-ins2/batch', [(NS, [D.REBIND, lp, [[[ek(0)], MISS()], [[ek(2)], [2, newe(1)]]]])], list(range(N))))
    phases.append(('ins0-del2/batch', [(NS, [D.REBIND, lp, [[[ek(0)], [2, newe(0)]], [[ek(2)], MISS()]]])], list(range(N))))
    phases.append(('del1', [(NS, [D.LDEL, lp, 1])], list(range(N - 1))))
    phases.append(('pop0', [(NS, [D.LPOP, lp, [0]])], list(range(N - 1))))
    phases.append(('insert1', [(NS, [D.LINSERT, lp, 1, newe(0)])], list(range(N + 1))))
    phases.append(('reverse', [(NS, [D.LREVERSE, lp])], list(range(N))))
    phases.append(('del1-off-then-del1', [(OFF, [D.LDEL, lp, 1]), (NS, [D.LDEL, lp, 1])], list(range(N - 2))))
    for name, p1, raw in phases:
      steps = [(NS, NOP())] + list(p1)
      # phase 2: a write inside every element; the first notified one drops the placeholders that are still there
      raw = list(raw)
      for depth in (1, 2):
        j = 0
        while j < len(raw):
          if raw[j] is None:
            j += 1
            continue
          if depth == 1:
            steps.append((NS, [D.DSET, pos(0, *(list(LP) + [j])), 0, ek('x'), val(100 + j)]))
          else:
            steps.append((NS, [D.DSET, pos(0, *(list(LP) + [j, 's'])), 0, ek('y'), val(200 + j)]))
          if None in raw:
            before = len([r for r in raw[:j] if r is None])
            raw = [r for r in raw if r is not None]
            j -= before
          j += 1
      out.append(('reseat:%s/%s' % (root_kind, name), case9([t], *steps)))
  return out

# ---- the direct oracles (the property text on the live objects) ------------------------------------------------------------------
def observer_kind(x):
  k = D.kind_of(x)
  if k in (0, 1):
    return 'full' if getattr(x, '_onchange_callback', None) is not None else None
  return {2: 'full', 3: 'bare'}.get(k)

def kids_of(x):
  return [(k, v) for k, v in D.sym_children(x)]

_CACHE_ATTRS = ('_sym_puresymbolic', '_sym_missing_values', '_sym_nondefault_values')
def _cache_holders(nodes):
  out = []
  for x in nodes:
    out.append(x)
    a = getattr(x, '_sym_attributes', None)
    if a is not None:
      out.append(a)
  return out

def facts(x):
  """The derived facts a value reports about itself, canonicalised."""
  miss = x.sym_missing()
  nond = x.sym_nondefault()
  return dict(is_partial=bool(x.is_partial), missing={str(k): enc_val(v) for k, v in miss.items()},
              nondefault={str(k): enc_val(v) for k, v in nond.items()},
              puresymbolic=bool(x.sym_puresymbolic), deterministic=bool(x.is_deterministic), abstract=bool(x.is_abstract))

def holds_list_missing(x):
  P = D.pg()
  found = [False]
  def visit(n, parent, key):
    if isinstance(n, list) and any((not D.is_sym(v)) and P.MISSING_VALUE == v for _, v in D.sym_children(n)):
      found[0] = True
  D.walk(x, visit)
  return found[0]

def rebuilt(x):
  """The same contents built from scratch: nothing memoised."""
  P = D.pg()
  return P.from_json(P.to_json(x))

def stale_facts(nodes, stats=None):
  """[(node, fact name, reported, fresh)] for every live node whose reported facts differ from a recomputation on a rebuilt copy.
  The memoised values are put back afterwards, so that looking does not change what later steps see."""
  holders = _cache_holders(nodes)
  saved = [(h, [getattr(h, a) for a in _CACHE_ATTRS]) for h in holders]
  out = []
  rec = RECORDING[0]
  RECORDING[0] = False
  try:
    for x in nodes:
      if holds_list_missing(x):
        if stats is not None: stats['fresh_skipped_list_holds_missing'] = stats.get('fresh_skipped_list_holds_missing', 0) + 1
        continue
      try:
        y = rebuilt(x)
      except Exception:        # a leaf that cannot be serialized (e.g. a stored pg.Insertion object)
        if stats is not None: stats['fresh_skipped_not_serializable'] = stats.get('fresh_skipped_not_serializable', 0) + 1
        continue
      try:
        a, b = facts(x), facts(y)
      except Exception as e:   # pylint: disable=broad-except
        out.append((x, 'raises', type(e).__name__, ''))
        continue
      if stats is not None: stats['fresh_compared'] = stats.get('fresh_compared', 0) + 1
      for f in a:
        if a[f] != b[f]:
          out.append((x, f, a[f], b[f]))
  finally:
    RECORDING[0] = rec
    for h, vals in saved:
      for a, v in zip(_CACHE_ATTRS, vals):
        object.__setattr__(h, a, v)
  return out

class Oracle9:
  """after-step hook of run_case9: event contract from a before/after diff, freshness against a rebuilt copy."""
  def __init__(self):
    self.hits = []
    self.stats = {}
    self.failed = set()
    self.noncanon = False

  def prepare(self, impl, scope, op):
    nodes = impl.reachable()
    # a batch whose list indices are negative or past the end: two of its paths may name one slot (or one path a slot below another)
    noncanon = False
    if op[0] in (D.REBIND, REBINDX) and len(op[2]) > 1:
      try:
        t = impl.at(op[1])
        for path, _ in op[2]:
          x = t
          for k in path:
            k = D.dec_key(k)
            if isinstance(x, list) and isinstance(k, int) and not 0 <= k < len(x):
              noncanon = True
            x = x.sym_getattr(k) if D.is_sym(x) and ((isinstance(x, list) and isinstance(k, int) and -len(x) <= k < len(x)) or (not isinstance(x, list) and x.sym_hasattr(k))) else None
            if x is None:
              break
      except Exception:      # pylint: disable=broad-except
        pass
    return dict(kids={i: (x, kids_of(x)) for i, (x, ri, keys) in nodes.items()}, pos={i: (ri, keys) for i, (x, ri, keys) in nodes.items()}, noncanon=noncanon)

  def hit(self, sig, what, n):
    if self.noncanon and sig.split('/')[1] in ('spurious', 'payload-path', 'payload-old', 'payload-new', 'payload-incomplete', 'not-notified') and 'noop-update' not in sig:
      # open finding: the paths of this batch overlap through negative / out-of-range list indices
      sig = 'C09/payload/overlapping-batch/non-canonical-index'
      what = 'a rebind batch whose paths name one slot twice (or a slot below a replaced node) through negative / out-of-range list indices: ' + what
    clause = sig.split('/')[1]
    if clause in self.failed:
      return
    self.failed.add(clause)
    self.hits.append((sig, what, n))

  def __call__(self, impl, n, scope, op, res, info, before, log):
    P = D.pg()
    name = op_name(op)
    tag = op[0]
    self.noncanon = bool(before and before.get('noncanon'))
    enabled = D.eff(scope[2], True) is not False
    skip = tag in (D.DUPDATE, D.DIOR)
    if tag == REBINDX and op[3]:
      skip = bool(op[3][0]); enabled = True if not skip else enabled
    if tag == REBINDX and op[3] and not op[3][0]:
      enabled = True           # skip_notification=False overrides the scope
    ok = res[0] == 0
    after = impl.reachable()
    pos_of = {i: (ri, keys) for i, (x, ri, keys) in after.items()}
    def is_ancestor(a, b):        # a strictly above b, by actual storage after the call
      pa, pb = pos_of.get(id(a)), pos_of.get(id(b))
      return pa is not None and pb is not None and pa[0] == pb[0] and len(pa[1]) < len(pb[1]) and pb[1][:len(pa[1])] == pa[1]
    recv = [e[0] for e in log]
    self.stats['steps'] = self.stats.get('steps', 0) + 1
    if log:
      self.stats['steps_with_events'] = self.stats.get('steps_with_events', 0) + 1
      self.stats['events'] = self.stats.get('events', 0) + len(log)
    # --- silent
    if (not enabled or skip) and log:
      self.hit('C09/silent/%s/%s' % (name, 'skip' if skip else 'notify-off'),
               '%d change event(s) delivered by %s although %s' % (len(log), name, 'the caller skips notification' if skip else 'notification is disabled'), n)
    if enabled and not skip and ok and tag != QUERY:
      # --- exactly once
      ids = [id(x) for x in recv]
      if len(set(ids)) != len(ids):
        self.hit('C09/twice/%s/-' % name, 'one call of %s delivered %d events to the same receiver' % (name, max(ids.count(i) for i in ids)), n)
      # --- children first
      for i in range(len(recv)):
        for j in range(i + 1, len(recv)):
          if is_ancestor(recv[i], recv[j]):
            self.hit('C09/order/%s/-' % name, '%s notified the node at %r before its descendant at %r' % (name, str(recv[i].sym_path), str(recv[j].sym_path)), n)
      # --- who must hear: observers among the changed containers and everything above them
      changed = []
      written = {id(info.get('target'))} | {id(u.target) for _, _, _, raw in log if raw for u in raw.values()}
      for i, (x, kids) in before['kids'].items():
        if i in after:
          now = kids_of(x)
          raw_diff = len(now) != len(kids) or any(k1 != k2 or v1 is not v2 for (k1, v1), (k2, v2) in zip(kids, now))
          if isinstance(x, list) and i not in written:
            # (MISSING_VALUE placeholders left in a list by a deletion made while notification was off are dropped by the next
            #  notification that passes: that deferred clean-up of a list the call did not write to is not a change of this call)
            ph = lambda v: (not D.is_sym(v)) and P.MISSING_VALUE == v
            a_, b_ = [v for _, v in kids if not ph(v)], [v for _, v in now if not ph(v)]
            if len(a_) != len(b_) or any(v1 is not v2 for v1, v2 in zip(a_, b_)):
              changed.append(x)
          elif raw_diff:
            changed.append(x)
      expected = {}
      for c in changed:
        for i, (x, ri, keys) in after.items():
          if (x is c or is_ancestor(x, c)) and observer_kind(x):
            expected[i] = x
      if tag == REBINDX and not op[4] and info.get('target') is not None:
        t = info['target']
        expected = {i: x for i, x in expected.items() if x is t or is_ancestor(t, x)}
      got = {id(x): x for x in recv}
      for i, x in expected.items():
        if i not in got:
          self.hit('C09/not-notified/%s/%s' % (name, ['dict', 'list', 'object', 'object', 'object'][min(D.kind_of(x), 4)]),
                   '%s changed something at or below the %s at %r, which observes changes, and it received no event' % (name, type(x).__name__, str(x.sym_path)), n)
      # open finding: a write that stores what is already there (MISSING_VALUE to an object field that holds its default; Insertion(MISSING_VALUE),
      # which is dropped again) is reported as an update whose old value is its new value
      def unwrap(v):
        return unwrap(v[1]) if v[0] == 2 else v
      resets = any(unwrap(v) == [0, [0, [4]]] for v in (D.op_values(op) if tag != REBINDX else [v for _, v in op[2]]))
      same = lambda u: u.old_value is u.new_value or ((not D.is_sym(u.old_value)) and (not D.is_sym(u.new_value)) and
                                                       P.MISSING_VALUE == u.old_value and P.MISSING_VALUE == u.new_value)
      raws = {id(me): raw for me, _, _, raw in log}
      for i, x in got.items():
        if i in expected or i not in after:
          continue
        raw = raws.get(i)
        multi = tag in (D.REBIND, REBINDX) and len(op[2]) > 1
        if multi and raw and not all(same(u) for u in raw.values()):
          # the writes of a batch may cancel out (delete an item and insert the same object next to it): every update is true when it is
          # made, the receivers are told, and the before/after comparison sees no difference -- not a spurious event
          self.stats['batches_with_no_net_change'] = self.stats.get('batches_with_no_net_change', 0) + 1
        elif (raw and all(same(u) for u in raw.values())) or (not raw and resets):
          self.hit('C09/spurious/noop-update/old-is-new',
                   '%s stored what was already there and delivered a change event whose old value is its new value' % name, n)
        else:
          self.hit('C09/spurious/%s/-' % name, '%s delivered an event to the node at %r although nothing at or below it changed' % (name, str(x.sym_path)), n)
      # --- payloads
      for me, _, _, raw in log:
        if raw is None:
          continue
        seen_containers = set()
        for rel, u in raw.items():
          c = u.target
          seen_containers.add(id(c))
          if id(c) in pos_of and id(me) in pos_of:
            d = len(pos_of[id(c)][1]) - len(pos_of[id(me)][1])
            detached_now = bool(before['pos'].get(id(me), (0, []))[1]) and not pos_of[id(me)][1]
            if detached_now and tag in (D.REBIND, REBINDX) and (not (c is me or is_ancestor(me, c)) or d != len(rel.keys) - 1):
              # open finding: a batch that writes below a node and then replaces that node (paths that overlap through a negative list index)
              self.hit('C09/payload/overlapping-batch/non-canonical-index',
                       'a rebind batch wrote below the node that was at %r and then replaced it: the detached node receives the change with the path %r (relative to the old root, not to itself)' % (
                           str(u.path.parent if u.path.keys else u.path), str(rel)), n)
            elif not (c is me or is_ancestor(me, c)) or d != len(rel.keys) - 1:
              self.hit('C09/payload-path/%s/-' % name, 'the receiver at %r got the relative path %r for a change in the container at %r' % (str(me.sym_path), str(rel), str(c.sym_path)), n)
          k = rel.keys[-1] if rel.keys else None
          b = before['kids'].get(id(c))
          if b is None:
            continue
          bk, ak = b[1], kids_of(c)
          if isinstance(c, list):
            is_del = (not D.is_sym(u.new_value)) and P.MISSING_VALUE == u.new_value
            is_new = (not D.is_sym(u.old_value)) and P.MISSING_VALUE == u.old_value
            # (a list rebind applies its paths in descending order and resolves a negative index after the insertions of the same batch: the old
            #  value of a batched list update may be a value the batch itself put there, so it is only checked for single writes)
            batch = tag in (D.REBIND, REBINDX)
            if not is_new and not batch and not (isinstance(k, int) and 0 <= k < len(bk) and bk[k][1] is u.old_value):
              self.hit('C09/payload-old/%s/list' % name, 'old value reported for %r is not what the list held there before the call' % str(rel), n)
            if not is_del and not any(v is u.new_value for _, v in ak) and tag not in (D.REBIND, REBINDX):
              self.hit('C09/payload-new/%s/list' % name, 'new value reported for %r is not in the list after the call' % str(rel), n)
            if tag in (D.LSORT, D.LREVERSE) and len(ak) == len(bk) and not (0 <= k < len(ak) and ak[k][1] is u.new_value):
              self.hit('C09/payload-new/%s/list' % name, 'new value reported for %r is not what the list holds there after the call' % str(rel), n)
          else:
            bo = [v for kk, v in bk if kk == k]; an = [v for kk, v in ak if kk == k]
            old_ok = (bo and bo[0] is u.old_value) or (not bo and (not D.is_sym(u.old_value)) and P.MISSING_VALUE == u.old_value)
            new_ok = (an and an[0] is u.new_value) or (not an and (not D.is_sym(u.new_value)) and P.MISSING_VALUE == u.new_value)
            if not old_ok:
              self.hit('C09/payload-old/%s/dict' % name, 'old value reported for %r is not what was stored there before the call' % str(rel), n)
            if not new_ok:
              self.hit('C09/payload-new/%s/dict' % name, 'new value reported for %r is not what is stored there after the call' % str(rel), n)
        for c in changed:
          if (c is me or is_ancestor(me, c)) and id(c) not in seen_containers:
            self.hit('C09/payload-incomplete/%s/-' % name, 'the receiver at %r was not told about the change in the container at %r' % (str(me.sym_path), str(c.sym_path)), n)
          elif (c is me or is_ancestor(me, c)) and not isinstance(c, list):
            bk = dict((repr(k), v) for k, v in before['kids'][id(c)][1]); ak = dict((repr(k), v) for k, v in kids_of(c))
            want = {k for k in set(bk) | set(ak) if bk.get(k, P.MISSING_VALUE) is not ak.get(k, P.MISSING_VALUE)}
            have = {repr(rel.keys[-1]) for rel, u in raw.items() if u.target is c}
            noop = {repr(rel.keys[-1]) for rel, u in raw.items() if u.target is c and same(u)}
            if want != have and want == have - noop:
              self.hit('C09/spurious/noop-update/old-is-new',
                       '%s stored what was already there and reports it in the payload as an update whose old value is its new value' % name, n)
            elif want != have:
              self.hit('C09/payload-incomplete/%s/keys' % name, 'the receiver at %r was told about keys %s of the container at %r; the keys that changed are %s' % (
                  str(me.sym_path), sorted(have), str(c.sym_path), sorted(want)), n)
    # --- every reported location names the changed value: followed from the receiver, the relative path of an update leads to its new value
    # (single writes; a batch may move what it wrote, a list deletion leaves its slot to the next element; a list that still held
    #  MISSING_VALUE placeholders before the call drops them while it is notified, which shifts positions -- counted, not judged)
    if enabled and not skip and ok and tag != QUERY and not (tag in (D.REBIND, REBINDX) and len(op[2]) > 1):
      ph_ = lambda v: (not D.is_sym(v)) and P.MISSING_VALUE == v
      had_placeholders = any(isinstance(x, list) and any(ph_(v) for _, v in kids) for x, kids in before['kids'].values())
      if had_placeholders and log:
        self.stats['location_clause_skipped_for_placeholders'] = self.stats.get('location_clause_skipped_for_placeholders', 0) + 1
      for me, _, _, raw in ([] if had_placeholders else log):
        if raw is None or id(me) not in pos_of:
          continue
        for rel, u in raw.items():
          if isinstance(u.target, list) and ph_(u.new_value):
            continue
          x, absent = me, False
          for k in rel.keys:
            if isinstance(x, list):
              if isinstance(k, int) and 0 <= k < len(x):
                x = list.__getitem__(x, k)
              else:
                absent = True; break
            elif D.is_sym(x) and x.sym_hasattr(k):
              x = x.sym_getattr(k)
            else:
              absent = True; break
          self.stats['locations_followed'] = self.stats.get('locations_followed', 0) + 1
          good = ph_(u.new_value) if absent else (x is u.new_value or (ph_(x) and ph_(u.new_value)))
          if not good:
            self.hit('C09/payload-location/%s/-' % name, 'the receiver at %r was told that %r changed; followed from the receiver, that location %s, not the new value of the update' % (
                str(me.sym_path), str(rel), 'does not exist' if absent else 'holds another value'), n)
    # --- after ANY step: every node reports its true parent and the path of where it is stored (the walk of C01)
    if not isinstance(info.get('exception'), D.Hang):
      for clause, detail in C01.check_forest(impl)[:1]:
        self.hit('C09/path-integrity/%s/%s' % (clause, name), 'after %s: %s' % (name, detail), n)
    # --- freshness: after ANY step (also refused / failed / silent ones)
    if isinstance(info.get('exception'), D.Hang):
      return
    nodes = live_nodes(impl)
    for x, f, a, b in stale_facts(nodes, self.stats)[:1]:
      disc = 'failed' if not ok else 'skip' if skip else 'notify-off' if not enabled else '-'
      self.hit('C09/stale/%s/%s/%s' % (f, name, disc),
               'after %s the %s at %r reports %s = %s; a copy rebuilt from its contents gives %s' % (name, type(x).__name__, str(x.sym_path), f, str(a)[:200], str(b)[:200]), n)

# ---- hand-written cases and the systematic sweep ------------------------------------------------------------------------------------
ek = D.enc_key
def lit(v, cb=0, sealed=0, aw=1, partial=0):
  """Python value -> literal with callback flag: dict -> pg.Dict, list -> pg.List, ('obj', cls, {..}) -> object; ('cb', v) marks a subscriber."""
  if isinstance(v, tuple) and v and v[0] == 'cb':
    return lit(v[1], cb=1)
  if isinstance(v, dict):
    return [1, 0, [sealed, aw, partial, cb], 0, [[ek(k), lit(x)] for k, x in v.items()]]
  if isinstance(v, list):
    return [1, 1, [sealed, aw, partial, cb], 0, [[[1, i], lit(x)] for i, x in enumerate(v)]]
  if isinstance(v, tuple) and v and v[0] == 'obj':
    c = v[1]
    return [1, 2 + c, [sealed, D.CLASS_AW[c], partial, 0], 0, [[ek(k), lit(v[2].get(k))] for k in D.CLASS_FIELDS[c]]]
  if isinstance(v, tuple) and v and v[0] == 'opq':
    return [0, [5, v[1], v[2]]]
  if v == 'MISSING':
    return [0, [4]]
  return [0, D._lf(v)]
def val(v): return [0, lit(v)]
def pos(r, *keys): return [r, [ek(k) for k in keys]]
NS = [[], [], [], []]
OFF = [[], [], [0], []]
def case9(init, *steps):
  return [[], [lit(x) for x in init], [list(s) + ([1] if len(s) == 2 else []) for s in steps]]
NOP = lambda r=0: [D.SETAW, pos(r), 1]

CORPUS9 = {
  # witnesses of the repaired findings
  'update-stale': case9([{'a': 1, 'b': {'c': 2}}], (NS, NOP()), (NS, [D.DUPDATE, pos(0, 'b'), [[ek('c'), val(5)]]])),
  'notify-off-stale': case9([{'a': 1}], (NS, NOP()), (OFF, [D.DSET, pos(0), 0, ek('a'), val(2)])),
  'skip-stale': case9([{'a': 1, 'l': [1]}], (NS, NOP()), (NS, [REBINDX, pos(0), [[[ek('l'), [1, 0]], val(('opq', 1, 2))]], [1], 1])),
  'failed-batch-stale': case9([{'a': 1, 'b': {}}], (NS, NOP()), (NS, [D.REBIND, pos(0), [[[ek('a')], val(2)], [[ek('b'), ek('c'), ek('d')], val(3)]]])),
  'clear-silent': case9([('cb', {'l': ('cb', [1, {'a': 1}, 3]), 'd': ('cb', {'a': 1, 'b': [1]})})], (NS, NOP()), (NS, [D.LCLEAR, pos(0, 'l')]), (NS, [D.DCLEAR, pos(0, 'd')])),
  'reorder-silent': case9([('cb', {'l': ('cb', [3, {'a': 1}, 1, 3])})], (NS, NOP()), (NS, [D.LREVERSE, pos(0, 'l')]), (NS, [D.LSORT, pos(0, 'l'), [2, 0, 1, 0], 0]),
                          (NS, [D.LSORT, pos(0, 'l'), [0, 0, 0, 0], 0])),
  'popitem-silent': case9([('obj', 0, {'x': ('cb', {'a': 1, 'b': {'c': 1}})})], (NS, NOP()), (NS, [D.DPOPITEM, pos(0, 'x')]), (NS, [D.DPOPITEM, pos(0, 'x')])),
  'imul-batches': case9([('cb', [1, {'a': 1}])], (NS, [D.LIMUL, pos(0), 3]), (NS, [D.LIMUL, pos(0), 0])),
  'insertion-shifts-subscriber': case9([('cb', [0, 1, ('cb', {'x': 1})])], (NS, [D.REBIND, pos(0), [[[[1, 2], ek('x')], val(5)], [[[1, 0]], [2, val(9)]]]])),
  # the open finding
  'reset-to-default-unchanged': case9([('obj', 0, {'x': None, 'y': 1})], (NS, [D.OSET, pos(0), ek('x'), val('MISSING')]),
                                      (NS, [D.REBIND, pos(0), [[[ek('x')], val('MISSING')], [[ek('y')], val(2)]]])),
  'insert-missing-noop': case9([('cb', [1, 2])], (NS, [D.REBIND, pos(0), [[[[1, -1]], [2, val('MISSING')]]]])),
  'overlapping-batch': case9([('cb', {'z': [('cb', {'a': 1})], 'x': 1})],
                             (NS, [D.REBIND, pos(0), [[[ek('z'), [1, 0], ek('a')], val(-1)], [[ek('z'), [1, -1]], val(5)]]])),
  'overlapping-append-delete': case9([('cb', {'a': [0, 1]})], (NS, [D.REBIND, pos(0, 'a'), [[[[1, 2]], val('MISSING')], [[[1, 4]], val(None)]]])),
  # a batch replaces z[-1] by a new list and then writes into z[0] (the same slot): the update of the first write holds the new list by reference,
  # its receivers read what it holds at delivery
  'overlapping-write-into-new-value': case9([('cb', {'z': [[1]], 'x': 1})],
                                            (NS, [D.REBIND, pos(0), [[[ek('z'), [1, -1]], val([])], [[ek('z'), [1, 0], [1, 0]], val({'q': 1})]]])),
  # deleting an item and inserting the same object next to it: two true updates, no net change
  'cancelling-batch': case9([('cb', [0, ('opq', 1, 2), 3])], (NS, [D.REBIND, pos(0), [[[[1, 1]], val('MISSING')], [[[1, 2]], [2, val(('opq', 1, 2))]]]])),
  # notify_parents=False stops at the rebind target; skip_notification=False overrides a disabled scope
  'notify-parents-false': case9([('cb', [('cb', [('cb', [('cb', [0])])])])], (NS, NOP()), (NS, [REBINDX, pos(0, 0), [[[[1, 0], [1, 0], [1, 0]], val(2)]], [], 0]),
                                (NS, [REBINDX, pos(0, 0), [[[[1, 0]], val(1)]], [], 0])),
  'skip-false-in-disabled-scope': case9([('cb', {'a': 1})], (OFF, [REBINDX, pos(0), [[[ek('a')], val(2)]], [0], 1]), (OFF, [REBINDX, pos(0), [[[ek('a')], val(3)]], [], 1])),
  # purge of MISSING_VALUE inside notification, with notify_parents=False below a list that holds MISSING_VALUE
  'purge-below-stop': case9([[1, {'k': [1, 2]}]], (OFF, [D.LSET, pos(0), 0, val('MISSING')]), (NS, NOP()), (NS, [REBINDX, pos(0, 1), [[[ek('k'), [1, 0]], val(7)]], [], 0]),
                            (NS, [D.LSET, pos(0, 1, 'k'), 0, val(8)])),
  # the notified list drops a MISSING_VALUE placeholder while its parent is not notified (notify_parents=False): the parent's facts change too
  'purge-at-stop': case9([{'a': [1, {'k': 1}], 'b': 2}], (OFF, [D.LSET, pos(0, 'a'), 0, val('MISSING')]), (NS, NOP()),
                         (NS, [REBINDX, pos(0, 'a'), [[[[1, 1], ek('k')], val(2)]], [], 0]), (NS, NOP())),
  # placeholders: pure / non-deterministic leaves appear and disappear at depth
  'placeholders': case9([{'a': {'b': [1, ('opq', 1, 2)]}, 'c': ('obj', 1, {'x': ('opq', 2, 1)})}], (NS, NOP()), (NS, [D.LPOP, pos(0, 'a', 'b'), []]),
                        (OFF, [D.OSET, pos(0, 'c'), ek('x'), val(1)]), (NS, [D.DUPDATE, pos(0, 'a'), [[ek('z'), val(('opq', 3, 1))]]])),
  # children first beyond one-digit indices (C09_children_first covers every int key): subscribers at z[2], z[9], z[10], z[11] -- two ints compare as ints
  # ([10] after [9] in ascending order), so the delivery order is z[11], z[10], z[9], z[2], z, root
  'long-list-order': case9([('cb', {'z': ('cb', [('cb', {'a': i}) for i in range(12)])})],
                           (NS, [D.REBIND, pos(0), [[[ek('z'), [1, 2], ek('a')], val(-1)], [[ek('z'), [1, 10], ek('a')], val(-2)],
                                                     [[ek('z'), [1, 9], ek('a')], val(-3)], [[ek('z'), [1, 11], ek('a')], val(-4)]]]),
                           (NS, [D.REBIND, pos(0, 'z'), [[[[1, 10], ek('a')], val(5)], [[[1, 9], ek('a')], val(6)], [[[1, -12], ek('a')], val(7)]]])),
  'long-list-delete-order': case9([('cb', [('cb', [i]) for i in range(11)])],
                                  (NS, [D.REBIND, pos(0), [[[[1, 10], [1, 0]], val(1)], [[[1, 1], [1, 0]], val(2)], [[[1, 3]], val('MISSING')]]])),
  'query-short-circuit': case9([{'a': ('opq', 1, 2), 'b': {'c': 1}, 'd': [{'e': ('opq', 2, 1)}]}], (NS, [QUERY, pos(0), 0], 0), (NS, [QUERY, pos(0, 'd'), 0], 0),
                               (NS, [QUERY, pos(0), 1], 0), (NS, [QUERY, pos(0), 2], 0), (NS, [D.DSET, pos(0, 'b'), 0, ek('c'), val(2)], 0), (NS, [QUERY, pos(0, 'b'), 2], 0)),
}

def sweep_cases(variants):
  """every mutator x depth of the target (0..2 containers above it) x who subscribes (nobody / target / ancestors / both) x notification on / off.
  Each case first observes everything (all memoised facts are held), then mutates, then observes again."""
  out = []
  targets = {
      'list': lambda: [1, {'a': 1}, 2, ('opq', 7, 2)],
      'dict': lambda: {'a': 1, 'b': {'c': 1}, 'c': 2, 'p': ('opq', 7, 1)},
      'obj': lambda c: ('obj', c, {'x': 1, 'y': {'c': 1}}),
  }
  def ops_for(kind, P, Pk):
    """(name, op) for a target of the given kind at position P (Pk: P as plain keys)."""
    if kind == 'list':
      return [('setitem', [D.LSET, P, 0, val(9)]), ('setitem-node', [D.LSET, P, 1, val({'n': 1})]), ('delitem', [D.LDEL, P, 0]), ('append', [D.LAPPEND, P, val({'n': 1})]),
              ('insert', [D.LINSERT, P, 0, val(9)]), ('extend', [D.LEXTEND, P, [val(8), val({'n': 1})]]), ('pop', [D.LPOP, P, []]), ('pop0', [D.LPOP, P, [0]]),
              ('remove', [D.LREMOVE, P, [2, 2]]), ('clear', [D.LCLEAR, P]), ('reverse', [D.LREVERSE, P]), ('sort', [D.LSORT, P, [3, 2, 1, 0], 0]),
              ('iadd', [D.LIADD, P, [val(8)]]), ('imul', [D.LIMUL, P, 2]), ('imul0', [D.LIMUL, P, 0]),
              ('rebind', [D.REBIND, P, [[[[1, 0]], val(9)], [[[1, 1], ek('a')], val(5)]]]), ('rebind-ins-del', [D.REBIND, P, [[[[1, 0]], [2, val(9)]], [[[1, 2]], val('MISSING')]]]),
              ('rebind-skip', [REBINDX, P, [[[[1, 0]], val(9)]], [1], 1]), ('rebind-noparents', [REBINDX, P, [[[[1, 1], ek('a')], val(5)]], [], 0])]
    if kind == 'dict':
      return [('setitem', [D.DSET, P, 0, ek('a'), val(9)]), ('setattr-node', [D.DSET, P, 1, ek('n'), val({'q': 1})]), ('delitem', [D.DDEL, P, 0, ek('a')]),
              ('pop', [D.DPOP, P, ek('b'), []]), ('popitem', [D.DPOPITEM, P]), ('clear', [D.DCLEAR, P]), ('setdefault', [D.DSETDEFAULT, P, ek('z'), val(3)]),
              ('update', [D.DUPDATE, P, [[ek('a'), val(9)], [ek('n'), val({'q': 1})]]]), ('ior', [D.DIOR, P, [[ek('p'), val(0)]]]),
              ('rebind', [D.REBIND, P, [[[ek('a')], val(9)], [[ek('b'), ek('c')], val(5)]]]), ('rebind-del', [D.REBIND, P, [[[ek('p')], val('MISSING')]]]),
              ('rebind-skip', [REBINDX, P, [[[ek('a')], val(9)]], [1], 1]), ('rebind-noparents', [REBINDX, P, [[[ek('b'), ek('c')], val(5)]], [], 0])]
    return [('setattr', [D.OSET, P, ek('x'), val(9)]), ('setattr-node', [D.OSET, P, ek('x'), val({'q': 1})]), ('reset', [D.OSET, P, ek('x'), val('MISSING')]),
            ('rebind', [D.REBIND, P, [[[ek('x')], val(9)], [[ek('y'), ek('c')], val(5)]]]), ('rebind-skip', [REBINDX, P, [[[ek('x')], val(9)]], [1], 1]),
            ('rebind-noparents', [REBINDX, P, [[[ek('y'), ek('c')], val(5)]], [], 0])]
  n = 0
  nq = 0
  for kind in ('list', 'dict', 'obj'):
    for depth in (0, 1, 2):
      for sub in ('none', 'target', 'ancestors', 'both'):
        for variant in range(variants):
          # the chain above the target: kinds rotate with the variant
          above = [['dict', 'list', 'obj'][(variant + i) % 3] for i in range(depth)]
          tcb = sub in ('target', 'both'); acb = sub in ('ancestors', 'both')
          if kind == 'obj':
            t = targets['obj'](0 if tcb else 2) if variant % 2 == 0 else targets['obj'](1 if tcb else 2)
          else:
            t = ('cb', targets[kind]()) if tcb else targets[kind]()
          keys = []
          tree = t
          for a in reversed(above):
            if a == 'dict':
              tree = {'k': tree, 'o': 5}; keys.insert(0, 'k')
            elif a == 'list':
              tree = [6, tree]; keys.insert(0, 1)
            else:
              tree = ('obj', (0 if variant % 2 == 0 else 1) if acb else 2, {'x': tree, 'y': 4}); keys.insert(0, 'x')
            if acb and a != 'obj':
              tree = ('cb', tree)
          P = pos(0, *keys)
          for name, op in ops_for(kind, P, keys):
            for scope, sname in ((NS, 'on'), (OFF, 'off')):
              c = case9([tree], (NS, NOP()), (scope, op), (NS, NOP()))
              out.append(('sweep:%s.%s/depth%d/%s/notify-%s' % (kind, name, depth, sub, sname), c))
              # silent mutations again with only SOME memoised facts held beforehand (one node, one fact): a reset that relies on what the
              # nodes in between hold shows here; the pattern rotates over the cases
              silent = scope is OFF or name in ('update', 'ior', 'rebind-skip', 'rebind-noparents')
              if silent and depth > 0:
                nq += 1
                who = [[], keys[:1], keys][nq % 3] if depth > 1 else [[], keys][nq % 2]
                facts = [[2], [0], [1], [0, 1, 2]][(nq // 3) % 4]
                primes = [(NS, [QUERY, pos(0, *who), f], 0) for f in facts]
                c = case9([tree], *(primes + [tuple(list((scope, op)) + [0]), (NS, NOP())]))
                out.append(('sweep:%s.%s/depth%d/%s/notify-%s/primed-%d-%s' % (kind, name, depth, sub, sname, len(who), ''.join(map(str, facts))), c))
              # the same mutation issued as a rebind from the root of the tree (deep path)
              if depth > 0 and op[0] in (D.REBIND, REBINDX) and scope is NS:
                deep = list(op); deep[1] = pos(0); deep[2] = [[[ek(k) for k in keys] + p, v] for p, v in op[2]]
                out.append(('sweep:%s.%s-from-root/depth%d/%s/notify-on' % (kind, name, depth, sub), case9([tree], (NS, NOP()), (NS, deep), (NS, NOP()))))
          n += 1
  return out

# ---- typed trees: required / default fields, MISSING_VALUE, pg.oneof placeholders (direct oracles only; no model) ----------------------
_TYPED = None
TLOG = []
def typed_classes():
  global _TYPED
  if _TYPED is None:
    P = D.pg(); T = P.typing
    def log_change(self, field_updates):
      if RECORDING[0]:
        TLOG.append((self, dict(field_updates)))
    @P.members([('x', T.Int()), ('y', T.Int(default=1)), ('z', T.Any(default=None))])
    class Leaf(P.Object):
      allow_symbolic_assignment = True
    class LeafS(Leaf):
      def _on_change(self, field_updates):
        log_change(self, field_updates)
        return super()._on_change(field_updates)
    @P.members([('leaf', T.Object(Leaf)), ('items', T.List(T.Object(Leaf), default=[])),
                ('opts', T.Dict([('k', T.Int(default=0)), ('r', T.Int()), ('s', T.Str(default='a'))])), ('free', T.Any(default=None))])
    class Mid(P.Object):
      allow_symbolic_assignment = True
    class MidS(Mid):
      def _on_change(self, field_updates):
        log_change(self, field_updates)
        return super()._on_change(field_updates)
    @P.members([('c', T.Int(default=1)), ('w', T.Any(default=None))])
    class DLeaf(P.Object):
      allow_symbolic_assignment = True
    @P.members([('dleaf', T.Object(DLeaf, default=DLeaf())), ('m', T.Int(default=0)),
                ('dopts', T.Dict([('k', T.Int(default=0)), ('sub', T.Dict([('q', T.Int(default=1)), ('dl', T.Object(DLeaf, default=DLeaf()))]))]))])
    class DMid(P.Object):
      allow_symbolic_assignment = True
    @P.members([('mid', T.Object(Mid)), ('mids', T.List(T.Object(Mid), default=[])), ('n', T.Int(default=0)), ('any', T.Any(default=None)),
                ('dmid', T.Object(DMid, default=DMid()))])
    class Top(P.Object):
      allow_symbolic_assignment = True
    class TopS(Top):
      def _on_change(self, field_updates):
        log_change(self, field_updates)
        return super()._on_change(field_updates)
    _TYPED = dict(Leaf=Leaf, LeafS=LeafS, Mid=Mid, MidS=MidS, Top=Top, TopS=TopS, DLeaf=DLeaf, DMid=DMid)
  return _TYPED

def t_nodes(root):
  out = []
  def rec(x, seen):
    if id(x) in seen: return
    seen.add(id(x)); out.append(x)
    for _, v in x.sym_items():
      if D.is_sym(v): rec(v, seen)
  rec(root, set())
  return out

def t_enc(v):
  """Canonical text of a value for comparing derived facts (symbolic values by their JSON)."""
  P = D.pg()
  if D.is_sym(v):
    try:
      return repr(P.to_json(v))
    except Exception:      # pylint: disable=broad-except
      return 'sym:' + type(v).__name__
  return repr(v)

def t_facts(x):
  return dict(is_partial=bool(x.is_partial), missing={str(k): t_enc(v) for k, v in x.sym_missing().items()},
              nondefault={str(k): t_enc(v) for k, v in x.sym_nondefault().items()}, puresymbolic=bool(x.sym_puresymbolic),
              deterministic=bool(x.is_deterministic), abstract=bool(x.is_abstract))

def t_expected(root):
  """path -> facts of the tree rebuilt from JSON (nothing memoised)."""
  P = D.pg()
  rec = RECORDING[0]; RECORDING[0] = False
  try:
    root2 = P.from_json(P.to_json(root), allow_partial=True)
    out = {}
    for x in t_nodes(root):
      try:
        y = root2.sym_get(x.sym_path) if x.sym_path.keys else root2
      except Exception:     # pylint: disable=broad-except
        continue
      if type(y) is type(x):
        out[str(x.sym_path)] = t_facts(y)
    return out
  finally:
    RECORDING[0] = rec
def t_stale_against(root, expected):
  out = []
  rec = RECORDING[0]; RECORDING[0] = False
  try:
    for x in t_nodes(root):
      b = expected.get(str(x.sym_path))
      if b is None:
        continue
      a = t_facts(x)
      for f in a:
        if a[f] != b[f]:
          out.append((x, f, a[f], b[f]))
  finally:
    RECORDING[0] = rec
  return out

def t_stale(root):
  P = D.pg()
  out = []
  rec = RECORDING[0]; RECORDING[0] = False
  try:
    # the whole tree is rebuilt from its JSON (so that every node keeps the value spec of its field), then the same path is looked up
    try:
      root2 = P.from_json(P.to_json(root), allow_partial=True)
    except Exception:       # pylint: disable=broad-except
      return out
    for x in t_nodes(root):
      try:
        y = root2.sym_get(x.sym_path) if x.sym_path.keys else root2
      except Exception:     # pylint: disable=broad-except
        continue
      if type(y) is not type(x):
        continue
      a, b = t_facts(x), t_facts(y)
      for f in a:
        if a[f] != b[f]:
          out.append((x, f, a[f], b[f]))
  finally:
    RECORDING[0] = rec
  return out

FACT_KINDS = ['is_partial', 'missing', 'nondefault', 'puresymbolic', 'deterministic']
def ask(x, kind):
  """Asks one node for one derived fact (which memoises it)."""
  try:
    if kind == 'is_partial': x.is_partial               # pylint: disable=pointless-statement
    elif kind == 'missing': x.sym_missing()
    elif kind == 'nondefault': x.sym_nondefault()
    elif kind == 'puresymbolic': x.sym_puresymbolic     # pylint: disable=pointless-statement
    else: x.is_deterministic                            # pylint: disable=pointless-statement
  except Exception:        # pylint: disable=broad-except
    pass
def prime(r, root, who, kind, chain=None):
  """who: 'none' | 'all' | 'root' | 'one' (one node of the chain / tree) | 'random' (a random subset) | an explicit list of nodes;
  kind: one fact kind, or None = every kind."""
  nodes = t_nodes(root)
  if isinstance(who, list): sel = who
  elif who == 'none': sel = []
  elif who == 'all': sel = nodes
  elif who == 'root': sel = [root]
  elif who == 'one': sel = [r.choice(chain or nodes)]
  else: sel = [x for x in nodes if r.random() < 0.4]
  for x in sel:
    for k in ([kind] if kind else FACT_KINDS):
      ask(x, k)

def typed_tree(r, subs):
  """A Top tree; subs = set of class names that subscribe."""
  C = typed_classes(); P = D.pg()
  L = C['LeafS'] if 'Leaf' in subs else C['Leaf']; M = C['MidS'] if 'Mid' in subs else C['Mid']; T = C['TopS'] if 'Top' in subs else C['Top']
  def leaf():
    k = r.random()
    if k < 0.25: return L.partial()
    if k < 0.4: return L(x=P.oneof([1, 2]))
    return L(x=r.randrange(3), **({'y': r.randrange(3)} if r.random() < 0.4 else {}))
  def mid():
    kw = dict(leaf=leaf(), items=[leaf() for _ in range(r.randrange(3))])
    if r.random() < 0.6: kw['opts'] = dict(r=r.randrange(3), **({'k': 5} if r.random() < 0.3 else {}))
    if r.random() < 0.5: kw['free'] = P.Dict(a=1, b=P.Dict(c=r.randrange(2)), l=P.List([1, P.Dict(q=2)]))
    return M.partial(**kw)
  return T.partial(mid=mid(), mids=[mid() for _ in range(r.randrange(3))], **({'n': 3} if r.random() < 0.3 else {})), (L, M, T)

def typed_ops(r, root, classes):
  """(description, thunk) candidates on the current tree."""
  P = D.pg(); L, M, T = classes
  ops = []
  mids = [('mid', root.sym_getattr('mid'))] + [('mids[%d]' % i, m) for i, m in enumerate(root.sym_getattr('mids'))]
  mids = [(p, m) for p, m in mids if D.is_sym(m)]
  int_vals = [0, 1, 2, 7, P.MISSING_VALUE, 'oneof']
  def iv():
    v = r.choice(int_vals)
    return P.oneof([1, 2, 3]) if isinstance(v, str) else v
  def new_leaf():
    return r.choice([lambda: L.partial(), lambda: L(x=4), lambda: L(x=P.oneof([5, 6])), lambda: L(x=1, y=1, z=P.Dict(w=1))])()
  ops.append(('rebind n', lambda: root.rebind(n=iv())))
  ops.append(('set n', lambda: setattr(root, 'n', iv())))
  ops.append(('rebind any', lambda: root.rebind(any=r.choice([None, 1, P.List([1, P.oneof([1, 2])]), P.Dict(a=P.MISSING_VALUE)]))))
  for p, m in mids:
    ops.append(('rebind %s.leaf.x' % p, lambda p=p: root.rebind({p + '.leaf.x': iv()})))
    ops.append(('rebind %s.leaf.y' % p, lambda p=p: root.rebind({p + '.leaf.y': iv()})))
    ops.append(('rebind %s.leaf' % p, lambda p=p: root.rebind({p + '.leaf': r.choice([new_leaf(), P.MISSING_VALUE])})))
    ops.append(('rebind batch %s' % p, lambda p=p: root.rebind({p + '.leaf.x': iv(), p + '.opts.r': iv(), 'n': iv()})))
    ops.append(('rebind skip %s.opts.r' % p, lambda p=p: root.rebind({p + '.opts.r': iv()}, skip_notification=True)))
    ops.append(('rebind noparents %s' % p, lambda m=m: m.rebind({'leaf.y': iv()}, notify_parents=False)))
    ops.append(('rebind failing %s' % p, lambda p=p: root.rebind({p + '.leaf.y': iv(), p + '.nope.q': 1})))
    ops.append(('setattr %s.leaf.x' % p, lambda m=m: setattr(m.sym_getattr('leaf'), 'x', iv()) if D.is_sym(m.sym_getattr('leaf')) else None))
    ops.append(('opts.k= %s' % p, lambda m=m: setattr(m.sym_getattr('opts'), 'k', iv())))
    ops.append(('opts.update %s' % p, lambda m=m: m.sym_getattr('opts').update({'r': iv(), 'k': iv()})))
    ops.append(('opts.pop %s' % p, lambda m=m: m.sym_getattr('opts').pop(r.choice(['k', 'r', 's']))))
    ops.append(('opts.setdefault %s' % p, lambda m=m: m.sym_getattr('opts').setdefault('r', iv())))
    ops.append(('opts.clear %s' % p, lambda m=m: m.sym_getattr('opts').clear()))
    items = m.sym_getattr('items')
    if D.is_sym(items):
      ops.append(('items.append %s' % p, lambda items=items: items.append(new_leaf())))
      ops.append(('items.insert %s' % p, lambda items=items: items.insert(0, new_leaf())))
      ops.append(('items.extend %s' % p, lambda items=items: items.extend([new_leaf(), new_leaf()])))
      ops.append(('items+= %s' % p, lambda items=items: items.__iadd__([new_leaf()])))
      ops.append(('items*= %s' % p, lambda items=items: items.__imul__(r.choice([0, 2]))))
      ops.append(('items.pop %s' % p, lambda items=items: items.pop()))
      ops.append(('del items[0] %s' % p, lambda items=items: items.__delitem__(0)))
      ops.append(('items[0]= %s' % p, lambda items=items: items.__setitem__(0, new_leaf())))
      ops.append(('items[-1].x= %s' % p, lambda items=items: setattr(items[-1], 'x', iv())))
      ops.append(('items.clear %s' % p, lambda items=items: items.clear()))
      ops.append(('items.reverse %s' % p, lambda items=items: items.reverse()))
      ops.append(('items.sort %s' % p, lambda items=items: items.sort(key=lambda v: -(v.sym_getattr('y') if isinstance(v.sym_getattr('y'), int) else 0))))
      ops.append(('items[1:]= %s' % p, lambda items=items: items.__setitem__(slice(1, None), [new_leaf()])))
      ops.append(('items[::2]= %s' % p, lambda items=items: items.__setitem__(slice(None, None, 2), [new_leaf() for _ in range((len(items) + 1) // 2)])))
      ops.append(('del items[:1] %s' % p, lambda items=items: items.__delitem__(slice(None, 1))))
      ops.append(('del items[::2] %s' % p, lambda items=items: items.__delitem__(slice(None, None, 2))))
    free = m.sym_getattr('free')
    ops.append(('free= %s' % p, lambda m=m: m.rebind(free=r.choice([None, P.Dict(a=1, b=P.Dict(c=1)), P.List([P.oneof([1, 2]), 3])]))))
    if isinstance(free, dict):
      ops.append(('free.update %s' % p, lambda free=free: free.update({'a': iv(), 'n': P.Dict(z=1)})))
      ops.append(('free|= %s' % p, lambda free=free: free.__ior__({'b': 5})))
      ops.append(('free.popitem %s' % p, lambda free=free: free.popitem()))
      ops.append(('free.clear %s' % p, lambda free=free: free.clear()))
      ops.append(('free.b.c= %s' % p, lambda free=free: free.rebind({'b.c': iv()}, raise_on_no_change=False)))
      ops.append(('del free.a %s' % p, lambda free=free: free.__delitem__('a')))
      ops.append(('free.setdefault %s' % p, lambda free=free: free.setdefault('sd', P.oneof([1, 2]))))
    if isinstance(free, list):
      ops.append(('free.reverse %s' % p, lambda free=free: free.reverse()))
      ops.append(('free.append %s' % p, lambda free=free: free.append(P.Dict(h=P.oneof([1, 2])))))
      ops.append(('free.clear %s' % p, lambda free=free: free.clear()))
  ops.append(('mids.append', lambda: root.sym_getattr('mids').append(M.partial(leaf=new_leaf()))))
  ops.append(('mids.pop', lambda: root.sym_getattr('mids').pop()))
  ops.append(('mids.reverse', lambda: root.sym_getattr('mids').reverse()))
  ops.append(('mids.clear', lambda: root.sym_getattr('mids').clear()))
  return ops

def priming_sweep(ctx, rng, deadline, stride=1, only=None):
  """typed trees of depth >= 3 (Object in Object in Object, Dict with a value spec, List in Dict in Object) x field depth x silent
  mutation path x which nodes hold which derived fact before the mutation; afterwards every node is compared with the rebuilt tree."""
  import random
  P = D.pg(); C = typed_classes()
  def tree():
    return C['Top'].partial(
        mid=C['Mid'].partial(leaf=C['Leaf'](x=1), items=[C['Leaf'](x=2), C['Leaf'].partial()], opts=dict(r=1),
                             free=P.Dict(a=1, b=P.Dict(c=1), l=P.List([1, P.Dict(q=2)]))),
        mids=[C['Mid'].partial(leaf=C['Leaf'].partial(), opts=dict(r=2, k=3))])
  # (path of the container from the root, key, new values)
  targets = [([], 'n', [5, P.MISSING_VALUE]), (['mid', 'leaf'], 'x', [7, P.MISSING_VALUE, 'oneof']), (['mid', 'leaf'], 'y', [1, 4]),
             (['mid', 'opts'], 'k', [0, 9]), (['mid', 'items', 0], 'x', [3, 'oneof']), (['mid', 'items', 1], 'x', [3]),
             (['mid', 'free', 'b'], 'c', [1, 2, 'oneof']), (['mid', 'free', 'l', 1], 'q', [5]), (['mids', 0, 'leaf'], 'x', [1]),
             (['dmid', 'dleaf'], 'c', [1, 6]), (['dmid', 'dopts', 'sub'], 'q', [1, 8]), (['dmid', 'dopts', 'sub', 'dl'], 'c', [2]),
             (['dmid', 'dleaf'], 'w', [None, 'dict'])]
  modes = ['skip', 'off', 'off-direct', 'noparents', 'update', 'on']
  n = skipped = 0
  combos = []
  for ti, (cpath, key, vals) in enumerate(targets):
    depth = len(cpath)
    whos = ['none', 'root', 'all'] + ['anc%d' % i for i in range(1, depth + 1)] + ['random']
    for vi, v in enumerate(vals):
      for mode in modes:
        for who in whos:
          for kind in [None] + FACT_KINDS:
            combos.append((ti, vi, mode, who, kind))
  # the combinations most likely to show a missing reset first (one node primed with one memoised fact, silent mutation), the rest
  # in the order of a seeded shuffle; the time budget cuts the tail, never the head
  order = list(range(len(combos)))
  rng.shuffle(order)
  def prio(ci):
    ti, vi, mode, who, kind = combos[ci]
    return 0 if (mode != 'on' and vi == 0 and who not in ('none', 'all', 'random') and kind in ('nondefault', 'missing', 'puresymbolic')) else 1
  order.sort(key=prio)
  if stride > 1:
    head = [ci for ci in order if prio(ci) == 0]
    tail = [ci for ci in order if prio(ci) == 1]
    order = head + tail[::stride]
  if only is not None:
    order = [only] if 0 <= only < len(combos) else []
  expected_cache = {}
  for ci in order:
    ti, vi, mode, who, kind = combos[ci]
    if time.time() > deadline:
      skipped += 1
      continue
    cpath, key, vals = targets[ti]
    r = random.Random(ci)
    RECORDING[0] = False
    try:
      with P.allow_partial(True):
        root = tree()
        chain = [root]
        for k in cpath:
          chain.append(chain[-1].sym_getattr(k))
        cont = chain[-1]
        v = vals[vi]
        v = P.oneof([1, 2, 3]) if v == 'oneof' else P.Dict(g=P.oneof([1, 2])) if v == 'dict' else v
        path = P.KeyPath(cpath + [key])
        prime(r, root, [chain[int(who[3:])]] if who.startswith('anc') else who, kind)
        exc = None
        try:
          if mode == 'skip': root.rebind({path: v}, skip_notification=True, raise_on_no_change=False)
          elif mode == 'off':
            with P.notify_on_change(False): root.rebind({path: v}, raise_on_no_change=False)
          elif mode == 'off-direct':
            with P.notify_on_change(False), P.allow_writable_accessors(True):
              if isinstance(cont, P.Object): setattr(cont, key, v)
              else: cont[key] = v
          elif mode == 'noparents': cont.rebind({key: v}, notify_parents=False, raise_on_no_change=False)
          elif mode == 'update':
            if isinstance(cont, dict): cont.update({key: v})
            else: cont.rebind({key: v}, skip_notification=True, raise_on_no_change=False)
          else: root.rebind({path: v}, raise_on_no_change=False)
        except Exception as e:      # pylint: disable=broad-except
          exc = e
      # what the rebuilt tree reports depends on the mutation only, not on what was asked before it
      ek_ = (ti, vi, mode)
      if ek_ not in expected_cache:
        expected_cache[ek_] = t_expected(root)
      st = t_stale_against(root, expected_cache[ek_])
    except Exception as e:        # pylint: disable=broad-except
      ctx.hit('C09/typed/harness/%s' % type(e).__name__, 'the priming sweep could not run a case: %s' % str(e)[:200], dict(priming=ci))
      continue
    n += 1
    ctx.hist('priming_sweep_modes', mode); ctx.hist('priming_sweep_primed', who if not who.startswith('anc') else 'one ancestor')
    ctx.hist('priming_sweep_fact', kind or 'all')
    if st:
      x, f, a, b = st[0]
      ctx.hit('C09/stale/%s/typed-sweep:%s/%s' % (f, mode, 'primed-' + (who if not who.startswith('anc') else 'ancestor')),
              'with %s asked for %s beforehand, after setting %s to %r (%s%s) the %s at %r reports %s = %s; a copy rebuilt from its contents gives %s' % (
                  who, kind or 'every fact', str(path), v, mode, ', raised ' + type(exc).__name__ if exc is not None else '', type(x).__name__, str(x.sym_path), f, str(a)[:160], str(b)[:160]),
              dict(priming=ci))
  ctx.extra['priming_sweep'] = dict(cases=n, combinations=len(combos), stride=stride, skipped_for_time_budget=skipped)
  return n

def typed_run(ctx, rng, ncases, nsteps):
  """Random histories on typed trees; returns number of steps run."""
  P = D.pg()
  steps = 0
  for ci in range(ncases):
    seed = rng.randrange(1 << 30)
    steps += typed_case(ctx, seed, nsteps)
  return steps

def typed_case(ctx, seed, nsteps, report=True):
  """One seeded history.  Returns the number of steps (report=False: returns the list of hits instead)."""
  import random
  P = D.pg()
  r = random.Random(seed)
  subs = set(c for c in ('Leaf', 'Mid', 'Top') if r.random() < 0.5)
  hits = []
  done = 0
  RECORDING[0] = False
  with P.allow_partial(True):
    root, classes = typed_tree(r, subs)
  pre = t_stale(root)
  if pre:
    hits.append(('C09/stale/%s/construction/-' % pre[0][1], 'a freshly constructed tree reports %s = %s; rebuilt: %s' % (pre[0][1], str(pre[0][2])[:150], str(pre[0][3])[:150])))
  for si in range(nsteps):
    ops = typed_ops(r, root, classes)
    name, thunk = r.choice(ops)
    mode = r.choice(['on', 'on', 'off'])
    # which derived facts are held before the mutation is part of the case: none / everything / the root only / one node / a random subset,
    # each fact kind on its own
    prime(r, root, r.choice(['all', 'all', 'none', 'root', 'one', 'random', 'random']), r.choice([None, None] + FACT_KINDS))
    del TLOG[:]
    RECORDING[0] = True
    exc = None
    try:
      with D.watchdog(D.WATCHDOG_S), P.allow_partial(True), P.notify_on_change(mode == 'on'):
        thunk()
    except Exception as e:     # pylint: disable=broad-except
      exc = e
    finally:
      RECORDING[0] = False
    done += 1
    kind = name.split(' ')[0] + (' ' + name.split(' ')[1] if name.startswith('rebind ') and name.split(' ')[1] in ('skip', 'noparents', 'failing', 'batch') else '')
    if ctx is not None:
      ctx.hist('typed_operations', kind)
      ctx.hist('typed_outcomes', 'ok' if exc is None else type(exc).__name__)
    recv = [x for x, _ in TLOG]
    skip = name.startswith('rebind skip') or '.update' in name or '|=' in name
    if (mode == 'off' or skip) and recv:
      hits.append(('C09/silent/typed:%s/%s' % (kind, 'skip' if skip else 'notify-off'), '%d event(s) delivered by %s although notification is %s' % (len(recv), name, 'skipped' if skip else 'disabled')))
    if exc is None and mode == 'on' and not skip:
      if len(set(map(id, recv))) != len(recv):
        hits.append(('C09/twice/typed:%s/-' % kind, 'one call (%s) delivered more than one event to the same receiver' % name))
      for i in range(len(recv)):
        for j in range(i + 1, len(recv)):
          a, b = recv[i].sym_path, recv[j].sym_path
          if recv[i].sym_root is recv[j].sym_root and len(a.keys) < len(b.keys) and b.keys[:len(a.keys)] == a.keys:
            hits.append(('C09/order/typed:%s/-' % kind, '%s notified %r before its descendant %r' % (name, str(a), str(b))))
      for x, ups in TLOG:
        for rel, u in ups.items():
          try:
            now = x.sym_get(rel, P.MISSING_VALUE) if rel.keys else x
          except Exception:     # pylint: disable=broad-except
            now = None
          is_list_shift = isinstance(u.target, list)
          if not is_list_shift and now is not u.new_value and not (P.MISSING_VALUE == now and P.MISSING_VALUE == u.new_value):
            hits.append(('C09/payload-new/typed:%s/-' % kind, 'after %s the receiver %r was told that %r is now %s; it holds %s' % (name, str(x.sym_path), str(rel), str(u.new_value)[:60], str(now)[:60])))
    st = t_stale(root)
    if st:
      x, f, a, b = st[0]
      disc = 'failed' if exc is not None else 'skip' if skip else 'notify-off' if mode == 'off' else '-'
      hits.append(('C09/stale/%s/typed:%s/%s' % (f, kind, disc), 'after %s (%s%s) the %s at %r reports %s = %s; a copy rebuilt from its contents gives %s' % (
          name, 'notification ' + mode, ', raised ' + type(exc).__name__ if exc is not None else '', type(x).__name__, str(x.sym_path), f, str(a)[:160], str(b)[:160])))
    if hits and report:
      break
  if not report:
    return hits
  for sig, what in hits[:1]:
    ctx.hit(sig, what, dict(typed_seed=seed, steps=nsteps, what='harness.props.c09.typed_case(None, seed, steps, report=False)'))
  return done

# ---- the notification flag itself: nested scopes restore the enclosing value, the flag is per thread (direct oracle) ------------------------------------
def scope_checks(ctx):
  import threading
  P = D.pg()
  n = 0
  for outer in (False, True):
    for inner in (False, True):
      log = []
      d = P.Dict(a=0, l=P.List([1], onchange_callback=lambda u: log.append('l')), onchange_callback=lambda u: log.append('d'))
      def ev(f):
        del log[:]; f(); return list(log)
      with P.notify_on_change(outer):
        with P.notify_on_change(inner):
          got_inner = ev(lambda: d.l.append(2))
        got_outer = ev(lambda: d.rebind(a=d.a + 1))
        got_skip = ev(lambda: d.rebind(a=d.a + 1, skip_notification=True))
        got_force = ev(lambda: d.rebind(a=d.a + 1, skip_notification=False))
      got_after = ev(lambda: d.l.pop())
      n += 5
      want = dict(inner=['l', 'd'] if inner else [], outer=['d'] if outer else [], skip=[], force=['d'], after=['l', 'd'])
      got = dict(inner=got_inner, outer=got_outer, skip=got_skip, force=got_force, after=got_after)
      for k in want:
        if got[k] != want[k]:
          ctx.hit('C09/silent/scope-nesting/%s' % k, 'with notify_on_change(%s): with notify_on_change(%s): the %s mutation delivered %s, expected %s' % (
              outer, inner, k, got[k], want[k]), dict(scope_check=True, outer=outer, inner=inner, which=k))
  # the flag is thread-scoped: a scope entered by another thread does not silence this one, and the other way round
  log = []
  d1 = P.Dict(a=0, onchange_callback=lambda u: log.append('main'))
  d2 = P.Dict(a=0, onchange_callback=lambda u: log.append('worker'))
  inside, release, done = threading.Event(), threading.Event(), threading.Event()
  seen = {}
  def worker():
    try:
      with P.notify_on_change(False):
        inside.set(); release.wait(10)
        d2.a = 1            # silent: the worker's own scope
      d2.a = 2              # notified
    finally:
      done.set()
  t = threading.Thread(target=worker, daemon=True); t.start()
  if inside.wait(10):
    d1.a = 1                # the worker sits inside notify_on_change(False): this thread is not concerned
    seen['main_while_worker_silenced'] = list(log)
    with P.notify_on_change(False):
      release.set(); done.wait(10)
      seen['after_worker'] = list(log)
  t.join(10)
  n += 2
  if seen.get('main_while_worker_silenced') != ['main']:
    ctx.hit('C09/silent/thread-scope/leaks-into-other-thread', 'a notify_on_change(False) scope entered by another thread silenced (or duplicated) this thread: log %s' % seen.get('main_while_worker_silenced'),
            dict(scope_check=True, which='thread'))
  if seen.get('after_worker') != ['main', 'worker']:
    ctx.hit('C09/silent/thread-scope/worker', 'worker thread: expected no event inside its own disabled scope and one after it, whatever the main thread\'s scope: log %s' % seen.get('after_worker'),
            dict(scope_check=True, which='thread'))
  ctx.extra['scope_checks'] = n
  return n

# ---- class hierarchies of observers (direct oracle) ----------------------------------------------------------------------------------------
def hierarchy_case(fam, perm):
  """three pg.Object classes B0 <- B1 <- B2, created afresh; bit i of [fam]: Bi defines _on_change itself.  A Dict with a callback holds a List
  with a callback holding one instance of each class (the B2 instance holds a B0 instance in a field).  One write into each instance in the
  order [perm] (so every order of FIRST notification of the three classes occurs), a write into the nested instance, one batched rebind from the
  root.  Expected, computed here from the definition: a receiver is an object whose class has a handler somewhere in its MRO, the list, the
  dict; each hears once, deepest first, with exactly {relative path: (old, new)}.  Returns [(signature, what)]."""
  P = D.pg()
  Any = P.typing.Any
  events = []
  def record(who, fu):
    entry = (who, [(str(k), u.old_value, u.new_value) for k, u in fu.items()])
    events.append(entry)
  def handler(level):
    def _on_change(self, field_updates):
      if not getattr(self, '_recorded', None) is field_updates:        # one record per delivery, whichever levels of the MRO define a handler
        self._recorded = field_updates
        record(self, field_updates)
      return super(classes[level], self)._on_change(field_updates)
    return _on_change
  classes = []
  h = [bool(fam >> i & 1) for i in range(3)]
  for level in range(3):
    attrs = dict(allow_symbolic_assignment=True, __module__=__name__, __qualname__='B%d' % level)
    if h[level]:
      attrs['_on_change'] = handler(level)
    cls = type('B%d' % level, (classes[-1] if classes else P.Object,), attrs)
    if level == 0:
      cls = P.members([('v', Any(default=0)), ('w', Any(default=None))])(cls)
    classes.append(cls)
  subscribes = [any(h[:i + 1]) for i in range(3)]
  B0, B1, B2 = classes
  inner = B0(v=0)
  objs = [B0(v=0), B1(v=0), B2(v=0, w=inner)]
  xs = P.List(list(objs), onchange_callback=lambda fu: record('list', fu))
  root = P.Dict(xs=xs, onchange_callback=lambda fu: record('dict', fu))
  probs = []
  def expect(step, exp):
    got = list(events); del events[:]
    name = lambda w: w if isinstance(w, str) else 'the %s at %r' % (type(w).__name__, str(w.sym_path))
    g = [(name(w), pl) for w, pl in got]; e = [(name(w), pl) for w, pl in exp]
    if [w for w, _ in g] != [w for w, _ in e]:
      probs.append(('C09/hierarchy/receivers/%s' % step.split(':')[0], '%s: the receivers are %s, expected %s' % (step, [w for w, _ in g], [w for w, _ in e])))
    elif g != e:
      bad = [(w, pl, ple) for (w, pl), (_, ple) in zip(g, e) if pl != ple][0]
      probs.append(('C09/hierarchy/payload/%s' % step.split(':')[0], '%s: %s received %r, expected %r' % (step, bad[0], bad[1], bad[2])))
  for i in perm:
    old = objs[i].v
    objs[i].v = 10 + i
    expect('write: xs[%d].v = %d' % (i, 10 + i),
           ([(objs[i], [('v', old, 10 + i)])] if subscribes[i] else []) + [('list', [('[%d].v' % i, old, 10 + i)]), ('dict', [('xs[%d].v' % i, old, 10 + i)])])
  inner.v = 7
  expect('nested-write: xs[2].w.v = 7',
         ([(inner, [('v', 0, 7)])] if subscribes[0] else []) + ([(objs[2], [('w.v', 0, 7)])] if subscribes[2] else []) +
         [('list', [('[2].w.v', 0, 7)]), ('dict', [('xs[2].w.v', 0, 7)])])
  olds = [objs[0].v, objs[1].v]
  root.rebind({'xs[0].v': 20, 'xs[1].v': 21, 'xs[2].w.v': 22})
  expect('batch: rebind from the root',
         ([(inner, [('v', 7, 22)])] if subscribes[0] else []) + ([(objs[2], [('w.v', 7, 22)])] if subscribes[2] else []) +
         ([(objs[1], [('v', olds[1], 21)])] if subscribes[1] else []) + ([(objs[0], [('v', olds[0], 20)])] if subscribes[0] else []) +
         [('list', [('[0].v', olds[0], 20), ('[1].v', olds[1], 21), ('[2].w.v', 7, 22)]),
          ('dict', [('xs[0].v', olds[0], 20), ('xs[1].v', olds[1], 21), ('xs[2].w.v', 7, 22)])])
  with P.notify_on_change(False):
    objs[0].v = 30
  expect('silent: write in a disabled scope', [])
  return probs

def hierarchy_sweep(ctx):
  import itertools
  n = 0
  for fam in range(8):
    for perm in itertools.permutations(range(3)):
      n += 1
      try:
        probs = hierarchy_case(fam, perm)
      except Exception as e:       # pylint: disable=broad-except
        probs = [('C09/hierarchy/raises/%s' % type(e).__name__, 'the history raised %s: %s' % (type(e).__name__, str(e)[:200]))]
      for sig, what in probs[:1]:
        defs = ', '.join('B%d %s' % (i, 'defines _on_change' if fam >> i & 1 else 'defines no handler') for i in range(3))
        ctx.hit(sig, 'classes B0 <- B1 <- B2 (%s), first notified in the order %s: %s' % (defs, list(perm), what), dict(hierarchy=[fam, list(perm)]))
  ctx.extra['hierarchy_histories'] = n
  return n

# ---- the check ---------------------------------------------------------------------------------------------------------------------------
def simple_key(k):
  """The key class of theorem C09_children_first (Proofs/SymCoreEventsOrder.v simple_key)."""
  if k[0] == 1:
    return True
  return len(k) == 1 or (k[1] != 45 and (k[1] < 48 or k[1] > 57))

def describe_diff(case, a, b):
  from harness.lib import tr as trlib
  d = dict(case=trlib.to_line(case)[:3000])
  if a is None or b is None or not isinstance(b, list) or len(b) != 2:
    d['difference'] = 'no outcome from %s' % ('the implementation' if a is None else 'the model')
    return d
  if a[0] != b[0]:
    d['difference'] = 'initial forest'
    return d
  for n, (x, y) in enumerate(zip(a[1], b[1])):
    if x != y:
      part = [i for i in range(5) if x[i] != y[i]][0]
      d.update(step=n, op=op_name(case[2][n][1]), differs=['result', 'snapshot', 'event log', 'memoised facts held', 'observed facts'][part],
               implementation=trlib.to_line(x[part])[:1500], model=trlib.to_line(y[part])[:1500])
      return d
  return d

def py_snippet(case):
  from harness.lib import tr as trlib
  return ('import sys; sys.path[:0] = ["/verif", "/repo"]\nfrom harness.props import c09\nfrom harness.lib import tr\n'
          'case = tr.parse_line(%r)\no = c09.Oracle9(); out = c09.run_case9(case, o)\nfor h in o.hits: print(h)\n'
          'for n, s in enumerate(out[1]): print(n, c09.op_name(case[2][n][1]), "result", s[0], "events", s[2])\n' % trlib.to_line(case))

GENERATED = {'Gen/NotifySrc.v': notify_src.translate}

def run(ctx):
  from harness.lib import tr as trlib
  t_start = time.time()
  info = ctx.regen('Gen/NotifySrc.v', notify_src.translate)
  if info is not None:
    ctx.extra['write_sites'] = info
  ctx.build()
  t0 = time.time()
  rng = ctx.rng
  quirks = D.quirk_flags()
  ctx.extra['quirk_flags'] = dict(copy_drops_missing=quirks[0])
  # wall-clock budgets of the tier (the machine may be busy): hand-written cases and the sweep always run; generated histories and typed
  # trees stop when their budget is used; what was not run is reported, never silently dropped
  # (counted from the end of the Coq build, which is a no-op once the .vo files are there)
  deadline_priming = t0 + ctx.scale(34, 240)
  deadline_random = t0 + ctx.scale(62, 900)
  deadline_typed = t0 + ctx.scale(92, 1300)
  fixed = [('corpus:' + name, [quirks, c[1], c[2]]) for name, c in CORPUS9.items()]
  fixed += [(name, [quirks, c[1], c[2]]) for name, c in sweep_cases(ctx.scale(1, 3))]
  fixed += [(name, [quirks, c[1], c[2]]) for name, c in batch_sweep_cases(ctx.scale(4, 1))]
  fixed += [(name, [quirks, c[1], c[2]]) for name, c in reseat_then_write_cases(full=ctx.scale(0, 1) == 1)]
  n = ctx.scale(600, 30000)
  plan = [('random', None, 0.5, 0.25), ('mutators', D.MUTATING, 0.3, 0.25),
          ('batches', {D.REBIND, D.DUPDATE, D.LEXTEND, D.LIMUL, D.LCLEAR, D.LSORT, D.LREVERSE, D.DCLEAR, D.DPOPITEM}, 0.2, 0.1)]
  cases, kinds, impl_outs = [], [], []
  stats, hyp = {}, {}
  def run_one(kind, case):
    orc = Oracle9()
    try:
      out = run_case9(case, orc)
    except Exception as e:     # the driver itself failed: fail closed
      out = None
      ctx.broken.append(dict(kind='driver-crash', name=type(e).__name__, detail=repr(e)[:300] + ' on ' + trlib.to_line(case)[:600]))
    cases.append(case); kinds.append(kind); impl_outs.append(out)
    for sig, what, step in orc.hits:
      ctx.hit(sig, what, dict(case=trlib.to_line(case), step=step, snippet=py_snippet(case)))
    for k, v in orc.stats.items():
      stats[k] = stats.get(k, 0) + v
    nontrivial = False
    if out is not None:
      held = None
      for (sc_, op, ob), s in zip(case[2], out[1]):
        ctx.hist('operations', op_name(op))
        ctx.hist('outcomes', 'ok' if s[0][0] == 0 else 'error %s' % s[0][1])
        ctx.hist('notification', 'disabled scope' if D.eff(sc_[2], True) is False else 'enabled')
        ctx.hist('receivers_per_step', len(s[2]))
        ctx.hist('payload_entries_per_event', ','.join(str(len(e[2])) for e in s[2][:4]) if s[2] else '-')
        if s[2] or (held is not None and sum(map(sum, [f[:3] for f in s[3]])) < held and op[0] in D.MUTATING | {REBINDX}):
          nontrivial = True
        held = sum(map(sum, [f[:3] for f in s[3]])) if not ob else None
      ctx.hist('steps_per_case', len(case[2]))
      # how often the hypotheses of the theorems hold on what was generated
      simple = all(simple_key(k) for s in out[1] for e in s[2] for k in e[1])
      hyp['cases_with_events'] = hyp.get('cases_with_events', 0) + int(any(s[2] for s in out[1]))
      hyp['cases_with_events_on_simple_keys'] = hyp.get('cases_with_events_on_simple_keys', 0) + int(any(s[2] for s in out[1]) and simple)
      hyp['steps'] = hyp.get('steps', 0) + len(case[2])
      hyp['steps_notify_parents_false'] = hyp.get('steps_notify_parents_false', 0) + sum(1 for _, op, _ in case[2] if op[0] == REBINDX and not op[4])
    k0 = kind.split(':')[0].split('/')[0]
    ctx.count(trlib.to_line(case), nontrivial=nontrivial, kind=k0,
              sample=dict(kind=kind, case=trlib.to_line(case)[:700]) if (nontrivial and kind == 'random' and len(ctx.samples) < 3) or (kind.startswith('sweep') and len(ctx.samples) < 1) else None)
  for kind, case in fixed:
    run_one(kind, case)
  # which nodes hold which derived fact before a silent mutation, on typed trees (direct oracle)
  t1 = time.time()
  try:
    # (the head of the sweep -- one node asked for one memoised fact, silent path -- needs ~8 s: it gets its own slice even when the fixed cases ran long)
    np_ = priming_sweep(ctx, rng, max(deadline_priming, min(time.time() + ctx.scale(14, 240), t0 + ctx.scale(52, 400))), stride=ctx.scale(8, 1))
    ctx.log('priming sweep on typed trees: %d cases in %.1fs' % (np_, time.time() - t1))
  except Exception as e:       # pylint: disable=broad-except
    ctx.hit('C09/typed/harness/%s' % type(e).__name__, 'the priming sweep raised %s: %s' % (type(e).__name__, str(e)[:200]), dict(priming=-1))
  skipped = 0
  gen_errors = []
  with installed():
    gens = [(make_gen(rng, focus=focus, quirks=quirks, notify_off=off), kind, int(n * w)) for kind, focus, w, off in plan]
  # round-robin over the generators, so that a budget cut keeps the mix
  todo = [[g, kind, cnt] for g, kind, cnt in gens]
  while any(t[2] > 0 for t in todo):
    for t in todo:
      if t[2] <= 0:
        continue
      if time.time() > deadline_random:
        skipped += t[2]; t[2] = 0
        continue
      t[2] -= 1
      try:
        with installed():
          case = t[0].case(rng.choice([4, 8, 10, 12]))
      except Exception as e:     # the generator drives the implementation while it generates: never crash on what it does
        gen_errors.append('%s: %s' % (type(e).__name__, str(e)[:200]))
        continue
      run_one(t[1], case)
  ctx.extra['generated_cases_skipped_for_time_budget'] = skipped
  ctx.extra['generator_errors'] = dict(count=len(gen_errors), first=gen_errors[:3])
  if len(gen_errors) > max(5, len(cases) // 50):      # fail closed: the generator cannot drive the implementation any more
    ctx.broken.append(dict(kind='generator-crash', name='Gen9.case', detail='%d cases could not be generated; first: %s' % (len(gen_errors), gen_errors[0])))
  ctx.log('implementation ran %d cases in %.1fs (%d generated cases skipped for the time budget)' % (len(cases), time.time() - t0, skipped))
  model_outs = ctx.model_run(cases)
  diffs = {}
  for c, a, b in zip(cases, impl_outs, model_outs):
    if a != b:
      diffs[id(c)] = describe_diff(c, a, b)
  bad = ctx.compare('SymCoreEvents.run vs pg.Dict / pg.List / pg.Object (outcome, snapshot, event log, memoised facts held, observed facts after every step)',
                    cases, impl_outs, model_outs, describe=lambda c: diffs.get(id(c)))
  try:
    hierarchy_sweep(ctx)
  except Exception as e:       # pylint: disable=broad-except
    ctx.hit('C09/hierarchy/harness/%s' % type(e).__name__, 'the hierarchy sweep raised %s: %s' % (type(e).__name__, str(e)[:200]), dict(hierarchy=[0, [0, 1, 2]]))
  try:
    scope_checks(ctx)
  except Exception as e:       # pylint: disable=broad-except
    ctx.hit('C09/silent/scope-checks/raises', 'the notification-flag checks raised %s: %s' % (type(e).__name__, str(e)[:200]), dict(scope_check=True))
  # typed trees (required / default fields, MISSING_VALUE, pg.oneof): direct oracles only
  t1 = time.time()
  tsteps, tcases, twant = 0, 0, ctx.scale(60, 2500)
  while tcases < twant and time.time() < deadline_typed:
    tseed = rng.randrange(1 << 30)
    try:
      tsteps += typed_case(ctx, tseed, 12)
    except Exception as e:     # building the typed tree or the candidate operations failed: an outcome, not a crash
      ctx.hit('C09/typed/harness/%s' % type(e).__name__, 'a typed history could not be run: %s: %s' % (type(e).__name__, str(e)[:200]), dict(typed_seed=tseed, steps=12))
    tcases += 1
  ctx.log('typed trees: %d histories, %d steps in %.1fs (%d skipped for the time budget)' % (tcases, tsteps, time.time() - t1, twant - tcases))
  ctx.extra['typed_steps'] = tsteps
  ctx.extra['typed_histories'] = tcases
  ctx.extra['typed_histories_skipped_for_time_budget'] = twant - tcases
  ctx.extra['oracle_stats'] = stats
  ctx.extra['hypotheses'] = hyp
  ctx.extra['corpus_cases'] = len(CORPUS9)
  ctx.extra['sweep_cases'] = sum(1 for k in kinds if k.startswith('sweep'))
  ctx.extra['batch_sweep_cases'] = sum(1 for k in kinds if k.startswith('batch'))
  ctx.extra['reseat_then_write_cases'] = sum(1 for k in kinds if k.startswith('reseat'))
  # violation search when something is broken and the oracles have not hit yet: more histories biased to the operations that disagree
  if ctx.is_broken() and not ctx.hits:
    ops = set()
    for i in bad[:50]:
      d = diffs.get(id(cases[i])) or {}
      ops |= {t for t, nm in D.OP_NAMES.items() if nm == d.get('op')}
    stop_search = time.time() + ctx.scale(60, 600)
    with installed():
      g = make_gen(rng, focus=ops or D.MUTATING, quirks=quirks)
    while time.time() < stop_search and not ctx.hits:
      with installed():
        case = g.case(8)
      orc = Oracle9()
      try:
        run_case9(case, orc)
      except Exception:     # pylint: disable=broad-except
        continue
      for sig, what, step in orc.hits:
        ctx.hit(sig, what, dict(case=trlib.to_line(case), step=step, snippet=py_snippet(case)))
    while time.time() < stop_search + ctx.scale(30, 300) and not ctx.hits:
      typed_case(ctx, rng.randrange(1 << 30), 12)

def replay(ctx, rp):
  from harness.lib import tr as trlib
  c = rp['case']
  if isinstance(c, dict) and 'priming' in c:
    import random
    class _P:
      def __init__(self): self.h = []; self.extra = {}
      def hit(self, sig, what, case): self.h.append((sig, what))
      def hist(self, *a): pass
    pc = _P(); priming_sweep(pc, random.Random(0), time.time() + 600, stride=1, only=c['priming'])
    for h in pc.h:
      print('  still fails:', h[0], '|', h[1])
    return not pc.h
  if isinstance(c, dict) and 'hierarchy' in c:
    probs = hierarchy_case(c['hierarchy'][0], tuple(c['hierarchy'][1]))
    for h in probs:
      print('  still fails:', h[0], '|', h[1])
    return not probs
  if isinstance(c, dict) and c.get('scope_check'):
    class _C:
      def __init__(self): self.h = []; self.extra = {}
      def hit(self, sig, what, case): self.h.append((sig, what))
    cc = _C(); scope_checks(cc)
    for h in cc.h:
      print('  still fails:', h[0], '|', h[1])
    return not cc.h
  if isinstance(c, dict) and 'typed_seed' in c:
    hits = typed_case(None, c['typed_seed'], c.get('steps', 12), report=False)
    for h in hits:
      print('  still fails:', h[0], '|', h[1])
    return not hits
  case = trlib.parse_line(c['case']) if isinstance(c, dict) else trlib.parse_line(c)
  orc = Oracle9()
  run_case9(case, orc)
  for h in orc.hits:
    print('  still fails:', h[0], '|', h[1])
  return not orc.hits

"""C01 — symbolic tree integrity: one parent, true path, for every reachable node (after every step of any history)."""
from harness.props import symcore_driver as D

META = dict(
    id='C01',
    model_run='PG.Model.SymCore.run',
    runner_name='SymCore',
    model_targets=['Model/SymCore.vo'],
    technique='Coq proof over an executable forest-of-annotated-trees model (stored parent/path annotations separate from actual position; '
              'structural induction on trees for the write primitives, one lemma per mutator, fold over histories) + step-level differential '
              'correspondence against pg.Dict/pg.List/pg.Object on generated operation histories + direct tree-integrity oracle after every step',
    design_ref='DESIGN.md §5 C01, design/C01.md',
    level_text=('Theorems (any forest, any history of the modelled operations, any scope stack): every step of the model preserves well-formedness '
                '(stored parent = actual container, stored path = actual key sequence, list keys 0..n-1, unique node ids), hence every history does; '
                'looking a node\'s stored path up from its root returns that node; nodes an operation removes become detached roots. '
                'Tie: the model is run against the implementation on generated histories (every public mutator of List/Dict/Object incl. in-place operators, '
                'rebind, clone, seal) and the snapshots (kind, stored path, parent-is-container, flags, children) after every step must be identical; '
                'a direct oracle walks every root after every step.'),
    level_note=('Trusted: Coq kernel; extraction (ExtrOcamlBasic) cross-checked against vm_compute; the implementation driver and generator. '
                'Modelled, not verified: the Python code itself (tied by the correspondence only). Not modelled: slice assignment, value specs (C03), '
                'pg.Ref / inferential values, pg.Object\'s internal attribute Dict (collapsed into the object node), origin tracking.'),
    rule='a case is (forest literal, list of (scope stack, operation)); distinct by canonical text; non-trivial when at least one operation succeeds in changing a tree that has a nested symbolic node',
    trusted_base=['extraction: ExtrOcamlBasic only; ocaml/main.ml lexer/printer; cross-checked against vm_compute on a sample',
                  'implementation driver harness/props/symcore_driver.py (positions, snapshots, bookkeeping of removed nodes) and generator symcore_gen.py'],
    assumptions=['histories are finite sequences of the modelled operations (see design/C01.md for the catalogue); rebind batches generated for the correspondence are prefix-free'],
)

def check_forest(impl):
  """The property text on the live objects.  Returns a list of (clause, detail)."""
  hits = []
  seen = {}
  for ri, root in enumerate(impl.roots):
    if root is None:
      continue
    if root.sym_parent is not None:
      hits.append(('removed-still-child', 'root #%d (kept by the user after an operation removed/replaced it, or a fresh value) reports a parent' % ri))
    if root.sym_path.keys:
      hits.append(('removed-stale-path', 'root #%d reports the non-empty path %s' % (ri, root.sym_path)))
    stack = [root]
    visited = set()
    while stack:
      n = stack.pop()
      if id(n) in visited:
        hits.append(('cycle', 'a node is stored below itself in root #%d' % ri))
        continue
      visited.add(id(n))
      if id(n) in seen and seen[id(n)] != ri:
        hits.append(('two-places', 'one node object is stored in roots #%d and #%d' % (seen[id(n)], ri)))
      seen[id(n)] = ri
      for k, v in D.sym_children(n):
        if not D.is_sym(v):
          continue
        if v.sym_parent is not n:
          hits.append(('child-parent-link', 'child %r of %s in root #%d reports parent %s' % (
              k, n.sym_path, ri, 'None' if v.sym_parent is None else 'another node')))
        if v.sym_path != D.pg().KeyPath(k, n.sym_path):      # (not `path + k`: that would parse a string key as a path)
          hits.append(('child-path', 'child stored under key %r of node at %r reports path %r' % (k, str(n.sym_path), str(v.sym_path))))
        else:
          try:
            got = root.sym_get(v.sym_path) if not root.sym_path.keys else None
            if got is not None and got is not v:
              hits.append(('path-lookup', 'root.sym_get(%r) is another object' % str(v.sym_path)))
          except Exception as e:      # pylint: disable=broad-except
            hits.append(('path-lookup', 'root.sym_get(%r) raises %s' % (str(v.sym_path), type(e).__name__)))
        stack.append(v)
  return hits

class Oracle:
  """after_step hook: reports the first step at which the forest stops being well-formed."""
  def __init__(self):
    self.hits = []       # (signature, what, step)
    self.failed = False
  def prepare(self, impl, scope, op):
    return None
  def __call__(self, impl, n, scope, op, res, info, before):
    if self.failed:
      return
    h = check_forest(impl)
    if isinstance(info.get('exception'), D.Hang):
      h.insert(0, ('cycle', 'the operation does not return: %s' % info['exception']))
    if h:
      self.failed = True
      notify = D.eff(scope[2], True)
      clause, detail = h[0]
      disc = 'notify-off' if notify is False and clause in ('child-path',) else '-'
      sig = 'C01/%s/%s/%s' % (clause, D.OP_NAMES[op[0]], disc)
      self.hits.append((sig, '%s: after %s, %s' % (clause, D.OP_NAMES[op[0]], detail), n))

def run(ctx):
  D.run_property(ctx, 'C01', Oracle)

def replay(ctx, rp):
  return D.replay_property(ctx, rp, Oracle)

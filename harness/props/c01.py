"""C01 — symbolic tree integrity: one parent, true path, for every reachable node (after every step of any history)."""
from harness.props import symcore_driver as D

META = dict(
    id='C01',
    model_run='PG.Model.SymCore.run',
    runner_name='SymCore',
    model_targets=['Model/SymCore.vo'],
    technique='Coq proof over an executable forest-of-annotated-trees model (stored parent/path annotations separate from actual position; '
              'structural induction on trees for the write primitives, one lemma per mutator, fold over histories) + step-level differential '
              'correspondence against pg.Dict/pg.List/pg.Object on generated operation histories + direct tree-integrity oracle after every step',
    design_ref='DESIGN.md §5 C01, design/C01.md',
    level_text=('Theorems (any forest, any history of the modelled operations, any scope stack): every step of the model preserves well-formedness '
                '(stored parent = actual container, stored path = actual key sequence, list keys 0..n-1, unique node ids), hence every history does; '
                'looking a node\'s stored path up from its root returns that node; nodes an operation removes become detached roots. '
                'Tie: the model is run against the implementation on generated histories (every public mutator of List/Dict/Object incl. in-place operators, '
                'rebind, clone, seal) and the snapshots (kind, stored path, parent-is-container, flags, children) after every step must be identical; '
                'a direct oracle walks every root after every step.'),
    level_note=('Trusted: Coq kernel; extraction (ExtrOcamlBasic) cross-checked against vm_compute; the implementation driver and generator. '
                'Modelled, not verified: the Python code itself (tied by the correspondence only). Not modelled: slice assignment, value specs (C03), '
                'pg.Ref / inferential values, pg.Object\'s internal attribute Dict (collapsed into the object node), origin tracking.'),
    rule='a case is (forest literal, list of (scope stack, operation)); distinct by canonical text; non-trivial when at least one operation succeeds in changing a tree that has a nested symbolic node',
    trusted_base=['extraction: ExtrOcamlBasic only; ocaml/main.ml lexer/printer; cross-checked against vm_compute on a sample',
                  'implementation driver harness/props/symcore_driver.py (positions, snapshots, bookkeeping of removed nodes) and generator symcore_gen.py'],
    assumptions=['histories are finite sequences of the modelled operations (see design/C01.md for the catalogue); rebind batches generated for the correspondence are prefix-free'],
)

def check_forest(impl):
  """The property text on the live objects.  Returns a list of (clause, detail)."""
  hits = []
  seen = {}
  for ri, root in enumerate(impl.roots):
    if root is None:
      continue
    if root.sym_parent is not None:
      hits.append(('removed-still-child', 'root #%d (kept by the user after an operation removed/replaced it, or a fresh value) reports a parent' % ri))
    if root.sym_path.keys:
      hits.append(('removed-stale-path', 'root #%d reports the non-empty path %s' % (ri, root.sym_path)))
    stack = [root]
    visited = set()
    while stack:
      n = stack.pop()
      if id(n) in visited:
        hits.append(('cycle', 'a node is stored below itself in root #%d' % ri))
        continue
      visited.add(id(n))
      if id(n) in seen and seen[id(n)] != ri:
        hits.append(('two-places', 'one node object is stored in roots #%d and #%d' % (seen[id(n)], ri)))
      seen[id(n)] = ri
      for k, v in D.sym_children(n):
        if not D.is_sym(v):
          continue
        if v.sym_parent is not n:
          hits.append(('child-parent-link', 'child %r of %s in root #%d reports parent %s' % (
              k, n.sym_path, ri, 'None' if v.sym_parent is None else 'another node')))
        if v.sym_path != D.pg().KeyPath(k, n.sym_path):      # (not `path + k`: that would parse a string key as a path)
          hits.append(('child-path', 'child stored under key %r of node at %r reports path %r' % (k, str(n.sym_path), str(v.sym_path))))
        else:
          try:
            got = root.sym_get(v.sym_path) if not root.sym_path.keys else None
            if got is not None and got is not v:
              hits.append(('path-lookup', 'root.sym_get(%r) is another object' % str(v.sym_path)))
          except Exception as e:      # pylint: disable=broad-except
            hits.append(('path-lookup', 'root.sym_get(%r) raises %s' % (str(v.sym_path), type(e).__name__)))
        stack.append(v)
  return hits

class Oracle:
  """after_step hook: reports the first step at which the forest stops being well-formed."""
  def __init__(self):
    self.hits = []       # (signature, what, step)
    self.failed = False
  def prepare(self, impl, scope, op):
    return None
  def __call__(self, impl, n, scope, op, res, info, before):
    if self.failed:
      return
    h = check_forest(impl)
    if isinstance(info.get('exception'), D.Hang):
      h.insert(0, ('cycle', 'the operation does not return: %s' % info['exception']))
    if h:
      self.failed = True
      notify = D.eff(scope[2], True)
      clause, detail = h[0]
      disc = 'notify-off' if notify is False and clause in ('child-path',) else '-'
      sig = 'C01/%s/%s/%s' % (clause, D.OP_NAMES[op[0]], disc)
      self.hits.append((sig, '%s: after %s, %s' % (clause, D.OP_NAMES[op[0]], detail), n))

def run(ctx):
  D.run_property(ctx, 'C01', Oracle, extra=slice_sweep)

# ----------------------------------------------------------------------------------------------------
# Oracle-driven sweep over the part of the list surface that the SymCore model does not contain: slice get / set / del
# with every start / stop / step, on lists whose elements are symbolic containers with sub-trees, followed by further
# operations (append, re-insertion of an existing child `l[i] = l[j]`); the integrity walk runs after every step.
# (No model correspondence for these operations here -- slices are modelled by C02's extension of SymCore.)
def _run_oracle_only(ctx, case, kind):
  from harness.lib import tr as trlib
  orc = Oracle()
  try:
    D.run_case(case, after_step=orc)
  except Exception as e:       # pylint: disable=broad-except
    ctx.broken.append(dict(kind='driver-crash', name=type(e).__name__, detail=repr(e)[:300] + ' on ' + trlib.to_line(case)[:600]))
    return
  ctx.evaluations += 1
  ctx.hist('slice_sweep', kind)
  for sig, what, step in orc.hits:
    ctx.hit(sig, what, dict(case=trlib.to_line(case), step=step, snippet=D.py_snippet(case), oracle_only=True))

def slice_cases(ns, steps, full=True):
  """(kind, case): every slice shape on a list of n symbolic children (each with a sub-tree), as root and nested."""
  P, V, R, NS, sc = D.P, D.V, D.R, D.NS, D.sc
  child = lambda i: {'i': i, 's': [{'j': i}]}
  for n in ns:
    items = [child(i) for i in range(n)]
    for nested in (False, True):
      init = [{'a': {'items': items}}] if nested else [items]
      pos = P(0, 'a', 'items') if nested else P(0)
      bounds = [[]] + [[b] for b in (range(-n - 1, n + 2) if full else (-n - 1, -2, 0, 1, n - 1, n + 1))]
      for st in steps:
        for a in bounds:
          for b in bounds:
            sl = [a, b, [] if st is None else [st]]
            follow = [(NS, [D.LAPPEND, pos, V({'z': 1})]),
                      (NS, [D.LSET, pos, -1, [1, pos[0], pos[1] + [[1, 0]]]]),      # l[-1] = l[0]
                      (NS, [D.LSET, pos, 0, [1, pos[0], pos[1] + [[1, 1]]]]),       # l[0] = l[1]
                      (NS, [D.LINSERT, pos, 1, [1, pos[0], pos[1] + [[1, 0]]]])]
            yield 'del', D.case(init, (NS, [D.LDELSLICE, pos, sl]), *follow)
            yield 'del-notify-off', D.case(init, (sc(notify=[False]), [D.LDELSLICE, pos, sl]), *follow)
            for k in (0, 1, n):
              vals = [V(child(100 + j)) for j in range(k)]
              yield 'set', D.case(init, (NS, [D.LSETSLICE, pos, sl, vals]), *follow)
            yield 'set-existing', D.case(init, (NS, [D.LSETSLICE, pos, sl, [[1, pos[0], pos[1] + [[1, 0]]], V(child(7))]]), *follow)
            yield 'get', D.case(init, (NS, [D.LGETSLICE, pos, sl]), follow[0])

def construction_sweep(ctx):
  """Construction (oracle only): the same symbolic node handed twice to one constructor / one batch must not be stored twice."""
  P = D.pg()
  A, B, C = D.classes()
  def node(parented):
    d = P.Dict(a=1, s=[P.Dict(b=2)])
    if parented:
      P.Dict(holder=d)
    return d
  makers = {
      'Object(x=d, y=d)': lambda d: A(x=d, y=d), 'Object.partial(x=d, y=d)': lambda d: A.partial(x=d, y=d),
      'Object(x=d, y=d, z=d)': lambda d: B(x=d, y=d, z=d), 'Object(x=[d, d])': lambda d: A(x=[d, d]), 'Object(x={p: d, q: d})': lambda d: A(x={'p': d, 'q': d}),
      'Object(x=d, y=[d])': lambda d: A(x=d, y=[d]),
      'Dict(x=d, y=d)': lambda d: P.Dict(x=d, y=d), 'Dict({x: d, y: [d, d]})': lambda d: P.Dict({'x': d, 'y': [d, d]}),
      'List([d, d])': lambda d: P.List([d, d]), 'List([d, [d], {k: d}])': lambda d: P.List([d, [d], {'k': d}]),
      'Dict().rebind(x=d, y=d)': lambda d: P.Dict().rebind({'x': d, 'y': d}), 'Object().rebind(x=d, y=d)': lambda d: A().rebind(x=d, y=d),
      'List().extend([d, d])': lambda d: (lambda l: (l.extend([d, d]), l)[1])(P.List()),
      'Dict().update(x=d, y=d)': lambda d: (lambda x: (x.update({'x': d, 'y': d}), x)[1])(P.Dict()),
  }
  n = 0
  for name, make in makers.items():
    for parented in (False, True):
      d = node(parented)
      try:
        v = make(d)
      except Exception as e:       # pylint: disable=broad-except
        ctx.hit('C01/construction-raises/%s/-' % name, '%s raises %s' % (name, type(e).__name__), dict(kind='construction', name=name, parented=parented))
        continue
      n += 1
      ctx.evaluations += 1
      impl = D.Impl(); impl.roots.append(v)
      if not parented:
        pass        # d itself is in the tree (or a copy of it); nothing else is held
      for clause, what in check_forest(impl):
        ctx.hit('C01/%s/%s/%s' % (clause, name.split('(')[0] + '-construction', 'same-node-twice'),
                '%s with the same %s node for several places: %s' % (name, 'parented' if parented else 'parentless', what),
                dict(kind='construction', name=name, parented=parented))
        break
  ctx.extra['construction_sweep'] = dict(oracle_only=True, cases=n, what='the same node handed twice to one constructor / rebind / extend / update, parentless and parented')

def replay_construction(c):
  class Ctx:
    hits = []
    extra = {}
    evaluations = 0
    def hit(self, sig, what, case):
      if case.get('name') == c.get('name') and case.get('parented') == c.get('parented'): self.hits.append(sig)
  x = Ctx(); construction_sweep(x)
  return not x.hits

def slice_sweep(ctx):
  construction_sweep(ctx)
  import time
  from harness.props import symcore_gen as G
  t0 = time.time()
  ns = ctx.scale([5], [3, 5, 6])
  steps = ctx.scale([None, 2, -2, 3], [None, 1, 2, 3, -1, -2, -3])
  n = 0
  for kind, case in slice_cases(ns, steps, full=ctx.thorough):
    _run_oracle_only(ctx, [case[0], case[1], case[2]], kind)
    n += 1
  # random histories that mix slice operations with everything else
  g = G.Gen(ctx.rng, cycles=True, slices=True)
  m = ctx.scale(300, 3000)
  for _ in range(m):
    _run_oracle_only(ctx, g.case(10), 'random-history')
  ctx.extra['slice_sweep'] = dict(oracle_only=True, systematic_cases=n, random_histories=m,
                                  what='del / set / get of every slice (start, stop in -n-1..n+1 or absent; steps %s) on lists of %s symbolic children with sub-trees, '
                                       'as root and nested, with and without change notification, followed by append / l[-1] = l[0] / l[0] = l[1] / insert(1, l[0]); '
                                       'plus random histories mixing slice operations with the whole catalogue; integrity walk after every step' % (steps, ns))
  ctx.log('slice sweep (oracle only): %d systematic cases + %d random histories in %.1fs' % (n, m, time.time() - t0))

def replay(ctx, rp):
  if isinstance(rp.get('case'), dict) and rp['case'].get('kind') == 'construction':
    return replay_construction(rp['case'])
  return D.replay_property(ctx, rp, Oracle)

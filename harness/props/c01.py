"""C01 — symbolic tree integrity: one parent, true path, for every reachable node (after every step of any history)."""
from harness.props import symcore_driver as D

META = dict(
    id='C01',
    model_run='PG.Model.SymCore.run',
    runner_name='SymCore',
    model_targets=['Model/SymCore.vo'],
    technique='Coq proof over an executable forest-of-annotated-trees model (stored parent/path annotations separate from actual position; '
              'structural induction on trees for the write primitives, one lemma per mutator, fold over histories) + step-level differential '
              'correspondence against pg.Dict/pg.List/pg.Object on generated operation histories + direct tree-integrity oracle after every step',
    design_ref='DESIGN.md §5 C01, design/C01.md',
    level_text=('Theorems (any forest, any history of the modelled operations, any scope stack): every step of the model preserves well-formedness '
                '(stored parent = actual container, stored path = actual key sequence, list keys 0..n-1, unique node ids), hence every history does; '
                'looking a node\'s stored path up from its root returns that node; nodes an operation removes become detached roots. '
                'The same over the whole list/dict surface: slice assignment, slice deletion, d | m, m | d of the C02 extension of the model '
                '(C01_step2_wf, C01_tree_integrity_full_surface; tied by the C02 correspondence and by the oracle-only slice sweep here). '
                'Tie: the model is run against the implementation on generated histories (every public mutator of List/Dict/Object incl. in-place operators, '
                'rebind, clone, seal) and the snapshots (kind, stored path, parent-is-container, flags, children) after every step must be identical; '
                'a direct oracle walks every root after every step.'),
    level_note=('Trusted: Coq kernel; extraction (ExtrOcamlBasic) cross-checked against vm_compute; the implementation driver and generator. '
                'Modelled, not verified: the Python code itself (tied by the correspondence only). Not modelled: value specs (C03), '
                'pg.Ref / inferential values (oracle-only sweep: every write path x reference to own tree / other tree, fresh / held elsewhere), '
                'pg.Object\'s internal attribute Dict (collapsed into the object node; the oracle checks after every step that it forwards parent and path), origin tracking. '
                'Producers of trees (constructors, clone, copy, from_json(to_json)) x every nesting of Dict / List / Object are walked, and written into, by an oracle-only sweep.'),
    rule='a case is (forest literal, list of (scope stack, operation)); distinct by canonical text; non-trivial when at least one operation succeeds in changing a tree that has a nested symbolic node',
    trusted_base=['extraction: ExtrOcamlBasic only; ocaml/main.ml lexer/printer; cross-checked against vm_compute on a sample',
                  'implementation driver harness/props/symcore_driver.py (positions, snapshots, bookkeeping of removed nodes) and generator symcore_gen.py'],
    assumptions=['histories are finite sequences of the modelled operations (see design/C01.md for the catalogue); rebind batches generated for the correspondence are prefix-free'],
)

def check_forest(impl):
  """The property text on the live objects.  Returns a list of (clause, detail)."""
  hits = []
  seen = {}
  for ri, root in enumerate(impl.roots):
    if root is None:
      continue
    if root.sym_parent is not None:
      hits.append(('removed-still-child', 'root #%d (kept by the user after an operation removed/replaced it, or a fresh value) reports a parent' % ri))
    if root.sym_path.keys:
      hits.append(('removed-stale-path', 'root #%d reports the non-empty path %s' % (ri, root.sym_path)))
    stack = [root]
    visited = set()
    while stack:
      n = stack.pop()
      if id(n) in visited:
        hits.append(('cycle', 'a node is stored below itself in root #%d' % ri))
        continue
      visited.add(id(n))
      if id(n) in seen and seen[id(n)] != ri:
        hits.append(('two-places', 'one node object is stored in roots #%d and #%d' % (seen[id(n)], ri)))
      seen[id(n)] = ri
      at = getattr(n, '_sym_attributes', None)
      if at is not None and D.is_sym(at):
        # pg.Object keeps its fields in an internal pg.Dict that forwards parent and path (the model collapses it into the object node)
        if at.sym_parent is not n or at.sym_path != n.sym_path:
          hits.append(('attribute-container', 'the attribute container of the object at %r reports parent %s, path %r' % (
              str(n.sym_path), 'the object' if at.sym_parent is n else 'another / None', str(at.sym_path))))
      for k, v in D.sym_children(n):
        if not D.is_sym(v):
          continue
        if v.sym_parent is not n:
          hits.append(('child-parent-link', 'child %r of %s in root #%d reports parent %s' % (
              k, n.sym_path, ri, 'None' if v.sym_parent is None else 'another node')))
        if v.sym_path != D.pg().KeyPath(k, n.sym_path):      # (not `path + k`: that would parse a string key as a path)
          hits.append(('child-path', 'child stored under key %r of node at %r reports path %r' % (k, str(n.sym_path), str(v.sym_path))))
        else:
          try:
            got = root.sym_get(v.sym_path) if not root.sym_path.keys else None
            if got is not None and got is not v:
              hits.append(('path-lookup', 'root.sym_get(%r) is another object' % str(v.sym_path)))
          except Exception as e:      # pylint: disable=broad-except
            hits.append(('path-lookup', 'root.sym_get(%r) raises %s' % (str(v.sym_path), type(e).__name__)))
        stack.append(v)
  return hits

class Oracle:
  """after_step hook: reports the first step at which the forest stops being well-formed."""
  def __init__(self):
    self.hits = []       # (signature, what, step)
    self.failed = False
  def prepare(self, impl, scope, op):
    return None
  def __call__(self, impl, n, scope, op, res, info, before):
    if self.failed:
      return
    h = check_forest(impl)
    if isinstance(info.get('exception'), D.Hang):
      h.insert(0, ('cycle', 'the operation does not return: %s' % info['exception']))
    if h:
      self.failed = True
      notify = D.eff(scope[2], True)
      clause, detail = h[0]
      disc = 'notify-off' if notify is False and clause in ('child-path',) else '-'
      sig = 'C01/%s/%s/%s' % (clause, D.OP_NAMES[op[0]], disc)
      self.hits.append((sig, '%s: after %s, %s' % (clause, D.OP_NAMES[op[0]], detail), n))

def run(ctx):
  D.run_property(ctx, 'C01', Oracle, extra=slice_sweep)

# ----------------------------------------------------------------------------------------------------
# Oracle-driven sweep over the part of the list surface that the SymCore model does not contain: slice get / set / del
# with every start / stop / step, on lists whose elements are symbolic containers with sub-trees, followed by further
# operations (append, re-insertion of an existing child `l[i] = l[j]`); the integrity walk runs after every step.
# (No model correspondence for these operations here -- slices are modelled by C02's extension of SymCore.)
def _run_oracle_only(ctx, case, kind):
  from harness.lib import tr as trlib
  orc = Oracle()
  try:
    D.run_case(case, after_step=orc)
  except Exception as e:       # pylint: disable=broad-except
    ctx.broken.append(dict(kind='driver-crash', name=type(e).__name__, detail=repr(e)[:300] + ' on ' + trlib.to_line(case)[:600]))
    return
  ctx.evaluations += 1
  ctx.hist('slice_sweep', kind)
  for sig, what, step in orc.hits:
    ctx.hit(sig, what, dict(case=trlib.to_line(case), step=step, snippet=D.py_snippet(case), oracle_only=True))

def slice_cases(ns, steps, full=True):
  """(kind, case): every slice shape on a list of n symbolic children (each with a sub-tree), as root and nested."""
  P, V, R, NS, sc = D.P, D.V, D.R, D.NS, D.sc
  child = lambda i: {'i': i, 's': [{'j': i}]}
  for n in ns:
    items = [child(i) for i in range(n)]
    for nested in (False, True):
      init = [{'a': {'items': items}}] if nested else [items]
      pos = P(0, 'a', 'items') if nested else P(0)
      bounds = [[]] + [[b] for b in (range(-n - 1, n + 2) if full else (-n - 1, -2, 0, 1, n - 1, n + 1))]
      for st in steps:
        for a in bounds:
          for b in bounds:
            sl = [a, b, [] if st is None else [st]]
            follow = [(NS, [D.LAPPEND, pos, V({'z': 1})]),
                      (NS, [D.LSET, pos, -1, [1, pos[0], pos[1] + [[1, 0]]]]),      # l[-1] = l[0]
                      (NS, [D.LSET, pos, 0, [1, pos[0], pos[1] + [[1, 1]]]]),       # l[0] = l[1]
                      (NS, [D.LINSERT, pos, 1, [1, pos[0], pos[1] + [[1, 0]]]])]
            yield 'del', D.case(init, (NS, [D.LDELSLICE, pos, sl]), *follow)
            yield 'del-notify-off', D.case(init, (sc(notify=[False]), [D.LDELSLICE, pos, sl]), *follow)
            for k in (0, 1, n):
              vals = [V(child(100 + j)) for j in range(k)]
              yield 'set', D.case(init, (NS, [D.LSETSLICE, pos, sl, vals]), *follow)
            yield 'set-existing', D.case(init, (NS, [D.LSETSLICE, pos, sl, [[1, pos[0], pos[1] + [[1, 0]]], V(child(7))]]), *follow)
            yield 'get', D.case(init, (NS, [D.LGETSLICE, pos, sl]), follow[0])

def construction_sweep(ctx):
  """Construction (oracle only): the same symbolic node handed twice to one constructor / one batch must not be stored twice."""
  P = D.pg()
  A, B, C = D.classes()
  def node(parented):
    d = P.Dict(a=1, s=[P.Dict(b=2)])
    if parented:
      P.Dict(holder=d)
    return d
  makers = {
      'Object(x=d, y=d)': lambda d: A(x=d, y=d), 'Object.partial(x=d, y=d)': lambda d: A.partial(x=d, y=d),
      'Object(x=d, y=d, z=d)': lambda d: B(x=d, y=d, z=d), 'Object(x=[d, d])': lambda d: A(x=[d, d]), 'Object(x={p: d, q: d})': lambda d: A(x={'p': d, 'q': d}),
      'Object(x=d, y=[d])': lambda d: A(x=d, y=[d]),
      'Dict(x=d, y=d)': lambda d: P.Dict(x=d, y=d), 'Dict({x: d, y: [d, d]})': lambda d: P.Dict({'x': d, 'y': [d, d]}),
      'List([d, d])': lambda d: P.List([d, d]), 'List([d, [d], {k: d}])': lambda d: P.List([d, [d], {'k': d}]),
      'Dict().rebind(x=d, y=d)': lambda d: P.Dict().rebind({'x': d, 'y': d}), 'Object().rebind(x=d, y=d)': lambda d: A().rebind(x=d, y=d),
      'List().extend([d, d])': lambda d: (lambda l: (l.extend([d, d]), l)[1])(P.List()),
      'Dict().update(x=d, y=d)': lambda d: (lambda x: (x.update({'x': d, 'y': d}), x)[1])(P.Dict()),
  }
  n = 0
  for name, make in makers.items():
    for parented in (False, True):
      d = node(parented)
      try:
        v = make(d)
      except Exception as e:       # pylint: disable=broad-except
        ctx.hit('C01/construction-raises/%s/-' % name, '%s raises %s' % (name, type(e).__name__), dict(kind='construction', name=name, parented=parented))
        continue
      n += 1
      ctx.evaluations += 1
      impl = D.Impl(); impl.roots.append(v)
      if not parented:
        pass        # d itself is in the tree (or a copy of it); nothing else is held
      for clause, what in check_forest(impl):
        ctx.hit('C01/%s/%s/%s' % (clause, name.split('(')[0] + '-construction', 'same-node-twice'),
                '%s with the same %s node for several places: %s' % (name, 'parented' if parented else 'parentless', what),
                dict(kind='construction', name=name, parented=parented))
        break
  ctx.extra['construction_sweep'] = dict(oracle_only=True, cases=n, what='the same node handed twice to one constructor / rebind / extend / update, parentless and parented')

def ref_cases():
  """(name, script) — script(P, A) returns (roots the user holds, extra checks [(ok, what)])."""
  P = D.pg()
  A, B, C = D.classes()
  def containers():
    # (label, make) -> (root, container): the container a value is written into, as root and nested
    yield 'dict-root', lambda: (lambda d: (d, d))(P.Dict(a=1))
    yield 'dict-nested', lambda: (lambda o: (o, o.c))(P.Dict(c=P.Dict(a=1)))
    yield 'list-root', lambda: (lambda l: (l, l))(P.List([1, P.Dict(b=2)]))
    yield 'list-nested', lambda: (lambda o: (o, o.c))(P.Dict(c=[1, P.Dict(b=2)]))
    yield 'object-root', lambda: (lambda a: (a, a))(A(x=1))
    yield 'object-nested', lambda: (lambda o: (o, o[0]))(P.List([A(x=1)]))
  def writers(c):
    if isinstance(c, P.List):
      yield 'setitem', lambda v: c.__setitem__(0, v)
      yield 'append', lambda v: c.append(v)
      yield 'insert', lambda v: c.insert(0, v)
      yield 'extend', lambda v: c.extend([7, v])
      yield 'slice-assign', lambda v: c.__setitem__(slice(0, 1), [v, 8])
      yield 'rebind', lambda v: c.rebind({0: v})
      yield 'iadd', lambda v: c.__iadd__([v])
    elif isinstance(c, P.Dict):
      yield 'setitem', lambda v: c.__setitem__('x', v)
      yield 'setattr', lambda v: setattr(c, 'x', v)
      yield 'update', lambda v: c.update({'x': v})
      yield 'setdefault', lambda v: c.setdefault('x', v)
      yield 'rebind', lambda v: c.rebind(x=v)
      yield 'ior', lambda v: c.__ior__({'x': v})
    else:
      yield 'rebind', lambda v: c.rebind(x=v)
      yield 'rebind-y', lambda v: c.rebind(y=v)
  targets = ['container', 'root', 'child', 'other', 'other-child', 'plain-list']
  refs = ['fresh', 'parented']
  for cl, mk in containers():
    root0, c0 = mk()
    for wl, _ in writers(c0):
      for tg in targets:
        for rf in refs:
          yield dict(kind='ref', container=cl, writer=wl, target=tg, ref=rf)

def run_ref_case(case):
  """Returns a list of (clause, what).  The referenced value must keep its place, the reference must report the place it is stored at (or none)."""
  P = D.pg()
  A, B, C = D.classes()
  mk = {'dict-root': lambda: (lambda d: (d, d))(P.Dict(a=1)), 'dict-nested': lambda: (lambda o: (o, o.c))(P.Dict(c=P.Dict(a=1))),
        'list-root': lambda: (lambda l: (l, l))(P.List([1, P.Dict(b=2)])), 'list-nested': lambda: (lambda o: (o, o.c))(P.Dict(c=[1, P.Dict(b=2)])),
        'object-root': lambda: (lambda a: (a, a))(A(x=1)), 'object-nested': lambda: (lambda o: (o, o[0]))(P.List([A(x=1)]))}[case['container']]
  root, c = mk()
  other = P.Dict(k=P.Dict(m=1))
  if case['target'] == 'container': tgt = c
  elif case['target'] == 'root': tgt = root
  elif case['target'] == 'child':
    kids = [v for _, v in c.sym_items() if D.is_sym(v)]
    tgt = kids[0] if kids else c
  elif case['target'] == 'other': tgt = other
  elif case['target'] == 'other-child': tgt = other.k
  else: tgt = [1, 2]
  r = P.Ref(tgt)
  holder = None
  if case['ref'] == 'parented':
    holder = P.Dict(h=r)
  tp, tpath = (tgt.sym_parent, tgt.sym_path) if D.is_sym(tgt) else (None, None)
  w = case['writer']
  if isinstance(c, P.List):
    fn = {'setitem': lambda v: c.__setitem__(0, v), 'append': lambda v: c.append(v), 'insert': lambda v: c.insert(0, v), 'extend': lambda v: c.extend([7, v]),
          'slice-assign': lambda v: c.__setitem__(slice(0, 1), [v, 8]), 'rebind': lambda v: c.rebind({0: v}), 'iadd': lambda v: c.__iadd__([v])}[w]
  elif isinstance(c, P.Dict):
    fn = {'setitem': lambda v: c.__setitem__('x', v), 'setattr': lambda v: setattr(c, 'x', v), 'update': lambda v: c.update({'x': v}),
          'setdefault': lambda v: c.setdefault('x', v), 'rebind': lambda v: c.rebind(x=v), 'ior': lambda v: c.__ior__({'x': v})}[w]
  else:
    fn = {'rebind': lambda v: c.rebind(x=v), 'rebind-y': lambda v: c.rebind(y=v)}[w]
  exc = None
  try:
    fn(r)
  except Exception as e:      # pylint: disable=broad-except
    exc = e
  hits = []
  impl = D.Impl()
  impl.roots.extend([root, other])
  if holder is not None:
    impl.roots.append(holder)
  stored = []
  D.walk(root, lambda x, p, k: stored.append(x) if isinstance(x, P.Ref) else None)
  if not any(x is r for x in stored) and holder is None:
    impl.roots.append(r)          # the user still holds the reference object: it is not in any tree, so it must say so
  hits.extend(check_forest(impl))
  if D.is_sym(tgt) and (tgt.sym_parent is not tp or tgt.sym_path != tpath):
    hits.append(('referenced-value-moved', 'the referenced value changed its parent / path (%r -> %r)' % (str(tpath), str(tgt.sym_path))))
  for x in stored:
    if x.value is not tgt:
      hits.append(('reference-retargeted', 'the stored reference points to another object'))
  if exc is None and not stored:
    hits.append(('reference-lost', 'the write returned but no reference is stored'))
  if exc is not None and not isinstance(exc, NotImplementedError):
    hits.append(('reference-raises', 'the write raises %s' % type(exc).__name__))
  if holder is not None and (holder.sym_getattr('h') is not r or r.sym_parent is not holder):
    hits.append(('reference-stolen', 'the reference held by another tree was moved instead of copied'))
  # a deep copy of the tree holds fresh references to the same object
  try:
    cp = root.clone(deep=True)
    cimpl = D.Impl(); cimpl.roots.extend([root, cp])
    hits.extend(check_forest(cimpl))
    crefs = []
    D.walk(cp, lambda x, p, k: crefs.append(x) if isinstance(x, P.Ref) else None)
    if len(crefs) != len(stored) or any(x.value is not tgt for x in crefs) or any(any(x is y for y in stored) for x in crefs):
      hits.append(('reference-copy', 'the deep copy does not hold fresh references to the same object'))
  except Exception as e:        # pylint: disable=broad-except
    hits.append(('reference-copy', 'deep copy raises %s' % type(e).__name__))
  return hits, exc

def ref_sweep(ctx):
  """pg.Ref values (oracle only: the model has no reference nodes): written through every write path of every container kind."""
  n = refused = 0
  for case in ref_cases():
    hits, exc = run_ref_case(case)
    n += 1
    refused += exc is not None
    ctx.evaluations += 1
    for clause, what in hits:
      ctx.hit('C01/%s/Ref-write/%s' % (clause, 'stored' if exc is None else 'refused'),
              'pg.Ref(%s) [%s] written into %s by %s%s: %s' % (case['target'], case['ref'], case['container'], case['writer'],
                                                               ' (refused: %s)' % type(exc).__name__ if exc is not None else '', what), case)
      break
  ctx.extra['ref_sweep'] = dict(oracle_only=True, cases=n, refused_self_reference=refused,
                                what='pg.Ref to the container / its root / its child / another tree / a child of another tree / a plain list, fresh and already held by '
                                     'another tree, written by every write path of Dict / List / Object (root and nested); integrity walk incl. the reference object '
                                     'the user still holds after a refused write; the referenced value keeps its place; deep copies hold fresh references to the same object')

def replay_ref(c):
  hits, _ = run_ref_case(c)
  return not hits

# ----------------------------------------------------------------------------------------------------
# Producers of trees (oracle only, every run): every way a tree comes into being -- constructors, clone shallow / deep, copy.copy / copy.deepcopy,
# from_json(to_json()), from_json_str(to_json_str()) -- for every root kind x nested kinds (Dict / List / Object below each other, depth 1-3 below
# the root; the innermost container holds a symbolic child and a leaf), followed by the full integrity walk (incl. the attribute-container clause)
# on the RESULT, then by follow-up writes into every node of the produced tree (a new symbolic child; moving an existing child to another key /
# position; taking a node out and putting it into a fresh container), with the walk after each.
def _producer_shapes(max_len):
  import itertools
  for n in range(2, max_len + 1):
    for seq in itertools.product('DLO', repeat=n):
      yield ''.join(seq)

def _build_shape(seq):
  P = D.pg()
  A, B, C = D.classes()
  def mk(i):
    inner = mk(i + 1) if i + 1 < len(seq) else P.Dict(leaf=1, n=P.Dict(z=0))
    k = seq[i]
    if k == 'D': return P.Dict(a=1, c=inner, s=P.List([2]))
    if k == 'L': return P.List([1, inner, P.Dict(b=2)])
    return B(x=inner, y=P.List([P.Dict(q=3)]), z=4)
  return mk(0)

def _producers():
  import copy as _copy
  P = D.pg()
  return {
      'constructor': lambda v: v,
      'clone()': lambda v: v.clone(),
      'clone(deep=True)': lambda v: v.clone(deep=True),
      'copy.copy': _copy.copy,
      'copy.deepcopy': _copy.deepcopy,
      'from_json(to_json())': lambda v: P.from_json(v.to_json()),
      'from_json_str(to_json_str())': lambda v: P.from_json_str(v.to_json_str()),
      'from_json(to_json(), allow_partial=True)': lambda v: P.from_json(v.to_json(), allow_partial=True),
  }

def run_producer_case(case):
  """Returns [(clause, what)] (first failure)."""
  P = D.pg()
  v0 = _build_shape(case['shape'])
  try:
    t = _producers()[case['producer']](v0)
  except Exception as e:      # pylint: disable=broad-except
    return [('producer-raises', '%s of shape %s raises %s: %s' % (case['producer'], case['shape'], type(e).__name__, str(e)[:120]))]
  impl = D.Impl(); impl.roots.append(t)
  if t is not v0:
    impl.roots.append(v0)        # the source stays a well-formed tree of its own
  h = check_forest(impl)
  if h:
    return [(h[0][0], 'right after %s of a tree of shape %s: %s' % (case['producer'], case['shape'], h[0][1]))]
  nodes = []
  D.walk(t, lambda n, p, k: nodes.append(n))
  step = 0
  with P.as_sealed(False), P.allow_writable_accessors(True):
    for n in nodes:
      writes = []
      if isinstance(n, P.List):
        writes = [('append(new Dict)', lambda n=n: n.append(P.Dict(nw=P.Dict(z=1)))), ('insert(0, leaf)', lambda n=n: n.insert(0, 7)),
                  ('l[-1] = l[1] (copy of a sibling)', lambda n=n: n.__setitem__(-1, n[1]) if len(n) > 1 else None)]
      elif isinstance(n, P.Dict):
        writes = [('d[new] = new Dict', lambda n=n: n.__setitem__('nw', P.Dict(z=P.List([1])))),
                  ('d[moved] = d.pop(first symbolic child)', lambda n=n: (lambda ks: n.__setitem__('moved', n.pop(ks[0])) if ks else None)([k for k, v in n.sym_items() if D.is_sym(v)]))]
      else:
        writes = [('rebind(y=new List of Dict)', lambda n=n: n.rebind(y=[P.Dict(nw=1)])), ('rebind(x=new Object)', lambda n=n: n.rebind(x=type(n)(x=P.Dict(deep=1))))]
      for wname, w in writes:
        step += 1
        try:
          w()
        except Exception as e:    # pylint: disable=broad-except
          return [('follow-up-raises', 'after %s of shape %s, %s on the node at %r raises %s' % (case['producer'], case['shape'], wname, str(n.sym_path), type(e).__name__))]
        h = check_forest(impl)
        if h:
          return [(h[0][0], 'after %s of a tree of shape %s, follow-up write #%d %s into the %s at %r: %s' % (
              case['producer'], case['shape'], step, wname, type(n).__name__, str(n.sym_path), h[0][1]))]
    # take every depth-1 node out and put it into a fresh container: it must arrive well-formed
    for k, v in list(t.sym_items()):
      if D.is_sym(v):
        holder = P.Dict()
        holder['h'] = v           # has a parent: a copy is stored
        himpl = D.Impl(); himpl.roots.extend([holder, t])
        h = check_forest(himpl)
        if h:
          return [(h[0][0], 'after %s of shape %s, storing the child %r into a fresh Dict: %s' % (case['producer'], case['shape'], k, h[0][1]))]
  return []

def producer_sweep(ctx):
  import time
  t0 = time.time()
  n = 0
  for shape in _producer_shapes(ctx.scale(3, 4)):
    for prod in _producers():
      case = dict(kind='producer', shape=shape, producer=prod)
      n += 1
      ctx.evaluations += 1
      for clause, what in run_producer_case(case):
        ctx.hit('C01/%s/%s/%s' % (clause, 'producer:' + prod.split('(')[0], 'root-%s' % {'D': 'Dict', 'L': 'List', 'O': 'Object'}[shape[0]]), what, case)
  ctx.extra['producer_sweep'] = dict(oracle_only=True, cases=n, producers=sorted(_producers()),
                                     what='every producer of trees x every nesting of Dict / List / Object (root + %d levels): integrity walk (incl. attribute containers) on the result, '
                                          'then follow-up writes into every node of the result (new children, moved children, copies of siblings, re-homing a child) with the walk after each' % (ctx.scale(3, 4) - 1))
  ctx.log('producer sweep (oracle only): %d cases in %.1fs' % (n, time.time() - t0))

def replay_producer(c):
  return not run_producer_case(c)

# ----------------------------------------------------------------------------------------------------
# Arguments that are elements of the TARGET CONTAINER ITSELF (oracle only, every run): own child at the same / another position handed to insert /
# item assignment / rebind (plain and pg.Insertion) / slice assignment / extend / append / += of a List, to item assignment / update / setdefault /
# rebind of a Dict, to rebind of an Object -- with every index class (every negative index, the own position, other positions, past the end,
# before the start), as root and nested, with and without change notification.  After the operation: the integrity walk (no node object twice,
# parent / path exact; elements that are no longer stored are roots), then a follow-up write into the element at the written position, the walk,
# a follow-up delete of that position, the walk.
def own_element_cases():
  for where in ('root', 'nested'):
    for notify in (True, False):
      for n in (3, 4):
        for j in range(n):
          for i in range(-n - 1, n + 2):
            for op in ('insert', 'rebind-insertion', 'setitem', 'rebind'):
              yield dict(kind='own', container='List', where=where, notify=notify, n=n, src=j, idx=i, op=op)
          for op in ('append', 'extend', 'iadd'):
            yield dict(kind='own', container='List', where=where, notify=notify, n=n, src=j, idx=None, op=op)
          for a in range(0, n + 1):
            for b in (a, a + 1):
              yield dict(kind='own', container='List', where=where, notify=notify, n=n, src=j, idx=[a, b], op='slice')
      for src in ('a', 'b'):
        for dst in ('a', 'b', 'new'):
          for op in ('setitem', 'update', 'setdefault', 'rebind', 'ior'):
            yield dict(kind='own', container='Dict', where=where, notify=notify, n=2, src=src, idx=dst, op=op)
      for src in ('x', 'y'):
        for dst in ('x', 'y', 'z'):
          yield dict(kind='own', container='Object', where=where, notify=notify, n=3, src=src, idx=dst, op='rebind')

def run_own_case(c):
  P = D.pg()
  A, B, C = D.classes()
  def elem(t): return P.Dict(tag=t, sub=P.List([P.Dict(k=t)]))
  if c['container'] == 'List':
    tgt = P.List([elem(t) for t in range(c['n'])])
  elif c['container'] == 'Dict':
    tgt = P.Dict(a=elem(0), b=elem(1))
  else:
    tgt = B(x=elem(0), y=elem(1), z=None)
  root = tgt if c['where'] == 'root' else P.Dict(h=P.List([7, tgt]))
  held = [v for _, v in tgt.sym_items() if D.is_sym(v)]
  src = tgt[c['src']] if c['container'] != 'Object' else tgt.sym_getattr(c['src'])
  i, op = c['idx'], c['op']
  def do():
    if c['container'] == 'List':
      if op == 'insert': tgt.insert(i, src)
      elif op == 'rebind-insertion': tgt.rebind({i: P.Insertion(src)})
      elif op == 'setitem': tgt[i] = src
      elif op == 'rebind': tgt.rebind({i: src})
      elif op == 'append': tgt.append(src)
      elif op == 'extend': tgt.extend([src, 5])
      elif op == 'iadd': tgt.__iadd__([src])
      elif op == 'slice': tgt[i[0]:i[1]] = [src, 9]
    elif c['container'] == 'Dict':
      if op == 'setitem': tgt[i] = src
      elif op == 'update': tgt.update({i: src})
      elif op == 'setdefault': tgt.setdefault(i, src)
      elif op == 'rebind': tgt.rebind({i: src})
      elif op == 'ior': tgt.__ior__({i: src})
    else:
      tgt.rebind({i: src})
  exc = None
  try:
    with (P.notify_on_change(False) if not c['notify'] else _nullctx()), D.watchdog(10):
      do()
  except BaseException as e:      # pylint: disable=broad-except
    exc = e
    if isinstance(e, D.Hang):
      return [('cycle', 'the operation does not return')]
  def walk_all(stage):
    impl = D.Impl(); impl.roots.append(root)
    stored = set()
    D.walk(root, lambda x, p, k: stored.add(id(x)))
    for v in held:
      if id(v) not in stored:
        impl.roots.append(v)        # an element the operation replaced / removed: the user still holds it
    h = check_forest(impl)
    return [(h[0][0], '%s: %s' % (stage, h[0][1]))] if h else []
  desc = '%s.%s(%s, own element #%s)%s' % (c['container'], op, i, c['src'], ' raised %s' % type(exc).__name__ if exc else '')
  h = walk_all('after ' + desc)
  if h: return h
  if exc is not None:
    return []
  # follow-up write into the element now stored at the written position, then delete it
  try:
    if c['container'] == 'List' and len(tgt):
      k = (i if isinstance(i, int) else i[0] if isinstance(i, list) else len(tgt) - 1)
      k = max(min(k if k >= 0 else k + len(tgt) - (1 if op in ('insert', 'rebind-insertion') else 0), len(tgt) - 1), 0)
      e = tgt[k]
      if D.is_sym(e):
        others = [deep_view_c01(v) for v in tgt if v is not e]
        e['written'] = P.Dict(w=1)
        if [deep_view_c01(v) for v in tgt if v is not e] != others:
          return [('two-places', 'after %s, writing into the element at [%d] changed another element of the list' % (desc, k))]
      h = walk_all('after %s and a write into the element at [%d]' % (desc, k))
      if h: return h
      if D.is_sym(e) and all(v is not e for v in held): held.append(e)
      del tgt[k]
      h = walk_all('after %s, a write into and the deletion of the element at [%d]' % (desc, k))
      if h: return h
    elif c['container'] == 'Dict' and i in tgt:
      e = tgt[i]
      if D.is_sym(e):
        e['written'] = P.Dict(w=1)
        if all(v is not e for v in held): held.append(e)
      h = walk_all('after %s and a write into the element at %r' % (desc, i))
      if h: return h
      del tgt[i]
      h = walk_all('after %s, a write into and the deletion of %r' % (desc, i))
      if h: return h
    elif c['container'] == 'Object':
      e = tgt.sym_getattr(i)
      if D.is_sym(e):
        e['written'] = P.Dict(w=1)
        if all(v is not e for v in held): held.append(e)
      tgt.rebind({i: None}, raise_on_no_change=False)
      h = walk_all('after %s, a write into and the replacement of %r' % (desc, i))
      if h: return h
  except BaseException as e2:     # pylint: disable=broad-except
    return [('follow-up-raises', 'after %s the follow-up write / delete raises %s: %s' % (desc, type(e2).__name__, str(e2)[:100]))]
  return []

import contextlib as _clx
def _nullctx(): return _clx.nullcontext()
def deep_view_c01(x):
  if D.is_sym(x): return (type(x).__name__, [(repr(k), deep_view_c01(v)) for k, v in D.sym_children(x)])
  return repr(x)

def own_element_sweep(ctx):
  import time
  t0 = time.time()
  n = 0
  for c in own_element_cases():
    if not ctx.thorough and c['container'] == 'List' and c['n'] == 4 and c['op'] in ('setitem', 'rebind', 'slice') and not c['notify']:
      continue
    n += 1
    ctx.evaluations += 1
    for clause, what in run_own_case(c):
      idx = c['idx']
      cls = 'n/a' if not isinstance(idx, int) else 'negative' if idx < 0 else 'past-end' if idx >= c['n'] else 'own-position' if idx == c['src'] else 'other-position'
      ctx.hit('C01/%s/%s.%s-own-element/%s' % (clause, c['container'], c['op'], cls), what, c)
  ctx.extra['own_element_sweep'] = dict(oracle_only=True, cases=n, what='elements of the target container itself as arguments of insert / Insertion-rebind / item assignment / rebind / slice assignment / '
                                        'append / extend / += (List), item assignment / update / setdefault / rebind / |= (Dict), rebind (Object); every index from -n-1 to n+1; root and nested; '
                                        'with / without notification; integrity walk, follow-up write into the written element, delete, walk')
  ctx.log('own-element sweep (oracle only): %d cases in %.1fs' % (n, time.time() - t0))

def replay_construction(c):
  class Ctx:
    hits = []
    extra = {}
    evaluations = 0
    def hit(self, sig, what, case):
      if case.get('name') == c.get('name') and case.get('parented') == c.get('parented'): self.hits.append(sig)
  x = Ctx(); construction_sweep(x)
  return not x.hits

def slice_sweep(ctx):
  construction_sweep(ctx)
  ref_sweep(ctx)
  producer_sweep(ctx)
  own_element_sweep(ctx)
  import time
  from harness.props import symcore_gen as G
  t0 = time.time()
  ns = ctx.scale([5], [3, 5, 6])
  steps = ctx.scale([None, 2, -2, 3], [None, 1, 2, 3, -1, -2, -3])
  n = 0
  for kind, case in slice_cases(ns, steps, full=ctx.thorough):
    _run_oracle_only(ctx, [case[0], case[1], case[2]], kind)
    n += 1
  # random histories that mix slice operations with everything else
  g = G.Gen(ctx.rng, cycles=True, slices=True)
  m = ctx.scale(300, 3000)
  for _ in range(m):
    _run_oracle_only(ctx, g.case(10), 'random-history')
  ctx.extra['slice_sweep'] = dict(oracle_only=True, systematic_cases=n, random_histories=m,
                                  what='del / set / get of every slice (start, stop in -n-1..n+1 or absent; steps %s) on lists of %s symbolic children with sub-trees, '
                                       'as root and nested, with and without change notification, followed by append / l[-1] = l[0] / l[0] = l[1] / insert(1, l[0]); '
                                       'plus random histories mixing slice operations with the whole catalogue; integrity walk after every step' % (steps, ns))
  ctx.log('slice sweep (oracle only): %d systematic cases + %d random histories in %.1fs' % (n, m, time.time() - t0))

def replay(ctx, rp):
  if isinstance(rp.get('case'), dict) and rp['case'].get('kind') == 'construction':
    return replay_construction(rp['case'])
  if isinstance(rp.get('case'), dict) and rp['case'].get('kind') == 'ref':
    return replay_ref(rp['case'])
  if isinstance(rp.get('case'), dict) and rp['case'].get('kind') == 'producer':
    return replay_producer(rp['case'])
  if isinstance(rp.get('case'), dict) and rp['case'].get('kind') == 'own':
    return not run_own_case(rp['case'])
  return D.replay_property(ctx, rp, Oracle)

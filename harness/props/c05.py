"""C05 — serialization and persistence round trip: what is saved is what is loaded."""
import copy, json, math, os, pickle, shutil, struct, sys, traceback
from harness.lib import tr as trlib
from harness.lib.common import REPO, WORK
from harness.translators import json_fields

META = dict(
    id='C05',
    model_run='PG.Model.JsonRun.run',
    model_targets=['Model/Json.vo', 'Model/JsonText.vo', 'Model/JsonOpts.vo', 'Model/MemFS.vo', 'Model/MemSeq.vo', 'Model/JsonRun.vo'],
    technique=('Coq proofs over executable models of (1) symbolic to_json/from_json and the int-key encoding of the string form, '
               '(2) the JSON text layer (json.dumps / json.loads), (3) the keyword tables of value specs / key specs / Field / Schema, regenerated from the source by a fail-closed translator, '
               '(4) the in-memory file system with pg.save/pg.load and line sequences on it, (5) in-memory record sequences; '
               'differential correspondence of each model against the implementation on generated values, texts and histories; '
               'direct oracle (pg.eq / type / pg.hash / value specs / tree well-formedness / last-write-wins dictionary) on both file systems, pickle and deepcopy'),
    design_ref='DESIGN.md §5 C05',
    instance_obligations=['generated_tables_ok (Proofs/JsonFieldsInstance.v: table_ok Gen.JsonFields.classes = true by vm_compute, re-checked on the keyword tables regenerated from the current value_specs.py / class_schema.py / key_specs.py)'],
    level_text=('Theorems: from_json (to_json v) = v and from_json_str (to_json_str v) = v for every value outside the reserved encodings (each reservation has a refuted witness), with the JSON text layer '
                'itself modelled and json.loads (json.dumps j) = j proved (for finite floats only their repr/float() round trip is assumed; nothing is assumed for values without finite floats); '
                'to_json with hide_default_values / hide_frozen followed by from_json gives the value back for every option combination (members left out are exactly the class defaults; base.eq modelled as Python ==); '
                'to_json is injective; for every class whose to_json goes through to_json_dict(exclude_default=True) the regenerated keyword table is checked and the drop-defaults / cls(kwargs) round trip is proved; '
                'on the in-memory file system, for every history of save / write / append / rm / mkdirs / line-sequence operations over arbitrary path strings, reading a path returns exactly the text of the last '
                'successful write to a path with the same components (refinement to a last-writer map; pure form over prefix-free path families where every save succeeds), and pg.load returns the last value saved; '
                'record sequences return exactly the records appended since the last truncating open. '
                'Tie: the models are run against the implementation on every generated value (all shapes, depth <= 4, int / bool / reserved keys, special floats, control and astral characters), on JSON texts '
                '(other spellings and damaged texts) and on every generated history (look-alike paths under /mem/); the keyword tables are regenerated from the source on every run; the oracle evaluates the property '
                'text on the real objects, including the standard file system, pickle, deepcopy, classes, functions, random value specs, schemas, DNA specs and DNA.'),
    level_note=('Trusted: Coq kernel; extraction (ExtrOcamlBasic) cross-checked against vm_compute; the harness conversion between Python values and the wire trees; the translator harness/translators/json_fields.py; '
                'the hand-written whitelist never_default of Model/JsonFields.v (constructor arguments that can never equal their exclusion constant). '
                'Assumed: float repr / float() round trip for the finite floats of a value (per-value hypothesis floats_ok). '
                'Not modelled (oracle only): the operating-system file system, pickle, copy.deepcopy, to_json of classes / functions / DNASpec / DNA, typed fields of pg.Object, the values inside value specs.'),
    rule=('a case is a value (wire tree) x conversion kind, a JSON tree x decoding kind, a file-system history or a sequence history; distinct by the complete input; '
          'non-trivial when the value has a container or a non-ASCII/control character or special float, a history has at least one successful write followed by a read'),
    trusted_base=['extraction: ExtrOcamlBasic only; ocaml/main.ml lexer/printer; cross-checked against vm_compute on a sample',
                  'harness/props/c05.py converts Python values / JSON objects / file trees to wire trees (py_to_pv, json_to_jv, dump_memfs)'],
    assumptions=['float repr / float(): for the finite floats m/2^e occurring in a value, float_repr m e is a number token that is not an int token and parse_float_tok reads it back (Proofs/JsonTextProofs.v floats_ok); '
                 'everything else of json.dumps / json.loads is modelled (Model/JsonText.v) and compared with Python\'s json on generated texts',
                 'Python int() accepts more spellings than the model\'s parse_int ([+-]?[0-9]+): blanks, underscores, non-ASCII digits; they occur only after the reserved key prefix n_:'],
)

# ------------------------------------------------------------------------------------------------
# lazily imported implementation
_PG = {}
def pg():
  if 'pg' not in _PG:
    import pyglove as _pg
    _PG['pg'] = _pg
    _define_classes(_pg)
  return _PG['pg']

_CLASS_SRC = """
class CA(pg.Object):
  x: pg.typing.Any()
  y: pg.typing.Any()
class CB(pg.Object):
  pass
class CC(pg.Object):
  z: pg.typing.Any()
# typed classes: oracle only
class CT(pg.Object):
  i: int
  l: pg.typing.List(pg.typing.Int(), default=[])
  d: pg.typing.Dict([('p', pg.typing.Int(default=1)), ('q', pg.typing.Str().noneable())])
  f: pg.typing.Float(default=0.5)
  k: pg.typing.Int().freeze(7)
  t: pg.typing.Tuple([pg.typing.Int(), pg.typing.Str()]).noneable()
  u: pg.typing.Union([pg.typing.Int(), pg.typing.Str(), pg.typing.Bool()], default=0)
  o: pg.typing.Object(CA).noneable()
  e: pg.typing.Enum('a', ['a', 'b', 3])
class CD(pg.Object):
  m: pg.typing.Dict([(pg.typing.StrKey(), pg.typing.Int())])
  n: pg.typing.List(pg.typing.Object(CT), default=[])
# classes with defaults and a frozen field whose values stay inside the model (Model/JsonOpts.v)
class MI(pg.Object):
  x: pg.typing.Any(default=1)
  y: pg.typing.Any(default='a')
class MO(pg.Object):
  n: pg.typing.Any(default=None)
  s: pg.typing.Any(default=5)
  a: pg.typing.Any(default=MI())
  b: pg.typing.Any(default=MI(x=7))
  le: pg.typing.Any(default=[])
  ln: pg.typing.Any(default=[MI(x=7)])
  d: pg.typing.Any(default={'p': 1, 'q': 2})
  t: pg.typing.Any(default=(0, 'z'))
  z: pg.typing.Int().freeze(7)
  r: pg.typing.Any()
# classes whose fields have defaults of every kind: the serialization-option sweep
class OI(pg.Object):
  x: int = 1
  y: str = 'a'
class OE(pg.Object):
  pass
class OO(pg.Object):
  n: pg.typing.Object(OI).noneable()                                     # default None
  s: int = 5                                                             # scalar default
  a: pg.typing.Object(OI, default=OI())                                  # default: the all-default instance
  b: pg.typing.Object(OI, default=OI(x=7))                               # default: a non-default instance
  le: pg.typing.List(pg.typing.Object(OI), default=[])                   # default: empty list
  ln: pg.typing.List(pg.typing.Object(OI), default=[OI(x=7)])            # default: non-empty list
  li: pg.typing.List(pg.typing.Int(), default=[1, 2])
  d: pg.typing.Dict([('p', pg.typing.Int(default=1)), ('q', pg.typing.Object(OI).noneable())])   # default generated from the schema
  dn: pg.typing.Dict([('p', pg.typing.Int(default=1))]).noneable()       # dict, default None
  da: pg.typing.Dict(default={'k': 1})                                   # free-form dict with a non-empty default
  y: pg.typing.Any(default=OI(x=3))
  e: pg.typing.Object(OE).noneable()                                     # a class without members, default None
  t: pg.typing.Tuple([pg.typing.Int(), pg.typing.Object(OI)], default=(0, OI()))
  u: pg.typing.Union([pg.typing.Int(), pg.typing.Object(OI), pg.typing.List(pg.typing.Int())], default=0)
  z: pg.typing.Int().freeze(7)
  r: pg.typing.Any()                                                     # required
"""

def _define_classes(pg_):
  # module-level classes (pickle and the class/function serializers look them up by module + qualified name)
  g = globals()
  ns = dict(pg=pg_, __name__=__name__)
  exec(compile(_CLASS_SRC, __file__ + ':classes', 'exec'), ns)
  for n in ('CA', 'CB', 'CC', 'CT', 'CD', 'OI', 'OE', 'OO', 'MI', 'MO'):
    g[n] = ns[n]
  CA, CB, CC, CT, CD = (ns[n] for n in ('CA', 'CB', 'CC', 'CT', 'CD'))
  _PG['classes'] = dict(CA=CA, CB=CB, CC=CC)
  _PG['typed'] = dict(CT=CT, CD=CD, OI=ns['OI'], OE=ns['OE'], OO=ns['OO'])
  _PG['by_key'] = {c.__serialization_key__: c for c in (CA, CB, CC)}
  _PG['by_key_x'] = {c.__serialization_key__: c for c in (ns['MI'], ns['MO'])}
  _PG['fields'] = {CA.__serialization_key__: ['x', 'y'], CB.__serialization_key__: [], CC.__serialization_key__: ['z']}

def clean(s):
  """printable, encodable text (lone surrogates escaped)"""
  return s.encode('utf-8', 'backslashreplace').decode('utf-8')

def classtab():
  pg()
  return [[trlib.enc(k), [trlib.enc(f) for f in fs]] for k, fs in sorted(_PG['fields'].items())]

def S(s):
  return [ord(c) for c in s]
def unS(t):
  return ''.join(chr(c) for c in t)

# ------------------------------------------------------------------------------------------------
# wire trees <-> Python
def enc_float(x):
  if math.isnan(x): return [1]
  if math.isinf(x): return [2] if x > 0 else [3]
  if x == 0 and math.copysign(1.0, x) < 0: return [4]
  n, d = x.as_integer_ratio()
  return [0, n, d.bit_length() - 1]

def dec_float(t):
  if t[0] == 1: return float('nan')
  if t[0] == 2: return float('inf')
  if t[0] == 3: return float('-inf')
  if t[0] == 4: return -0.0
  return math.ldexp(t[1], -t[2])

def enc_key(k):
  if isinstance(k, bool): return [2, 1 if k else 0]
  if isinstance(k, int): return [1, k]
  if isinstance(k, str): return [0, S(k)]
  raise Unconvertible('key %r' % (k,))

def dec_key(t):
  if t[0] == 0: return unS(t[1])
  if t[0] == 1: return t[1]
  return bool(t[1])

class Unconvertible(Exception):
  pass

def py_to_pv(x):
  """A Python / symbolic value as the model's pv tree."""
  p = pg()
  if x is None: return [0]
  if isinstance(x, bool): return [1, 1 if x else 0]
  if isinstance(x, int): return [2, x]
  if isinstance(x, float): return [3, enc_float(x)]
  if isinstance(x, str): return [4, S(x)]
  if isinstance(x, p.Object):
    key = type(x).__serialization_key__
    if key not in _PG['by_key'] and key not in _PG['by_key_x']:
      raise Unconvertible(key)
    out = []
    for f in (_PG['fields'][key] if key in _PG['by_key'] else [str(k) for k in type(x).__schema__.keys()]):
      v = x.sym_getattr(f)
      if v == p.MISSING_VALUE:
        raise Unconvertible('partial')
      out.append([S(f), py_to_pv(v)])
    return [8, S(key), out]
  if isinstance(x, p.List):
    return [5, [py_to_pv(x.sym_getattr(i)) for i in range(len(x))]]
  if isinstance(x, list):
    return [5, [py_to_pv(e) for e in x]]
  if isinstance(x, tuple):
    return [6, [py_to_pv(e) for e in x]]
  if isinstance(x, p.Dict):
    return [7, [[enc_key(k), py_to_pv(v)] for k, v in x.sym_items()]]
  if isinstance(x, dict):
    return [7, [[enc_key(k), py_to_pv(v)] for k, v in x.items()]]
  raise Unconvertible(type(x).__name__)

def pv_to_py(t, symbolic=True):
  """Builds the Python value a pv tree denotes (symbolic containers unless symbolic=False)."""
  p = pg()
  tag = t[0]
  if tag == 0: return None
  if tag == 1: return bool(t[1])
  if tag == 2: return t[1]
  if tag == 3: return dec_float(t[1])
  if tag == 4: return unS(t[1])
  if tag == 5:
    items = [pv_to_py(e, symbolic) for e in t[1]]
    return p.List(items) if symbolic else items
  if tag == 6:
    return tuple(pv_to_py(e, symbolic) for e in t[1])
  if tag == 7:
    d = {dec_key(k): pv_to_py(v, symbolic) for k, v in t[1]}
    return p.Dict(d) if symbolic else d
  if tag == 8:
    name = unS(t[1])
    if name in _PG['by_key_x']:
      cls = _PG['by_key_x'][name]
      frozen = {str(k) for k, f in cls.__schema__.items() if f.frozen}
      return cls(**{unS(k): pv_to_py(v, symbolic) for k, v in t[2] if unS(k) not in frozen})
    cls = _PG['by_key'][name]
    return cls(**{unS(k): pv_to_py(v, symbolic) for k, v in t[2]})
  raise ValueError(t)

def json_to_jv(x):
  """A plain Python JSON object (as produced by to_json / json.loads) as the model's jv tree."""
  if x is None: return [0]
  if isinstance(x, bool): return [1, 1 if x else 0]
  if isinstance(x, int): return [2, x]
  if isinstance(x, float): return [3, enc_float(x)]
  if isinstance(x, str): return [4, S(x)]
  if isinstance(x, list): return [5, [json_to_jv(e) for e in x]]
  if isinstance(x, dict): return [7, [[enc_key(k), json_to_jv(v)] for k, v in x.items()]]
  raise Unconvertible(type(x).__name__)

def jv_to_json(t):
  tag = t[0]
  if tag == 0: return None
  if tag == 1: return bool(t[1])
  if tag == 2: return t[1]
  if tag == 3: return dec_float(t[1])
  if tag == 4: return unS(t[1])
  if tag == 5: return [jv_to_json(e) for e in t[1]]
  if tag == 7: return {dec_key(k): jv_to_json(v) for k, v in t[1]}
  raise ValueError(t)

ERR = {ValueError: 1, TypeError: 2, KeyError: 3, AssertionError: 4}
def err_code(e):
  if isinstance(e, json.JSONDecodeError):
    return 1
  for c, n in ERR.items():
    if type(e) is c:
      return n
  return 7

def attempt(f):
  """(0 pv) | (1 code) — the model's e_result."""
  try:
    v = f()
  except Exception as e:     # noqa: the outcome class is what is compared
    return [1, err_code(e)], e
  try:
    return [0, py_to_pv(v)], v
  except Unconvertible as e:
    return [1, 77], e

# ------------------------------------------------------------------------------------------------
# generators (all randomness from the rng handed in)
SPECIAL_STRS = ['__tuple__', '_type', 'n_:1', 'n_:', 'n_:x', 'n_:-3', 'n_:True', 'type', 'function', '', ' ', '\x00', '\n', '"', '\\', '\u2028',
                '\ud800', '\udfff', '\U0001F600', '\U0010FFFF', '\x7f', '\xe9', '\uffff', 'a.b', '[0]', 'null', 'NaN', 'true']
CP_CLASSES = [
    ('ascii', lambda r: r.choice('abcxyzABC_019 .:-')),
    ('control', lambda r: chr(r.choice(list(range(0, 32)) + [127]))),
    ('quote', lambda r: r.choice('"\\/\'')),
    ('latin1', lambda r: chr(r.randint(0x80, 0xff))),
    ('bmp', lambda r: chr(r.choice([0x100, 0x3b1, 0x2028, 0x2029, 0x4e2d, 0xfeff, 0xfffd, 0xfffe, 0xffff, r.randint(0x100, 0xd7ff)]))),
    ('surrogate', lambda r: chr(r.randint(0xd800, 0xdfff))),
    ('astral', lambda r: chr(r.choice([0x10000, 0x1f600, 0x10ffff, r.randint(0x10000, 0x10ffff)]))),
]

def has_surrogate_pair(s):
  cps = [ord(c) for c in s] if isinstance(s, str) else s
  return any(0xd800 <= a <= 0xdbff and 0xdc00 <= b <= 0xdfff for a, b in zip(cps, cps[1:]))

class ValueGen:
  def __init__(self, rng, hist=None, reserved_rate=0.06, empty_tuples=True):
    self.r = rng
    self.empty_tuples = empty_tuples
    self.hist = hist or (lambda *a: None)
    self.reserved_rate = reserved_rate
    self.keys = sorted(_PG['fields'])

  def string(self, allow_special=True):
    r = self.r
    if allow_special and r.random() < 0.15:
      return r.choice(SPECIAL_STRS)
    if allow_special and r.random() < self.reserved_rate / 4:
      return 'p\ud83d\ude00q'            # two code points that JSON text turns into one
    n = r.choice([0, 1, 1, 2, 3, 5, 8])
    out = []
    for _ in range(n):
      name, f = r.choice(CP_CLASSES) if r.random() < 0.5 else CP_CLASSES[0]
      self.hist('codepoint_class', name)
      out.append(f(r))
    return self.fix_pairs(''.join(out))

  def fix_pairs(self, s):
    """A high surrogate directly followed by a low one is a single character to json.loads (reserved in the
    string form); produced on purpose at the reserved rate, broken up otherwise."""
    if not has_surrogate_pair(s):
      return s
    if self.r.random() < self.reserved_rate:
      return s
    out = []
    for c in s:
      if out and 0xd800 <= ord(out[-1]) <= 0xdbff and 0xdc00 <= ord(c) <= 0xdfff:
        out.append('-')
      out.append(c)
    return ''.join(out)

  def plain_key_string(self):
    """a str key outside every reserved spelling"""
    while True:
      s = self.string(allow_special=False)
      if s != '_type' and not s.startswith('n_:'):
        return s

  def float_(self):
    r = self.r
    k = r.randrange(8)
    if k == 0:
      f = r.choice([float('nan'), float('inf'), float('-inf'), -0.0]); self.hist('float_class', 'special')
    elif k == 1:
      f = r.choice([0.0, 1.0, -1.0, 0.5, 1e300, -1e-300, 5e-324, 2.0 ** 53, 1.7976931348623157e308, 2.2250738585072014e-308, 0.1, 1 / 3]); self.hist('float_class', 'corner')
    elif k <= 3:
      f = struct.unpack('<d', struct.pack('<Q', r.getrandbits(64)))[0]; self.hist('float_class', 'random-bits')
    else:
      f = r.randint(-1000, 1000) / r.choice([1, 2, 4, 8, 1024, 10, 3]); self.hist('float_class', 'small')
    return [3, enc_float(f)]

  def int_(self):
    r = self.r
    k = r.randrange(6)
    if k == 0: return r.choice([0, 1, -1, 2 ** 31, -2 ** 63, 2 ** 64, 10 ** 30, -10 ** 25])
    if k == 1: return r.randint(-2 ** 70, 2 ** 70)
    return r.randint(-20, 20)

  def key(self, used):
    """a dict key not equal (as Python sees it) to one already used; mostly plain, sometimes reserved"""
    r = self.r
    for _ in range(20):
      x = r.random()
      if x < self.reserved_rate / 2:
        k = r.choice([True, False]); kind = 'bool'
      elif x < self.reserved_rate:
        k = r.choice(['_type', 'n_:1', 'n_:', 'n_:x', 'n_:-3', 'n_:00', 'n_:True', 'n_:+2']); kind = 'reserved-str'
      elif x < 0.35:
        k = self.int_(); kind = 'int'
      else:
        k = self.plain_key_string(); kind = 'str'
      if k not in used:
        used[k] = True
        self.hist('key_kind', kind)
        return k
    k = 'k%d' % len(used)
    used[k] = True
    return k

  def value(self, depth):
    r = self.r
    leaf = depth <= 0 or r.random() < 0.25
    if leaf:
      k = r.randrange(7)
      if k == 0: return [0]
      if k == 1: return [1, r.randrange(2)]
      if k == 2: return [2, self.int_()]
      if k == 3: return self.float_()
      if k == 4: return [4, S(self.string())]
      if k == 5: return [4, S(self.string())]
      return [2, self.int_()]
    k = r.randrange(9)
    n = r.choice([0, 1, 1, 2, 2, 3, 4])
    if k <= 1:      # list
      items = [self.value(depth - 1) for _ in range(n)]
      if items and r.random() < self.reserved_rate:
        items[0] = [4, S('__tuple__')]
      elif items and items[0] == [4, S('__tuple__')]:
        items[0] = [4, S('__tuple_')]         # the reserved spelling only at the reserved rate
      return [5, items]
    if k <= 3:      # tuple
      if n == 0 and not self.empty_tuples: n = 1
      return [6, [self.value(depth - 1) for _ in range(n)]]
    if k <= 6:      # dict
      used = {}
      return [7, [[enc_key(self.key(used)), self.value(depth - 1)] for _ in range(n)]]
    key = r.choice(self.keys)
    return [8, S(key), [[S(f), self.value(depth - 1)] for f in _PG['fields'][key]]]

def depth_of(t):
  if t[0] in (5, 6): return 1 + max([depth_of(e) for e in t[1]] + [0])
  if t[0] == 7: return 1 + max([depth_of(v) for _, v in t[1]] + [0])
  if t[0] == 8: return 1 + max([depth_of(v) for _, v in t[2]] + [0])
  return 0

def features(t, out):
  """input-distribution facts about a pv tree"""
  tag = t[0]
  out.add(['none', 'bool', 'int', 'float', 'str', 'list', 'tuple', 'dict', 'object'][tag])
  if tag == 3 and t[1][0] != 0: out.add('special-float')
  if tag == 4 and any(c < 32 or c == 127 for c in t[1]): out.add('control-char')
  if tag == 4 and any(c > 0xffff for c in t[1]): out.add('astral-char')
  if tag == 4 and any(0xd800 <= c <= 0xdfff for c in t[1]): out.add('lone-surrogate')
  if tag in (5, 6):
    if tag == 6 and not t[1]: out.add('empty-tuple')
    for e in t[1]: features(e, out)
  if tag == 7:
    for k, v in t[1]:
      out.add(['str-key', 'int-key', 'bool-key'][k[0]])
      features(v, out)
  if tag == 8:
    for _, v in t[2]: features(v, out)

# the reserved encodings, decided on the wire tree independently of the model (cross-checked with kind 6)
def reserved(t):
  """(object_form_reserved, has_empty_tuple, string_form_reserved) as lists of reasons"""
  obj, emp, st = [], [], []
  def go(t):
    tag = t[0]
    if tag == 4 and has_surrogate_pair(t[1]): st.append('surrogate-pair-in-string')
    if tag == 5:
      if t[1] and t[1][0] == [4, S('__tuple__')]: obj.append('list-starting-with-tuple-marker')
      for e in t[1]: go(e)
    elif tag == 6:
      if not t[1]: emp.append('empty-tuple')
      for e in t[1]: go(e)
    elif tag == 7:
      for k, v in t[1]:
        if k == [0, S('_type')]: obj.append('dict-key-_type')
        if k[0] == 0 and unS(k[1]).startswith('n_:'): st.append('str-key-with-int-key-prefix')
        if k[0] == 0 and has_surrogate_pair(k[1]): st.append('surrogate-pair-in-string')
        if k[0] == 2: st.append('bool-key')
        go(v)
    elif tag == 8:
      for _, v in t[2]: go(v)
  go(t)
  return obj, emp, st

# ------------------------------------------------------------------------------------------------
# the direct oracle on values: the property text on the real objects
def has_nan(t):
  if t[0] == 3: return t[1][0] == 1
  if t[0] in (5, 6): return any(has_nan(e) for e in t[1])
  if t[0] == 7: return any(has_nan(v) for _, v in t[1])
  if t[0] == 8: return any(has_nan(v) for _, v in t[2])
  return False

def wf_problems(x):
  """parent / path consistency of every symbolic node reachable through symbolic containers"""
  p = pg()
  bad = []
  def go(x, parent, path):
    if isinstance(x, p.Symbolic):
      if x.sym_parent is not parent:
        bad.append('node at %r has the wrong parent' % str(path))
      if x.sym_path != path:
        bad.append('node at %r reports path %r' % (str(path), str(x.sym_path)))
      for k, c in x.sym_items():
        go(c, x, p.KeyPath(k, path))
  go(x, None, x.sym_path if isinstance(x, p.Symbolic) else p.KeyPath())
  return bad

def spec_problems(a, b):
  """the loaded value is backed by the same value specs as the original (typed containers, schema)"""
  p = pg()
  bad = []
  def go(a, b, path):
    if isinstance(a, p.Symbolic) and isinstance(b, p.Symbolic):
      sa = getattr(a, 'value_spec', None) if isinstance(a, (p.List, p.Dict)) else None
      sb = getattr(b, 'value_spec', None) if isinstance(b, (p.List, p.Dict)) else None
      if (sa is None) != (sb is None) or (sa is not None and sa != sb):
        bad.append('value spec at %r: %r vs %r' % (path, sa, sb))
      ka, kb = list(a.sym_keys()), list(b.sym_keys())
      if ka != kb:
        bad.append('keys at %r: %r vs %r' % (path, ka, kb)); return
      for k in ka:
        go(a.sym_getattr(k), b.sym_getattr(k), '%s/%s' % (path, k))
  go(a, b, '')
  return bad

def same_value(v, w, tv=None):
  """pg.eq, with NaN equal to NaN (pg.eq(nan, nan) is False: an equality matter, not a serialization one)"""
  p = pg()
  if p.eq(v, w):
    return True
  try:
    return py_to_pv(v) == py_to_pv(w) and (tv is None or has_nan(tv))
  except Unconvertible:
    return False

def compare_loaded(v, rt, t, clause, symbolic_input=True):
  """[(signature, what)] for a loaded copy rt of v"""
  p = pg()
  out = []
  if not same_value(v, rt, t):
    out.append(('C05/%s/not-equal' % clause, 'the loaded value is not pg.eq to the original: %r vs %r' % (v, rt)))
    return out
  tv, tw = type(v), type(rt)
  if not symbolic_input:
    tv = {list: p.List, dict: p.Dict}.get(tv, tv)
  if tv is not tw:
    out.append(('C05/%s/type-differs' % clause, 'type %s became %s' % (tv.__name__, tw.__name__)))
  if t is None or not has_nan(t):
    try:
      hv = p.hash(v)
    except TypeError:
      hv = None
    if hv is not None:
      try:
        hw = p.hash(rt)
      except TypeError as e:
        hw = 'unhashable'
      if hv != hw:
        out.append(('C05/%s/hash-differs' % clause, 'pg.hash %r became %r' % (hv, hw)))
  if isinstance(rt, p.Symbolic):
    wf = wf_problems(rt)
    if wf:
      out.append(('C05/%s/ill-formed-tree' % clause, wf[0]))
  if symbolic_input:
    sp = spec_problems(v, rt)
    if sp:
      out.append(('C05/%s/value-spec-differs' % clause, sp[0]))
  return out

def discriminator(t):
  obj, emp, st = reserved(t)
  if emp: return 'empty-tuple'
  fs = set(); features(t, fs)
  for f in ('special-float', 'lone-surrogate', 'astral-char', 'control-char', 'bool-key', 'int-key', 'object', 'tuple', 'dict', 'list'):
    if f in fs: return f
  return 'leaf'

def value_oracle(t, symbolic=True):
  """Round trips through to_json/from_json, to_json_str/from_json_str, pickle and deepcopy."""
  p = pg()
  hits = []
  obj, emp, st = reserved(t)
  v = pv_to_py(t, symbolic)
  forms = []
  if not obj:
    forms.append(('object-form', lambda: p.from_json(p.to_json(v))))
    if not st:
      forms.append(('string-form', lambda: p.from_json_str(p.to_json_str(v))))
  for name, f in forms:
    try:
      rt = f()
    except Exception as e:
      hits.append(('C05/roundtrip/from_json-raises-%s/%s' % (type(e).__name__, discriminator(t)),
                   '%s round trip of %r raises %s: %s' % (name, v, type(e).__name__, str(e)[:120])))
      continue
    hits += compare_loaded(v, rt, t, 'roundtrip/' + name, symbolic)
  for name, f in (('pickle', lambda: pickle.loads(pickle.dumps(v))), ('deepcopy', lambda: copy.deepcopy(v))):
    try:
      rt = f()
    except Exception as e:
      hits.append(('C05/%s/raises-%s/%s' % (name, type(e).__name__, discriminator(t)), '%s of %r raises %s: %s' % (name, v, type(e).__name__, str(e)[:120])))
      continue
    for sig, what in compare_loaded(v, rt, t, name, True):
      if sig.endswith('type-differs') and not symbolic:
        continue
      hits.append((sig, what))
  return hits

# ------------------------------------------------------------------------------------------------
# implementation drivers for the JSON model
def impl_json(kind, payload, symbolic=True):
  p = pg()
  if kind in (0, 1, 2, 3, 6):
    v = pv_to_py(payload, symbolic)
  if kind == 0:
    return json_to_jv(p.to_json(v))
  if kind == 1:
    return attempt(lambda: p.from_json(p.to_json(v)))[0]
  if kind == 2:
    return json_to_jv(json.loads(p.to_json_str(v)))
  if kind == 3:
    return attempt(lambda: p.from_json_str(p.to_json_str(v)))[0]
  if kind == 4:
    return attempt(lambda: p.from_json(jv_to_json(payload)))[0]
  if kind == 5:
    return attempt(lambda: p.from_json_str(json.dumps(jv_to_json(payload))))[0]
  if kind == 6:
    obj, emp, st = reserved(payload)
    return [0 if obj else 1, 0 if emp else 1, 0 if st else 1]

def detect_quirks():
  """Replays the witness of every open finding that has a quirk flag in the model."""
  p = pg()
  q = 0
  try:
    ok = p.from_json(p.to_json(())) == ()
  except Exception:
    ok = False
  if not ok:
    q |= 1
  return q

def mutate_json(r, j, keys):
  """a JSON tree near the image of to_json: one random node replaced / one key changed"""
  def nodes(x, acc, path):
    acc.append(path)
    if x[0] == 5:
      for i, e in enumerate(x[1]): nodes(e, acc, path + [('l', i)])
    elif x[0] == 7:
      for i, (k, v) in enumerate(x[1]): nodes(v, acc, path + [('d', i)])
  acc = []; nodes(j, acc, [])
  path = r.choice(acc)
  j = copy.deepcopy(j)
  cur = j
  for kind, i in path:
    cur = cur[1][i] if kind == 'l' else cur[1][i][1]
  m = r.randrange(9)
  def repl(new):
    cur[:] = new
  if m == 0: repl([5, [[4, S('__tuple__')]]])
  elif m == 1: repl([5, [[4, S('__tuple__')], [2, 1]]])
  elif m == 2: repl([7, [[[0, S('_type')], [4, S(r.choice(['nomod.Cls', 'nomod', '', 'a b.c']))]]]])
  elif m == 3: repl([7, [[[0, S('_type')], r.choice([[2, 3], [0], [1, 1], [5, []], [7, []], [3, [0, 1, 1]]])], [[0, S('x')], [7, [[[0, S('_type')], [4, S('nomod.X')]]]]]]])
  elif m == 4:
    k = r.choice(keys)
    fs = list(_PG['fields'][k]); r.shuffle(fs)
    if fs and r.random() < 0.3: fs.pop()
    ents = [[[0, S(f)], [2, i]] for i, f in enumerate(fs)]
    if r.random() < 0.2: ents.append([[0, S('zz')], [0]])
    if r.random() < 0.15: ents.append([[1, 5], [0]])
    ents.insert(r.randint(0, len(ents)), [[0, S('_type')], [4, S(k)]])
    repl([7, ents])
  elif m == 5 and cur[0] == 7 and cur[1]:
    i = r.randrange(len(cur[1]))
    newk = [0, S(r.choice(['n_:1', 'n_:-7', 'n_:', 'n_:x', 'n_:+4', 'n_:007', 'n_:1 2', 'n_:--1', 'n_:True', 'n_', 'n_:12345678901234567890123']))]
    if all(k != newk for k, _ in cur[1]):
      cur[1][i][0] = newk
  elif m == 6 and cur[0] == 5:
    cur[1].insert(0, [4, S('__tuple__')])
  elif m == 7 and cur[0] == 7 and all(k != [0, S('_type')] for k, _ in cur[1]):
    cur[1].insert(r.randint(0, len(cur[1])), [[0, S('_type')], [4, S(r.choice(keys + ['nomod.K']))]])
  else:
    repl([5, [[5, [[4, S('__tuple__')]]], [4, S('__tuple__')]]])
  return j

def string_keyed(j):
  if j[0] == 5: return all(string_keyed(e) for e in j[1])
  if j[0] == 7: return all(k[0] == 0 and string_keyed(v) for k, v in j[1])
  return True

# ------------------------------------------------------------------------------------------------
# the JSON text layer (Model/JsonText.v): values without finite floats
def no_finite_float(t):
  if t[0] == 3: return t[1][0] in (1, 2, 3)
  if t[0] in (5, 6): return all(no_finite_float(e) for e in t[1])
  if t[0] == 7: return all(no_finite_float(v) for _, v in t[1])
  if t[0] == 8: return all(no_finite_float(v) for _, v in t[2])
  return True

def respell(r, text):
  """another spelling of the same JSON text, or a damaged one: what json.loads accepts beyond what json.dumps writes"""
  k = r.randrange(12)
  try:
    obj = json.loads(text)
  except Exception:
    obj = None
  if k == 0 and obj is not None: return json.dumps(obj, indent=r.choice([0, 1, 2]))
  if k == 1 and obj is not None: return json.dumps(obj, ensure_ascii=False)
  if k == 2 and obj is not None: return json.dumps(obj, separators=(',', ':'))
  if k == 3 and obj is not None: return r.choice([' ', '\n\t', '']) + json.dumps(obj, separators=(' ,\r\n ', ' :\t')) + r.choice([' ', '\n', ''])
  if k == 4: return text.replace('\\u00', '\\u00'.upper() if False else '\\u00').replace('\\ud8', '\\uD8').replace('\\udc', '\\uDC').replace('a', '\\u0061', 1)
  if k == 5: return text.replace('/', '\\/')
  if k == 6: return text[:r.randint(0, len(text))]                       # truncated
  if k == 7: return text.replace(']', ',]', 1) if ']' in text else text + ','
  if k == 8: return text.replace('1', '01', 1) if '1' in text else '01'
  if k == 9: return text.replace('"', '"\x01', 1) if '"' in text else text   # raw control character
  if k == 10: return text + r.choice([' x', ' 1', ']', ' null'])            # extra data
  return text.replace('null', r.choice(['nul', 'None', 'NULL']), 1) if 'null' in text else text.replace(': ', ' = ', 1)

def has_float_token(text):
  """a number with a fraction or an exponent outside string literals (finite floats are not modelled)"""
  import re
  stripped = re.sub(r'"(\\.|[^"\\])*"', '""', text)
  return re.search(r'[0-9][.eE]|[.eE][0-9+-]', stripped) is not None

# ------------------------------------------------------------------------------------------------
# file-system histories
PATH_POOL = ['/mem/m.json', '/mem/e/m', '/mem/mem/x', '/mem/mem', '/mem/e', '/mem/a/b/c.json', '/mem/a/b', '/mem/a', '/mem/a/b/c.json/d',
             '/mem/me', '/mem/em/me.json', '/mem//a///b/c.json', '/mem/a/b/', '/mem/x.y/z', '/mem/m', '/mem/e/m/', '/mem/\xfc/\xe9.json',
             '/mem/mem/mem/m.e', '/mem/e/e/e', '/mem/a//b', '/mem/memory.json', '/mem/e.json']
FS_ERR = {FileNotFoundError: 1, IsADirectoryError: 2, NotADirectoryError: 3, FileExistsError: 4, TypeError: 5, AttributeError: 6, AssertionError: 7, OSError: 10}
MODES = {'r': 1, 'w': 2, 'a': 4, 'wr': 3, 'ar': 5}

def fs_err(e):
  return [9, FS_ERR.get(type(e), 99)]

def gen_fs_history(r, vg, n_ops):
  paths = r.sample(PATH_POOL, r.randint(2, 7))
  ops = []
  for _ in range(n_ops):
    p = r.choice(paths)
    x = r.random()
    if p.endswith('/') and (x < 0.35 or 0.58 <= x < 0.66 or x >= 0.85) and x < 0.96:
      p = p.rstrip('/')       # a trailing slash names a directory: not used for writing or removing a file
    if x < 0.35:
      t = vg.value(r.choice([0, 1, 2]))
      ops.append(dict(op='save', path=p, value=t))
    elif x < 0.58: ops.append(dict(op='read', path=p))
    elif x < 0.66: ops.append(dict(op='rm', path=p))
    elif x < 0.72: ops.append(dict(op='mkdirs', path=p))
    elif x < 0.77: ops.append(dict(op='exists', path=p))
    elif x < 0.82: ops.append(dict(op='listdir', path=r.choice([p, '/mem/', os.path.dirname(p) if os.path.dirname(p) != '/mem' else '/mem/'])))
    elif x < 0.85: ops.append(dict(op='isdir', path=p))
    elif x < 0.91:
      ops.append(dict(op='write', path=p, mode=r.choice(['w', 'a', 'a']), text=raw_text(vg.string(False)) + r.choice(['', '\n', 'tail'])))
    elif x < 0.96:
      recs = [line_record(r, vg) for _ in range(r.randint(0, 3))]
      ops.append(dict(op='seqwrite', path=p, mode=r.choice(['w', 'a']), records=recs))
    elif x < 0.975: ops.append(dict(op='seqread', path=p))
    else:
      ops.append(dict(op=r.choice(['mkdir', 'rmdir', 'rmdirs']), path=r.choice([p, os.path.dirname(p) if os.path.dirname(p) != '/mem' else p, p + '/sub'])))
  return ops

def raw_text(s):
  """raw file text: no \\r (text mode of the standard file system translates it), no lone surrogates (not encodable in a UTF-8 file)"""
  return ''.join(c for c in s if c != '\r' and not 0xd800 <= ord(c) <= 0xdfff)

def line_record(r, vg):
  """a raw record of a line sequence: no \\n or \\r (reserved by the line format), no lone surrogates (not encodable in a UTF-8 file)"""
  s = vg.string(False)
  return ''.join(c for c in s if c not in '\n\r' and not 0xd800 <= ord(c) <= 0xdfff)

def fresh_memfs():
  from pyglove.core.io import file_system as fsm
  fs = fsm.MemoryFileSystem('/mem/')
  fsm._fs._filesystems[:] = [(p, f) for p, f in fsm._fs._filesystems if p != '/mem/'] + [('/mem/', fs)]
  fsm._fs._filesystems.sort(key=lambda x: x[0], reverse=True)
  return fs

def dump_memfs(fs):
  from pyglove.core.io import file_system as fsm
  def go(n):
    if isinstance(n, dict):
      return [1, [[S(k), go(v)] for k, v in n.items()]]
    return [0, S(n._buffer.getvalue())]
  return go(fs._root)

def fs_case_tree(ops, texts):
  """the model's case for a history; texts[i] is the JSON text pg.save writes for op i"""
  out = []
  for i, o in enumerate(ops):
    p = S(o['path'])
    k = o['op']
    if k == 'save': out.append([0, p, S(texts[i])])
    elif k == 'read': out.append([1, p])
    elif k == 'rm': out.append([2, p])
    elif k == 'mkdirs': out.append([3, p])
    elif k == 'exists': out.append([4, p])
    elif k == 'listdir': out.append([5, p])
    elif k == 'isdir': out.append([6, p])
    elif k == 'write': out.append([7, p, MODES[o['mode']], S(o['text'])])
    elif k == 'seqwrite': out.append([8, p, MODES[o['mode']], [S(x) for x in o['records']]])
    elif k == 'seqread': out.append([9, p])
    elif k == 'mkdir': out.append([10, p])
    elif k == 'rmdir': out.append([11, p])
    elif k == 'rmdirs': out.append([12, p])
  return out

def text_records(text):
  """the records of a line file (oracle side): pieces between line feeds, no piece after the last one"""
  parts = text.split('\n')
  if parts and parts[-1] == '':
    parts.pop()
  return parts

def run_fs_history(ops, mapper):
  """Runs a history through the pg API on paths mapper(path).  Returns (outcomes, texts, hits).
  The oracle is a dictionary of last successful writes keyed by the normalised path:
  path -> (text, value tree | None, value | None)."""
  p = pg()
  io = p.io
  outcomes, texts, hits = [], [], []
  last = {}
  def key(path):
    return os.path.normpath(path)
  def check(path, what, exc, got):
    ent = last.get(key(path))
    if ent is None or path.endswith('/'):
      return
    if exc is not None:
      hits.append(('C05/fs/saved-path-unreadable/%s' % type(exc).__name__,
                   '%s(%r) raises %s although the last write there succeeded' % (what, path, type(exc).__name__)))
    elif what == 'readfile' and got != ent[0]:
      hits.append(('C05/fs/stale-or-foreign-content', 'readfile(%r) returns %r, last written: %r' % (path, got[:80], ent[0][:80])))
    elif what == 'seqread' and got != text_records(ent[0]):
      hits.append(('C05/fs/line-sequence-differs', 'records read from %r: %r, written: %r' % (path, got[:6], text_records(ent[0])[:6])))
  def check_load(path, note):
    ent = last.get(key(path))
    if ent is None or ent[1] is None or path.endswith('/'):
      return
    try:
      rt = p.load(path)
    except Exception as e:
      hits.append(('C05/fs/load-raises-%s/%s' % (type(e).__name__, discriminator(ent[1])), '%spg.load(%r) raises %s: %s' % (note, path, type(e).__name__, str(e)[:80])))
      return
    for sig, what in compare_loaded(ent[2], rt, ent[1], 'fs/load'):
      hits.append((sig, '%spg.load(%r): %s' % (note, path, what)))
  for i, o in enumerate(ops):
    path = mapper(o['path'])
    k = o['op']
    text = None
    try:
      if k == 'save':
        v = pv_to_py(o['value'])
        text = p.to_json_str(v)
        try:
          p.save(v, path)
        except Exception:
          last.pop(key(path), None); raise      # a refused write may have truncated the file: content no longer tracked
        last[key(path)] = (text, o['value'], v)
        out = [0]
      elif k == 'read':
        try:
          got = io.readfile(path)
        except Exception as e:
          check(path, 'readfile', e, None); raise
        check(path, 'readfile', None, got)
        check_load(path, '')
        out = [1, S(got)]
      elif k == 'rm':
        io.rm(path); last.pop(key(path), None); out = [0]
      elif k == 'mkdirs':
        io.mkdirs(path); out = [0]
      elif k == 'mkdir':
        io.mkdir(path); out = [0]
      elif k == 'rmdir':
        io.rmdir(path); out = [0]
      elif k == 'rmdirs':
        io.rmdirs(path); out = [0]
      elif k == 'exists':
        out = [2, 1 if io.path_exists(path) else 0]
        if key(path) in last and out[1] == 0 and not path.endswith('/'):
          hits.append(('C05/fs/saved-path-does-not-exist', 'path_exists(%r) is False after a successful write' % path))
      elif k == 'listdir':
        out = [3, [S(x) for x in io.listdir(path)]]
      elif k == 'isdir':
        out = [2, 1 if io.isdir(path) else 0]
      elif k in ('write', 'seqwrite'):
        new = o['text'] if k == 'write' else ''.join(x + '\n' for x in o['records'])
        prev = last.get(key(path))
        try:
          if k == 'write':
            io.writefile(path, o['text'], mode=o['mode'])
          else:
            with io.open_sequence(path, o['mode']) as f:
              for rec in o['records']:
                f.add(rec)
        except Exception:
          last.pop(key(path), None); raise
        if o['mode'] == 'a' and prev is not None:
          last[key(path)] = (prev[0] + new, None, None)
        elif o['mode'] == 'a' and io.readfile(path) != new:
          last.pop(key(path), None)        # appended to a file whose content the oracle did not track
        else:
          last[key(path)] = (new, None, None)
        out = [0]
      elif k == 'seqread':
        try:
          with io.open_sequence(path) as f:
            got = list(iter(f))
        except Exception as e:
          check(path, 'seqread', e, None); raise
        check(path, 'seqread', None, got)
        out = [3, [S(x) for x in got]]
    except Exception as e:
      out = fs_err(e)
      if out[1] == 99:
        out.append(S(type(e).__name__))
    outcomes.append(out); texts.append(text)
  # end of the history: every tracked path still holds its last write
  for kp in sorted(last):
    try:
      got = io.readfile(kp)
    except Exception as e:
      check(kp, 'readfile', e, None)
      continue
    check(kp, 'readfile', None, got)
    check_load(kp, 'at the end of the history ')
  return outcomes, texts, hits

def fs_oracle_pair(ops, std_root):
  """The history on /mem/ and on a scratch directory of the standard file system.
  Returns (mem_outcomes, texts, mem_dump, hits)."""
  fs = fresh_memfs()
  mo, texts, hits = run_fs_history(ops, lambda q: q)
  dump = dump_memfs(fs)
  shutil.rmtree(std_root, ignore_errors=True)
  os.makedirs(std_root)
  open(os.path.join(os.path.dirname(std_root), '.keep'), 'w').close()      # os.removedirs (rmdirs) stops below this directory
  so, _, shits = run_fs_history(ops, lambda q: std_root + q[4:])
  hits = hits + [(s.replace('C05/fs/', 'C05/stdfs/'), w) for s, w in shits]
  # both file systems accept / refuse the same writes and reads
  for o, a, b in zip(ops, mo, so):
    if o['op'] in ('save', 'read', 'write', 'rm', 'seqwrite', 'seqread') and (a[0] == 9) != (b[0] == 9) and not o['path'].endswith('/'):
      hits.append(('C05/fs/differs-from-standard-file-system/%s' % o['op'],
                   '%s(%r): memory file system %s, standard file system %s' % (o['op'], o['path'], 'fails' if a[0] == 9 else 'succeeds', 'fails' if b[0] == 9 else 'succeeds')))
      break
  shutil.rmtree(std_root, ignore_errors=True)
  return mo, texts, dump, hits

# ------------------------------------------------------------------------------------------------
# in-memory record sequences
SEQ_PATHS = ['/mem/q/a.mem', '/mem/q/b.mem', '/mem/q/a.mem@2', '/mem/q/A.MEM', '/mem/q//a.mem', '/mem/r/a.mem']

def gen_seq_history(r, vg, n_ops, disciplined):
  ops = []
  paths = r.sample(SEQ_PATHS, r.randint(1, 3))
  if disciplined:
    # one handle at a time: open, use, close
    h = 0
    while len(ops) < n_ops:
      p = r.choice(paths)
      m = r.choice(['w', 'a', 'a', 'r', 'r'])
      ops.append(dict(op='open', path=p, mode=m))
      for _ in range(r.randint(0, 4)):
        if m == 'r':
          ops.append(dict(op=r.choice(['iter', 'len']), h=h))
        else:
          ops.append(dict(op='add', h=h, record=vg.string()))
      ops.append(dict(op='close', h=h))
      h += 1
    return ops
  nh = 0
  for _ in range(n_ops):
    x = r.random()
    if nh == 0 or x < 0.25:
      ops.append(dict(op='open', path=r.choice(paths), mode=r.choice(['w', 'a', 'r', 'r', 'wr', 'ar']))); nh += 1
    else:
      h = r.randrange(nh) if r.random() < 0.97 else nh + r.randint(0, 2)
      if x < 0.6: ops.append(dict(op='add', h=h, record=vg.string()))
      elif x < 0.8: ops.append(dict(op='iter', h=h))
      elif x < 0.88: ops.append(dict(op='len', h=h))
      else: ops.append(dict(op='close', h=h))
  return ops

def seq_case_tree(ops):
  out = []
  for o in ops:
    k = o['op']
    if k == 'open': out.append([0, S(o['path']), MODES[o['mode']]])
    elif k == 'add': out.append([1, o['h'], S(o['record'])])
    elif k == 'iter': out.append([2, o['h']])
    elif k == 'len': out.append([3, o['h']])
    elif k == 'close': out.append([4, o['h']])
  return out

def run_seq_history(ops, disciplined):
  """(outcomes, final path->records, hits) on a fresh MemorySequenceIO (and a fresh /mem/ for the parent directories)"""
  p = pg()
  from pyglove.core.io import sequence as sq
  fresh_memfs()
  mio = sq.MemorySequenceIO()
  sq._registry._registry['mem'] = mio
  handles, outs, hits = [], [], []
  expect = {}     # path -> records appended since the last 'w' open (oracle, disciplined histories only)
  hpath = {}
  for o in ops:
    k = o['op']
    try:
      if k == 'open':
        handles.append(p.io.open_sequence(o['path'], o['mode']))
        hpath[len(handles) - 1] = o['path']
        if 'w' in o['mode']: expect[o['path']] = []
        expect.setdefault(o['path'], [])
        out = [0, len(handles) - 1]
      elif o['h'] >= len(handles):
        out = [9]
      elif k == 'add':
        handles[o['h']].add(o['record'])
        expect[hpath[o['h']]].append(o['record'])
        out = [1]
      elif k == 'iter':
        got = list(iter(handles[o['h']]))
        if disciplined and got != expect[hpath[o['h']]]:
          hits.append(('C05/memseq/records-differ', 'reading %r gives %r, appended since the last truncating open: %r' % (hpath[o['h']], got[:6], expect[hpath[o['h']]][:6])))
        out = [2, [S(x) for x in got]]
      elif k == 'len':
        out = [3, len(handles[o['h']])]
      elif k == 'close':
        handles[o['h']].close(); out = [1]
    except ValueError:
      out = [8]
    except Exception as e:
      out = [99, S(type(e).__name__)]
    outs.append(out)
  final = [[S(k), [S(x) for x in v]] for k, v in mio._root.items()]
  return outs, final, hits

# ------------------------------------------------------------------------------------------------
# every kind of record sequence the registry offers x boundary records x positions x write/append/reopen histories
BOUNDARY_RECORDS = [
    ('empty', ''), ('blank', ' '), ('blanks', '   '), ('tab', '\t'), ('newline-terminated', 'a\n'), ('only-newline', '\n'),
    ('two-newlines', 'b\n\n'), ('carriage-return', 'a\rb'), ('cr-terminated', 'a\r'), ('crlf-terminated', 'a\r\n'),
    ('vertical-tab-formfeed', 'a\x0bb\x0cc'), ('unicode-line-separators', 'a\u2028b\u2029c\x85d\x1ce'), ('nul', 'a\x00b'),
    ('unicode', '\xe9\u4e2d\U0001F600'), ('quote-backslash', '"\\'), ('long', 'x' * 70000), ('json-looking', '{"a": 1}'), ('null-word', 'null'),
]
SEQ_KINDS = ['line-mem', 'line-std', 'memory', 'jsonl-mem', 'jsonl-std', 'jsonl-memory']
SEQ_SHAPES = [('w',), ('w', 'a'), ('w', 'a', 'a'), ('w', 'w'), ('a',), ('a', 'a')]

def seq_kind_path(kind, std_dir, tag):
  return {'line-mem': '/mem/sq/%s.txt' % tag, 'line-std': os.path.join(std_dir, '%s.txt' % tag), 'memory': '/mem/sq/%s.mem' % tag,
          'jsonl-mem': '/mem/sq/%s.jsonl' % tag, 'jsonl-std': os.path.join(std_dir, '%s.jsonl' % tag), 'jsonl-memory': '/mem/sq/%s.mem' % tag}[kind]

def seq_expected(kind, record):
  """what reading gives back for a record that was added: the line format strips trailing line feeds (documented:
  `record.rstrip('\\n')`); every other kind returns the record itself"""
  return record.rstrip('\n') if kind.startswith('line') else record

def seq_record_allowed(kind, record):
  """line sequences cannot hold a line feed inside a record (the format itself)"""
  if kind.startswith('line') and '\n' in record.rstrip('\n'): return False
  return True

def run_seq_boundary(kind, path, batches, shape):
  """batches[i] is written with mode shape[i]; returns [(signature, what)] comparing what is read back with what was added"""
  p = pg()
  jsonl = kind.startswith('jsonl')
  opener = p.open_jsonl if jsonl else p.io.open_sequence
  expected = []
  try:
    for mode, recs in zip(shape, batches):
      with opener(path, mode) as f:
        for rec in recs:
          f.add(rec)
      expected = ([] if mode == 'w' else expected) + [seq_expected(kind, x) for x in recs]
    with opener(path, 'r') as f:
      got = list(iter(f))
  except Exception as e:
    return [('C05/sequence/%s/raises-%s' % (kind, type(e).__name__), '%s %s: %s: %s' % (kind, shape, type(e).__name__, str(e)[:100]))]
  if got != expected:
    first = next((i for i, (a, b) in enumerate(zip(got, expected)) if a != b), min(len(got), len(expected)))
    return [('C05/sequence/%s/records-differ' % kind,
             '%s sequence written as %s: %d records added, %d read back; first difference at %d: added %r, read %r'
             % (kind, '+'.join(shape), len(expected), len(got), first, (expected[first:first + 1] or ['<none>'])[0][:40], (got[first:first + 1] or ['<none>'])[0][:40]))]
  return []

def seq_boundary_cases(r, n_random):
  """(kind, shape, batches, label): every boundary record first / in the middle / last, in every kind and history shape"""
  out = []
  filler = ['f1', 'f2']
  for name, b in BOUNDARY_RECORDS:
    for pos in ('first', 'middle', 'last', 'alone', 'twice'):
      recs = {'first': [b, 'f1', 'f2'], 'middle': ['f1', b, 'f2'], 'last': ['f1', 'f2', b], 'alone': [b], 'twice': [b, b, 'f1']}[pos]
      for kind in SEQ_KINDS:
        if not seq_record_allowed(kind, b): continue
        for shape in SEQ_SHAPES:
          k = len(shape)
          if shape == ('w', 'w'):
            batches = [['old1', b, 'old2'], recs]
          else:
            cuts = sorted(r.randint(0, len(recs)) for _ in range(k - 1))
            batches = [recs[i:j] for i, j in zip([0] + cuts, cuts + [len(recs)])]
          out.append((kind, shape, batches, '%s-%s' % (name, pos)))
  pool = [b for _, b in BOUNDARY_RECORDS if len(b) < 100] + ['r%d' % i for i in range(6)]
  for _ in range(n_random):
    kind = r.choice(SEQ_KINDS); shape = r.choice(SEQ_SHAPES)
    batches = [[x for x in (r.choice(pool) for _ in range(r.randint(0, 4))) if seq_record_allowed(kind, x)] for _ in shape]
    out.append((kind, shape, batches, 'random'))
  return out

def jsonl_oracle(r, vg, path):
  """values appended with pg.open_jsonl are the values read back (w, then a, then r)"""
  p = pg()
  hits = []
  ts = [vg.value(r.choice([0, 1, 2])) for _ in range(r.randint(1, 5))]
  ts = [t for t in ts if not any(reserved(t)[i] for i in (0, 2))]
  vs = [pv_to_py(t) for t in ts]
  cut = r.randint(0, len(vs))
  try:
    with p.open_jsonl(path, 'w') as f:
      for v in vs[:cut]: f.add(v)
    with p.open_jsonl(path, 'a') as f:
      for v in vs[cut:]: f.add(v)
    with p.open_jsonl(path) as f:
      got = list(iter(f))
  except Exception as e:
    d = 'empty-tuple' if any(reserved(t)[1] for t in ts) else 'other'
    return [('C05/jsonl/raises-%s/%s' % (type(e).__name__, d), 'open_jsonl(%r) w/a/r of %d values raises %s: %s' % (path, len(vs), type(e).__name__, str(e)[:100]))], len(vs)
  if len(got) != len(vs):
    return [('C05/jsonl/record-count-differs', '%d values appended to %r, %d read back' % (len(vs), path, len(got)))], len(vs)
  for v, w, t in zip(vs, got, ts):
    hits += compare_loaded(v, w, t, 'jsonl')
  return hits, len(vs)

# ------------------------------------------------------------------------------------------------
# (d) oracle only: classes, functions, value specs, search-space specs, DNA, typed objects
def module_function(x, y=1):
  return x + y

def special_objects():
  p = pg()
  T = p.typing
  CA, CB, CC = (_PG['classes'][k] for k in ('CA', 'CB', 'CC'))
  CT, CD = _PG['typed']['CT'], _PG['typed']['CD']
  out = []
  def add(kind, name, make):
    out.append((kind, name, make))
  add('class', 'builtin-int', lambda: int)
  add('class', 'pg-class', lambda: CA)
  add('class', 'generic-alias', lambda: list[int])
  add('class', 'dict-of-classes', lambda: p.Dict(a=str, b=CT))
  add('function', 'module-function', lambda: module_function)
  add('function', 'builtin-len', lambda: len)
  add('function', 'lambda', lambda: (lambda x: x + 1))
  add('function', 'classmethod', lambda: p.Object.from_json)
  add('function', 'classmethod-through-subclass', lambda: CA.from_json)
  add('spec', 'Int', lambda: T.Int())
  add('spec', 'Int-range-default', lambda: T.Int(default=3, min_value=0, max_value=9))
  add('spec', 'Int-noneable', lambda: T.Int().noneable())
  add('spec', 'Float', lambda: T.Float(min_value=0.5))
  add('spec', 'Str-regex', lambda: T.Str(regex='a.*'))
  add('spec', 'Bool-default', lambda: T.Bool(default=True))
  add('spec', 'Enum-default', lambda: T.Enum('a', ['a', 'b', None]))
  add('spec', 'Enum-no-default', lambda: T.Enum(p.MISSING_VALUE, [1, 2, 3]))
  add('spec', 'List', lambda: T.List(T.Int(), min_size=1, max_size=5))
  add('spec', 'List-default', lambda: T.List(T.Str(), default=['a']))
  add('spec', 'Tuple-fixed', lambda: T.Tuple([T.Int(), T.Str()]))
  add('spec', 'Tuple-variable', lambda: T.Tuple(T.Int(), min_size=1, max_size=3))
  add('spec', 'Dict-schema', lambda: T.Dict([('a', T.Int()), ('b', T.Str(default='x')), (T.StrKey('c.*'), T.Float())]))
  add('spec', 'Dict-any', lambda: T.Dict())
  add('spec', 'Object', lambda: T.Object(CA))
  add('spec', 'Type', lambda: T.Type(CA))
  add('spec', 'Union', lambda: T.Union([T.Int(), T.Str(), T.Object(CB)]).noneable())
  add('spec', 'Any', lambda: T.Any(default=1))
  add('spec', 'Any-annotated', lambda: T.Any(annotation=int))
  add('spec', 'Callable', lambda: T.Callable([T.Int()], returns=T.Str()))
  add('spec', 'Functor', lambda: T.Functor([T.Int()]))
  add('spec', 'frozen', lambda: T.Int().freeze(1))
  # every class of the regenerated keyword tables with each optional argument at its default (what exclude_default drops)
  add('spec', 'minimal-Bool', lambda: T.Bool())
  add('spec', 'minimal-Str', lambda: T.Str())
  add('spec', 'minimal-Float', lambda: T.Float())
  add('spec', 'minimal-List', lambda: T.List(T.Int()))
  add('spec', 'minimal-Tuple-variable', lambda: T.Tuple(T.Int()))
  add('spec', 'minimal-Object', lambda: T.Object(CB))
  add('spec', 'minimal-Callable', lambda: T.Callable())
  add('spec', 'minimal-Functor', lambda: T.Functor())
  add('spec', 'minimal-Type', lambda: T.Type(CB))
  add('spec', 'minimal-Union', lambda: T.Union([T.Int(), T.Str()]))
  add('spec', 'minimal-Any', lambda: T.Any())
  add('spec', 'Dict-empty-schema', lambda: T.Dict([]))
  add('spec', 'Callable-full', lambda: T.Callable([T.Int(), T.Str()], kw=[('x', T.Int())], returns=T.Bool()).noneable())
  add('keyspec', 'ConstStrKey', lambda: p.typing.ConstStrKey('a'))
  add('keyspec', 'StrKey', lambda: T.StrKey())
  add('keyspec', 'StrKey-regex', lambda: T.StrKey('a.*'))
  add('keyspec', 'ListKey', lambda: T.ListKey())
  add('keyspec', 'ListKey-range', lambda: T.ListKey(1, 5))
  add('keyspec', 'TupleKey', lambda: T.TupleKey())
  add('keyspec', 'TupleKey-index', lambda: T.TupleKey(2))
  add('schema', 'field-minimal', lambda: T.Field('k', T.Int()))
  add('schema', 'class-schema', lambda: CT.__schema__)
  add('schema', 'field', lambda: T.Field('k', T.Int(), 'doc', {'m': 1}))
  add('schema', 'empty-schema', lambda: CB.__schema__)
  add('typed-object', 'CT-minimal', lambda: CT(i=1))
  add('typed-object', 'CT-full', lambda: CT(i=-4, l=[1, 2, 3], d=dict(p=5, q='s'), f=2.25, t=(1, 'a'), u='text', o=CA(1, [2]), e=3))
  add('typed-object', 'CT-bool-union', lambda: CT(i=0, u=True, e='b'))
  add('typed-object', 'CD', lambda: CD(m={'a': 1, 'b': 2}, n=[CT(i=1), CT(i=2, l=[7])]))
  add('typed-object', 'CD-in-dict', lambda: p.Dict(x=[CD(m={})], y=(CT(i=3),)))
  add('typed-container', 'list-with-spec', lambda: p.List([1, 2], value_spec=T.List(T.Int())))
  add('typed-container', 'dict-with-spec', lambda: p.Dict(a=1, value_spec=T.Dict([('a', T.Int()), ('b', T.Int(default=2))])))
  add('dna-spec', 'oneof', lambda: p.dna_spec(p.oneof([1, 2, 3])))
  add('dna-spec', 'nested', lambda: p.dna_spec(p.Dict(a=p.oneof([p.oneof([1, 2]), 3]), b=p.manyof(2, ['x', 'y', 'z']), c=p.floatv(0.0, 1.0))))
  add('dna-spec', 'named', lambda: p.dna_spec(p.oneof([1, 2], name='n')))
  add('hyper', 'oneof-value', lambda: p.oneof([1, CA(1, 2), 'x']))
  add('hyper', 'manyof-floatv', lambda: p.Dict(m=p.manyof(2, [1, 2, 3], distinct=False, sorted=True), f=p.floatv(-1.0, 1.0, scale='linear')))
  add('dna', 'int', lambda: p.DNA(1))
  add('dna', 'nested', lambda: p.DNA([(0, [1, 0.5]), 2]))
  add('dna', 'with-spec', lambda: p.DNA(1).use_spec(p.dna_spec(p.oneof([1, 2, 3]))))
  add('dna', 'with-metadata', lambda: p.DNA([0, 1]).set_metadata('reward', 1.5, cloneable=True))
  add('dna', 'none', lambda: p.DNA(None))
  return out

def random_specials(r, n, vg):
  """random typed objects, value specs, search spaces with their DNA specs and DNA (oracle only)"""
  p = pg()
  T = p.typing
  CA, CB, CC = (_PG['classes'][k] for k in ('CA', 'CB', 'CC'))
  CT, CD = _PG['typed']['CT'], _PG['typed']['CD']
  def rint(): return r.choice([0, 1, -1, 7, 2 ** 40, -2 ** 70, r.randint(-99, 99)])
  def rstr(): return unS([c for c in S(vg.string(False)) if not 0xd800 <= c <= 0xdfff])[:6]
  def rfloat(): return r.choice([0.0, -0.0, 0.5, 1e300, -2.25, 1 / 3, float('inf'), r.random()])
  def ct():
    kw = dict(i=rint())
    if r.random() < .6: kw['l'] = [rint() for _ in range(r.randint(0, 3))]
    if r.random() < .6: kw['d'] = dict(p=rint(), q=r.choice([None, rstr()]))
    if r.random() < .5: kw['f'] = rfloat()
    if r.random() < .5: kw['t'] = r.choice([None, (rint(), rstr())])
    if r.random() < .6: kw['u'] = r.choice([rint(), rstr(), True, False])
    if r.random() < .4: kw['o'] = r.choice([None, CA(rint(), [rstr()]), CA(x=(1, rstr()), y=p.Dict({rint(): None}))])
    if r.random() < .5: kw['e'] = r.choice(['a', 'b', 3])
    return CT(**kw)
  def cd():
    return CD(m={rstr() or 'k': rint() for _ in range(r.randint(0, 3))}, n=[ct() for _ in range(r.randint(0, 2))])
  def spec(d):
    k = r.randrange(12 if d > 0 else 6)
    if k == 0:
      lo = r.choice([None, -5]); hi = r.choice([None, 50]); de = r.choice([p.MISSING_VALUE, 3])
      v = T.Int(default=de, min_value=lo, max_value=hi)
    elif k == 1: v = T.Float(default=r.choice([p.MISSING_VALUE, 0.5]), min_value=r.choice([None, 0.0]))
    elif k == 2: v = T.Str(default=r.choice([p.MISSING_VALUE, 'abc']), regex=r.choice([None, 'a.*']))
    elif k == 3: v = T.Bool(default=r.choice([p.MISSING_VALUE, True, False]))
    elif k == 4:
      vals = r.sample(['a', 'b', 1, 2, None, 'c'], r.randint(1, 4))
      v = T.Enum(r.choice([p.MISSING_VALUE, vals[0]]), vals)
    elif k == 5: v = r.choice([T.Any(), T.Any(default=1), T.Object(CA), T.Type(CB), T.Object(CT)])
    elif k == 6: v = T.List(spec(d - 1), min_size=r.choice([0, 1]), max_size=r.choice([None, 4]))
    elif k == 7: v = T.Tuple([spec(d - 1) for _ in range(r.randint(1, 3))])
    elif k == 8: v = T.Tuple(spec(d - 1), min_size=r.choice([0, 1]), max_size=r.choice([None, 3]))
    elif k == 9:
      fields = [('k%d' % i, spec(d - 1)) for i in range(r.randint(1, 3))]      # an empty schema: the fixed case 'empty-schema'
      if r.random() < .3: fields.append((T.StrKey('x.*'), spec(d - 1)))
      v = T.Dict(fields)
    elif k == 10:
      cands = [T.Int(), T.Str(), T.Bool(), T.Float(), T.Object(CA), T.List(T.Int())]
      v = T.Union(r.sample(cands, r.randint(2, 4)))
    else: v = T.Callable([T.Int()] if r.random() < .5 else [], returns=r.choice([None, T.Str()]))
    if r.random() < .25 and k not in (4,):
      v = v.noneable()
    return v
  def space(d):
    k = r.randrange(6 if d > 0 else 3)
    if k == 0: return p.oneof([rint(), rstr(), r.choice([None, 1.5])])
    if k == 1: return p.floatv(-1.0, r.choice([1.0, 5.0]))
    if k == 2: return p.manyof(r.randint(1, 2), ['x', 'y', 'z', 1], distinct=r.random() < .5, sorted=r.random() < .5)
    if k == 3: return p.oneof([space(d - 1), rint(), space(d - 1)])
    if k == 4: return p.Dict({'k%d' % i: space(d - 1) for i in range(r.randint(1, 3))})
    return p.List([space(d - 1), CA(space(d - 1), rint())])
  out = []
  for i in range(n):
    x = r.random()
    if x < .3:
      v = ct() if r.random() < .7 else cd()
      out.append(('typed-object', 'random-%s' % type(v).__name__, (lambda v=v: v)))
    elif x < .6:
      v = spec(r.choice([0, 1, 2]))
      out.append(('spec', 'random-%s' % type(v).__name__, (lambda v=v: v)))
    elif x < .7:
      cls = r.choice([CT, CD, CA])
      out.append(('schema', 'schema-of-%s' % cls.__name__, (lambda c=cls: c.__schema__)))
    else:
      sp = space(r.choice([0, 1, 2]))
      ds = p.dna_spec(sp)
      dna = p.random_dna(ds, r)
      which = r.choice(['hyper', 'dna-spec', 'dna', 'dna'])
      out.append((which, 'random', (lambda w=which, sp=sp, ds=ds, dna=dna: dict(hyper=sp, **{'dna-spec': ds, 'dna': dna})[w])))
  return out

# ------------------------------------------------------------------------------------------------
# hide_default_values / hide_frozen against Model/JsonOpts.v
def classtabx():
  p = pg()
  out = []
  for key, cls in sorted(_PG['by_key_x'].items()):
    fs = []
    for k, f in cls.__schema__.items():
      d = f.default_value
      fs.append([S(str(k)), [] if d == p.MISSING_VALUE else [py_to_pv(d)], 1 if f.frozen else 0])
    out.append([S(key), fs])
  return out

def model_option_values(r, n):
  """MO instances: every field at its default, at a value Python-equal to the default (True for 1, a reordered dict,
  an equal copy), at an all-default instance, an empty container, a different value"""
  p = pg()
  MI, MO = (_PG['by_key_x'][k] for k in sorted(_PG['by_key_x']))
  if MI.__name__ != 'MI': MI, MO = MO, MI
  cand = dict(
      n=[lambda: None, lambda: MI(), lambda: 0, lambda: []],
      s=[lambda: 5, lambda: 5.0, lambda: True, lambda: 6, lambda: '5'],
      a=[lambda: MI(), lambda: MI(x=True), lambda: MI(x=1.0, y='a'), lambda: MI(x=7), lambda: None],
      b=[lambda: MI(x=7), lambda: MI(), lambda: MI(x=7.0), lambda: MI(x=7, y='b')],
      le=[lambda: [], lambda: [MI()], lambda: (), lambda: {}],
      ln=[lambda: [MI(x=7)], lambda: [], lambda: [MI()], lambda: [MI(x=7.0)], lambda: [MI(x=7), MI(x=7)], lambda: (MI(x=7),)],
      d=[lambda: {'p': 1, 'q': 2}, lambda: {'q': 2, 'p': 1}, lambda: {'p': True, 'q': 2.0}, lambda: {'p': 1}, lambda: {}, lambda: {'p': 1, 'q': 2, 'x': None}],
      t=[lambda: (0, 'z'), lambda: (False, 'z'), lambda: [0, 'z'], lambda: (0,), lambda: (-0.0, 'z')],
      r=[lambda: 0, lambda: None, lambda: MI(), lambda: [MI(x=7), {'k': MI()}], lambda: MO(r=MI(y=''))],
  )
  out = []
  for f in sorted(cand):
    for mk in cand[f]:
      out.append((lambda f=f, mk=mk: MO(**({f: mk()} if f == 'r' else {f: mk(), 'r': 0}))))
  for _ in range(n):
    picks = {f: r.randrange(len(cand[f])) for f in r.sample(sorted(cand), r.randint(2, 6))}
    picks.setdefault('r', r.randrange(len(cand['r'])))
    out.append((lambda picks=picks: MO(**{f: cand[f][i]() for f, i in picks.items()})))
  return out

# ------------------------------------------------------------------------------------------------
# every serialization option x fields with defaults of every kind x values equal to / near the default
def option_field_values():
  """field -> candidate values (builders): the default itself, all-default instances, empty containers, non-default values"""
  p = pg()
  OI, OE, OO = _PG['typed']['OI'], _PG['typed']['OE'], _PG['typed']['OO']
  return dict(
      n=[lambda: None, lambda: OI(), lambda: OI(x=2), lambda: OI(1, 'a')],
      s=[lambda: 5, lambda: 0, lambda: -3],
      a=[lambda: OI(), lambda: OI(x=7), lambda: OI(y='')],
      b=[lambda: OI(x=7), lambda: OI(), lambda: OI(x=7, y='b')],
      le=[lambda: [], lambda: [OI()], lambda: [OI(), OI()], lambda: [OI(x=7)]],
      ln=[lambda: [OI(x=7)], lambda: [], lambda: [OI()], lambda: [OI(), OI()], lambda: [OI(x=7), OI(x=7)]],
      li=[lambda: [1, 2], lambda: [], lambda: [0]],
      d=[lambda: dict(p=1, q=None), lambda: dict(p=2), lambda: dict(q=OI()), lambda: dict(p=1, q=OI(x=2))],
      dn=[lambda: None, lambda: dict(), lambda: dict(p=1), lambda: dict(p=3)],
      da=[lambda: {'k': 1}, lambda: {}, lambda: {'k': 2}, lambda: {'j': OI()}],
      y=[lambda: OI(x=3), lambda: OI(), lambda: None, lambda: [], lambda: {}, lambda: OE(), lambda: 3, lambda: (OI(),)],
      e=[lambda: None, lambda: OE()],
      t=[lambda: (0, OI()), lambda: (1, OI()), lambda: (0, OI(x=2))],
      u=[lambda: 0, lambda: OI(), lambda: [], lambda: [0], lambda: OI(x=0)],
      r=[lambda: 0, lambda: None, lambda: OI(), lambda: [], lambda: {}, lambda: OO(r=OI()), lambda: [OI(), {'k': OI()}]],
  )

OPTION_SPACE = dict(hide_default_values=[False, True], hide_frozen=[True, False], use_inferred=[False, True])

def option_combos():
  import itertools
  keys = sorted(OPTION_SPACE)
  for vals in itertools.product(*[OPTION_SPACE[k] for k in keys]):
    yield dict(zip(keys, vals))

def option_oracle(make, opts, exclude, label, thorough=True):
  """[(signature, what)]: the value built by make() through every form of the round trip under the given options"""
  p = pg()
  OO = _PG['typed']['OO']
  hits = []
  v = make()
  kw = dict(opts)
  expected = v
  if exclude:
    kw['exclude_keys'] = list(exclude)
    if isinstance(v, OO):
      expected = v.clone(deep=True, override={k: OO.__schema__[k].default_value for k in exclude})
  tag = ','.join('%s=%s' % (k, int(bool(x))) for k, x in sorted(opts.items()) if x != OPTION_SPACE[k][0]) or 'defaults'
  if exclude: tag += ',exclude_keys'
  forms = [('to_json', lambda: p.from_json(p.to_json(v, **kw))),
           ('to_json_str', lambda: p.from_json_str(p.to_json_str(v, **kw))),
           ('to_json_str-indent', lambda: p.from_json_str(p.to_json_str(v, json_indent=2, **kw))),
           ('save-load', lambda: (p.save(v, '/mem/opt/v.json', **kw), p.load('/mem/opt/v.json'))[1])]
  if thorough:
    forms += [('method-to_json', lambda: p.from_json(v.to_json(**kw))),
              ('save-load-indent', lambda: (p.save(v, '/mem/opt/w.json', indent=2, **kw), p.load('/mem/opt/w.json'))[1])]
  for form, f in forms:
    try:
      rt = f()
    except Exception as e:
      hits.append(('C05/options/%s/raises-%s/%s' % (form.split('-')[0], type(e).__name__, tag),
                   '%s of %s with %s raises %s: %s' % (form, label, kw, type(e).__name__, str(e)[:120])))
      continue
    for sig, what in compare_loaded(expected, rt, None, 'options/' + form.split('-')[0]):
      hits.append(('%s/%s' % (sig, tag), '%s of %s with options %s: %s' % (form, label, kw, what)))
  return hits

def option_cases(r, n_random):
  """systematic: every field x every candidate value (other fields at their defaults) ; random: several fields at once"""
  OO = _PG['typed']['OO']
  fv = option_field_values()
  cases = []
  for f in sorted(fv):
    for i, mk in enumerate(fv[f]):
      if f == 'r':
        cases.append(('OO(r=#%d)' % i, (lambda mk=mk: OO(r=mk()))))
      else:
        cases.append(('OO(%s=#%d, r=0)' % (f, i), (lambda f=f, mk=mk: OO(r=0, **{f: mk()}))))
  for _ in range(n_random):
    fs = r.sample(sorted(fv), r.randint(2, 6))
    picks = {f: r.randrange(len(fv[f])) for f in fs}
    if 'r' not in picks: picks['r'] = 0
    cases.append(('OO(%s)' % ', '.join('%s=#%d' % kv for kv in sorted(picks.items())),
                  (lambda picks=picks: OO(**{f: fv[f][i]() for f, i in picks.items()}))))
  return cases

def special_oracle(kind, name, make):
  p = pg()
  hits = []
  v = make()
  kw = {}
  if kind == 'typed-container':
    kw = dict(value_spec=v.value_spec)    # the value spec of a free-standing container is the caller's to supply (documented)
  forms = [('object-form', lambda: p.from_json(p.to_json(v), **kw)), ('string-form', lambda: p.from_json_str(p.to_json_str(v), **kw))]
  if kind not in ('function',) or name != 'lambda':
    forms += [('pickle', lambda: pickle.loads(pickle.dumps(v))), ('deepcopy', lambda: copy.deepcopy(v))]
  for form, f in forms:
    try:
      rt = f()
    except Exception as e:
      hits.append(('C05/%s/%s/raises-%s/%s' % (kind, form.split('-')[0] if form in ('pickle', 'deepcopy') else 'roundtrip', type(e).__name__, name),
                   '%s of %s %s (%r) raises %s: %s' % (form, kind, name, v, type(e).__name__, str(e)[:120])))
      continue
    if kind == 'function' and name == 'lambda':
      if rt(41) != 42: hits.append(('C05/function/roundtrip/lambda-behaviour', 'the loaded lambda computes something else'))
      continue
    if kind in ('class', 'function') and name not in ('dict-of-classes',):
      if rt is not v and rt != v:
        hits.append(('C05/%s/roundtrip/not-identical/%s' % (kind, name), '%s: %r became %r' % (form, v, rt)))
      continue
    for sig, what in compare_loaded(v, rt, None, '%s/%s' % (kind, form)):
      if sig.endswith('value-spec-differs'):
        if kind == 'typed-container' and form == 'pickle':
          continue                         # list.py/dict.py _init_kwargs: "We do not serialize ValueSpec for now" (documented)
        hits.append(('C05/%s/value-spec-differs' % kind, '%s of %s: %s' % (form, name, what)))
      else:
        hits.append((sig + '/' + name, what))
    if kind == 'dna' and isinstance(v, p.DNA):
      if v.metadata != rt.metadata and form in ('pickle', 'deepcopy', 'object-form', 'string-form'):
        hits.append(('C05/dna/%s/metadata-differs/%s' % (form, name), 'DNA metadata %r became %r' % (v.metadata, rt.metadata)))
  return hits

# ------------------------------------------------------------------------------------------------
GENERATED = {'Gen/JsonFields.v': json_fields.translate}

def run(ctx):
  info = ctx.regen('Gen/JsonFields.v', json_fields.translate)
  ctx.extra['keyword_tables'] = dict(classes=info['classes']) if info else None
  ctx.build()
  p = pg()
  r = ctx.rng
  q = detect_quirks()
  ctx.extra['quirk_flags'] = dict(q_empty_tuple=bool(q & 1))
  ct = classtab()
  keys = sorted(_PG['fields'])
  hist = lambda name, key: ctx.hist(name, key)
  vg = ValueGen(r, hist)
  vg_plain = ValueGen(r, None, reserved_rate=0.0, empty_tuples=False)
  cases, impl_outs, descr = [], [], []
  def add_case(tree, impl, d):
    cases.append(tree); impl_outs.append(impl); descr.append(d)
  # wall-clock budget of the quick tier: each section stops generating when its share is used up (reported in the evidence)
  import time as _time
  budget = None if ctx.thorough else float(os.environ.get('VERIF_C05_BUDGET', '70'))
  skipped = {}
  def over(section, done, planned, share):
    if budget is not None and _time.time() - ctx.t0 > budget * share:
      skipped[section] = dict(done=done, planned=planned)
      return True
    return False
  ctx.extra['skipped_for_time'] = skipped

  # ---- (a) values ------------------------------------------------------------------------------
  corpus = [
      [6, []], [7, [[[0, S('a')], [6, []]]]], [5, [[4, S('__tuple__')]]], [5, [[4, S('__tuple__')], [2, 1]]],
      [7, [[[0, S('_type')], [4, S('x')]]]], [7, [[[0, S('n_:1')], [2, 1]]]], [7, [[[0, S('n_:x')], [2, 1]]]], [7, [[[2, 1], [2, 1]]]],
      [7, [[[1, 1], [2, 1]], [[1, -5], [2, 2]], [[0, S('1')], [2, 3]]]], [3, [1]], [3, [2]], [3, [3]], [3, [4]], [4, [0, 10, 0xd800, 0x1f600, 0x10ffff]],
      [8, S(keys[0]), [[S('x'), [6, [[2, 1]]]], [S('y'), [7, [[[1, 2 ** 70], [0]]]]]]], [6, [[6, [[6, [[6, [[2, 1]]]]]]]]],
  ]
  nvalues = ctx.scale(3000, 25000)
  values = list(corpus)
  while len(values) < nvalues:
    values.append(vg.value(r.choice([0, 1, 2, 2, 3, 3, 4])))
  hyp_checked = 0
  oracle_evals = 0
  for vi, t in enumerate(values):
    if vi > len(corpus) and over('values', vi, len(values), 0.35): break
    try:
      pv_to_py(t)
    except Exception:
      if any(reserved(t)):
        # a reserved spelling nested under a tuple is re-read as JSON when the value is built: not a value at all
        ctx.hist('reserved', 'cannot-be-constructed'); continue
      raise
    fs_ = set(); features(t, fs_)
    for f in fs_: ctx.hist('value_features', f)
    ctx.hist('value_depth', depth_of(t))
    obj, emp, st = reserved(t)
    ctx.hist('reserved', 'object-form' if obj else 'string-form-only' if st else 'empty-tuple' if emp else 'none')
    nontrivial = bool(fs_ & {'list', 'tuple', 'dict', 'object', 'special-float', 'control-char', 'astral-char', 'lone-surrogate'})
    as_symbolic = r.random() < 0.75 or any(reserved(t))      # otherwise plain list / dict containers (utils.to_json path)
    ctx.hist('containers', 'symbolic' if as_symbolic else 'plain')
    for kind in (0, 1, 2, 3, 6):
      if kind in (2, 3) and 'surrogate-pair-in-string' in st:
        continue      # outside the domain of the json.loads/json.dumps hypothesis: the text layer merges the pair
      try:
        out = impl_json(kind, t, as_symbolic)
      except Exception as e:
        out = [1, 78, S(type(e).__name__)]
      add_case([0, [q, ct, kind, t]], out, dict(part='value', kind=kind, value=t))
      ctx.count(('v', kind, json.dumps(t)), nontrivial=nontrivial, kind='value-kind-%d' % kind,
                sample=dict(kind=kind, value=clean(repr(pv_to_py(t)))[:200]) if nontrivial and depth_of(t) >= 2 and kind in (1, 3) and len(ctx.samples) < 3 else None)
    # the hypothesis of the string-form theorem, on Python's json
    try:
      sj = json.loads(p.to_json_str(pv_to_py(t)))
      if json_to_jv(json.loads(json.dumps(sj))) != json_to_jv(sj):
        ctx.broken.append(dict(kind='assumption', name='json.loads(json.dumps(j)) = j', detail=repr(sj)[:300]))
      hyp_checked += 1
    except Exception:
      pass
    # the direct oracle
    symbolic = r.random() < 0.85 or any(reserved(t))     # plain containers holding reserved spellings are re-read as JSON when they enter a symbolic parent
    for sig, what in value_oracle(t, symbolic):
      ctx.hit(sig, clean(what), dict(part='value', value=t, symbolic=symbolic))
    oracle_evals += 1
  ctx.extra['json_text_hypothesis_checked_on'] = hyp_checked

  # ---- (a') decoding of JSON trees near the image -------------------------------------------------
  nmut = ctx.scale(1200, 8000)
  for mi in range(nmut):
    if over('json-mutants', mi, nmut, 0.45): break
    t = vg.value(r.choice([1, 2, 3]))
    try:
      pv_to_py(t)
    except Exception:
      if any(reserved(t)): continue
      raise
    if r.random() < 0.5:
      j = mutate_json(r, json_to_jv(p.to_json(pv_to_py(t))), keys); kind = 4
    else:
      j = json_to_jv(json.loads(p.to_json_str(pv_to_py(t))))
      j = mutate_json(r, j, keys); kind = 5
      if not string_keyed(j):
        kind = 4
    try:
      out = impl_json(kind, j)
    except Exception as e:
      out = [1, 78, S(type(e).__name__)]
    add_case([0, [q, ct, kind, j]], out, dict(part='json', kind=kind, json=j))
    ctx.count(('j', kind, json.dumps(j)), nontrivial=True, kind='json-kind-%d' % kind)
    ctx.hist('decode_outcome', 'ok' if out[0] == 0 else 'error-%s' % out[1])

  # ---- (a'') the text itself: json.dumps / json.loads against Model/JsonText.v (values without finite floats) ----------
  ntext = ctx.scale(700, 8000)
  made = 0
  vg_nf = ValueGen(r, None)
  while made < ntext:
    if over('texts', made, ntext, 0.6): break
    t = vg_nf.value(r.choice([0, 1, 2, 3]))
    if not no_finite_float(t):
      continue
    try:
      v = pv_to_py(t)
      text = p.to_json_str(v)
    except Exception:
      continue
    made += 1
    add_case([3, [q, ct, 7, t]], S(text), dict(part='value', kind=7, value=t))
    ctx.count(('text', json.dumps(t)), nontrivial=True, kind='text-dumps')
    for _ in range(2):
      t2 = respell(r, text)
      if has_float_token(t2):
        continue
      try:
        out = attempt(lambda: p.from_json_str(t2))[0]
      except RecursionError:
        continue
      add_case([3, [q, ct, 8, S(t2)]], out, dict(part='text', kind=8, text=t2))
      ctx.count(('loads', t2), nontrivial=True, kind='text-loads')
      ctx.hist('text_loads_outcome', 'ok' if out[0] == 0 else 'error-%s' % out[1])

  # ---- (b) file-system histories -----------------------------------------------------------------
  nhist = ctx.scale(600, 4000)
  std_base = os.path.join(ctx.workdir, 'std')
  for i in range(nhist):
    if i > 20 and over('fs-histories', i, nhist, 0.8): break
    ops = gen_fs_history(r, vg_plain, r.randint(4, 30))
    mo, texts, dump, hits = fs_oracle_pair(ops, os.path.join(std_base, 'h%d' % i))
    add_case([1, fs_case_tree(ops, texts)], [mo, dump], dict(part='fs', ops=ops))
    for sig, what in hits:
      ctx.hit(sig, clean(what), dict(part='fs', ops=ops))
    nt = any(o['op'] in ('save', 'write', 'seqwrite') and a[0] == 0 for o, a in zip(ops, mo)) and any(o['op'] in ('read', 'seqread') for o in ops)
    ctx.count(('fs', json.dumps(ops)), nontrivial=nt, kind='fs-history',
              sample=dict(history=[(o['op'], o['path']) for o in ops][:12]) if nt and len(ctx.samples) < 5 else None)
    for o, a in zip(ops, mo):
      ctx.hist('fs_ops', '%s:%s' % (o['op'], 'ok' if a[0] != 9 else 'err%d' % a[1]))
    oracle_evals += 1

  # ---- (c) record sequences ------------------------------------------------------------------------
  nseq = ctx.scale(600, 4000)
  for i in range(nseq):
    if i > 20 and over('seq-histories', i, nseq, 0.9): break
    disciplined = i % 2 == 0
    ops = gen_seq_history(r, vg_plain, r.randint(3, 25), disciplined)
    outs, final, hits = run_seq_history(ops, disciplined)
    add_case([2, seq_case_tree(ops)], [outs, final], dict(part='seq', ops=ops))
    for sig, what in hits:
      ctx.hit(sig, clean(what), dict(part='seq', ops=ops, disciplined=disciplined))
    ctx.count(('seq', json.dumps(ops)), nontrivial=any(o['op'] == 'iter' for o in ops), kind='seq-history')
    for o, a in zip(ops, outs):
      ctx.hist('seq_ops', '%s:%s' % (o['op'], {8: 'ValueError', 9: 'bad-handle', 99: 'other'}.get(a[0], 'ok')))
    oracle_evals += 1
  # ---- (c') every sequence kind x boundary records x positions x write / append / reopen -----------------------------------
  from pyglove.core.io import sequence as sq
  std_sq = os.path.join(ctx.workdir, 'sq'); os.makedirs(std_sq, exist_ok=True)
  bcases = seq_boundary_cases(r, ctx.scale(150, 3000))
  if not ctx.thorough:
    # quick tier: every boundary record x position x kind, with a rotating history shape
    keep, seen = [], {}
    for c in bcases:
      key = (c[0], c[3])
      seen[key] = seen.get(key, 0) + 1
      if c[3] == 'random' or (seen[key] - 1) == (hash((c[0], c[3])) % len(SEQ_SHAPES)) or c[1] == ('w', 'a'):
        keep.append(c)
    bcases = keep
  for bi, (kind, shape, batches, label) in enumerate(bcases):
    if bi > 200 and over('sequence-boundaries', bi, len(bcases), 0.93): break
    fresh_memfs(); sq._registry._registry['mem'] = sq.MemorySequenceIO()
    path = seq_kind_path(kind, std_sq, 'b%d' % bi)
    hits = run_seq_boundary(kind, path, batches, shape)
    for sig, what in hits:
      ctx.hit(sig, clean(what), dict(part='sequence', kind=kind, shape=list(shape), batches=batches, label=label))
    if kind == 'line-mem':
      # the same history through the model of the memory file system (OSeqWrite / OSeqRead)
      fs = fresh_memfs()
      ops = [dict(op='seqwrite', path=path, mode=m, records=b) for m, b in zip(shape, batches)] + [dict(op='seqread', path=path)]
      mo, texts, mhits = run_fs_history(ops, lambda q_: q_)
      add_case([1, fs_case_tree(ops, texts)], [mo, dump_memfs(fs)], dict(part='fs', ops=ops))
    if kind.endswith('std') and os.path.exists(path): os.remove(path)
    ctx.count(('sequence', kind, label, shape, json.dumps(batches)[:200]), nontrivial=True, kind='sequence-' + kind)
    ctx.hist('sequence_boundary', label.rsplit('-', 1)[0] if label != 'random' else 'random')
    oracle_evals += 1
  njl = ctx.scale(150, 800)
  std_jl = os.path.join(ctx.workdir, 'jl'); os.makedirs(std_jl, exist_ok=True)
  for i in range(njl):
    if i > 10 and over('jsonl', i, njl, 0.95): break
    fresh_memfs()
    from pyglove.core.io import sequence as sq
    sq._registry._registry['mem'] = sq.MemorySequenceIO()
    path = r.choice(['/mem/j/v.mem', '/mem/j/x.jsonl', '/mem/x.jsonl', os.path.join(std_jl, 'f%d.jsonl' % i), os.path.join(std_jl, 'd%d' % i, 'g.jsonl')])
    hits, n = jsonl_oracle(r, vg_plain, path)
    for sig, what in hits:
      ctx.hit(sig, clean(what), dict(part='jsonl', path=path))
    ctx.count(('jsonl', i), nontrivial=n > 0, kind='jsonl')
    ctx.hist('jsonl_target', 'memory-sequence' if path.endswith('.mem') else 'line-on-/mem' if path.startswith('/mem/') else 'line-on-std')
    oracle_evals += 1
  # a bare file name in the current directory (the docstring example of pg.save / pg.open_jsonl)
  cwd = os.getcwd()
  try:
    os.chdir(std_jl)
    for sig, what in bare_name_oracle():
      ctx.hit(sig, clean(what), dict(part='bare-name'))
    oracle_evals += 1
  finally:
    os.chdir(cwd)

  # ---- (d) classes, functions, value specs, DNA specs, DNA: oracle only ---------------------------
  fixed_specials = special_objects()
  for si, (kind, name, make) in enumerate(fixed_specials + random_specials(r, ctx.scale(300, 4000), vg_plain)):
    if si >= len(fixed_specials) and over('random-specials', si - len(fixed_specials), ctx.scale(300, 4000), 1.0): break
    try:
      hits = special_oracle(kind, name, make)
    except Exception as e:
      hits = [('C05/%s/oracle-crashed/%s' % (kind, name), '%s: %s' % (type(e).__name__, str(e)[:200]))]
    for sig, what in hits:
      ctx.hit(sig, clean(what), dict(part='special', kind=kind, name=name))
    ctx.count(('special', kind, name), nontrivial=True, kind='special-' + kind)
    oracle_evals += 1
  # ---- (e0) hide_default_values / hide_frozen against the model (Model/JsonOpts.v) -------------------------------------
  ctxx = classtabx()
  for mk in model_option_values(r, ctx.scale(60, 1500)):
    try:
      v = mk(); tv = py_to_pv(v)
    except Exception as e:
      ctx.broken.append(dict(kind='harness', name='model_option_values', detail='%s: %s' % (type(e).__name__, e))); break
    for ob in range(4):
      kw = dict(hide_default_values=bool(ob & 1), hide_frozen=bool(ob & 2))
      for kind in (0, 1):
        try:
          out = json_to_jv(p.to_json(v, **kw)) if kind == 0 else attempt(lambda: p.from_json(p.to_json(v, **kw)))[0]
        except Exception as e:
          out = [1, 78, S(type(e).__name__)]
        add_case([4, [q, ctxx, ob, kind, tv]], out, dict(part='value', kind='opts-%d-%d' % (ob, kind), value=tv))
      ctx.count(('optmodel', ob, json.dumps(tv)), nontrivial=True, kind='options-model')

  # ---- (e) every serialization option x defaults of every kind (oracle only) ------------------------------------
  fresh_memfs()
  ocases = option_cases(r, ctx.scale(25, 600))
  combos = list(option_combos())
  nopt = 0
  for ci, (label, mk) in enumerate(ocases):
    if over('option-sweep', ci, len(ocases), 1.25): break
    for opts in combos:
      excl_choices = [()] if r.random() < 0.7 else [(), tuple(r.sample(['s', 'n', 'ln', 'a', 'da'], r.randint(1, 2)))]
      for excl in excl_choices:
        try:
          hits = option_oracle(mk, opts, excl, label, ctx.thorough)
        except Exception as e:
          hits = [('C05/options/oracle-crashed/%s' % type(e).__name__, '%s %s: %s' % (label, opts, str(e)[:200]))]
        for sig, what in hits:
          ctx.hit(sig, clean(what), dict(part='options', label=label, opts=opts, exclude=list(excl)))
        nopt += 1
        ctx.hist('option_combination', ','.join('%s=%d' % (k, int(bool(x))) for k, x in sorted(opts.items())) + (',exclude' if excl else ''))
    ctx.count(('options', label), nontrivial=True, kind='option-sweep')
  oracle_evals += nopt
  ctx.extra['option_sweep'] = dict(values=len(ocases), option_combinations=len(combos), evaluations=nopt,
                                   what='every field of OO x every candidate value (default, all-default instance, empty container, non-default) x every combination of hide_default_values / hide_frozen / use_inferred (+ exclude_keys) x to_json / to_json_str / indent / save-load')
  ctx.extra['oracle_evaluations'] = oracle_evals

  # ---- model -----------------------------------------------------------------------------------------
  model_outs = ctx.model_run(cases)
  # The model declines ((1 9) = EUnmodelled) values in which a plain dict carries the reserved key '_type' with one of the
  # special type names ('type' / 'function' / 'method'): such a dict is not a serializable value of the property (its JSON form
  # is read back as a type / function reference), and the exception class the code raises for a malformed one is not part of
  # the property. They are counted, not compared; a case where the implementation SUCCEEDS is still compared.
  noutside = 0
  for i, (a, b) in enumerate(zip(impl_outs, model_outs)):
    if b == [1, 9] and isinstance(a, list) and len(a) == 2 and a[0] == 1:
      impl_outs[i] = b; noutside += 1
  ctx.extra['outside_model_special_typename'] = noutside
  lookup = {id(c): d for c, d in zip(cases, descr)}
  def describe(c):
    d = lookup.get(id(c), {})
    if d.get('part') == 'value': return dict(part='value', kind=d['kind'], value=clean(repr(pv_to_py(d['value'])))[:300])
    if d.get('part') == 'json': return dict(part='json', kind=d['kind'], json=clean(repr(jv_to_json(d['json'])))[:300])
    if d.get('part') == 'text': return dict(part='text', kind=d['kind'], text=clean(repr(d['text']))[:300])
    return d
  ctx.compare('JsonRun.run vs pg.to_json / from_json / to_json_str / from_json_str, pg.io on /mem/, MemorySequenceIO', cases, impl_outs, model_outs, describe=describe)
  ctx.exhaustive = False

def bare_name_oracle():
  p = pg()
  hits = []
  v = p.Dict(a=1)
  try:
    p.save(v, 'c05_bare.json')
    if not p.eq(p.load('c05_bare.json'), v):
      hits.append(('C05/stdfs/bare-file-name/not-equal', 'pg.load of a bare file name differs'))
  except Exception as e:
    hits.append(('C05/stdfs/bare-file-name/save-raises-%s' % type(e).__name__, "pg.save(v, 'c05_bare.json') raises %s: %s" % (type(e).__name__, str(e)[:80])))
  try:
    with p.open_jsonl('c05_bare.jsonl', 'w') as f:
      f.add(1); f.add('foo')
    with p.open_jsonl('c05_bare.jsonl') as f:
      if list(iter(f)) != [1, 'foo']:
        hits.append(('C05/stdfs/bare-file-name/jsonl-differs', 'records differ'))
  except Exception as e:
    hits.append(('C05/stdfs/bare-file-name/open_jsonl-raises-%s' % type(e).__name__, "pg.open_jsonl('c05_bare.jsonl', 'w') raises %s: %s" % (type(e).__name__, str(e)[:80])))
  for f in ('c05_bare.json', 'c05_bare.jsonl'):
    if os.path.exists(f): os.remove(f)
  return hits

def replay(ctx, rp):
  c = rp['case']
  pg()
  part = c.get('part')
  hits = []
  if part == 'value':
    hits = value_oracle(c['value'], c.get('symbolic', True))
  elif part == 'fs':
    std = os.path.join(ctx.workdir, 'std_replay')
    hits = fs_oracle_pair(c['ops'], std)[3]
  elif part == 'seq':
    hits = run_seq_history(c['ops'], c.get('disciplined', False))[2]
  elif part == 'special':
    for kind, name, make in special_objects():
      if kind == c['kind'] and name == c['name']:
        hits = special_oracle(kind, name, make)
  elif part == 'options':
    fresh_memfs()
    for label, mk in option_cases(__import__('random').Random(0), 0):
      if label == c['label']:
        hits = option_oracle(mk, c['opts'], tuple(c.get('exclude', [])), label)
    if not hits and not any(label == c['label'] for label, _ in option_cases(__import__('random').Random(0), 0)):
      # a random combination: rebuild it from its label
      import re
      fv = option_field_values(); OO = _PG['typed']['OO']
      picks = {m.group(1): int(m.group(2)) for m in re.finditer(r'(\w+)=#(\d+)', c['label'])}
      picks.setdefault('r', 0)
      hits = option_oracle(lambda: OO(**{f: fv[f][i]() for f, i in picks.items()}), c['opts'], tuple(c.get('exclude', [])), c['label'])
  elif part == 'bare-name':
    d = os.path.join(ctx.workdir, 'bare'); os.makedirs(d, exist_ok=True)
    cwd = os.getcwd()
    try:
      os.chdir(d); hits = bare_name_oracle()
    finally:
      os.chdir(cwd)
  elif part == 'sequence':
    fresh_memfs()
    from pyglove.core.io import sequence as sq
    sq._registry._registry['mem'] = sq.MemorySequenceIO()
    d = os.path.join(ctx.workdir, 'sqr'); os.makedirs(d, exist_ok=True)
    hits = run_seq_boundary(c['kind'], seq_kind_path(c['kind'], d, 'replay'), c['batches'], tuple(c['shape']))
  elif part == 'jsonl':
    import random
    r = random.Random(1)
    fresh_memfs()
    for _ in range(50):
      hits += jsonl_oracle(r, ValueGen(r, None, 0.0, False), c['path'] if c['path'].startswith('/mem/') else os.path.join(ctx.workdir, 'replay.jsonl'))[0]
  for h in hits[:5]:
    print('  still fails:', clean(str(h)))
  return not hits

"""C07 — clone fidelity and independence."""
import copy
from harness.props import symcore_driver as D
from harness.props import c01 as C01

META = dict(
    id='C07',
    model_run='PG.Model.SymCore.run',
    runner_name='SymCore',
    model_targets=['Model/SymCore.vo'],
    technique='Coq proof over the SymCore model (clone allocates fresh ids, erases to the same value, keeps per-node flags, leaves the state otherwise unchanged; '
              'frame lemma of step = independence) + step-level correspondence with clone/copy operations followed by mutations of either copy + '
              'direct oracle (pg.eq, identity disjointness, flags per node, leaf sharing, copy.copy/deepcopy agreement, frame after every later step) + exhaustive flag sweep',
    design_ref='DESIGN.md §5 C07, design/C07.md',
    level_text=('Theorems (any forest, any node, deep or shallow, with or without memo): the clone has the same erasure (keys, leaves, classes), the same flags on every '
                'corresponding node, is a well-formed tree of fresh node ids, and the step leaves every existing root exactly as it was; a shallow clone shares exactly the '
                'leaf objects; the frame theorem (proved): every operation addressed inside one root and handed values from some roots leaves every OTHER root the user holds '
                'exactly as it was, for every later history, hence no later mutation of either copy is observable through the other -- also over the slice / merge operations '
                'of the C02 extension of the model (C07_independence_full_surface, C07_independence_history_full_surface). Tie: correspondence on generated histories '
                '(clone, copy.copy, copy.deepcopy, Dict.copy followed by mutations of either copy), flag-combination sweep (exhaustive), sweeps over tuple leaves, scopes and the node '
                'types with their own _sym_clone (pg.Ref, functor objects, geno.DNA metadata, hyper primitives), direct oracle on every step.'),
    level_note=('Trusted: Coq kernel; extraction cross-checked against vm_compute; driver/generator. Not modelled (oracle-only sweeps): value_spec binding of the copy (C03), pg.Ref '
                '(the referenced value is shared by design), functor / geno.DNA / hyper _sym_clone overrides. Not covered: clone(override=...).'),
    rule='a case is (forest literal, list of (scope stack, operation)); non-trivial when it contains a successful clone/copy of a tree with a nested symbolic node followed by at least one successful mutation',
    trusted_base=['extraction: ExtrOcamlBasic only; ocaml/main.ml lexer/printer; cross-checked against vm_compute on a sample',
                  'implementation driver harness/props/symcore_driver.py and generator symcore_gen.py'],
    assumptions=['non-symbolic mutable leaves are instances of a plain class with value equality (Opq); immutable leaves are None/bool/int/str'],
)

CLONE_OPS = {D.CLONE, D.DCOPY}

def pairs(a, b, out, path=''):
  """Corresponding nodes of two trees (by key)."""
  out.append((a, b, path))
  ka = dict(D.sym_children(a)); kb = dict(D.sym_children(b))
  for k in ka:
    if k in kb and D.is_sym(ka[k]) and D.is_sym(kb[k]):
      pairs(ka[k], kb[k], out, '%s[%r]' % (path, k))

def leaves(a, b, out):
  ka = dict(D.sym_children(a)); kb = dict(D.sym_children(b))
  for k in ka:
    if k in kb:
      if D.is_sym(ka[k]) and D.is_sym(kb[k]): leaves(ka[k], kb[k], out)
      elif not D.is_sym(ka[k]) and not D.is_sym(kb[k]): out.append((ka[k], kb[k]))

def opq_places(x, path='', out=None, _seen=None):
  """[(place, object)] for every opaque (non-symbolic, mutable) leaf object below x, in storage order -- descending through the items of symbolic
  nodes and through tuples / plain lists / plain dicts held as leaves."""
  out = [] if out is None else out
  _seen = set() if _seen is None else _seen
  if D.is_sym(x):
    if id(x) in _seen: return out
    _seen.add(id(x))
    for k, v in D.sym_children(x):
      opq_places(v, '%s[%r]' % (path, k), out, _seen)
  elif isinstance(x, (tuple, list)):
    for i, v in enumerate(x): opq_places(v, '%s(%d)' % (path, i), out, _seen)
  elif isinstance(x, dict):
    for k, v in x.items(): opq_places(v, '%s{%r}' % (path, k), out, _seen)
  elif isinstance(x, D.Opq):
    out.append((path, x))
  return out

def sharing_partition(places):
  """The identity-sharing pattern of the places: a sorted list of sorted groups of places that hold one object."""
  groups = {}
  for p, o in places:
    groups.setdefault(id(o), []).append(p)
  return sorted(sorted(g) for g in groups.values())

def check_sharing(orig, cl, deep):
  """Sharing of opaque leaves between and within the trees.  Returns [(clause, what)]."""
  pa, pb = opq_places(orig), opq_places(cl)
  hits = []
  if [p for p, _ in pa] != [p for p, _ in pb]:
    return hits          # different shapes: reported by the equality clause
  if deep:
    ida = {id(o) for _, o in pa}
    sh = [p for p, o in pb if id(o) in ida]
    if sh:
      hits.append(('deep-shared-leaf', 'a deep copy shares the mutable non-symbolic leaf object at %s with the original' % sh[0]))
    sa, sb = sharing_partition(pa), sharing_partition(pb)
    if sa != sb:
      da = [g for g in sa if g not in sb]; db = [g for g in sb if g not in sa]
      hits.append(('deep-sharing-differs', 'one leaf object is held at %s in the original; in the deep copy the places are grouped %s (copy.deepcopy memo semantics: an object referenced from '
                                           'several places is copied once)' % (da[:1], db[:3])))
    elif not sh:
      # behaviourally: a mutation made through one place of the copy is seen through exactly the places that share it, and not in the original
      for g in sb:
        first = [o for p, o in pb if p == g[0]][0]
        before_b = [(p, o.tag) for p, o in pb]; before_a = [(p, o.tag) for p, o in pa]
        first.tag += 100000
        seen = sorted(p for (p, o), (_, t) in zip(pb, before_b) if o.tag != t)
        leaked = [p for (p, o), (_, t) in zip(pa, before_a) if o.tag != t]
        first.tag -= 100000
        if seen != g or leaked:
          hits.append(('deep-sharing-differs', 'a change of the leaf made through %s of the deep copy is seen at %s (expected %s)%s' % (g[0], seen, g, '; and in the original at %s' % leaked if leaked else '')))
          break
  else:
    diff = [p for (p, o), (_, o2) in zip(pa, pb) if o is not o2]
    if diff:
      hits.append(('shallow-copied-leaf', 'a shallow copy duplicated the non-symbolic leaf object at %s' % diff[0]))
  return hits

def check_clone(impl, orig, cl, deep, via):
  """Fidelity of one clone.  Returns [(clause, what)]."""
  P = D.pg()
  hits = []
  if type(cl) is not type(orig):
    hits.append(('class', 'the copy is a %s, the original a %s' % (type(cl).__name__, type(orig).__name__)))
    return hits
  try:
    if not P.eq(orig, cl):
      holds_missing = []
      D.walk(orig, lambda x, p, k: holds_missing.append(x) if isinstance(x, list) and any(
          (not D.is_sym(v)) and P.MISSING_VALUE == v for _, v in D.sym_children(x)) else None)
      if holds_missing:
        hits.append(('not-equal', 'pg.eq(original, copy) is False: a pg.List that holds MISSING_VALUE (assigned while change notification is off) loses it in the copy',
                     'list', 'holds-MISSING'))
      else:
        hits.append(('not-equal', 'pg.eq(original, copy) is False'))
  except Exception as e:     # pylint: disable=broad-except
    hits.append(('not-equal', 'pg.eq raises %s' % type(e).__name__))
  ps = []
  pairs(orig, cl, ps)
  for a, b, path in ps:
    fa = (a.is_sealed, a.accessor_writable, a.allow_partial)
    fb = (b.is_sealed, b.accessor_writable, b.allow_partial)
    if fa != fb:
      which = [n for n, x, y in zip(('sealed', 'accessor_writable', 'allow_partial'), fa, fb) if x != y][0]
      where = 'root' if a is orig else 'descendant'
      hits.append(('flag-%s' % which, '%s of the %s %s%s is %s in the original and %s in the copy' % (
          which, where, type(a).__name__, path, dict(zip(('sealed', 'accessor_writable', 'allow_partial'), fa))[which],
          dict(zip(('sealed', 'accessor_writable', 'allow_partial'), fb))[which]), type(a).__name__, where))
      break
  ids_a, ids_b = set(), set()
  D.walk(orig, lambda x, p, k: ids_a.add(id(x)))
  D.walk(cl, lambda x, p, k: ids_b.add(id(x)))
  if ids_a & ids_b:
    hits.append(('shared-node', 'the copy shares a symbolic node with the original'))
  hits.extend(check_sharing(orig, cl, deep))
  tmp = D.Impl(); tmp.roots.append(cl)
  for clause, what in C01.check_forest(tmp):
    hits.append(('copy-not-wellformed', 'the copy is not a well-formed tree: %s %s' % (clause, what))); break
  return hits

class Oracle:
  def __init__(self):
    self.hits = []
    self.clones = []      # (orig, copy) still to be watched
    self.stats = dict(clones=0, frame_checks=0, mutations_after_clone=0)
  def prepare(self, impl, scope, op):
    try:
      impl.at(op[1])
    except D.NotApplicable:
      return None
    touched = {op[1][0]}
    def refs(v):
      if v[0] == 1: touched.add(v[1])
      elif v[0] == 2: refs(v[1])
    for v in D.op_values(op):
      refs(v)
    return dict(forest=impl.snapshot(), solo=impl.snapshot_solo(), touched=touched, n=len(impl.roots))
  def __call__(self, impl, n, scope, op, res, info, before):
    if before is None:
      return
    tag = op[0]
    name = D.OP_NAMES[tag]
    after = impl.snapshot()
    # frame: an operation addressed inside one root changes no other root (except a root it was handed as a value)
    self.stats['frame_checks'] += 1
    solo = impl.snapshot_solo()
    for i in range(before['n']):
      if i in before['touched'] or not before['solo'][i]:
        continue          # addressed / handed over as a value / an object that currently sits inside another tree
      if solo[i] != before['solo'][i]:
        self.hits.append(('C07/frame/%s/other-root-changed' % name, '%s addressed in root #%d changed root #%d' % (name, op[1][0], i), n))
        break
    if tag in CLONE_OPS and info.get('exception') is None and info['new_roots']:
      self.stats['clones'] += 1
      orig, cl = info['target'], info['new_roots'][0]
      mode = op[2] if tag == D.CLONE else 0
      deep = mode in (1, 3)
      via = {0: 'clone()', 1: 'clone(deep=True)', 2: 'copy.copy', 3: 'copy.deepcopy'}[mode] if tag == D.CLONE else 'Dict.copy()'
      for h in check_clone(impl, orig, cl, deep, via):
        clause, what = h[0], h[1]
        disc = '%s-%s' % (h[2], h[3]) if len(h) > 2 else ('deep' if deep else 'shallow')
        self.hits.append(('C07/%s/%s/%s' % (clause, 'copy' if disc == 'list-holds-MISSING' else via, disc), '%s: %s' % (via, what), n))
      # cloning never modifies the original (nor anything else)
      if solo[:before['n']] != before['solo']:
        self.hits.append(('C07/original-modified/%s/-' % via, '%s changed an existing tree' % via, n))
      # copy.copy / copy.deepcopy coincide with clone(deep=False/True)
      other = copy.deepcopy(orig) if deep else copy.copy(orig)
      t1 = D.Impl(); t1.roots.append(cl)
      t2 = D.Impl(); t2.roots.append(other)
      if t1.snapshot() != t2.snapshot():
        self.hits.append(('C07/copy-differs/%s/-' % ('deepcopy' if deep else 'copy'), 'copy.%s gives a different tree than clone(deep=%s)' % ('deepcopy' if deep else 'copy', deep), n))
      self.clones.append((orig, cl))
    elif tag in D.MUTATING and info.get('exception') is None:
      if self.clones:
        self.stats['mutations_after_clone'] += 1

def run(ctx):
  D.run_property(ctx, 'C07', Oracle, extra=extras, focus={D.CLONE, D.DCOPY})

def extras(ctx):
  flag_sweep(ctx)
  tuple_sweep(ctx)
  scope_sweep(ctx)
  special_sweep(ctx)
  primed_sweep(ctx)
  sharing_sweep(ctx)
  placeholder_sweep(ctx)

# ----------------------------------------------------------------------------------------------------
# Oracle-only sweeps over values the SymCore model does not contain.
def mutables(x, out=None, _seen=None):
  """Every mutable object reachable from x: symbolic nodes, plain lists / dicts, opaque objects -- descending through the
  items of symbolic nodes, through tuples and through plain containers.  Returns {id: object}."""
  out = {} if out is None else out
  _seen = set() if _seen is None else _seen
  if id(x) in _seen:
    return out
  _seen.add(id(x))
  if D.is_sym(x):
    out[id(x)] = x
    for _, v in D.sym_children(x):
      mutables(v, out, _seen)
  elif isinstance(x, tuple):
    for v in x: mutables(v, out, _seen)
  elif isinstance(x, list):
    out[id(x)] = x
    for v in x: mutables(v, out, _seen)
  elif isinstance(x, dict):
    out[id(x)] = x
    for v in x.values(): mutables(v, out, _seen)
  elif isinstance(x, D.Opq):
    out[id(x)] = x
  return out

def deep_view(x):
  """A structural view of a value (through tuples and plain containers) for before / after comparison."""
  if D.is_sym(x):
    return (type(x).__name__, x.is_sealed, x.accessor_writable, x.allow_partial, [(repr(k), deep_view(v)) for k, v in D.sym_children(x)])
  if isinstance(x, tuple): return ('tuple', [deep_view(v) for v in x])
  if isinstance(x, list): return ('list', [deep_view(v) for v in x])
  if isinstance(x, dict): return ('dict', [(repr(k), deep_view(v)) for k, v in x.items()])
  if isinstance(x, D.Opq): return ('opq', x.tag)
  return repr(x)

def _mutate_everything(x, _seen=None):
  """Changes every mutable object reachable from x (in place)."""
  P = D.pg()
  _seen = set() if _seen is None else _seen
  if id(x) in _seen: return
  _seen.add(id(x))
  if D.is_sym(x):
    kids = D.sym_children(x)
    for _, v in kids: _mutate_everything(v, _seen)
    with P.as_sealed(False), P.allow_writable_accessors(True):
      if isinstance(x, P.List): x.append(4242)
      elif isinstance(x, P.Dict):
        try:
          x['zz_mut'] = 4242
        except KeyError:            # a typed dict: change a declared key instead
          for k, v in kids:
            if isinstance(v, int) and not isinstance(v, bool): x[k] = v + 4242; break
      else:
        for k, v in kids:
          if not D.is_sym(v) and not isinstance(v, (tuple, list, dict)):
            try:
              x.rebind({k: 4242}); break
            except (TypeError, ValueError):     # a typed field that does not take an int
              continue
  elif isinstance(x, tuple):
    for v in x: _mutate_everything(v, _seen)
  elif isinstance(x, list):
    for v in list(x): _mutate_everything(v, _seen)
    x.append(4242)
  elif isinstance(x, dict):
    for v in list(x.values()): _mutate_everything(v, _seen)
    x['zz_mut'] = 4242
  elif isinstance(x, D.Opq):
    x.tag += 1000

def tuple_values():
  """Values with tuples (and nested tuples) as list elements / dict values / object fields, holding symbolic and plain mutable values."""
  P = D.pg()
  A, B, C = D.classes()
  def t1(): return ('load', P.Dict(paths=['a', 'b'], cache=False))
  def t2(): return (P.List([P.Dict(lr=1)]), [1, 2], {'k': [3]}, (D.Opq(1), (P.Dict(deep=1),)))
  def t3(): return (B(x=P.Dict(a=1), y=[1]), D.Opq(2))
  for name, mk_t in (('pair', t1), ('nested', t2), ('object', t3)):
    yield 'List[%s]' % name, lambda mk_t=mk_t: P.List([mk_t(), 3, mk_t()])
    yield 'Dict{%s}' % name, lambda mk_t=mk_t: P.Dict(x=mk_t(), y=P.Dict(z=mk_t()))
    yield 'Object(%s)' % name, lambda mk_t=mk_t: B(x=mk_t(), y=P.List([mk_t()]), z=1)
    yield 'Dict{List[%s]}' % name, lambda mk_t=mk_t: P.Dict(hooks=P.List([mk_t()]), n=1)
    yield 'sealed List[%s]' % name, lambda mk_t=mk_t: P.List([mk_t()], sealed=True)

DEEP_COPIES = {'clone(deep=True)': lambda v: v.clone(deep=True), 'pg.clone(deep=True)': lambda v: D.pg().clone(v, deep=True),
               'copy.deepcopy': copy.deepcopy, 'clone().clone(deep=True)': lambda v: v.clone().clone(deep=True)}
SHALLOW_COPIES = {'clone()': lambda v: v.clone(), 'copy.copy': copy.copy}

def tuple_probe(c):
  """Runs one (value, copy) pair; returns [(signature, what)]."""
  P = D.pg()
  make = dict((n, m) for n, m in tuple_values())[c['value']]
  how = c['how']
  deep = how in DEEP_COPIES
  a = make()
  before = deep_view(a)
  b = (DEEP_COPIES if deep else SHALLOW_COPIES)[how](a)
  out = []
  if not P.eq(a, b): out.append(('C07/not-equal/%s/tuple-leaf' % how, 'pg.eq(original, copy) is False for %s' % c['value']))
  if deep_view(a) != before: out.append(('C07/original-modified/%s/tuple-leaf' % how, 'copying changed the original'))
  shared = set(mutables(a)) & set(mutables(b))
  if deep and shared:
    kinds = sorted({type(mutables(a)[i]).__name__ for i in shared})
    out.append(('C07/deep-shared-mutable/%s/inside-tuple' % how,
                '%s of %s shares %d mutable object(s) with the original (%s) -- reached through a tuple leaf' % (how, c['value'], len(shared), ', '.join(kinds))))
  if not deep:
    # a shallow copy copies every symbolic container OF THE TREE (what a tuple leaf holds is shared with the leaf)
    ta, tb = {}, {}
    D.walk(a, lambda x, p, k: ta.__setitem__(id(x), x)); D.walk(b, lambda x, p, k: tb.__setitem__(id(x), x))
    if set(ta) & set(tb):
      out.append(('C07/shallow-shared-node/%s/-' % how, 'a shallow copy shares a symbolic container of the tree with the original'))
  if deep:
    # independence: change everything below the copy; the original must not move (and vice versa)
    _mutate_everything(b)
    if deep_view(a) != before:
      out.append(('C07/mutation-visible/%s/copy-to-original' % how, 'after mutating everything reachable from the copy of %s the original has changed' % c['value']))
    a2 = make(); b2 = DEEP_COPIES[how](a2); v2 = deep_view(b2)
    _mutate_everything(a2)
    if deep_view(b2) != v2:
      out.append(('C07/mutation-visible/%s/original-to-copy' % how, 'after mutating everything reachable from the original %s the copy has changed' % c['value']))
  return out

def tuple_sweep(ctx):
  n = 0
  for vname, _ in tuple_values():
    for how in list(DEEP_COPIES) + list(SHALLOW_COPIES):
      c = dict(kind='tuple', value=vname, how=how)
      n += 1
      ctx.evaluations += 1
      for sig, what in tuple_probe(c):
        ctx.hit(sig, what, c)
  ctx.extra['tuple_sweep'] = dict(oracle_only=True, cases=n, what='tuples (and nested tuples) as list elements / dict values / object fields holding pg.Dict / pg.List / pg.Object, plain lists / dicts '
                                  'and opaque objects; deep copies: pg.eq, original unchanged, no mutable object shared (descending through tuples and plain containers), '
                                  'mutation of everything below one copy invisible in the other')
  ctx.log('tuple sweep (oracle only): %d cases' % n)

# ----------------------------------------------------------------------------------------------------
# Node types with their own _sym_clone (oracle only): pg.Ref, pg.functor objects, geno.DNA (metadata), hyper primitives (oneof / manyof /
# floatv, free and bound to a typed field).  Fidelity of flags per node, equality, deep copies share no mutable object (DNA: also inside the
# cloneable metadata; pg.Ref: the referenced value is shared by design), independence of what the copies REPORT (a functor's bound / specified
# arguments), schema binding of a primitive inside a copied parent.
_SPECIAL = []
def special_classes():
  if not _SPECIAL:
    P = D.pg()
    @P.functor()
    def c07_fn(x=1, y=2, z=3):
      return (x, y, z)
    @P.members([('p', P.typing.Int()), ('q', P.typing.Any(default=None))])
    class C07Bound(P.Object):
      pass
    _SPECIAL.extend([c07_fn, C07Bound])
  return _SPECIAL

def special_values():
  P = D.pg()
  F, Bound = special_classes()
  A, B, C = D.classes()
  def dna():
    d = P.DNA([0, 1])
    d.set_metadata('m', [D.Opq(1), P.Dict(q=D.Opq(2))], cloneable=True)
    d.set_metadata('n', 5, cloneable=True)
    return d
  yield 'Ref', lambda: P.Ref(P.Dict(a=1))
  yield 'Dict{Ref}', lambda: P.Dict(r=P.Ref(P.Dict(a=1)), k=[P.Ref(P.List([1]))])
  yield 'Object(Ref)', lambda: B(x=P.Ref(P.Dict(a=1)), y=1)
  yield 'Functor', lambda: F(x=5, y=P.Dict(a=D.Opq(3)))
  yield 'Dict{Functor}', lambda: P.Dict(f=F(x=5), l=[F(y=P.List([D.Opq(4)]))])
  yield 'DNA', dna
  yield 'List[DNA]', lambda: P.List([dna(), 1])
  yield 'OneOf', lambda: P.oneof([1, P.Dict(a=D.Opq(5)), 3])
  yield 'ManyOf', lambda: P.manyof(2, [1, 2, P.Dict(a=1)])
  yield 'Float', lambda: P.floatv(0.0, 1.0)
  yield 'Object(bound OneOf)', lambda: Bound(p=P.oneof([1, 2]), q=P.manyof(2, [1, 2, 3]))
  yield 'Dict{Object(bound OneOf)}', lambda: P.Dict(b=Bound(p=P.oneof([1, 2])), o=P.oneof(['a', 'b']))

def _special_nodes(x):
  """Nodes of x in walk order (descending, for a DNA, into its metadata as well)."""
  P = D.pg()
  out = []
  D.walk(x, lambda n, p, k: out.append(n))      # (the metadata of a DNA is a symbolic field: the walk descends into it)
  return out

def _flippable(v):
  """Nodes whose flags the sweep sets and compares: all but the `children` list and an EMPTY `metadata` dict of a DNA (the DNA constructor derives
  the former again from the value and replaces an empty container by a new one)."""
  P = D.pg()
  def derived(n):
    return isinstance(n.sym_parent, P.DNA) and ((isinstance(n, P.List) and n.sym_path.key == 'children') or (isinstance(n, P.Dict) and n.sym_path.key == 'metadata' and not len(n)))
  return [n for n in _special_nodes(v) if not derived(n)]

def _special_mutables(x):
  P = D.pg()
  out = {}
  for n in _special_nodes(x):
    if isinstance(n, P.Ref):
      out[id(n)] = n          # the reference object itself; the referenced value is shared by design
      continue
    mutables(n, out)
  # a pg.Ref inside: what it refers to is not part of the copy
  for n in list(out.values()):
    if isinstance(n, P.Ref) and D.is_sym(n.value):
      for i in mutables(n.value):
        out.pop(i, None)
  return out

def _reported(x):
  """What the special nodes report about themselves besides their items."""
  P = D.pg()
  out = []
  for n in _flippable(x):
    row = [type(n).__name__, n.is_sealed, n.accessor_writable, n.allow_partial]
    if isinstance(n, P.Functor):
      row += [sorted(n.specified_args), sorted(n.non_default_args), sorted(n.default_args), sorted(n.bound_args)]
    if isinstance(n, P.DNA):
      row += [deep_view(n.metadata) if len(n.metadata) else 'no metadata']
    if isinstance(n, P.Ref):
      row += [id(n.value)]
    out.append(row)
  return out

SPECIAL_FLAGS = {'as built': lambda v: v, 'sealed': lambda v: v.seal(), 'accessor flag flipped on every node': lambda v: ([n.set_accessor_writable(not n.accessor_writable) for n in _flippable(v)], v)[1],
                 'sealed + flipped': lambda v: ([n.set_accessor_writable(not n.accessor_writable) for n in _flippable(v)], v.seal())[1]}

def special_probe(c):
  P = D.pg()
  make = dict(special_values())[c['value']]
  how = c['how']
  deep = how in DEEP_COPIES
  cp = (DEEP_COPIES if deep else SHALLOW_COPIES)[how]
  out = []
  dk = 'deep copy' if deep else 'shallow copy'
  base = c['value'].split('{')[0].split('(')[0].split('[')[0]
  a = SPECIAL_FLAGS[c['flags']](make())
  before = _reported(a)
  try:
    b = cp(a)
  except Exception as e:      # pylint: disable=broad-except
    return [('C07/clone-raises/%s/%s' % (dk, 'DNA' if 'DNA' in c['value'] else base), '%s of %s (%s) raises %s' % (how, c['value'], c['flags'], type(e).__name__))]
  tag = c['value']
  if not P.eq(a, b): out.append(('C07/not-equal/%s/%s' % (dk, tag), 'pg.eq(original, copy) is False for %s' % tag))
  if _reported(a) != before: out.append(('C07/original-modified/%s/%s' % (dk, tag), 'copying changed what the original reports'))
  ra, rb = _reported(a), _reported(b)
  if len(ra) != len(rb):
    out.append(('C07/copy-differs/%s/%s' % (dk, tag), 'the copy has %d nodes, the original %d' % (len(rb), len(ra))))
  for x, y in zip(ra, rb):
    if x[:4] != y[:4]:
      which = ['class', 'sealed', 'accessor_writable', 'allow_partial'][[i for i in range(4) if x[i] != y[i]][0]]
      out.append(('C07/flag-%s/%s/%s-node' % (which, 'deep copy' if deep else 'shallow copy', x[0]),
                  '%s of %s (%s): %s of a %s node is %r in the original and %r in the copy' % (how, tag, c['flags'], which, x[0], x[['class', 'sealed', 'accessor_writable', 'allow_partial'].index(which)],
                                                                                          y[['class', 'sealed', 'accessor_writable', 'allow_partial'].index(which)])))
      break
    if x[4:] != y[4:] and x[0] != 'Ref':
      out.append(('C07/reported-state-differs/%s/%s-node' % ('deep copy' if deep else 'shallow copy', x[0]), '%s of %s: a %s node reports %r, its copy %r' % (how, tag, x[0], x[4:], y[4:])))
      break
    if x[0] == 'Ref' and x[4:] != y[4:]:
      out.append(('C07/reference-retargeted/%s/-' % dk, 'the copy of a pg.Ref refers to another object'))
  if deep:
    shared = set(_special_mutables(a)) & set(_special_mutables(b))
    if shared:
      kinds = sorted({type(_special_mutables(a)[i]).__name__ for i in shared})
      out.append(('C07/deep-shared-mutable/deep copy/%s' % ('DNA-metadata' if 'DNA' in tag else base), '%s of %s shares %d mutable object(s) with the original (%s)' % (how, tag, len(shared), ', '.join(kinds))))
  else:
    ta, tb = {id(n) for n in _special_nodes(a)}, {id(n) for n in _special_nodes(b)}
    if ta & tb:
      out.append(('C07/shallow-shared-node/%s/%s' % (dk, tag), 'a shallow copy shares a symbolic node with the original'))
  # what the copies report is independent: bind / unbind arguments of every functor of one copy
  def poke(v):
    for n in _special_nodes(v):
      if isinstance(n, P.Functor):
        with P.as_sealed(False), P.allow_writable_accessors(True):
          n.rebind(z=99)
          n.x = 7
          try: del n.y
          except Exception: pass      # pylint: disable=broad-except
      if isinstance(n, P.DNA):
        with P.as_sealed(False):
          n.set_metadata('n', 6, cloneable=True)
  if any(isinstance(n, (P.Functor, P.DNA)) for n in _special_nodes(a)):
    a1 = SPECIAL_FLAGS[c['flags']](make()); b1 = cp(a1); r0 = _reported(a1)
    poke(b1)
    if _reported(a1) != r0:
      out.append(('C07/mutation-visible/%s/copy-to-original-reported' % dk, 'after binding / un-binding arguments (setting metadata) on the copy of %s the original reports %r, before %r' % (
          tag, [r[4:] for r in _reported(a1) if len(r) > 4], [r[4:] for r in r0 if len(r) > 4])))
    a2 = SPECIAL_FLAGS[c['flags']](make()); b2 = cp(a2); r0 = _reported(b2)
    poke(a2)
    if _reported(b2) != r0:
      out.append(('C07/mutation-visible/%s/original-to-copy-reported' % dk, 'after binding / un-binding arguments (setting metadata) on the original %s the copy reports something else' % tag))
  # schema binding of a hyper primitive that sits in a typed field of a copied parent
  def bindings(v):
    return [(type(n).__name__, str(n.sym_path), repr(getattr(n, '_value_spec', None))) for n in _special_nodes(v) if hasattr(n, '_value_spec') and n.sym_parent is not None]
  if bindings(a) != bindings(b):
    out.append(('C07/schema-binding/%s/hyper-primitive-in-field' % dk, 'the primitives inside the copy of %s are bound to %r, in the original to %r' % (tag, bindings(b), bindings(a))))
  return out

def special_sweep(ctx):
  n = 0
  for vname, _ in special_values():
    for fl in SPECIAL_FLAGS:
      for how in list(DEEP_COPIES) + list(SHALLOW_COPIES):
        c = dict(kind='special', value=vname, flags=fl, how=how)
        n += 1
        ctx.evaluations += 1
        for sig, what in special_probe(c):
          ctx.hit(sig, what, c)
  ctx.extra['special_sweep'] = dict(oracle_only=True, cases=n, what='node types with their own _sym_clone -- pg.Ref, functor objects, geno.DNA with cloneable metadata, oneof / manyof / floatv free and bound to typed '
                                    'fields -- alone and inside Dict / List / Object, x 4 flag settings x 6 copy routes: pg.eq, per-node flags, reported state (functor argument sets, DNA metadata), no '
                                    'mutable object shared by deep copies (incl. DNA metadata; the value a pg.Ref refers to is shared by design), binding / un-binding arguments of one copy not reported by '
                                    'the other, schema binding of primitives inside copied parents')
  ctx.log('special-node sweep (oracle only): %d cases' % n)

# ----------------------------------------------------------------------------------------------------
# The QUERY PATTERN is part of the case (oracle only).  Derived facts of a node -- sym_nondefault / sym_missing / non_default_values / missing_values,
# sym_puresymbolic, is_partial, sym_hash, ... -- are cached; a copy must neither inherit what the original computed nor hand out the original's
# nodes.  For every value x priming of the ORIGINAL (no query / root only / every node) x copy route:
#   * everything the copy's derived-fact getters hand out (descending through dicts / lists / tuples) is identity-disjoint from the nodes of the
#     original (deep copies: from every mutable object of the original);
#   * the getters of the copy report what the getters of a copy of an UNPRIMED twin report;
#   * mutating everything below the original does not change what the copy's getters report, and vice versa;
#   * rebinding a node handed out by a getter of the copy does not change the original.
_PRIMED = []
def primed_classes():
  if not _PRIMED:
    P = D.pg()
    T = P.typing
    @P.members([('v', T.Int()), ('o', T.Any(default=None))])
    class C07Inner(P.Object):
      pass
    @P.members([('inner', T.Object(C07Inner)), ('tags', T.List(T.Any(), default=[])), ('d', T.Dict([('k', T.Int(default=0)), ('l', T.List(T.Int(), default=[]))])),
                ('leaf', T.Any(default=None)), ('opt', T.Object(C07Inner).noneable())])
    class C07Outer(P.Object):
      pass
    _PRIMED.extend([C07Inner, C07Outer])
  return _PRIMED

def primed_values():
  P = D.pg()
  Inner, Outer = primed_classes()
  A, B, C = D.classes()
  yield 'typed-object', lambda: Outer(inner=Inner(v=1, o=D.Opq(1)), tags=['a', P.Dict(t=1)], d=dict(k=2, l=[1]), leaf=D.Opq(2))
  yield 'typed-object-partial', lambda: Outer.partial(inner=Inner.partial(o=[1]), tags=[Inner(v=3)])
  yield 'dict-of-typed', lambda: P.Dict(m=Outer(inner=Inner(v=1), tags=[[1]], leaf=[D.Opq(3)]), u=[Inner(v=2, o=P.Dict(z=1))])
  yield 'list-of-typed', lambda: P.List([Outer(inner=Inner(v=1, o=P.List([D.Opq(4)]))), Inner(v=5)])
  yield 'typed-dict', lambda: P.Dict(k=3, l=[1, 2], value_spec=P.typing.Dict([('k', P.typing.Int(default=0)), ('l', P.typing.List(P.typing.Int(), default=[])), ('m', P.typing.Any(default=None))]))
  yield 'untyped', lambda: P.Dict(a=P.Dict(b=D.Opq(5)), l=P.List([A(x=P.Dict(q=1), y=[D.Opq(6)]), [2]]))
  yield 'object-of-objects', lambda: B(x=A(x=P.Dict(a=1)), y=Outer(inner=Inner(v=1)), z=[Inner(v=2, o=D.Opq(7))])

FACT_GETTERS = [
    ('sym_nondefault()', lambda n: n.sym_nondefault()), ('sym_nondefault(flatten=False)', lambda n: n.sym_nondefault(flatten=False)),
    ('sym_missing()', lambda n: n.sym_missing()), ('sym_missing(flatten=False)', lambda n: n.sym_missing(flatten=False)),
    ('non_default_values()', lambda n: n.non_default_values()), ('missing_values()', lambda n: n.missing_values()),
    ('sym_puresymbolic', lambda n: n.sym_puresymbolic), ('sym_partial', lambda n: n.sym_partial), ('is_partial', lambda n: n.is_partial),
    ('sym_abstract', lambda n: n.sym_abstract), ('is_deterministic', lambda n: n.is_deterministic), ('sym_hash()', lambda n: n.sym_hash()),
]
def _facts(x, nodes_too=False):
  """{getter name: value} for the root (and, when asked, for every node); getters that raise are recorded by the exception class."""
  out = {}
  targets = [('', x)]
  if nodes_too:
    targets = []
    D.walk(x, lambda n, p, k: targets.append((str(n.sym_path), n)))
  for tl, n in targets:
    for name, g in FACT_GETTERS:
      try:
        out[(tl, name)] = g(n)
      except Exception as e:      # pylint: disable=broad-except
        out[(tl, name)] = ('raises', type(e).__name__)
  return out

def _facts_view(f):
  return sorted((k, deep_view(v) if not isinstance(v, int) or isinstance(v, bool) else ('int', v)) for k, v in f.items() if k[1] != 'sym_hash()')

def _handed_out(f, out=None):
  """Every mutable object (symbolic nodes, plain containers, opaque leaves) reachable from what the getters returned."""
  out = {}
  for v in f.values():
    mutables(v, out)
  return out

PRIMINGS = {'no query': lambda x: None, 'root queried': lambda x: _facts(x), 'every node queried': lambda x: _facts(x, True)}

def primed_probe(c):
  P = D.pg()
  make = dict(primed_values())[c['value']]
  how = c['how']
  deep = how in DEEP_COPIES
  cp = (DEEP_COPIES if deep else SHALLOW_COPIES)[how]
  prime = PRIMINGS[c['priming']]
  dk = 'deep copy' if deep else 'shallow copy'
  out = []
  a = make(); prime(a)
  b = cp(a)
  if not P.eq(a, b): out.append(('C07/not-equal/%s/after-queries' % dk, 'pg.eq(original, copy) is False for %s (%s)' % (c['value'], c['priming'])))
  fb = _facts(b, True)
  # identity: nothing the copy hands out belongs to the original
  anodes = {}
  D.walk(a, lambda n, p, k: anodes.__setitem__(id(n), n))
  amut = mutables(a)
  handed = _handed_out(fb)
  bad_nodes = [i for i in handed if i in anodes]
  if bad_nodes:
    n = anodes[bad_nodes[0]]
    which = [k for k, v in fb.items() if bad_nodes[0] in mutables(v)][0]
    out.append(('C07/derived-fact-hands-out-original-node/%s/%s' % (dk, which[1].split('(')[0]),
                '%s of %s (%s): %s of the copy%s hands out the %s at %r OF THE ORIGINAL' % (how, c['value'], c['priming'], which[1], ' node at %r' % which[0] if which[0] else '', type(n).__name__, str(n.sym_path))))
  elif deep:
    shared = [i for i in handed if i in amut]
    if shared:
      which = [k for k, v in fb.items() if shared[0] in mutables(v)][0]
      out.append(('C07/derived-fact-shares-mutable/deep copy/%s' % which[1].split('(')[0],
                  '%s of %s (%s): %s of the copy hands out a %s object of the original' % (how, c['value'], c['priming'], which[1], type(amut[shared[0]]).__name__)))
  # the copy reports what a copy of an unprimed twin reports
  fresh = cp(make())
  if _facts_view(fb) != _facts_view(_facts(fresh, True)):
    d = [k for (k, x), (k2, y) in zip(_facts_view(fb), _facts_view(_facts(fresh, True))) if x != y]
    out.append(('C07/derived-fact-differs/%s/%s' % (dk, d[0][1].split('(')[0] if d else '-'),
                '%s of %s (%s): the copy reports %s differently from a copy of a twin that was never queried' % (how, c['value'], c['priming'], d[:3])))
  # independence of what is reported
  if not out:
    a1 = make(); prime(a1); b1 = cp(a1); v0 = _facts_view(_facts(b1, True))
    _mutate_everything(a1)
    v1 = _facts_view(_facts(b1, True))
    if v1 != v0 and deep:
      d = [k for (k, x), (k2, y) in zip(v0, v1) if x != y]
      out.append(('C07/mutation-visible/deep copy/original-to-copy-derived-facts', 'after mutating everything below the original %s (%s) the copy reports %s differently' % (c['value'], c['priming'], d[:3])))
    elif not deep:
      # a shallow copy shares leaf objects: mutate only the symbolic containers of the original
      a3 = make(); prime(a3); b3 = cp(a3); v0 = _facts_view(_facts(b3, True))
      with P.as_sealed(False), P.allow_writable_accessors(True):
        for n in list(_special_nodes(a3)):
          if isinstance(n, P.List): n.append(4242)
          elif isinstance(n, P.Dict) and n.value_spec is None: n['zz_mut'] = 4242
      v1 = _facts_view(_facts(b3, True))
      if v1 != v0:
        d = [k for (k, x), (k2, y) in zip(v0, v1) if x != y]
        out.append(('C07/mutation-visible/shallow copy/original-to-copy-derived-facts', 'after adding an item to every container of the original %s (%s) the copy reports %s differently' % (c['value'], c['priming'], d[:3])))
    a2 = make(); prime(a2); b2 = cp(a2); prime(b2); va = deep_view(a2)
    # rebinding what a getter of the copy hands out must not reach the original
    with P.as_sealed(False), P.allow_writable_accessors(True):
      for v in list(_handed_out(_facts(b2, True)).values()):
        try:
          if isinstance(v, P.List): v.append(777)
          elif isinstance(v, P.Dict) and v.value_spec is None: v['zz_handed'] = 777
          elif isinstance(v, P.Object) and v.sym_hasattr('o'): v.rebind(o=777)
          elif deep and isinstance(v, D.Opq): v.tag += 5000
        except Exception:      # pylint: disable=broad-except
          pass
    if deep_view(a2) != va:
      out.append(('C07/mutation-visible/%s/through-derived-facts-of-copy' % dk, 'changing what the derived-fact getters of the copy of %s (%s) hand out changes the original' % (c['value'], c['priming'])))
  return out

def primed_sweep(ctx):
  import time
  t0 = time.time()
  n = 0
  for vname, _ in primed_values():
    for pr in PRIMINGS:
      for how in list(DEEP_COPIES) + list(SHALLOW_COPIES):
        c = dict(kind='primed', value=vname, priming=pr, how=how)
        n += 1
        ctx.evaluations += 1
        for sig, what in primed_probe(c):
          ctx.hit(sig, what, c)
  ctx.extra['primed_sweep'] = dict(oracle_only=True, cases=n, getters=[g for g, _ in FACT_GETTERS], primings=sorted(PRIMINGS),
                                   what='derived facts queried on the original (not at all / root / every node) before each copy route; what the copy\'s getters hand out is identity-disjoint from the '
                                        'original, equals what a copy of a never-queried twin reports, does not move when the original is mutated, and cannot be used to change the original')
  ctx.log('primed-query sweep (oracle only): %d cases in %.1fs' % (n, time.time() - t0))

# ----------------------------------------------------------------------------------------------------
# One opaque leaf object at several places (oracle only): sibling subtrees, nested-then-root, root-then-nested, in lists, object fields, inside
# tuples, with and without another opaque leaf copied before the first occurrence; every copy route.  Deep copies: the identity-sharing partition
# of the places equals the original's (copy.deepcopy memo semantics), nothing is shared with the original, a change made through one place is seen
# through exactly the places that share the object.  Shallow copies: every place holds the original's object.
def sharing_values():
  P = D.pg()
  A, B, C = D.classes()
  def two(): return D.Opq(1), D.Opq(2)
  shapes = {
      'flat diamond Dict(p=a, q=a)': lambda a, b: P.Dict(p=a, q=a),
      'sibling subtrees Dict(x=Dict(v=a), y=Dict(v=a))': lambda a, b: P.Dict(x=P.Dict(v=a), y=P.Dict(v=a)),
      'nested then root Dict(x=Dict(v=a), p=a)': lambda a, b: P.Dict(x=P.Dict(v=a), p=a),
      'root then nested Dict(p=a, x=Dict(v=a))': lambda a, b: P.Dict(p=a, x=P.Dict(v=a)),
      'another leaf first Dict(b=b, x=Dict(v=a), y=Dict(v=a))': lambda a, b: P.Dict(b=b, x=P.Dict(v=a), y=P.Dict(v=a)),
      'another leaf nested first Dict(w=Dict(b=b), x=Dict(v=a), y=Dict(v=a))': lambda a, b: P.Dict(w=P.Dict(b=b), x=P.Dict(v=a), y=P.Dict(v=a)),
      'depth 3 Dict(x=Dict(m=Dict(v=a)), y=List([Dict(v=a)]))': lambda a, b: P.Dict(x=P.Dict(m=P.Dict(v=a)), y=P.List([P.Dict(v=a)])),
      'list elements List([List([a]), List([a]), a])': lambda a, b: P.List([P.List([a]), P.List([a]), a]),
      'list of dicts List([Dict(v=a), Dict(v=b), Dict(v=a)])': lambda a, b: P.List([P.Dict(v=a), P.Dict(v=b), P.Dict(v=a)]),
      'object fields B(x=A(x=a), y=A(y=a), z=a)': lambda a, b: B(x=A(x=a), y=A(y=a), z=a),
      'object in dict Dict(o=A(x=a), d=Dict(k=a))': lambda a, b: P.Dict(o=A(x=a), d=P.Dict(k=a)),
      'inside tuples Dict(x=Dict(t=(a, 1)), y=Dict(t=(2, a)))': lambda a, b: P.Dict(x=P.Dict(t=(a, 1)), y=P.Dict(t=(2, a))),
      'two shared objects Dict(x=Dict(u=a, v=b), y=Dict(u=b, v=a))': lambda a, b: P.Dict(x=P.Dict(u=a, v=b), y=P.Dict(u=b, v=a)),
      'three places List([Dict(v=a), [Dict(w=a)], Dict(z=Dict(v=a))])': lambda a, b: P.List([P.Dict(v=a), [P.Dict(w=a)], P.Dict(z=P.Dict(v=a))]),
      'sealed Dict(x=Dict(v=a), y=Dict(v=a))': lambda a, b: P.Dict(x=P.Dict(v=a), y=P.Dict(v=a)).seal(),
  }
  for name, mk in shapes.items():
    yield name, (lambda mk=mk: mk(*two()))
    # the same shape one level down (the memo arrives from an enclosing node)
    yield 'Dict(h=%s)' % name, (lambda mk=mk: P.Dict(h=mk(*two())))
    yield 'List([0, %s])' % name, (lambda mk=mk: P.List([0, mk(*two())]))

def sharing_probe(c):
  P = D.pg()
  make = dict(sharing_values())[c['value']]
  how = c['how']
  deep = how in DEEP_COPIES
  a = make()
  before = deep_view(a); part = sharing_partition(opq_places(a))
  b = (DEEP_COPIES if deep else SHALLOW_COPIES)[how](a)
  out = []
  dk = 'deep copy' if deep else 'shallow copy'
  if not P.eq(a, b): out.append(('C07/not-equal/%s/shared-leaf' % dk, 'pg.eq(original, copy) is False for %s' % c['value']))
  if deep_view(a) != before or sharing_partition(opq_places(a)) != part:
    out.append(('C07/original-modified/%s/shared-leaf' % dk, 'copying changed the original'))
  for clause, what in check_sharing(a, b, deep):
    out.append(('C07/%s/%s/one-object-at-several-places' % (clause, dk), '%s of %s: %s' % (how, c['value'], what)))
  return out

def sharing_sweep(ctx):
  n = 0
  for vname, _ in sharing_values():
    for how in list(DEEP_COPIES) + list(SHALLOW_COPIES):
      c = dict(kind='sharing', value=vname, how=how)
      n += 1
      ctx.evaluations += 1
      for sig, what in sharing_probe(c):
        ctx.hit(sig, what, c)
  ctx.extra['sharing_sweep'] = dict(oracle_only=True, cases=n, what='one opaque mutable leaf object at several places (sibling subtrees, nested-then-root, root-then-nested, lists, object fields, tuples, '
                                    'with / without another leaf copied first; alone and one level down) x 6 copy routes: the identity-sharing partition of a deep copy equals the original\'s, no '
                                    'leaf is shared with the original, a change through one place is seen through exactly the sharing places; shallow copies hold the original\'s objects')
  ctx.log('sharing sweep (oracle only): %d cases' % n)

# ----------------------------------------------------------------------------------------------------
# Lists in the 'placeholders pending' state (oracle only; the same patterns are also corpus cases of the model correspondence): 1-3 elements replaced by
# MISSING_VALUE with the notification skipped -- every subset of the positions of a 5-element list, i.e. adjacent pairs / triples at head, middle and
# tail, non-adjacent, trailing -- by `l[i] = MISSING` under notify_on_change(False) or by rebind(..., skip_notification=True); copied at once by every
# route, standalone and inside Dict / List / Object (depth 1 and 2).  pg.eq, the raw layout (which index holds a placeholder / which element), the
# paths of the elements, the clone oracle of the histories, and independence of the deferred removal (each copy compacts on its own notification).
def _raw_layout(l):
  P = D.pg()
  return [('M' if (not D.is_sym(v) and P.MISSING_VALUE == v) else (type(v).__name__, str(v.sym_path.key)) if D.is_sym(v) else repr(v)) for v in l.sym_values()]

def placeholder_cases():
  import itertools
  for r in (1, 2, 3):
    for S in itertools.combinations(range(5), r):
      for host in ('standalone', 'in-dict', 'in-list', 'in-object', 'depth-2'):
        for method in ('setitem', 'rebind'):
          for how in list(DEEP_COPIES) + list(SHALLOW_COPIES) + ['List.copy()']:
            yield dict(kind='placeholders', holes=list(S), host=host, method=method, how=how)

def placeholder_probe(c):
  P = D.pg()
  A, B, C = D.classes()
  l = P.List([P.Dict(a=0), 1, P.Dict(b=2), D.Opq(3), P.Dict(c=[4])])
  root = {'standalone': lambda: l, 'in-dict': lambda: P.Dict(h=l, k=1), 'in-list': lambda: P.List([0, l]), 'in-object': lambda: B(x=l, y=1),
          'depth-2': lambda: P.Dict(o=B(x=P.Dict(m=l)))}[c['host']]()
  find = {'standalone': lambda r: r, 'in-dict': lambda r: r.h, 'in-list': lambda r: r[1], 'in-object': lambda r: r.x, 'depth-2': lambda r: r.o.x.m}[c['host']]
  if c['method'] == 'setitem':
    with P.notify_on_change(False):
      for i in c['holes']: l[i] = P.MISSING_VALUE
  else:
    l.rebind({i: P.MISSING_VALUE for i in c['holes']}, skip_notification=True)
  how = c['how']
  if how == 'List.copy()':
    if c['host'] != 'standalone': return []
    deep, cp = False, (lambda v: v.copy())
  else:
    deep = how in DEEP_COPIES
    cp = (DEEP_COPIES if deep else SHALLOW_COPIES)[how]
  dk = 'deep copy' if deep else 'shallow copy'
  pat = 'adjacent' if any(b - a == 1 for a, b in zip(c['holes'], c['holes'][1:])) else 'single' if len(c['holes']) == 1 else 'non-adjacent'
  out = []
  la0 = _raw_layout(l)
  b = cp(root)
  lb = find(b)
  if _raw_layout(l) != la0: out.append(('C07/original-modified/%s/placeholders-pending' % dk, 'copying changed the original list'))
  if not P.eq(root, b):
    out.append(('C07/not-equal/%s/placeholders-%s' % (dk, pat), '%s of a list with pending placeholders at %s (%s, %s): pg.eq(original, copy) is False: original %s, copy %s' % (
        how, c['holes'], c['host'], c['method'], la0, _raw_layout(lb))))
  elif _raw_layout(lb) != la0:
    out.append(('C07/copy-differs/%s/placeholders-%s' % (dk, pat), '%s of a list with pending placeholders at %s: layout %s, original %s' % (how, c['holes'], _raw_layout(lb), la0)))
  if how != 'List.copy()':
    for h in check_clone(None, root, b, deep, how):
      if h[0] != 'not-equal':
        out.append(('C07/%s/%s/placeholders-pending' % (h[0], dk), '%s: %s' % (how, h[1])))
  if not out:
    # the deferred removal is each copy's own
    lb.append(7)
    if _raw_layout(l) != la0:
      out.append(('C07/mutation-visible/%s/copy-to-original-placeholders' % dk, 'the notification of the copy changed the original list'))
    exp = [x for x in la0 if x != 'M']
    got = _raw_layout(lb)[:-1]
    if [x if isinstance(x, str) else x[0] for x in got] != [x if isinstance(x, str) else x[0] for x in exp]:
      out.append(('C07/copy-differs/%s/placeholders-after-notification' % dk, 'after its next notification the copy holds %s, expected the kept elements %s' % (got, exp)))
    t = D.Impl(); t.roots.extend([b, root])
    for clause, what in C01.check_forest(t):
      out.append(('C07/copy-not-wellformed/%s/placeholders-after-notification' % dk, '%s %s' % (clause, what))); break
    l.append(8)
    if _raw_layout(lb)[:-1] != got:
      out.append(('C07/mutation-visible/%s/original-to-copy-placeholders' % dk, 'the notification of the original changed the copy'))
  return out

def placeholder_sweep(ctx):
  import time
  t0 = time.time()
  n = 0
  for c in placeholder_cases():
    if c['how'] == 'List.copy()' and c['host'] != 'standalone':
      continue
    n += 1
    ctx.evaluations += 1
    for sig, what in placeholder_probe(c):
      ctx.hit(sig, what, c)
  ctx.extra['placeholder_sweep'] = dict(oracle_only=True, cases=n, what='every subset of 1-3 positions of a 5-element list replaced by MISSING_VALUE with the notification skipped (setitem under notify_on_change(False) / '
                                        'rebind(skip_notification=True)), copied at once by every route, standalone and inside Dict / List / Object / depth 2: pg.eq, raw layout, paths, clone oracle, and the '
                                        'deferred removal of each copy on its own next notification')
  ctx.log('placeholder sweep (oracle only): %d cases in %.1fs' % (n, time.time() - t0))

# clones made inside scopes keep the flags of every node (typed children included: they are re-applied by the constructor)
_TYPED = None
def typed_classes():
  global _TYPED
  if _TYPED is None:
    P = D.pg()
    @P.members([('x', P.typing.Dict([('a', P.typing.Int())])), ('l', P.typing.List(P.typing.Int(), default=[])),
                ('d', P.typing.Dict([('n', P.typing.Dict([('m', P.typing.Int(default=0))]))]).noneable())])
    class Typed(P.Object):
      pass
    @P.members([('x', P.typing.Any(default=None))])
    class Holder(P.Object):
      pass
    _TYPED = (Typed, Holder)
  return _TYPED

def node_flags(x):
  out = []
  D.walk(x, lambda n, p, k: out.append((str(n.sym_path), type(n).__name__, n.is_sealed, n.accessor_writable, n.allow_partial)))
  return out

def scope_values():
  P = D.pg()
  Typed, Holder = typed_classes()
  A, B, C = D.classes()
  yield 'typed-object', lambda: Typed(x={'a': 1}, l=[1, 2], d={'n': {'m': 3}})
  yield 'typed-object-partial', lambda: Typed.partial(l=[1])
  yield 'holder-of-typed', lambda: Holder(x=Typed(x={'a': 1}))
  yield 'dict-of-typed', lambda: P.Dict(t=Typed(x={'a': 2}), u=[Typed(x={'a': 3})])
  yield 'typed-list', lambda: P.List([P.Dict(a=1)], value_spec=P.typing.List(P.typing.Dict([('a', P.typing.Int())])))
  yield 'typed-dict', lambda: P.Dict(a=1, n={'m': 1}, value_spec=P.typing.Dict([('a', P.typing.Int()), ('n', P.typing.Dict([('m', P.typing.Int())]))]))
  yield 'untyped', lambda: P.Dict(a=P.Dict(b=1, allow_partial=True), l=P.List([A(x=1), [2]], sealed=True))
  yield 'any-object', lambda: B(x=P.Dict(a=1), y=[P.Dict()], z=C(x=1))
SCOPES = {
    'allow_partial(True)': lambda P: P.allow_partial(True), 'allow_partial(False)': lambda P: P.allow_partial(False),
    'as_sealed(True)': lambda P: P.as_sealed(True), 'as_sealed(False)': lambda P: P.as_sealed(False),
    'allow_writable_accessors(False)': lambda P: P.allow_writable_accessors(False), 'allow_writable_accessors(True)': lambda P: P.allow_writable_accessors(True),
    'notify_on_change(False)': lambda P: P.notify_on_change(False), 'enable_type_check(False)': lambda P: P.enable_type_check(False),
}
def scope_probe(c):
  P = D.pg()
  make = dict(scope_values())[c['value']]
  v = make()
  f0 = node_flags(v)
  out = []
  try:
    with SCOPES[c['scope']](P):
      cl = v.clone(deep=c['deep'])
  except Exception as e:       # pylint: disable=broad-except
    return [('C07/clone-raises/%s/%s' % (c['scope'], c['value']), 'clone(deep=%s) of %s inside pg.%s raises %s: %s' % (c['deep'], c['value'], c['scope'], type(e).__name__, str(e)[:80]))]
  f1 = node_flags(cl)
  if f1 != f0:
    a, b = [(x, y) for x, y in zip(f0, f1) if x != y][0] if len(f0) == len(f1) else (len(f0), len(f1))
    out.append(('C07/flags-in-scope/%s/%s' % (c['scope'], c['value']),
                'clone(deep=%s) made inside pg.%s: node %s has (sealed, accessor_writable, allow_partial) = %s in the original and %s in the copy' % (
                    c['deep'], c['scope'], a[0] if isinstance(a, tuple) else '?', a[2:] if isinstance(a, tuple) else a, b[2:] if isinstance(b, tuple) else b)))
  if not P.eq(v, cl):
    out.append(('C07/not-equal/%s/%s' % (c['scope'], c['value']), 'the clone made inside pg.%s is not equal to the original' % c['scope']))
  return out

def scope_sweep(ctx):
  n = 0
  for vname, _ in scope_values():
    for sname in SCOPES:
      for deep in (False, True):
        c = dict(kind='scope', value=vname, scope=sname, deep=deep)
        n += 1
        ctx.evaluations += 1
        for sig, what in scope_probe(c):
          ctx.hit(sig, what, c)
  ctx.extra['scope_sweep'] = dict(oracle_only=True, exhaustive=True, cases=n, what='8 values (typed and untyped) x 8 scopes x deep / shallow clone: flags of every node and pg.eq')
  ctx.log('scope sweep (oracle only): %d cases' % n)

def replay(ctx, rp):
  if rp.get('case', {}).get('kind') == 'flags':
    return not flag_probe(rp['case'])
  if rp.get('case', {}).get('kind') == 'tuple':
    return not tuple_probe(rp['case'])
  if rp.get('case', {}).get('kind') == 'scope':
    return not scope_probe(rp['case'])
  if rp.get('case', {}).get('kind') == 'special':
    return not special_probe(rp['case'])
  if rp.get('case', {}).get('kind') == 'primed':
    return not primed_probe(rp['case'])
  if rp.get('case', {}).get('kind') == 'sharing':
    return not sharing_probe(rp['case'])
  if rp.get('case', {}).get('kind') == 'placeholders':
    return not placeholder_probe(rp['case'])
  return D.replay_property(ctx, rp, Oracle)

# ----------------------------------------------------------------------------------------------------
# exhaustive sweep: container kind x flags of the root x flags of a nested child x clone mode
def flag_probe(c):
  P = D.pg()
  impl = D.Impl()
  x = impl.lit(c['lit'])
  impl.roots.append(x)
  mode = c['mode']
  cl = x.clone() if mode == 0 else x.clone(deep=True) if mode == 1 else copy.copy(x) if mode == 2 else copy.deepcopy(x)
  via = {0: 'clone()', 1: 'clone(deep=True)', 2: 'copy.copy', 3: 'copy.deepcopy'}[mode]
  out = []
  for h in check_clone(impl, x, cl, mode in (1, 3), via):
    disc = '%s-%s' % (h[2], h[3]) if len(h) > 2 else ('deep' if mode in (1, 3) else 'shallow')
    out.append(('C07/%s/%s/%s' % (h[0], via, disc), '%s: %s' % (via, h[1])))
  return out

def flag_sweep(ctx):
  n = 0
  bits = [[a, b, c] for a in (0, 1) for b in (0, 1) for c in (0, 1)]
  for kind in (0, 1, 2, 3, 4):
    for fl in bits:
      for cfl in bits:
        for ckind in (0, 1, 3):
          child = [1, ckind, cfl, 0, [[D.enc_key('x'), [0, [5, 1, 0]]]] if ckind != 1 else [[[1, 0], [0, [5, 1, 0]]]]]
          key = [1, 0] if kind == 1 else D.enc_key('x')
          lit = [1, kind, fl, 0, [[key, child], [[1, 1] if kind == 1 else D.enc_key('y'), [0, [5, 2, 1]]]] if kind in (0, 1, 2, 3) else [[key, child]]]
          for mode in range(4):
            n += 1
            c = dict(kind='flags', lit=lit, mode=mode)
            for sig, what in flag_probe(c):
              ctx.hit(sig, what, c)
  ctx.extra['flag_sweep'] = dict(exhaustive=True, shapes=n, what='container kind (Dict, List, 3 Object classes) x 8 flag combinations of the root x nested child kind x 8 flag combinations of the child x 4 copy modes')
  ctx.log('flag sweep: %d shapes' % n)

"""C07 — clone fidelity and independence."""
import copy
from harness.props import symcore_driver as D
from harness.props import c01 as C01

META = dict(
    id='C07',
    model_run='PG.Model.SymCore.run',
    runner_name='SymCore',
    model_targets=['Model/SymCore.vo'],
    technique='Coq proof over the SymCore model (clone allocates fresh ids, erases to the same value, keeps per-node flags, leaves the state otherwise unchanged; '
              'frame lemma of step = independence) + step-level correspondence with clone/copy operations followed by mutations of either copy + '
              'direct oracle (pg.eq, identity disjointness, flags per node, leaf sharing, copy.copy/deepcopy agreement, frame after every later step) + exhaustive flag sweep',
    design_ref='DESIGN.md §5 C07, design/C07.md',
    level_text=('Theorems (any forest, any node, deep or shallow, with or without memo): the clone has the same erasure (keys, leaves, classes), the same flags on every '
                'corresponding node, is a well-formed tree of fresh node ids, and the step leaves every existing root exactly as it was; a shallow clone shares exactly the '
                'leaf objects; the frame theorem (proved): every operation addressed inside one root and handed values from some roots leaves every OTHER root the user holds '
                'exactly as it was, for every later history, hence no later mutation of either copy is observable through the other. Tie: correspondence on generated histories '
                '(clone, copy.copy, copy.deepcopy, Dict.copy followed by mutations of either copy), flag-combination sweep (exhaustive), direct oracle on every step.'),
    level_note=('Trusted: Coq kernel; extraction cross-checked against vm_compute; driver/generator. Not modelled: value_spec binding of the copy (C03), pg.Ref leaves '
                '(shared by design), geno/hyper _sym_clone overrides, clone(override=...).'),
    rule='a case is (forest literal, list of (scope stack, operation)); non-trivial when it contains a successful clone/copy of a tree with a nested symbolic node followed by at least one successful mutation',
    trusted_base=['extraction: ExtrOcamlBasic only; ocaml/main.ml lexer/printer; cross-checked against vm_compute on a sample',
                  'implementation driver harness/props/symcore_driver.py and generator symcore_gen.py'],
    assumptions=['non-symbolic mutable leaves are instances of a plain class with value equality (Opq); immutable leaves are None/bool/int/str'],
)

CLONE_OPS = {D.CLONE, D.DCOPY}

def pairs(a, b, out, path=''):
  """Corresponding nodes of two trees (by key)."""
  out.append((a, b, path))
  ka = dict(D.sym_children(a)); kb = dict(D.sym_children(b))
  for k in ka:
    if k in kb and D.is_sym(ka[k]) and D.is_sym(kb[k]):
      pairs(ka[k], kb[k], out, '%s[%r]' % (path, k))

def leaves(a, b, out):
  ka = dict(D.sym_children(a)); kb = dict(D.sym_children(b))
  for k in ka:
    if k in kb:
      if D.is_sym(ka[k]) and D.is_sym(kb[k]): leaves(ka[k], kb[k], out)
      elif not D.is_sym(ka[k]) and not D.is_sym(kb[k]): out.append((ka[k], kb[k]))

def check_clone(impl, orig, cl, deep, via):
  """Fidelity of one clone.  Returns [(clause, what)]."""
  P = D.pg()
  hits = []
  if type(cl) is not type(orig):
    hits.append(('class', 'the copy is a %s, the original a %s' % (type(cl).__name__, type(orig).__name__)))
    return hits
  try:
    if not P.eq(orig, cl):
      holds_missing = []
      D.walk(orig, lambda x, p, k: holds_missing.append(x) if isinstance(x, list) and any(
          (not D.is_sym(v)) and P.MISSING_VALUE == v for _, v in D.sym_children(x)) else None)
      if holds_missing:
        hits.append(('not-equal', 'pg.eq(original, copy) is False: a pg.List that holds MISSING_VALUE (assigned while change notification is off) loses it in the copy',
                     'list', 'holds-MISSING'))
      else:
        hits.append(('not-equal', 'pg.eq(original, copy) is False'))
  except Exception as e:     # pylint: disable=broad-except
    hits.append(('not-equal', 'pg.eq raises %s' % type(e).__name__))
  ps = []
  pairs(orig, cl, ps)
  for a, b, path in ps:
    fa = (a.is_sealed, a.accessor_writable, a.allow_partial)
    fb = (b.is_sealed, b.accessor_writable, b.allow_partial)
    if fa != fb:
      which = [n for n, x, y in zip(('sealed', 'accessor_writable', 'allow_partial'), fa, fb) if x != y][0]
      where = 'root' if a is orig else 'descendant'
      hits.append(('flag-%s' % which, '%s of the %s %s%s is %s in the original and %s in the copy' % (
          which, where, type(a).__name__, path, dict(zip(('sealed', 'accessor_writable', 'allow_partial'), fa))[which],
          dict(zip(('sealed', 'accessor_writable', 'allow_partial'), fb))[which]), type(a).__name__, where))
      break
  ids_a, ids_b = set(), set()
  D.walk(orig, lambda x, p, k: ids_a.add(id(x)))
  D.walk(cl, lambda x, p, k: ids_b.add(id(x)))
  if ids_a & ids_b:
    hits.append(('shared-node', 'the copy shares a symbolic node with the original'))
  lv = []
  leaves(orig, cl, lv)
  for x, y in lv:
    if isinstance(x, D.Opq):
      if not deep and x is not y:
        hits.append(('shallow-copied-leaf', 'a shallow copy duplicated a non-symbolic leaf object')); break
      if deep and x is y:
        hits.append(('deep-shared-leaf', 'a deep copy shares a mutable non-symbolic leaf object')); break
  tmp = D.Impl(); tmp.roots.append(cl)
  for clause, what in C01.check_forest(tmp):
    hits.append(('copy-not-wellformed', 'the copy is not a well-formed tree: %s %s' % (clause, what))); break
  return hits

class Oracle:
  def __init__(self):
    self.hits = []
    self.clones = []      # (orig, copy) still to be watched
    self.stats = dict(clones=0, frame_checks=0, mutations_after_clone=0)
  def prepare(self, impl, scope, op):
    try:
      impl.at(op[1])
    except D.NotApplicable:
      return None
    touched = {op[1][0]}
    def refs(v):
      if v[0] == 1: touched.add(v[1])
      elif v[0] == 2: refs(v[1])
    for v in D.op_values(op):
      refs(v)
    return dict(forest=impl.snapshot(), solo=impl.snapshot_solo(), touched=touched, n=len(impl.roots))
  def __call__(self, impl, n, scope, op, res, info, before):
    if before is None:
      return
    tag = op[0]
    name = D.OP_NAMES[tag]
    after = impl.snapshot()
    # frame: an operation addressed inside one root changes no other root (except a root it was handed as a value)
    self.stats['frame_checks'] += 1
    solo = impl.snapshot_solo()
    for i in range(before['n']):
      if i in before['touched'] or not before['solo'][i]:
        continue          # addressed / handed over as a value / an object that currently sits inside another tree
      if solo[i] != before['solo'][i]:
        self.hits.append(('C07/frame/%s/other-root-changed' % name, '%s addressed in root #%d changed root #%d' % (name, op[1][0], i), n))
        break
    if tag in CLONE_OPS and info.get('exception') is None and info['new_roots']:
      self.stats['clones'] += 1
      orig, cl = info['target'], info['new_roots'][0]
      mode = op[2] if tag == D.CLONE else 0
      deep = mode in (1, 3)
      via = {0: 'clone()', 1: 'clone(deep=True)', 2: 'copy.copy', 3: 'copy.deepcopy'}[mode] if tag == D.CLONE else 'Dict.copy()'
      for h in check_clone(impl, orig, cl, deep, via):
        clause, what = h[0], h[1]
        disc = '%s-%s' % (h[2], h[3]) if len(h) > 2 else ('deep' if deep else 'shallow')
        self.hits.append(('C07/%s/%s/%s' % (clause, 'copy' if disc == 'list-holds-MISSING' else via, disc), '%s: %s' % (via, what), n))
      # cloning never modifies the original (nor anything else)
      if solo[:before['n']] != before['solo']:
        self.hits.append(('C07/original-modified/%s/-' % via, '%s changed an existing tree' % via, n))
      # copy.copy / copy.deepcopy coincide with clone(deep=False/True)
      other = copy.deepcopy(orig) if deep else copy.copy(orig)
      t1 = D.Impl(); t1.roots.append(cl)
      t2 = D.Impl(); t2.roots.append(other)
      if t1.snapshot() != t2.snapshot():
        self.hits.append(('C07/copy-differs/%s/-' % ('deepcopy' if deep else 'copy'), 'copy.%s gives a different tree than clone(deep=%s)' % ('deepcopy' if deep else 'copy', deep), n))
      self.clones.append((orig, cl))
    elif tag in D.MUTATING and info.get('exception') is None:
      if self.clones:
        self.stats['mutations_after_clone'] += 1

def run(ctx):
  D.run_property(ctx, 'C07', Oracle, extra=flag_sweep, focus={D.CLONE, D.DCOPY})

def replay(ctx, rp):
  if rp.get('case', {}).get('kind') == 'flags':
    return not flag_probe(rp['case'])
  return D.replay_property(ctx, rp, Oracle)

# ----------------------------------------------------------------------------------------------------
# exhaustive sweep: container kind x flags of the root x flags of a nested child x clone mode
def flag_probe(c):
  P = D.pg()
  impl = D.Impl()
  x = impl.lit(c['lit'])
  impl.roots.append(x)
  mode = c['mode']
  cl = x.clone() if mode == 0 else x.clone(deep=True) if mode == 1 else copy.copy(x) if mode == 2 else copy.deepcopy(x)
  via = {0: 'clone()', 1: 'clone(deep=True)', 2: 'copy.copy', 3: 'copy.deepcopy'}[mode]
  out = []
  for h in check_clone(impl, x, cl, mode in (1, 3), via):
    disc = '%s-%s' % (h[2], h[3]) if len(h) > 2 else ('deep' if mode in (1, 3) else 'shallow')
    out.append(('C07/%s/%s/%s' % (h[0], via, disc), '%s: %s' % (via, h[1])))
  return out

def flag_sweep(ctx):
  n = 0
  bits = [[a, b, c] for a in (0, 1) for b in (0, 1) for c in (0, 1)]
  for kind in (0, 1, 2, 3, 4):
    for fl in bits:
      for cfl in bits:
        for ckind in (0, 1, 3):
          child = [1, ckind, cfl, 0, [[D.enc_key('x'), [0, [5, 1, 0]]]] if ckind != 1 else [[[1, 0], [0, [5, 1, 0]]]]]
          key = [1, 0] if kind == 1 else D.enc_key('x')
          lit = [1, kind, fl, 0, [[key, child], [[1, 1] if kind == 1 else D.enc_key('y'), [0, [5, 2, 1]]]] if kind in (0, 1, 2, 3) else [[key, child]]]
          for mode in range(4):
            n += 1
            c = dict(kind='flags', lit=lit, mode=mode)
            for sig, what in flag_probe(c):
              ctx.hit(sig, what, c)
  ctx.extra['flag_sweep'] = dict(exhaustive=True, shapes=n, what='container kind (Dict, List, 3 Object classes) x 8 flag combinations of the root x nested child kind x 8 flag combinations of the child x 4 copy modes')
  ctx.log('flag sweep: %d shapes' % n)

"""Seeded generator of SymCore cases (forest literal + scoped operation list).

The generator drives a live `Impl` while it generates, so that operations address positions that exist
(mostly-valid histories) — this only shapes the input distribution; the case is re-run from scratch afterwards.
"""
from harness.props import symcore_driver as D

STR_KEYS = ['a', 'b', 'c', 'x', 'y', 'z']
INT_KEYS = [0, 1, 2, 7]
LEAF_STRS = ['', 'a', 'b']     # length <= 1: CPython identity of longer strings is not modelled

def ek(k):
  return D.enc_key(k)

class Gen:
  def __init__(self, rng, cycles=False, focus=None, quirks=()):
    self.r = rng
    self.cycles = cycles          # allow a reference to the target's own root / ancestor as the written value
    self.focus = focus            # optional set of op tags to prefer
    self.quirks = list(quirks)
    self.next_oid = 1
    self.tags = {}

  # -- leaves and literals --------------------------------------------------------------------------
  def leaf(self, missing=0.0):
    r = self.r
    if r.random() < missing: return [4]
    k = r.randrange(10)
    if k == 0: return [0]
    if k == 1: return [1, r.randrange(2)]
    if k <= 4: return [2, r.choice([0, 1, 2, 3, 5, -1, 100])]
    if k <= 6: return [3] + [ord(c) for c in r.choice(LEAF_STRS)]
    if k == 7 and self.next_oid > 1 and r.random() < 0.5:
      oid = r.randrange(1, self.next_oid)     # share an existing opaque object
      return [5, oid, self.tags[oid]]
    if k <= 8:
      oid = self.next_oid; self.next_oid += 1
      tag = r.randrange(3)
      self.tags[oid] = tag
      return [5, oid, tag]
    return [2, r.randrange(4)]

  def flags(self, p=0.12):
    r = self.r
    return [int(r.random() < p), int(r.random() > p), int(r.random() < p)]

  def dkey(self):
    r = self.r
    return r.choice(STR_KEYS) if r.random() < 0.85 else r.choice(INT_KEYS)

  def node_lit(self, depth, plain=False, kind=None):
    r = self.r
    if kind is None:
      kind = r.choice([0, 0, 1, 1, 2, 3, 4]) if not plain else r.choice([0, 1])
    n = r.choice([0, 1, 2, 2, 3, 4]) if depth > 0 else r.choice([0, 1, 2])
    def child():
      if depth > 0 and r.random() < 0.4:
        return self.node_lit(depth - 1, plain=plain or r.random() < 0.1)
      return [0, self.leaf()]
    if kind == 1:
      items = [[[1, i], child()] for i in range(n)]
    elif kind == 0:
      keys = []
      for _ in range(n):
        k = self.dkey()
        if k not in keys: keys.append(k)
      items = [[ek(k), child()] for k in keys]
    else:
      fields = D.CLASS_FIELDS[kind - 2]
      items = [[ek(k), child() if r.random() < 0.6 else [0, [0]]] for k in fields]
    fl = [0, 1, 0] if plain else self.flags()
    if kind >= 2 and not plain and r.random() < 0.7:
      fl[1] = int(D.CLASS_AW[kind - 2])
    return [1, kind, fl, int(plain), items]

  # -- scopes ------------------------------------------------------------------------------------------
  def scope(self):
    r = self.r
    if r.random() < 0.7:
      return [[], [], [], []]
    def stack(p):
      if r.random() > p: return []
      return [r.choice([[], [0], [1]]) for _ in range(r.choice([1, 1, 2]))]
    notify = [r.randrange(2) for _ in range(r.choice([1, 1, 2]))] if r.random() < 0.5 else []
    return [stack(0.5), stack(0.5), notify, stack(0.15)]

  # -- values ----------------------------------------------------------------------------------------------
  def value(self, impl, target_pos, nodes, allow_ins=False, missing=0.0):
    r = self.r
    k = r.random()
    if allow_ins and k < 0.12:
      return [2, self.value(impl, target_pos, nodes, False)]
    if k < 0.5:
      return [0, [0, self.leaf(missing)]]
    if k < 0.7:
      return [0, self.node_lit(r.choice([0, 1, 1, 2]), plain=r.random() < 0.4)]
    # a reference to something that exists
    cands = []
    troot, tkeys = target_pos
    for (x, ri, keys) in nodes:
      is_anc = ri == troot and keys == tkeys[:len(keys)]
      if is_anc and not keys and not self.cycles:
        continue                      # the root of the target's own tree: stored as a cycle by the code
      if is_anc and keys and not self.cycles and False:
        continue
      cands.append((ri, keys, x))
    if not cands:
      return [0, [0, self.leaf()]]
    ri, keys, x = r.choice(cands)
    # sometimes point at a leaf position below that node
    kids = D.sym_children(x)
    if kids and r.random() < 0.25:
      kk, vv = r.choice(kids)
      if D.is_sym(vv) or impl.enc_leaf(vv, None)[0] != 9:
        return [1, ri, [ek(k) for k in keys] + [ek(kk)]]
    return [1, ri, [ek(k) for k in keys]]

  def index(self, n, for_insert=False):
    r = self.r
    k = r.random()
    if n > 0 and k < 0.6: return r.randrange(n)
    if n > 0 and k < 0.8: return -r.randrange(1, n + 1)
    if k < 0.9: return n
    return r.choice([n + 1, n + 3, -n - 1, -n - 2])

  # -- one operation -----------------------------------------------------------------------------------------
  def op(self, impl):
    r = self.r
    nodes = list(impl.reachable().values())
    if not nodes:
      return None
    by_kind = {0: [], 1: [], 2: []}
    for t in nodes:
      k = D.kind_of(t[0])
      by_kind[min(k, 2)].append(t)
    tags = sorted(D.LIST_OPS | D.DICT_OPS | D.OBJ_OPS | D.ANY_OPS)
    for _ in range(50):
      tag = r.choice(tags)
      if self.focus and r.random() < 0.7:
        tag = r.choice(sorted(self.focus))
      pool = by_kind[1] if tag in D.LIST_OPS else by_kind[0] if tag in D.DICT_OPS else by_kind[2] if tag in D.OBJ_OPS else nodes
      if r.random() < 0.03:
        pool = nodes                     # wrong kind of target on purpose (not applicable)
      if not pool:
        continue
      x, ri, keys = r.choice(pool)
      pos = [ri, [ek(k) for k in keys]]
      if r.random() < 0.01:
        pos = [ri, pos[1] + [ek('nope')]]
      tp = (ri, keys)
      V = lambda **kw: self.value(impl, tp, nodes, **kw)
      n = len(x) if isinstance(x, list) else 0
      if tag == D.LSET: return [tag, pos, self.index(n), V(missing=0.1)]
      if tag == D.LDEL: return [tag, pos, self.index(n)]
      if tag == D.LAPPEND: return [tag, pos, V(missing=0.05)]
      if tag == D.LINSERT: return [tag, pos, self.index(n), V()]
      if tag in (D.LEXTEND, D.LIADD, D.LADD): return [tag, pos, [V() for _ in range(r.choice([0, 1, 2, 2, 3]))]]
      if tag == D.LPOP: return [tag, pos, [] if r.random() < 0.4 else [self.index(n)]]
      if tag == D.LREMOVE:
        leaves = [v for _, v in D.sym_children(x) if not D.is_sym(v)]
        if leaves and r.random() < 0.7:
          l = impl.enc_leaf(r.choice(leaves), None)
          if l[0] not in (5, 9):
            return [tag, pos, l]
        return [tag, pos, self.leaf()]
      if tag in (D.LCLEAR, D.LREVERSE, D.LCOPY, D.DPOPITEM, D.DCLEAR, D.DCOPY): return [tag, pos]
      if tag == D.LSORT: return [tag, pos, [r.randrange(4) for _ in range(n)], r.randrange(2)]
      if tag in (D.LIMUL, D.LMUL): return [tag, pos, r.choice([0, 1, 2, 2, 3, -1])]
      def dk(existing=0.6):
        ks = [k for k, _ in D.sym_children(x)]
        if ks and r.random() < existing: return r.choice(ks)
        return self.dkey()
      if tag == D.DSET: return [tag, pos, r.randrange(2), ek(dk()), V(missing=0.1)]
      if tag == D.DDEL: return [tag, pos, r.randrange(2), ek(dk(0.8))]
      if tag == D.DPOP: return [tag, pos, ek(dk(0.75)), [] if r.random() < 0.5 else [self.leaf()]]
      if tag == D.DSETDEFAULT: return [tag, pos, ek(dk(0.5)), V()]
      if tag in (D.DUPDATE, D.DIOR):
        kvs, seen = [], set()
        for _ in range(r.choice([0, 1, 2, 2, 3])):
          k = dk(0.5)
          if k in seen: continue
          seen.add(k); kvs.append([ek(k), V(missing=0.1)])
        return [tag, pos, kvs]
      if tag == D.OSET:
        fields = D.CLASS_FIELDS.get(D.kind_of(x) - 2, ['x'])
        k = r.choice(fields) if r.random() < 0.9 else r.choice(['w', 'q'])
        return [tag, pos, ek(k), V(missing=0.1)]
      if tag == D.REBIND: return [tag, pos, self.rebind_pairs(impl, x, tp, nodes)]
      if tag == D.CLONE: return [tag, pos, r.randrange(4)]
      if tag in (D.SEAL, D.SETAW): return [tag, pos, r.randrange(2)]
    return None

  def rebind_pairs(self, impl, x, tp, nodes):
    """1-3 distinct, pairwise prefix-free paths below x (existing slots, new keys, list ends) with values."""
    r = self.r
    slots = []     # (path keys, container is list)
    def collect(node, path, depth):
      kids = D.sym_children(node)
      is_list = isinstance(node, list)
      for k, v in kids:
        slots.append((path + [k], is_list))
        if D.is_sym(v) and depth < 3:
          collect(v, path + [k], depth + 1)
      if is_list:
        slots.append((path + [len(kids)], True)); slots.append((path + [len(kids) + 2], True))
        if kids: slots.append((path + [-1], True))
      elif D.kind_of(node) == 0:
        slots.append((path + [self.dkey()], False))
      else:
        if r.random() < 0.2: slots.append((path + ['w'], False))
    collect(x, [], 0)
    r.shuffle(slots)
    chosen = []
    want = r.choice([0, 1, 1, 2, 2, 3]) if r.random() < 0.97 else 0
    for p, is_list in slots:
      if len(chosen) >= want: break
      if any(p[:len(q)] == q or q[:len(p)] == p for q, _ in chosen):
        continue
      chosen.append((p, is_list))
    out = []
    for p, is_list in chosen:
      v = self.value(impl, tp, nodes, allow_ins=is_list, missing=0.2)
      if is_list and r.random() < 0.15 and v[0] != 2:
        v = [2, v]
      out.append([[ek(k) for k in p], v])
    if r.random() < 0.02:
      out.append([[], [0, [0, [2, 1]]]])     # the root key: refused with KeyError
    return out

  # -- a whole case ----------------------------------------------------------------------------------------------
  def case(self, nops):
    r = self.r
    self.tags = {}
    self.next_oid = 1
    init = [self.node_lit(r.choice([1, 2, 2, 3])) for _ in range(r.choice([1, 2, 2, 3]))]
    impl = D.Impl()
    for lt in init:
      impl.roots.append(impl.lit(lt))
    steps = []
    for _ in range(nops):
      if sum(1 for x in impl.roots if x is not None) > 14:
        break
      op = self.op(impl)
      if op is None:
        break
      sc = self.scope()
      steps.append([sc, op])
      D.apply_op(impl, sc, op)
    return [list(self.quirks), init, steps]

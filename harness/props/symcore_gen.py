"""Seeded generator of SymCore cases (forest literal + scoped operation list).

The generator drives a live `Impl` while it generates, so that operations address positions that exist
(mostly-valid histories) — this only shapes the input distribution; the case is re-run from scratch afterwards.
"""
from harness.props import symcore_driver as D

STR_KEYS = ['a', 'b', 'c', 'x', 'y', 'z']
INT_KEYS = [0, 1, 2, 7]
LEAF_STRS = ['', 'a', 'b']     # length <= 1: CPython identity of longer strings is not modelled

def ek(k):
  return D.enc_key(k)

class Gen:
  def __init__(self, rng, cycles=False, focus=None, quirks=(), slices=False):
    self.r = rng
    self.slices = slices          # also emit slice get / set / del (implementation side only: oracle-driven histories)
    self.cycles = cycles          # allow a reference to the target's own root / ancestor as the written value
    self.focus = focus            # optional set of op tags to prefer
    self.quirks = list(quirks)
    self.next_oid = 1
    self.tags = {}

  # -- leaves and literals --------------------------------------------------------------------------
  def leaf(self, missing=0.0):
    r = self.r
    if r.random() < missing: return [4]
    k = r.randrange(10)
    if k == 0: return [0]
    if k == 1: return [1, r.randrange(2)]
    if k <= 4: return [2, r.choice([0, 1, 2, 3, 5, -1, 100])]
    if k <= 6: return [3] + [ord(c) for c in r.choice(LEAF_STRS)]
    if k == 7 and self.next_oid > 1:
      oid = r.randrange(1, self.next_oid)     # share an existing opaque object (one object at several places: siblings, nested, other roots)
      return [5, oid, self.tags[oid]]
    if k <= 8:
      oid = self.next_oid; self.next_oid += 1
      tag = r.randrange(3)
      self.tags[oid] = tag
      return [5, oid, tag]
    return [2, r.randrange(4)]

  def flags(self, p=0.12):
    r = self.r
    return [int(r.random() < p), int(r.random() > p), int(r.random() < p)]

  def dkey(self):
    r = self.r
    return r.choice(STR_KEYS) if r.random() < 0.85 else r.choice(INT_KEYS)

  def node_lit(self, depth, plain=False, kind=None):
    r = self.r
    if kind is None:
      kind = r.choice([0, 0, 1, 1, 2, 3, 4]) if not plain else r.choice([0, 1])
    n = r.choice([0, 1, 2, 2, 3, 4]) if depth > 0 else r.choice([0, 1, 2])
    def child():
      if depth > 0 and r.random() < 0.4:
        return self.node_lit(depth - 1, plain=plain or r.random() < 0.1)
      return [0, self.leaf()]
    if kind == 1:
      items = [[[1, i], child()] for i in range(n)]
    elif kind == 0:
      keys = []
      for _ in range(n):
        k = self.dkey()
        if k not in keys: keys.append(k)
      items = [[ek(k), child()] for k in keys]
    else:
      fields = D.CLASS_FIELDS[kind - 2]
      items = [[ek(k), child() if r.random() < 0.6 else [0, [0]]] for k in fields]
    fl = [0, 1, 0] if plain else self.flags()
    if kind >= 2 and not plain and r.random() < 0.7:
      fl[1] = int(D.CLASS_AW[kind - 2])
    return [1, kind, fl, int(plain), items]

  # -- scopes ------------------------------------------------------------------------------------------
  def scope(self):
    r = self.r
    if r.random() < 0.7:
      return [[], [], [], []]
    def stack(p):
      if r.random() > p: return []
      return [r.choice([[], [0], [1]]) for _ in range(r.choice([1, 1, 2]))]
    notify = [r.randrange(2) for _ in range(r.choice([1, 1, 2]))] if r.random() < 0.5 else []
    return [stack(0.5), stack(0.5), notify, stack(0.15)]

  # -- values ----------------------------------------------------------------------------------------------
  def value(self, impl, target_pos, nodes, allow_ins=False, missing=0.0):
    r = self.r
    k = r.random()
    if allow_ins and k < 0.12:
      return [2, self.value(impl, target_pos, nodes, False)]
    if k < 0.5:
      return [0, [0, self.leaf(missing)]]
    if k < 0.7:
      return [0, self.node_lit(r.choice([0, 1, 1, 2]), plain=r.random() < 0.4)]
    # a reference to something that exists
    cands = []
    troot, tkeys = target_pos
    for (x, ri, keys) in nodes:
      is_anc = ri == troot and keys == tkeys[:len(keys)]
      if is_anc and not keys and not self.cycles:
        continue                      # the root of the target's own tree: stored as a cycle by the code
      if is_anc and keys and not self.cycles and False:
        continue
      cands.append((ri, keys, x))
    if not cands:
      return [0, [0, self.leaf()]]
    ri, keys, x = r.choice(cands)
    # sometimes point at a leaf position below that node
    kids = D.sym_children(x)
    if kids and r.random() < 0.25:
      kk, vv = r.choice(kids)
      if D.is_sym(vv) or impl.enc_leaf(vv, None)[0] != 9:
        return [1, ri, [ek(k) for k in keys] + [ek(kk)]]
    return [1, ri, [ek(k) for k in keys]]

  def index(self, n, for_insert=False):
    r = self.r
    k = r.random()
    if n > 0 and k < 0.6: return r.randrange(n)
    if n > 0 and k < 0.8: return -r.randrange(1, n + 1)
    if k < 0.9: return n
    return r.choice([n + 1, n + 3, -n - 1, -n - 2])

  # -- one operation -----------------------------------------------------------------------------------------
  def op(self, impl):
    r = self.r
    nodes = list(impl.reachable().values())
    if not nodes:
      return None
    by_kind = {0: [], 1: [], 2: []}
    for t in nodes:
      k = D.kind_of(t[0])
      by_kind[min(k, 2)].append(t)
    slice_tags = D.SLICE_OPS
    tags = sorted((set(range(1, 16)) | set(range(20, 29)) | D.OBJ_OPS | D.ANY_OPS))
    for _ in range(50):
      tag = r.choice(tags)
      if self.focus and r.random() < 0.7:
        tag = r.choice(sorted(self.focus))
      if self.slices and r.random() < 0.35:
        tag = r.choice(sorted(slice_tags))
      pool = by_kind[1] if (tag in D.LIST_OPS or tag in slice_tags) else by_kind[0] if tag in D.DICT_OPS else by_kind[2] if tag in D.OBJ_OPS else nodes
      if r.random() < 0.03:
        pool = nodes                     # wrong kind of target on purpose (not applicable)
      if not pool:
        continue
      x, ri, keys = r.choice(pool)
      pos = [ri, [ek(k) for k in keys]]
      if r.random() < 0.01:
        pos = [ri, pos[1] + [ek('nope')]]
      tp = (ri, keys)
      V = lambda **kw: self.value(impl, tp, nodes, **kw)
      n = len(x) if isinstance(x, list) else 0
      if tag in slice_tags:
        bound = lambda: [] if r.random() < 0.3 else [r.randint(-n - 2, n + 2)]
        sl = [bound(), bound(), [] if r.random() < 0.4 else [r.choice([1, 2, 3, -1, -2, -3])]]
        if tag == D.LSETSLICE: return [tag, pos, sl, [V() for _ in range(r.choice([0, 1, 1, 2, 3]))]]
        return [tag, pos, sl]
      if tag == D.LSET: return [tag, pos, self.index(n), V(missing=0.1)]
      if tag == D.LDEL: return [tag, pos, self.index(n)]
      if tag == D.LAPPEND: return [tag, pos, V(missing=0.05)]
      if tag == D.LINSERT: return [tag, pos, self.index(n), V()]
      if tag in (D.LEXTEND, D.LIADD, D.LADD): return [tag, pos, [V() for _ in range(r.choice([0, 1, 2, 2, 3]))]]
      if tag == D.LPOP: return [tag, pos, [] if r.random() < 0.4 else [self.index(n)]]
      if tag == D.LREMOVE:
        leaves = [v for _, v in D.sym_children(x) if not D.is_sym(v)]
        if leaves and r.random() < 0.7:
          l = impl.enc_leaf(r.choice(leaves), None)
          if l[0] not in (5, 9):
            return [tag, pos, l]
        return [tag, pos, self.leaf()]
      if tag in (D.LCLEAR, D.LREVERSE, D.LCOPY, D.DPOPITEM, D.DCLEAR, D.DCOPY): return [tag, pos]
      if tag == D.LSORT: return [tag, pos, [r.randrange(4) for _ in range(n)], r.randrange(2)]
      if tag in (D.LIMUL, D.LMUL): return [tag, pos, r.choice([0, 1, 2, 2, 3, -1])]
      def dk(existing=0.6):
        ks = [k for k, _ in D.sym_children(x)]
        if ks and r.random() < existing: return r.choice(ks)
        return self.dkey()
      if tag == D.DSET: return [tag, pos, r.randrange(2), ek(dk()), V(missing=0.1)]
      if tag == D.DDEL: return [tag, pos, r.randrange(2), ek(dk(0.8))]
      if tag == D.DPOP: return [tag, pos, ek(dk(0.75)), [] if r.random() < 0.5 else [self.leaf()]]
      if tag == D.DSETDEFAULT: return [tag, pos, ek(dk(0.5)), V()]
      if tag in (D.DUPDATE, D.DIOR):
        kvs, seen = [], set()
        for _ in range(r.choice([0, 1, 2, 2, 3])):
          k = dk(0.5)
          if k in seen: continue
          seen.add(k); kvs.append([ek(k), V(missing=0.1)])
        return [tag, pos, kvs]
      if tag == D.OSET:
        fields = D.CLASS_FIELDS.get(D.kind_of(x) - 2, ['x'])
        k = r.choice(fields) if r.random() < 0.9 else r.choice(['w', 'q'])
        return [tag, pos, ek(k), V(missing=0.1)]
      if tag == D.REBIND: return [tag, pos, self.rebind_pairs(impl, x, tp, nodes)]
      if tag == D.CLONE: return [tag, pos, r.randrange(4)]
      if tag in (D.SEAL, D.SETAW): return [tag, pos, r.randrange(2)]
    return None

  def rebind_pairs(self, impl, x, tp, nodes):
    """1-3 distinct, pairwise prefix-free paths below x (existing slots, new keys, list ends) with values."""
    r = self.r
    slots = []     # (path keys, container is list)
    def collect(node, path, depth):
      kids = D.sym_children(node)
      is_list = isinstance(node, list)
      for k, v in kids:
        slots.append((path + [k], is_list))
        if D.is_sym(v) and depth < 3:
          collect(v, path + [k], depth + 1)
      if is_list:
        slots.append((path + [len(kids)], True)); slots.append((path + [len(kids) + 2], True))
        if kids: slots.append((path + [-1], True))
      elif D.kind_of(node) == 0:
        slots.append((path + [self.dkey()], False))
      else:
        if r.random() < 0.2: slots.append((path + ['w'], False))
    collect(x, [], 0)
    r.shuffle(slots)
    chosen = []
    want = r.choice([0, 1, 1, 2, 2, 3]) if r.random() < 0.97 else 0
    for p, is_list in slots:
      if len(chosen) >= want: break
      if any(p[:len(q)] == q or q[:len(p)] == p for q, _ in chosen):
        continue
      chosen.append((p, is_list))
    out = []
    for p, is_list in chosen:
      v = self.value(impl, tp, nodes, allow_ins=is_list, missing=0.2)
      if is_list and r.random() < 0.15 and v[0] != 2:
        v = [2, v]
      out.append([[ek(k) for k in p], v])
    if r.random() < 0.02:
      out.append([[], [0, [0, [2, 1]]]])     # the root key: refused with KeyError
    return out

  # -- a whole case ----------------------------------------------------------------------------------------------
  def case(self, nops):
    r = self.r
    self.tags = {}
    self.next_oid = 1
    init = [self.node_lit(r.choice([1, 2, 2, 3])) for _ in range(r.choice([1, 2, 2, 3]))]
    impl = D.Impl()
    for lt in init:
      impl.roots.append(impl.lit(lt))
    steps = []
    for _ in range(nops):
      if sum(1 for x in impl.roots if x is not None) > 14:
        break
      op = self.op(impl)
      if op is None:
        break
      sc = self.scope()
      steps.append([sc, op])
      D.apply_op(impl, sc, op)
    return [list(self.quirks), init, steps]

# ---- exhaustive small-scope sweep (thorough tier): every operation kind x every position of every small tree x a fixed
#      menu of arguments, one step per case ----------------------------------------------------------------------------------
def small_scope_cases(quirks=()):
  """Yields (description, case).  Trees: a root of each kind with up to two children drawn from a menu (leaf, empty and
  non-empty Dict / List, an Object, a sealed Dict), plus a second root to refer to.  Every node of the first root is a target."""
  mk, P, V, R, INS, sc = D.mk, D.P, D.V, D.R, D.INS, D.sc
  F = D.F
  children = [1, {}, {'a': 1}, [], [2, {'b': 1}], ('obj', 1, {'x': 1}), F({'s': 1}, sealed=1), F([3], aw=0)]
  roots = []
  for c1 in children:
    roots.append({'p': c1})
    roots.append([c1])
    roots.append(('obj', 1, {'x': c1}))
    for c2 in children[:5]:
      roots.append({'p': c1, 'q': c2})
      roots.append([c1, c2])
  other = {'o': {'i': 1}}
  scopes = [D.NS, sc(notify=[False]), sc(sealed=[True]), sc(aw=[False]), sc(sealed=[False], aw=[True])]
  def positions(v, path=()):
    yield path, v
    if isinstance(v, dict) and '__lit__' not in v:
      for k, x in v.items():
        yield from positions(x, path + (k,))
    elif isinstance(v, list):
      for i, x in enumerate(v):
        yield from positions(x, path + (i,))
    elif isinstance(v, tuple) and v and v[0] == 'obj':
      for k in D.CLASS_FIELDS[v[1]]:
        yield from positions(v[2].get(k), path + (k,))
  def kind(v):
    if isinstance(v, dict): return 0
    if isinstance(v, list): return 1
    if isinstance(v, tuple) and v and v[0] == 'obj': return 2
    return -1
  def unwrap(v):
    if isinstance(v, dict) and '__lit__' in v:
      lt = v['__lit__']
      return {} if lt[1] == 0 else []
    return v
  values = lambda path: [V(7), V('MISSING'), [0, mk({'n': 1}, plain=1)], V(F({'z': [1]}, sealed=1)), R(1), R(1, 'o'), R(0), R(0, *path[:1]) if path else R(0)]
  ek = D.enc_key
  for root in roots:
    for path, node in positions(root):
      k = kind(unwrap(node)) if not (isinstance(node, dict) and '__lit__' in node) else (0 if node['__lit__'][1] == 0 else 1)
      if k < 0:
        continue
      pos = P(0, *path)
      n = len(unwrap(node)) if k == 1 else 0
      ops = []
      vals = values(path)
      if k == 1:
        for i in sorted({0, -1, n, n + 2, -n - 1}):
          for v in vals: ops.append([D.LSET, pos, i, v]); ops.append([D.LINSERT, pos, i, v])
          ops.append([D.LDEL, pos, i]); ops.append([D.LPOP, pos, [i]])
        for v in vals: ops.append([D.LAPPEND, pos, v]); ops.append([D.LINSERT, pos, 0, INS(v)] if False else [D.LAPPEND, pos, v])
        ops += [[D.LEXTEND, pos, vals[:3]], [D.LEXTEND, pos, []], [D.LIADD, pos, [vals[0], vals[4]]], [D.LADD, pos, [vals[0], vals[5]]],
                [D.LPOP, pos, []], [D.LREMOVE, pos, [2, 2]], [D.LREMOVE, pos, [2, 99]], [D.LCLEAR, pos], [D.LREVERSE, pos],
                [D.LSORT, pos, [1, 0], 0], [D.LSORT, pos, [0, 0], 1], [D.LCOPY, pos]]
        for m in (-1, 0, 1, 2): ops += [[D.LIMUL, pos, m], [D.LMUL, pos, m]]
        ops += [[D.REBIND, pos, [[[ek(0)], v]]] for v in vals]
        if n > 0:      # (distinct paths only: a Python dict cannot hold the same path twice)
          ops += [[D.REBIND, pos, [[[ek(n)], INS(V(5))], [[ek(0)], V('MISSING')]]]]
      elif k == 0:
        for key in ('p', 'a', 'zz', 3):
          for v in vals: ops.append([D.DSET, pos, 0, ek(key), v]); ops.append([D.DSETDEFAULT, pos, ek(key), v])
          ops += [[D.DSET, pos, 1, ek(key), vals[0]], [D.DDEL, pos, 0, ek(key)], [D.DDEL, pos, 1, ek(key)], [D.DPOP, pos, ek(key), []], [D.DPOP, pos, ek(key), [[2, 9]]]]
        ops += [[D.DPOPITEM, pos], [D.DCLEAR, pos], [D.DCOPY, pos], [D.DUPDATE, pos, []], [D.DIOR, pos, []]]
        ops += [[D.DUPDATE, pos, [[ek('p'), v], [ek('n'), V(1)]]] for v in vals] + [[D.DIOR, pos, [[ek('zz'), v]]] for v in vals]
        ops += [[D.REBIND, pos, [[[ek('p')], v]]] for v in vals] + [[D.REBIND, pos, []], [D.REBIND, pos, [[[], V(1)]]], [D.REBIND, pos, [[[ek('nope'), ek('x')], V(1)]]]]
      else:
        for key in ('x', 'y', 'w'):
          for v in vals: ops.append([D.OSET, pos, ek(key), v])
        ops += [[D.REBIND, pos, [[[ek('x')], v]]] for v in vals] + [[D.REBIND, pos, [[[ek('w')], V(1)]]]]
      ops += [[D.CLONE, pos, m] for m in range(4)] + [[D.SEAL, pos, 0], [D.SEAL, pos, 1], [D.SETAW, pos, 0], [D.SETAW, pos, 1]]
      for op in ops:
        for s in scopes:
          yield [list(quirks), [mk(root), mk(other)], [[s, op]]]

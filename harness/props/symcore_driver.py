"""Implementation driver for the SymCore model (shared by C01, C07, C08 and later C02, C03, C09).

Applies a *case* (forest literal + list of scoped operations, as an integer tree, see coq/Model/SymCore.v)
to real PyGlove objects and prints, after every step, exactly what the model prints:

  out      ::= (snapshot0 ((result snapshot) ...))
  snapshot ::= (rootslot ...)            rootslot ::= () | (snap)      (() = a root that was moved into another tree)
  snap     ::= (kind (key ...) parent_ok (sealed aw partial) ((key item) ...))
  item     ::= (0 leaf) | (1 snap)
  leaf     ::= (0) None | (1 b) | (2 z) | (3 cp ...) | (4) MISSING | (5 canon tag) opaque object | (9) other object
  key      ::= (0 cp ...) | (1 z)
  result   ::= (0 ret) | (1 errcode)
  ret      ::= (0) | (1 leaf) | (2 root (key ...)) | (3 key ret) | (4) plain (non-symbolic) container

Positions (root index, keys) always follow the *actual* storage; the parent link and the path a node reports are
printed as annotations (path keys, parent-is-the-actual-container).  Identities are never printed: opaque leaves are
numbered in order of first occurrence in the snapshot.

Every root the "user" can still hold is kept: constructed values, results of copying operations, and every node an
operation removed from a tree (appended in the order the model defines: application order).
"""
import contextlib, copy, os

ERR_WRITE, ERR_KEY, ERR_INDEX, ERR_TYPE, ERR_VALUE, ERR_ASSERT, ERR_ATTR, ERR_OTHER, ERR_HANG, ERR_NA = 1, 2, 3, 4, 5, 6, 7, 9, 97, 99

# op tags (must match coq/Model/SymCore.v)
LSET, LDEL, LAPPEND, LINSERT, LEXTEND, LPOP, LREMOVE, LCLEAR, LREVERSE, LSORT, LIADD, LIMUL, LADD, LMUL, LCOPY = range(1, 16)
DSET, DDEL, DPOP, DPOPITEM, DCLEAR, DSETDEFAULT, DUPDATE, DIOR, DCOPY = range(20, 29)
OSET = 30
REBIND, CLONE, SEAL, SETAW = 40, 41, 42, 43
# slice operations: implementation side only (not in the SymCore model; used by oracle-only sweeps, modelled by C02's extension)
LSETSLICE, LDELSLICE, LGETSLICE = 90, 91, 92        # (50.. are used by the C02 / C09 extensions)
SLICE_OPS = {LSETSLICE, LDELSLICE, LGETSLICE}
LIST_OPS = set(range(1, 16)); DICT_OPS = set(range(20, 29)); OBJ_OPS = {OSET}; ANY_OPS = {REBIND, CLONE, SEAL, SETAW}
OP_NAMES = {LSET: 'List.__setitem__', LDEL: 'List.__delitem__', LAPPEND: 'List.append', LINSERT: 'List.insert', LEXTEND: 'List.extend',
            LPOP: 'List.pop', LREMOVE: 'List.remove', LCLEAR: 'List.clear', LREVERSE: 'List.reverse', LSORT: 'List.sort',
            LIADD: 'List.__iadd__', LIMUL: 'List.__imul__', LADD: 'List.__add__', LMUL: 'List.__mul__', LCOPY: 'List.copy',
            DSET: 'Dict.__setitem__', DDEL: 'Dict.__delitem__', DPOP: 'Dict.pop', DPOPITEM: 'Dict.popitem', DCLEAR: 'Dict.clear',
            DSETDEFAULT: 'Dict.setdefault', DUPDATE: 'Dict.update', DIOR: 'Dict.__ior__', DCOPY: 'Dict.copy', OSET: 'Object.__setattr__',
            REBIND: 'rebind', CLONE: 'clone', SEAL: 'seal', SETAW: 'set_accessor_writable',
            LSETSLICE: 'List.__setitem__(slice)', LDELSLICE: 'List.__delitem__(slice)', LGETSLICE: 'List.__getitem__(slice)'}
# ops that change the target (or something below it) when they succeed
MUTATING = (LIST_OPS - {LADD, LMUL, LCOPY}) | (DICT_OPS - {DCOPY}) | {OSET, REBIND}
# the mutators the SymCore model contains (slices are implementation-side only)
MODEL_MUTATING = set(MUTATING)
# ops performed "through accessors" (item / attribute assignment and deletion)
ACCESSOR_OPS = {LSET, LDEL, DSET, DDEL, OSET}

_PG = None
def pg():
  global _PG
  if _PG is None:
    import pyglove
    _PG = pyglove
  return _PG

_CLASSES = None
# (class index) -> (declared fields, accessor_writable default)
CLASS_FIELDS = {0: ['x', 'y'], 1: ['x', 'y', 'z'], 2: ['x']}
CLASS_AW = {0: False, 1: True, 2: False}
def classes():
  """Three fixed pg.Object classes; every field is Any with default None (spec-carrying nodes come with C03)."""
  global _CLASSES
  if _CLASSES is None:
    P = pg()
    @P.members([('x', P.typing.Any(default=None)), ('y', P.typing.Any(default=None))])
    class ObjA(P.Object):
      pass
    @P.members([('x', P.typing.Any(default=None)), ('y', P.typing.Any(default=None)), ('z', P.typing.Any(default=None))])
    class ObjB(P.Object):
      allow_symbolic_assignment = True
    @P.members([('x', P.typing.Any(default=None))])
    class ObjC(P.Object):
      allow_symbolic_mutation = False
    _CLASSES = [ObjA, ObjB, ObjC]
  return _CLASSES

class Opq:
  """A mutable non-symbolic leaf object with value equality (identity matters for shallow/deep copies)."""
  def __init__(self, tag):
    self.tag = tag
  def __eq__(self, o):
    return isinstance(o, Opq) and o.tag == self.tag
  def __ne__(self, o):
    return not self.__eq__(o)
  def __hash__(self):
    return hash(('Opq', self.tag))
  def __repr__(self):
    return 'Opq(%d)' % self.tag

class NotApplicable(Exception):
  pass

# ---- keys, leaves ---------------------------------------------------------------------------------
def dec_key(k):
  return ''.join(map(chr, k[1:])) if k[0] == 0 else k[1]
def enc_key(k):
  return [0] + [ord(c) for c in k] if isinstance(k, str) else [1, int(k)]
def show_key(k):
  return repr(dec_key(k))

def is_sym(x):
  return isinstance(x, pg().Symbolic)

def kind_of(x):
  P = pg()
  if isinstance(x, P.Dict): return 0
  if isinstance(x, P.List): return 1
  for i, c in enumerate(classes()):
    if type(x) is c: return 2 + i
  return -1

def sym_children(x):
  """(key, value) pairs as actually stored."""
  return list(x.sym_items())

def walk(x, visit, parent=None, key=None, _seen=None):
  """Pre-order walk over the symbolic nodes actually stored below x (cycle-safe)."""
  _seen = set() if _seen is None else _seen
  if id(x) in _seen:
    return
  _seen.add(id(x))
  visit(x, parent, key)
  for k, v in sym_children(x):
    if is_sym(v):
      walk(v, visit, x, k, _seen)

class Impl:
  """The forest of live PyGlove objects a case operates on."""
  def __init__(self):
    self.roots = []          # object | None (None: the object of this slot currently sits inside another tree)
    self.moved = {}          # slot index -> that object
    self.opq = {}            # literal oid -> Opq

  # -- literals -----------------------------------------------------------------------------------
  def leaf(self, l):
    t = l[0]
    if t == 0: return None
    if t == 1: return bool(l[1])
    if t == 2: return int(l[1])
    if t == 3: return ''.join(map(chr, l[1:]))
    if t == 4: return pg().MISSING_VALUE
    if t == 5:
      if l[1] not in self.opq:
        self.opq[l[1]] = Opq(l[2])
      return self.opq[l[1]]
    raise ValueError('bad leaf %r' % (l,))

  def lit(self, lt):
    if lt[0] == 0:
      return self.leaf(lt[1])
    _, kind, flags, plain, items = lt
    sealed, aw, partial = map(bool, flags)
    P = pg()
    if kind == 1:
      vals = [self.lit(v) for _, v in items]
      return vals if plain else P.List(vals, sealed=sealed, accessor_writable=aw, allow_partial=partial)
    kv = {dec_key(k): self.lit(v) for k, v in items}
    if kind == 0:
      return kv if plain else P.Dict(kv, sealed=sealed, accessor_writable=aw, allow_partial=partial)
    o = classes()[kind - 2](sealed=sealed, allow_partial=partial, **kv)
    o.set_accessor_writable(aw)
    return o

  # -- positions ----------------------------------------------------------------------------------
  def at(self, pos):
    r, keys = pos
    if r < 0 or r >= len(self.roots) or self.roots[r] is None:
      raise NotApplicable()
    x = self.roots[r]
    for k in keys:
      k = dec_key(k)
      if not is_sym(x):
        raise NotApplicable()
      if isinstance(x, list):
        if not isinstance(k, int) or k < 0 or k >= len(x):
          raise NotApplicable()
      elif not x.sym_hasattr(k):
        raise NotApplicable()
      x = x.sym_getattr(k)
    return x

  def value(self, v):
    t = v[0]
    if t == 0: return self.lit(v[1])
    if t == 1: return self.at((v[1], v[2]))
    if t == 2: return pg().Insertion(self.value(v[1]))
    raise ValueError('bad value %r' % (v,))

  # -- snapshots ----------------------------------------------------------------------------------
  def enc_leaf(self, v, canon):
    P = pg()
    if v is None: return [0]
    if isinstance(v, bool): return [1, int(v)]
    if isinstance(v, int): return [2, v]
    if isinstance(v, str): return [3] + [ord(c) for c in v]
    if P.MISSING_VALUE == v and not is_sym(v): return [4]
    if isinstance(v, Opq):
      if canon is None: return [5, 0, v.tag]
      if id(v) not in canon: canon[id(v)] = len(canon)
      return [5, canon[id(v)], v.tag]
    return [9]

  def snap(self, x, expected_parent, canon, _seen=None):
    _seen = set() if _seen is None else _seen
    if id(x) in _seen:          # a cycle in the actual storage: cannot be a tree; print a marker no model prints
      return [-7]
    _seen = _seen | {id(x)}
    items = []
    for k, v in sym_children(x):
      if is_sym(v):
        items.append([enc_key(k), [1, self.snap(v, x, canon, _seen)]])
      else:
        items.append([enc_key(k), [0, self.enc_leaf(v, canon)]])
    return [kind_of(x), [enc_key(k) for k in x.sym_path.keys], int(x.sym_parent is expected_parent),
            [int(x.is_sealed), int(x.accessor_writable), int(x.allow_partial)], items]

  def snapshot(self):
    canon = {}
    return [[] if r is None else [self.snap(r, None, canon)] for r in self.roots]

  def snapshot_solo(self):
    """One snapshot per root, opaque leaves numbered per root (for comparing a single root over time)."""
    return [[] if r is None else [self.snap(r, None, {})] for r in self.roots]

  # -- bookkeeping of reachable nodes ---------------------------------------------------------------
  def reachable(self, only=None):
    """id -> (obj, root index, keys) for every symbolic node stored below a live root."""
    out = {}
    for i, r in enumerate(self.roots):
      if r is None or (only is not None and i not in only):
        continue
      def visit(x, parent, key, i=i):
        if id(x) not in out:
          pk = out[id(parent)][2] if parent is not None else []
          out[id(x)] = (x, i, pk + ([key] if parent is not None else []))
      walk(r, visit)
    return out

  def locate(self, obj):
    for i, r in enumerate(self.roots):
      if r is None: continue
      stack = [(r, [])]
      seen = set()
      while stack:
        x, keys = stack.pop()
        if id(x) in seen: continue
        seen.add(id(x))
        if x is obj:
          return [2, i, [enc_key(k) for k in keys]]
        for k, v in sym_children(x):
          if is_sym(v):
            stack.append((v, keys + [k]))
    return None

  def enc_ret(self, v):
    if v is None:
      return [0]
    if is_sym(v):
      loc = self.locate(v)
      return loc if loc is not None else [4]
    if isinstance(v, tuple) and len(v) == 2 and isinstance(v[0], (str, int)):
      return [3, enc_key(v[0]), self.enc_ret_value(v[1])]
    return self.enc_ret_value(v)

  def enc_ret_value(self, v):
    if v is None:
      return [0]
    if is_sym(v):
      loc = self.locate(v)
      return loc if loc is not None else [4]
    if isinstance(v, (dict, list, tuple)):
      return [4]
    return [1, self.enc_leaf(v, None)]

# ---- scopes ---------------------------------------------------------------------------------------
@contextlib.contextmanager
def scoped(scope):
  P = pg()
  sealed, aw, notify, partial = scope
  with contextlib.ExitStack() as st:
    for o in sealed:
      st.enter_context(P.as_sealed(bool(o[0]) if o else None))
    for o in aw:
      st.enter_context(P.allow_writable_accessors(bool(o[0]) if o else None))
    for b in notify:
      st.enter_context(P.notify_on_change(bool(b)))
    for o in partial:
      st.enter_context(P.allow_partial(bool(o[0]) if o else None))
    yield

def eff(stack, default=None):
  """Innermost enclosing override."""
  if not stack:
    return default
  o = stack[-1]
  if isinstance(o, list):
    return bool(o[0]) if o else None
  return bool(o)

def err_code(e):
  P = pg()
  if isinstance(e, P.WritePermissionError): return ERR_WRITE
  if isinstance(e, KeyError): return ERR_KEY
  if isinstance(e, IndexError): return ERR_INDEX
  if isinstance(e, TypeError): return ERR_TYPE
  if isinstance(e, ValueError): return ERR_VALUE
  if isinstance(e, AssertionError): return ERR_ASSERT
  if isinstance(e, AttributeError): return ERR_ATTR
  if isinstance(e, Hang): return ERR_HANG
  return ERR_OTHER

class Hang(Exception):
  """The operation did not return (e.g. a walk up a cyclic parent chain)."""

WATCHDOG_S = 20.0     # CPU seconds; generous: a full garbage collection of a large harness heap can fall inside an operation
@contextlib.contextmanager
def watchdog(seconds):
  import signal, threading
  if threading.current_thread() is not threading.main_thread():
    yield; return
  # CPU time of this process (not wall time): a loaded machine must not look like a non-terminating operation
  def handler(signum, frame):
    raise Hang('operation still running after %.1fs of CPU time' % seconds)
  old = signal.signal(signal.SIGVTALRM, handler)
  signal.setitimer(signal.ITIMER_VIRTUAL, seconds)
  try:
    yield
  finally:
    signal.setitimer(signal.ITIMER_VIRTUAL, 0)
    signal.signal(signal.SIGVTALRM, old)

# ---- applying one operation -------------------------------------------------------------------------
def app_order(impl, target, paths):
  """Order in which rebind applies its paths (Dict/Object: as given; List: descending KeyPath order)."""
  P = pg()
  idx = list(range(len(paths)))
  if isinstance(target, P.List):
    kp = [P.KeyPath([dec_key(k) for k in p]) for p in paths]
    idx.sort(key=lambda i: kp[i], reverse=True)
  return idx

def apply_op(impl, scope, op):
  """Applies op under scope.  Returns (result tree, info dict for the oracles)."""
  P = pg()
  tag, pos = op[0], op[1]
  info = dict(tag=tag, pos=pos, target=None, exception=None, new_roots=[], detached=[])
  try:
    target = impl.at(pos)
    k = kind_of(target) if is_sym(target) else -1
    if (tag in LIST_OPS and k != 1) or (tag in SLICE_OPS and k != 1) or (tag in DICT_OPS and k != 0) or (tag in OBJ_OPS and k < 2) or k < 0:
      raise NotApplicable()
    # resolve references before anything runs (a missing position makes the whole op not applicable)
    def check(v):
      if v[0] == 1: impl.at((v[1], v[2]))
      elif v[0] == 2: check(v[1])
    for v in op_values(op):
      check(v)
      if not value_ok(v):
        raise NotApplicable()
  except NotApplicable:
    return [1, ERR_NA], info
  info['target'] = target
  pre = impl.reachable()
  pre_order = list(pre.values())
  rank = {}
  if tag in (REBIND, DUPDATE, DIOR):
    # application order of the written paths, keyed by the actual position they address before the op
    paths = [[dec_key(kk) for kk in p] for p, _ in op[2]] if tag == REBIND else [[dec_key(kk)] for kk, _ in op[2]]
    inserts = [v[0] == 2 for _, v in op[2]]          # an Insertion removes nothing
    tkeys = pre[id(target)][2]
    for n, i in enumerate(app_order(impl, target, [[enc_key(k) for k in p] for p in paths])):
      if inserts[i]:
        continue
      x, actual = target, []
      for kk in paths[i]:
        if isinstance(x, list) and isinstance(kk, int) and -len(x) <= kk < 0:
          kk += len(x)
        actual.append(kk)
        x = x.sym_getattr(kk) if is_sym(x) and ((isinstance(x, list) and isinstance(kk, int) and 0 <= kk < len(x)) or (not isinstance(x, list) and x.sym_hasattr(kk))) else None
      rank.setdefault(tuple(map(repr, tkeys + actual)), n)
  new_results = []
  ret = None
  exc = None
  # argument values are built before the scoped call is entered (as in `v = pg.Dict(..); with scope: x.op(v)`)
  try:
    vals = iter([impl.value(v) for v in op_values(op)])
  except Exception as e:       # pylint: disable=broad-except
    exc = e
  if exc is None:
    with scoped(scope):
      try:
        with watchdog(WATCHDOG_S):
          ret = run_op(impl, target, op, new_results, lambda v: next(vals))
      except Exception as e:     # pylint: disable=broad-except
        exc = e
  info['exception'] = exc
  # --- which old roots were moved into another tree; which nodes were removed from their tree
  old_n = len(impl.roots)
  for i in range(old_n):
    r = impl.roots[i]
    if r is None: continue
    inside = [False]
    def visit(x, parent, key):
      if x is r and parent is not None: inside[0] = True
    for j, o in enumerate(impl.roots[:old_n] + new_results):
      if o is not None and j != i:
        walk(o, visit)
    if inside[0]:
      impl.roots[i] = None
      impl.moved[i] = r
  impl.roots.extend(new_results)
  now = impl.reachable()
  del impl.roots[old_n:]
  gone = [(x, ri, keys) for (x, ri, keys) in pre_order if id(x) not in now and keys]
  gone_ids = {id(x) for x, _, _ in gone}
  # parent before the op = the node whose pre-op position is the prefix
  by_pos = {(ri, tuple(map(repr, keys))): x for (x, ri, keys) in pre_order}
  pre_parent = {id(x): by_pos.get((ri, tuple(map(repr, keys[:-1])))) for (x, ri, keys) in pre_order if keys}
  def topmost(x, ri, keys):
    par = pre_parent.get(id(x))
    if par is None or id(par) not in gone_ids:
      return True
    return not any(v is x for _, v in sym_children(par))
  det = [(x, ri, keys) for (x, ri, keys) in gone if topmost(x, ri, keys)]
  if tag in (REBIND, DUPDATE, DIOR) and len(det) > 1:
    det.sort(key=lambda t: rank.get(tuple(map(repr, t[2])), len(rank)))
  for x, _, _ in det:
    slot = [i for i, m in impl.moved.items() if m is x]
    if slot:                       # a root that had been moved into a tree comes back to its own slot
      impl.roots[slot[0]] = x
      del impl.moved[slot[0]]
    else:
      impl.roots.append(x)
    info['detached'].append(x)
  for x in new_results:
    impl.roots.append(x)
    info['new_roots'].append(x)
  # an old root may sit inside a tree that was itself removed by this operation (and is a root now)
  for i in range(old_n):
    r = impl.roots[i]
    if r is None: continue
    inside = [False]
    def visit2(x, parent, key):
      if x is r and parent is not None: inside[0] = True
    for j, o in enumerate(impl.roots):
      if o is not None and j != i:
        walk(o, visit2)
    if inside[0]:
      impl.roots[i] = None
      impl.moved[i] = r
  if exc is not None:
    return [1, err_code(exc)], info
  return [0, impl.enc_ret(ret)], info

def op_values(op):
  tag = op[0]
  if tag in (LSET, LINSERT): return [op[3]]
  if tag == LAPPEND: return [op[2]]
  if tag in (LEXTEND, LIADD, LADD): return list(op[2])
  if tag == LSETSLICE: return list(op[3])
  if tag in (DSET,): return [op[4]]
  if tag in (DSETDEFAULT, OSET): return [op[3]]
  if tag in (DUPDATE, DIOR): return [v for _, v in op[2]]
  if tag == REBIND: return [v for _, v in op[2]]
  return []

def run_op(impl, t, op, new_results, val):
  P = pg()
  tag = op[0]
  if tag == LSET: t[op[2]] = val(op[3]); return None
  if tag == LDEL: del t[op[2]]; return None
  if tag == LAPPEND: return t.append(val(op[2]))
  if tag == LINSERT: return t.insert(op[2], val(op[3]))
  if tag == LEXTEND: return t.extend([val(v) for v in op[2]])
  if tag == LPOP: return t.pop(*[op[2][0]] if op[2] else [])
  if tag == LREMOVE: return t.remove(impl.leaf(op[2]))
  if tag == LCLEAR: return t.clear()
  if tag == LREVERSE: return t.reverse()
  if tag == LSORT:
    keys = list(op[2]) + [0] * len(t)
    it = iter(keys)
    return t.sort(key=lambda x: next(it), reverse=bool(op[3]))
  if tag == LIADD:
    t0 = t
    t += [val(v) for v in op[2]]
    if t is not t0: new_results.append(t)
    return None
  if tag == LIMUL:
    t0 = t
    t *= op[2]
    if t is not t0: new_results.append(t)
    return None
  if tag == LADD:
    r = t + [val(v) for v in op[2]]; new_results.append(r); return r
  if tag == LMUL:
    r = t * op[2]; new_results.append(r); return r
  if tag == LCOPY:
    r = t.copy(); new_results.append(r); return r
  if tag == DSET:
    k = dec_key(op[3])
    if op[2] and isinstance(k, str): setattr(t, k, val(op[4]))
    else: t[k] = val(op[4])
    return None
  if tag == DDEL:
    k = dec_key(op[3])
    if op[2] and isinstance(k, str): delattr(t, k)
    else: del t[k]
    return None
  if tag == DPOP:
    k = dec_key(op[2])
    return t.pop(k, *[impl.leaf(op[3][0])] if op[3] else [])
  if tag == DPOPITEM: return t.popitem()
  if tag == DCLEAR: return t.clear()
  if tag == DSETDEFAULT: return t.setdefault(dec_key(op[2]), val(op[3]))
  if tag == DUPDATE: return t.update({dec_key(k): val(v) for k, v in op[2]})
  if tag == DIOR:
    t0 = t
    t |= {dec_key(k): val(v) for k, v in op[2]}
    if t is not t0: new_results.append(t)
    return None
  if tag == DCOPY:
    r = t.copy(); new_results.append(r); return r
  if tag == OSET:
    setattr(t, dec_key(op[2]), val(op[3])); return None
  if tag == REBIND:
    t.rebind({P.KeyPath([dec_key(k) for k in p]): val(v) for p, v in op[2]}); return None
  if tag == CLONE:
    m = op[2]
    r = t.clone() if m == 0 else t.clone(deep=True) if m == 1 else copy.copy(t) if m == 2 else copy.deepcopy(t)
    new_results.append(r); return r
  if tag in (LSETSLICE, LDELSLICE, LGETSLICE):
    sl = slice(*[(o[0] if o else None) for o in op[2]])
    if tag == LSETSLICE: t[sl] = [val(v) for v in op[3]]; return None
    if tag == LDELSLICE: del t[sl]; return None
    return t[sl]
  if tag == SEAL: t.seal(bool(op[2])); return None
  if tag == SETAW: t.set_accessor_writable(bool(op[2])); return None
  raise ValueError('unknown op tag %r' % (tag,))

# ---- running a whole case ----------------------------------------------------------------------------
def run_case(case, after_step=None, after_init=None):
  """case = (quirks, (lit ...), ((scope op) ...)).  Returns the outcome tree.
  after_init(impl) and after_step(impl, step_index, scope, op, result, info, before) are the oracle hooks;
  `before` is whatever after_step's `prepare(impl, scope, op)` attribute returned before the op ran."""
  _, init, steps = case
  impl = Impl()
  for lt in init:
    impl.roots.append(impl.lit(lt))
  if after_init: after_init(impl)
  snap0 = impl.snapshot()
  outs = []
  for n, (scope, op) in enumerate(steps):
    before = after_step.prepare(impl, scope, op) if after_step is not None and hasattr(after_step, 'prepare') else None
    res, info = apply_op(impl, scope, op)
    if after_step: after_step(impl, n, scope, op, res, info, before)
    outs.append([res, impl.snapshot()])
  return [snap0, outs]

# ---- literal validity (the same predicate as lit_valid of the model) -------------------------------------
def lit_ok(lt, top=True):
  if lt[0] == 0:
    return top or lt[1][0] not in (4, 9)
  _, kind, flags, plain, items = lt
  keys = [tuple(k) for k, _ in items]
  if kind >= 2:
    if plain or [dec_key(k) for k, _ in items] != CLASS_FIELDS.get(kind - 2, ['x']):
      return False
  elif kind == 0:
    if len(set(keys)) != len(keys):
      return False
  return all(lit_ok(v, False) for _, v in items)

def value_ok(v):
  if v[0] == 0: return lit_ok(v[1], True)
  if v[0] == 2: return value_ok(v[1])
  return True

# ---- hand-written cases: witnesses of the findings and corner cases, always run first --------------------------
def _lf(v):
  if v is None: return [0]
  if isinstance(v, bool): return [1, int(v)]
  if isinstance(v, int): return [2, v]
  if isinstance(v, str): return [3] + [ord(c) for c in v]
  if isinstance(v, tuple) and v[0] == 'opq': return [5, v[1], v[2]]
  if v == 'MISSING': return [4]
  raise ValueError(v)
def mk(v, sealed=0, aw=1, partial=0, plain=0, cls=None):
  """Python value -> literal: dict -> pg.Dict, list -> pg.List, ('obj', cls, {fields}) -> pg.Object; leaves as they are."""
  if isinstance(v, dict) and '__lit__' in v: return v['__lit__']
  if isinstance(v, dict): return [1, 0, [sealed, aw, partial], plain, [[enc_key(k), mk(x)] for k, x in v.items()]]
  if isinstance(v, list): return [1, 1, [sealed, aw, partial], plain, [[[1, i], mk(x)] for i, x in enumerate(v)]]
  if isinstance(v, tuple) and v and v[0] == 'obj':
    c = v[1]
    return [1, 2 + c, [sealed, CLASS_AW[c] if aw == 1 else aw, partial], 0, [[enc_key(k), mk(v[2].get(k))] for k in CLASS_FIELDS[c]]]
  if isinstance(v, str) and v == 'MISSING': return [0, [4]]
  return [0, _lf(v)]
def F(v, **kw):
  return {'__lit__': mk(v, **kw)}
NS = [[], [], [], []]
def sc(sealed=(), aw=(), notify=(), partial=()):
  ob = lambda x: [] if x is None else [int(x)]
  return [[ob(x) for x in sealed], [ob(x) for x in aw], [int(x) for x in notify], [ob(x) for x in partial]]
def P(r, *keys): return [r, [enc_key(k) for k in keys]]
def V(x): return [0, mk(x)]
def R(r, *keys): return [1, r, [enc_key(k) for k in keys]]
def INS(v): return [2, v]
def case(init, *steps): return [[], [mk(x) for x in init], [list(s) for s in steps]]

CORPUS = {
  'iadd-children-without-parent': case([[1]], (NS, [LIADD, P(0), [V({'a': 1})]])),
  'iadd-on-sealed-list': case([F([1], sealed=1)], (NS, [LIADD, P(0), [V(2)]])),
  'imul-on-sealed-list': case([F([1, {'a': 1}], sealed=1)], (NS, [LIMUL, P(0), 2]), (sc(sealed=[True]), [LIMUL, P(0), 0])),
  'ior-children-without-parent': case([{'a': 1}], (NS, [DIOR, P(0), [[enc_key('b'), V({'c': 1})], [enc_key('l'), V([1])]]])),
  'ior-on-sealed-dict': case([F({'a': 1}, sealed=1)], (NS, [DIOR, P(0), [[enc_key('a'), V(2)]]])),
  'reverse-stale-paths': case([[{'a': 1}, {'b': 2}, 3]], (NS, [LREVERSE, P(0)])),
  'sort-stale-paths': case([[{'a': 1}, {'b': 2}, [3]]], (NS, [LSORT, P(0), [2, 1, 0], 0])),
  'insert-without-notification': case([[{'a': 1}, {'b': 2}]], (sc(notify=[False]), [LINSERT, P(0), 0, V(5)])),
  'delete-without-notification': case([[{'a': 1}, {'b': 2}, {'c': 3}]], (sc(notify=[False]), [LDEL, P(0), 0])),
  'negative-index-without-notification': case([[1, 2]], (sc(notify=[False]), [LSET, P(0), -1, V({'a': 1})]), (sc(notify=[False]), [LINSERT, P(0), -1, V({'b': 1})]),
                                               (sc(notify=[False]), [LINSERT, P(0), -10, V({'c': 1})])),
  'list-delitem-not-detached': case([[{'a': 1}]], (NS, [LDEL, P(0), 0])),
  'list-pop-not-detached': case([[{'a': 1}, [2]]], (NS, [LPOP, P(0), []]), (NS, [LPOP, P(0), [0]])),
  'list-clear-not-detached': case([[{'a': 1}, [2]]], (NS, [LCLEAR, P(0)])),
  'list-setitem-stale-path': case([[{'a': {'b': 1}}]], (NS, [LSET, P(0), 0, V(5)])),
  'list-remove': case([[1, {'a': 1}, True]], (NS, [LREMOVE, P(0), [1, 1]]), (NS, [LREMOVE, P(0), [2, 7]])),
  'dict-popitem-not-detached': case([{'a': {'b': 1}}], (NS, [DPOPITEM, P(0)])),
  'dict-clear-not-detached': case([{'a': {'b': 1}, 'c': [1]}], (NS, [DCLEAR, P(0)])),
  'insert-element-of-the-same-list': case([[{'a': 1}]], (NS, [LINSERT, P(0), 0, R(0, 0)]), (NS, [REBIND, P(0), [[[[1, 0]], INS(R(0, 0))]]])),
  'own-root-below-itself': case([{'a': {}}], (NS, [DSET, P(0, 'a'), 0, enc_key('b'), R(0)]), (NS, [DSET, P(0), 1, enc_key('x'), R(0)])),
  'seal-false-on-unsealed-parent': case([{'x': {'y': F({}, sealed=1)}}], (NS, [SEAL, P(0), 0])),
  'seal-true-on-sealed-parent': case([F({'x': {}}, sealed=1)], (NS, [SEAL, P(0, 'x'), 0]), (NS, [SEAL, P(0), 1])),
  'list-clone-drops-sealed': case([F([1, {'a': 1}], sealed=1)], (NS, [CLONE, P(0), 0]), (NS, [CLONE, P(0), 1]), (NS, [CLONE, P(0), 2]), (NS, [CLONE, P(0), 3])),
  'object-clone-drops-accessor-writable': case([('obj', 0, {'x': 1})], (NS, [SETAW, P(0), 1]), (NS, [CLONE, P(0), 0])),
  'clone-reseals-unsealed-child': case([F({'x': {}}, sealed=1)], (NS, [SEAL, P(0, 'x'), 0]), (NS, [CLONE, P(0), 0]), (NS, [DCOPY, P(0)])),
  'deep-clone-shared-leaf': case([{'x': ('opq', 1, 0), 'y': ('opq', 1, 0)}], (NS, [CLONE, P(0), 1]), (NS, [CLONE, P(0), 3])),
  'moved-root-comes-back': case([{'a': 1}, [1]], (NS, [LAPPEND, P(1), R(0)]), (NS, [LPOP, P(1), []]), (NS, [DSET, P(0), 0, enc_key('k'), V(2)])),
  'rebind-list-batch': case([[0, 1, 2, {'a': 1}]], (NS, [REBIND, P(0), [[[[1, 0]], V('MISSING')], [[[1, 1]], INS(V(9))], [[[1, 3], enc_key('a')], V([1])], [[[1, 7]], V(8)]]])),
  'rebind-sealed-owner': case([{'a': F({'b': 1}, sealed=1), 'c': 1}], (NS, [REBIND, P(0), [[[enc_key('c')], V(2)], [[enc_key('a'), enc_key('b')], V(3)]]])),
  'accessor-protected': case([F({'a': 1}, aw=0), F([1], aw=0), ('obj', 0, {'x': 1})],
                             (NS, [DSET, P(0), 0, enc_key('a'), V(2)]), (NS, [DDEL, P(0), 1, enc_key('a')]), (NS, [LSET, P(1), 0, V(2)]), (NS, [LDEL, P(1), 0]),
                             (NS, [OSET, P(2), enc_key('x'), V(2)]), (NS, [REBIND, P(0), [[[enc_key('a')], V(3)]]]), (NS, [REBIND, P(2), [[[enc_key('x')], V(3)]]]),
                             (sc(aw=[True]), [DSET, P(0), 0, enc_key('a'), V(4)]), (sc(aw=[False, None]), [DSET, P(0), 0, enc_key('a'), V(5)]), (NS, [DPOP, P(0), enc_key('a'), []])),
  'dict-key-with-path-characters': case([{}], (NS, [DSET, P(0), 0, enc_key('a]'), V({'x': 1})]), (NS, [DSET, P(0), 0, enc_key('[q'), V(2)]),
                                        (NS, [DSET, P(0, 'a]'), 0, enc_key('b.c'), V([1])]), (NS, [DDEL, P(0), 0, enc_key('a]')])),
  'root-inside-removed-tree': case([{'a': 1}, [{'x': 1}]], (NS, [DSET, P(1, 0), 0, enc_key('k'), R(0)]), (NS, [LDEL, P(1), 0]),
                                   (NS, [DPOP, P(2), enc_key('k'), []]), (NS, [DSET, P(0), 0, enc_key('b'), V(2)])),
  'rebind-insertion-and-negative-index': case([[1, [2], {'a': 1}]],
                                              (NS, [REBIND, P(0), [[[[1, 1]], V(7)], [[[1, -1]], V(8)], [[[1, 2]], INS(V(None))]]])),
  'reverse-sort-on-list-holding-missing': case([[1, {'a': 1}, 3, [4]]],
      (sc(notify=[False]), [LSET, P(0), 0, V('MISSING')]), (NS, [LREVERSE, P(0)]),
      (sc(notify=[False]), [LSET, P(0), 1, V('MISSING')]), (sc(notify=[False]), [LREVERSE, P(0)]), (NS, [LSORT, P(0), [2, 1, 0], 0]),
      (sc(notify=[False]), [LSET, P(0), 0, V('MISSING')]), (NS, [LREVERSE, P(0)]), (NS, [LAPPEND, P(0), V(9)])),
  'missing-in-list': case([[1, 2, 3]], (sc(notify=[False]), [LSET, P(0), 1, V('MISSING')]), (NS, [CLONE, P(0), 0]), (NS, [LAPPEND, P(0), V(4)])),
}

# lists in the 'placeholders pending' state (1-3 elements replaced by MISSING_VALUE while change notification is off: every adjacency pattern on 5
# positions) copied by every route before the next notification, standalone and nested; then both copies get their notification
def _placeholder_cases():
  import itertools
  base = [{'a': 0}, 1, {'b': 2}, 3, {'c': [4]}]
  hosts = {'standalone': (lambda l: l, ()), 'in-dict': (lambda l: {'h': l, 'k': 1}, ('h',)), 'in-list': (lambda l: [0, l], (1,)),
           'in-object': (lambda l: ('obj', 1, {'x': l, 'y': 1}), ('x',))}
  for r in (1, 2, 3):
    for S in itertools.combinations(range(5), r):
      for mode in (0, 1, 2, 3):
        hname = list(hosts)[(sum(S) + mode + r) % len(hosts)]      # every pattern x every mode; the host rotates
        wrap, keys = hosts[hname]
        steps = [(sc(notify=[False]), [LSET, P(0, *keys), i, V('MISSING')]) for i in S]
        steps += [(NS, [CLONE, P(0), mode]), (NS, [LAPPEND, P(1, *keys), V(7)]), (NS, [LAPPEND, P(0, *keys), V(8)])]
        yield 'placeholders-%s-%s-mode%d' % (''.join(map(str, S)), hname, mode), case([wrap(list(base))], *steps)
CORPUS.update(dict(_placeholder_cases()))

# ---- the property run shared by C01 / C07 / C08 ------------------------------------------------------------------
def describe_diff(case, a, b):
  from harness.lib import tr as trlib
  d = dict(case=trlib.to_line(case))
  if a is None or b is None or not isinstance(b, list) or len(b) != 2:
    d['difference'] = 'no outcome from %s' % ('the implementation' if a is None else 'the model')
    return d
  if a[0] != b[0]:
    d['difference'] = 'initial forest'
    return d
  for n, (x, y) in enumerate(zip(a[1], b[1])):
    if x != y:
      op = case[2][n][1]
      d.update(step=n, op=OP_NAMES.get(op[0], op[0]), differs='result' if x[0] != y[0] else 'snapshot',
               implementation=trlib.to_line(x[0] if x[0] != y[0] else x[1])[:1500], model=trlib.to_line(y[0] if x[0] != y[0] else y[1])[:1500])
      return d
  return d

def py_snippet(case, upto=None):
  """The case as a runnable Python snippet (for replay files)."""
  from harness.lib import tr as trlib
  return ('import sys; sys.path[:0] = ["/verif", "/repo"]\nfrom harness.props import symcore_driver as D\nfrom harness.lib import tr\n'
          'case = tr.parse_line(%r)\nD.run_case(case, after_step=lambda impl, n, scope, op, res, info, before: print(n, D.OP_NAMES[op[0]], res, [repr(r)[:80] for r in impl.roots]))\n'
          % trlib.to_line(case))

def quirk_flags():
  """One flag per open finding of the SymCore properties, set by replaying the finding's witness on the implementation
  (so the model follows the code whether or not the defect has been repaired since)."""
  from harness.props import c07
  orc = c07.Oracle()
  run_case(CORPUS['missing-in-list'], after_step=orc)
  copy_drops_missing = any(sig == 'C07/not-equal/copy/list-holds-MISSING' for sig, _, _ in orc.hits)
  return [int(copy_drops_missing)]

def run_property(ctx, prop, oracle_cls, extra=None, focus=None, quick=700, thorough=30000):
  from harness.lib import tr as trlib
  from harness.props import symcore_gen as G
  import time
  ctx.build()
  t0 = time.time()
  rng = ctx.rng
  # a private copy of the extracted runner: another check of the same model may rebuild the shared binary while this one runs
  if ctx.model_ok:
    import shutil
    from harness.lib import coqrun
    shared = coqrun.build_runner(ctx.meta.get('runner_name', ctx.prop), ctx.meta['model_run'])
    ctx.runner = os.path.join(ctx.workdir, 'runner')
    shutil.copy2(shared, ctx.runner)
  quirks = quirk_flags()
  ctx.extra['quirk_flags'] = dict(copy_drops_missing=quirks[0])
  cases, kinds = [], []
  for name, c in CORPUS.items():
    cases.append([quirks, c[1], c[2]]); kinds.append('corpus:' + name)
  n = ctx.scale(quick, thorough)
  gens = [(G.Gen(rng, cycles=True, quirks=quirks), 'random', 0.55), (G.Gen(rng, cycles=True, focus=focus, quirks=quirks) if focus else None, 'focus', 0.2),
          (G.Gen(rng, cycles=True, focus=MODEL_MUTATING, quirks=quirks), 'mutators', 0.25)]
  gens = [g for g in gens if g[0] is not None]
  tot = sum(w for _, _, w in gens)
  for g, kind, w in gens:
    for _ in range(int(n * w / tot)):
      cases.append(g.case(rng.choice([4, 8, 10, 12]))); kinds.append(kind)
  impl_outs = []
  stats = {}
  import gc
  for ncase, (case, kind) in enumerate(zip(cases, kinds)):
    if ncase % 2000 == 1999:
      gc.freeze()        # the outcomes kept so far need not be traversed by later collections
    orc = oracle_cls()
    try:
      out = run_case(case, after_step=orc)
    except Exception as e:       # the driver itself failed: fail closed
      out = None
      ctx.broken.append(dict(kind='driver-crash', name=type(e).__name__, detail=repr(e)[:300] + ' on ' + trlib.to_line(case)[:600]))
    impl_outs.append(out)
    for sig, what, step in orc.hits:
      ctx.hit(sig, what, dict(case=trlib.to_line(case), step=step, snippet=py_snippet(case)))
    for k, v in getattr(orc, 'stats', {}).items():
      stats[k] = stats.get(k, 0) + v
    nontrivial = False
    if out is not None:
      nested = lambda snap: any(any(i[1][0] == 1 for i in r[0][4]) for r in snap if r)
      for (sc_, op), (res, snap) in zip(case[2], out[1]):
        ctx.hist('operations', OP_NAMES.get(op[0], op[0]))
        ctx.hist('outcomes', 'ok' if res[0] == 0 else {1: 'WritePermissionError', 2: 'KeyError', 3: 'IndexError', 4: 'TypeError', 5: 'ValueError',
                                                        6: 'AssertionError', 7: 'AttributeError', 9: 'other', 97: 'hang', 99: 'not-applicable'}.get(res[1], res[1]))
        ctx.hist('scopes', 'none' if not any(sc_) else 'scoped')
        if res[0] == 0 and op[0] in MUTATING and nested(snap):
          nontrivial = True
      ctx.hist('steps_per_case', len(case[2]))
      ctx.hist('roots_at_end', len(out[1][-1][1]) if out[1] else len(out[0]))
    ctx.count(trlib.to_line(case), nontrivial=nontrivial, kind=kind.split(':')[0],
              sample=dict(kind=kind, case=trlib.to_line(case)[:700]) if (nontrivial and kind == 'random' and len(ctx.samples) < 4) or len(ctx.samples) < 1 else None)
  ctx.log('implementation ran %d cases in %.1fs' % (len(cases), time.time() - t0))
  gc.unfreeze()
  model_outs = ctx.model_run(cases)
  diffs = {}
  for c, a, b in zip(cases, impl_outs, model_outs):
    if a != b:
      diffs[id(c)] = describe_diff(c, a, b)
  bad = ctx.compare('SymCore.run vs pg.Dict / pg.List / pg.Object (outcome and snapshot of every root after every step)',
                    cases, impl_outs, model_outs, describe=lambda c: diffs.get(id(c)))
  ctx.extra['oracle_stats'] = stats
  ctx.extra['corpus_cases'] = len(CORPUS)
  del impl_outs, model_outs
  if ctx.thorough:
    small_scope_sweep(ctx, oracle_cls, quirks)
  if extra:
    extra(ctx)
  # violation search when something is broken and the oracle has not hit yet: more histories biased to the op kinds that disagree
  if ctx.is_broken() and not ctx.hits:
    ops = set()
    for i in bad[:50]:
      d = diffs.get(id(cases[i])) or {}
      ops |= {t for t, nm in OP_NAMES.items() if nm == d.get('op')}
    g = G.Gen(rng, cycles=True, focus=ops or MODEL_MUTATING, quirks=quirks)
    for _ in range(ctx.scale(600, 6000)):
      case = g.case(8)
      orc = oracle_cls()
      try:
        run_case(case, after_step=orc)
      except Exception:     # pylint: disable=broad-except
        continue
      for sig, what, step in orc.hits:
        ctx.hit(sig, what, dict(case=trlib.to_line(case), step=step, snippet=py_snippet(case)))
      if ctx.hits:
        break

def small_scope_sweep(ctx, oracle_cls, quirks, batch=20000):
  """Thorough tier: every operation kind x every position of every small tree x a fixed menu of arguments x 5 scopes
  (symcore_gen.small_scope_cases), one step per case, in batches: implementation, oracle, model, comparison."""
  from harness.lib import tr as trlib
  from harness.props import symcore_gen as G
  import time
  t0 = time.time()
  total, bad_total = 0, 0
  gen = G.small_scope_cases(quirks)
  while True:
    cases = []
    for c in gen:
      cases.append(c)
      if len(cases) >= batch: break
    if not cases:
      break
    outs = []
    for case in cases:
      orc = oracle_cls()
      try:
        out = run_case(case, after_step=orc)
      except Exception as e:      # pylint: disable=broad-except
        out = None
        ctx.broken.append(dict(kind='driver-crash', name=type(e).__name__, detail=repr(e)[:300] + ' on ' + trlib.to_line(case)[:600]))
      outs.append(out)
      for sig, what, step in orc.hits:
        ctx.hit(sig, what, dict(case=trlib.to_line(case), step=step, snippet=py_snippet(case)))
      ctx.evaluations += 1
    model_outs = ctx.model_run(cases, vm_sample=0)
    diffs = {id(c): describe_diff(c, a, b) for c, a, b in zip(cases, outs, model_outs) if a != b}
    bad = ctx.compare('SymCore.run vs implementation on the exhaustive small-scope sweep', cases, outs, model_outs, describe=lambda c: diffs.get(id(c)))
    total += len(cases); bad_total += len(bad)
  ctx.extra['small_scope_sweep'] = dict(exhaustive=True, cases=total, disagreements=bad_total,
                                        what='every op kind x every node of 104 small trees x a fixed menu of arguments (leaf, MISSING, plain / sealed literal, '
                                             'references to another root, its child, the own root, a sibling) x 5 scope stacks; one step per case')
  ctx.log('small-scope sweep: %d cases, %d disagreements, %.1fs' % (total, bad_total, time.time() - t0))

def replay_property(ctx, rp, oracle_cls):
  from harness.lib import tr as trlib
  c = rp['case']
  case = trlib.parse_line(c['case']) if isinstance(c, dict) else trlib.parse_line(c)
  orc = oracle_cls()
  run_case(case, after_step=orc)
  for h in orc.hits:
    print('  still fails:', h[0], '|', h[1])
  return not orc.hits

"""C03 — schema invariant: a typed symbolic value always satisfies its declared schema.

Model: coq/Model/SymCoreTyped.v (SymCore forests whose nodes may carry a reference into a table of Typing.spec;
typed write path = formalise (Typing.apply of the field spec) then store).  This module holds the implementation driver
(typed roots, plain Python values incl. floats / tuples / class instances), the generator of (spec table, forest, history),
the direct oracle (the property text re-evaluated on the live objects with the real library) and the systematic sweeps.

Wire format (the model prints the same; see SymCoreTyped.v):

  case     ::= (quirks (spec ...) (c0 c1 c2) (root ...) ((scope op) ...))
  spec     ::= value-spec tree of coq/Model/Typing.v (harness/props/c04.py build / render)
  ci       ::= reference (1-based index into the spec table, 0 = every field Any(default=None)) of the schema of class i
  root     ::= (0 lit)                    SymCore literal (untyped pg.Dict / pg.List, objects of the three classes)
             | (1 kind ref (s a p) pv)    pg.Dict(pv, value_spec=spec[ref]) / pg.List(...) / Class_{kind-2}(**pv)
  op       ::= (tag (root (key ...)) arg ...)      tags of symcore_driver.py plus LSETSLICE
  value    ::= (0 lit) | (1 root (key ...)) | (2 value) | (3 pv)          pv = plain Python value (Typing.v wire format)
  out      ::= ((init ...) snapshot ((result snapshot) ...))             init = 0 | error code (construction of the root failed)
  snapshot ::= (rootslot ...)     rootslot ::= () | (snap)
  snap     ::= (kind (key ...) parent_ok (sealed aw partial ref) ((key item) ...))      ref = first table entry equal to the bound spec
  item     ::= (0 pv) | (1 snap)
"""
import contextlib, copy, json, os, sys, time
from harness.lib import tr as trlib
from harness.props import symcore_driver as D
from harness.props import c04

META = dict(
    id='C03',
    model_run='PG.Model.SymCoreTyped.run',
    runner_name='SymCoreTyped',
    model_targets=['Model/SymCoreTyped.vo'],
    technique=('Coq proofs over an executable model of the typed write path (SymCore forests whose nodes carry a reference into a table of Typing.spec; '
               'formalise = Typing.apply of the field spec, then store; the size checks of list.py) + step-level differential correspondence against typed '
               'pg.Dict / pg.List / pg.Object on generated (spec table, forest, history) cases and a systematic write-path x spec-kind x value-class sweep + '
               'a direct oracle that re-applies every bound value spec to the stored members with the real library after every step'),
    design_ref='DESIGN.md §5 C03, design/C03.md',
    level_text='',
    level_note='',
    rule=('a case is (spec table, class schemas, roots, list of (scope stack, operation)); distinct by canonical text; non-trivial when a mutating operation on a forest '
          'with a schema-carrying node succeeds or is rejected with a type / value / key error (or, for a case without operations, a typed root is constructed)'),
    trusted_base=['extraction: ExtrOcamlBasic only; ocaml/main.ml lexer/printer; cross-checked against vm_compute on a sample',
                  'implementation driver harness/props/symcore_driver.py + harness/props/c03.py (typed roots, snapshots with bound specs, the scope guard) and spec rendering harness/props/c04.py'],
    assumptions=['values written into spec-checked containers are plain Python values (None, MISSING_VALUE, bool, int, float k/64, short str, tuples, class instances, nested list/dict) '
                 'or symbolic values given by reference that the field stores as they are or refuses (objects; untyped dicts / lists into a field that routes them to Any or takes none; '
                 'dicts / lists that carry the very spec the field binds); '
                 'the binding / compatibility / re-flagging paths of custom_apply, slice assignment, containers held by frozen fields and Dict/List specs inside Tuple specs are covered by the oracle only',
                 'user transforms, regular expressions, Callable/Type specs, forward references are outside the model (as in C04)'],
)
META['level_text'] = (
    'Theorems over Model/SymCoreTyped.v (SymCore forests whose nodes carry value specs; typed write path = Typing.apply of the field, then store): '
    'C03_schema_invariant_partial — every history of the 29 modelled operations (successful and refused calls, any scope stack) from any constructed forest keeps Conforms: '
    'for every schema-carrying node, only declared keys, every declared key present, each leaf member accepted by its field and mapped to itself, frozen fields equal to their '
    'frozen value, MISSING_VALUE only when the value was made partial, list sizes within bounds, each dict/list member bound to the spec its field routes it to '
    '(C03_conforms_list / C03_conforms_dict spell this out); partial: table specs union-free with atomic frozen / Enum values, written values are plain Python values. '
    'C03_rejected_not_stored (full): a refused non-batch operation on a member-checking target leaves the whole state unchanged; C03_rejected_batch_prefix / _extend_prefix: a refused batch '
    'leaves what its elements before the refused one produce. Refutation witnesses for the two open findings inside the model (container held by a frozen field; Union result not a fixed point). '
    'Tie: the model is run against typed pg.Dict / pg.List / pg.Object on every generated case (corpus, write-path x spec-kind x value-class sweep, random histories) and the '
    'snapshots (kind, flags, bound spec, keys, values) after construction and after every step must be identical (a history is compared up to the first step that stores a value its '
    'own field does not map to itself -- open Union finding; the count is in extra.compared_up_to_first_non_fixpoint_store); the direct oracle re-applies the declared schema (spec objects of its own) to plain copies of the stored members, and judges a child that carries its own spec by '
    'its own containment rule for specs (independent of is_compatible / custom_apply); a sweep hands typed values to typed fields for 66 spec relations x every write path.')
META['level_note'] = (
    'Trusted: Coq kernel; extraction (ExtrOcamlBasic) cross-checked against vm_compute on a sample; the drivers, generators and the spec rendering of harness/props/c04.py. '
    'Modelled, not verified: the Python code itself (tied by the correspondence only). Outside the model (direct oracle only): the paths of custom_apply that bind a spec to a value '
    'given by reference, complete it in place, override its allow_partial flag or rely on is_compatible; slice assignment, containers held by frozen fields, Dict/List specs inside Tuple specs; user transforms, regex, Callable/Type specs, forward references.')

LSETSLICE = 16
OP_NAMES = dict(D.OP_NAMES); OP_NAMES[LSETSLICE] = 'List.__setitem__(slice)'

def pg(): return D.pg()

SCHEMA_ERRORS = (D.ERR_TYPE, D.ERR_VALUE, D.ERR_KEY)

# ---- the three classes of a case ---------------------------------------------------------------------
class _Base: pass
def make_class(i, spec):
  """pg.Object class i (fields x,y / x,y,z / x as in symcore_driver) whose field specs come from the class schema spec (None: Any fields).
  An Object spec with class path (2, c) in a spec tree stands for class c of the case (c < i inside the schema of class i)."""
  P = pg(); T = P.typing
  names = D.CLASS_FIELDS[i]
  if spec is None:
    fields = [(n, T.Any(default=None)) for n in names]
  else:
    fields = [(n, copy.deepcopy(spec.schema.get_field(n).value)) for n in names]
  ns = {'PATH': (2, i)}
  if i == 1: ns['allow_symbolic_assignment'] = True
  if i == 2: ns['allow_symbolic_mutation'] = False
  cls = type('Obj' + 'ABC'[i], (P.Object,), ns)
  return P.members(fields)(cls)

_PLACEHOLDERS = []
def ensure_case_classes():
  """Placeholder classes for the class paths (2, c), so that spec trees can be built before a case exists (Table, canon)."""
  if not _PLACEHOLDERS:
    _PLACEHOLDERS.extend(make_class(i, None) for i in range(3))
  return _PLACEHOLDERS

@contextlib.contextmanager
def own_classes(classes=None):
  """c04.build resolves the class paths (2, c) to these classes (default: placeholders) for the duration."""
  classes = list(classes if classes is not None else ensure_case_classes())
  saved = {k: c04.CLASSES[k] for k in list(c04.CLASSES) if k[0] == 2}
  for k in saved: del c04.CLASSES[k]
  for i, c in enumerate(classes): c04.CLASSES[(2, i)] = c
  try:
    yield
  finally:
    for i in range(len(classes)): c04.CLASSES.pop((2, i), None)
    c04.CLASSES.update(saved)

def build_specs_and_classes(spec_trees, cls_refs):
  """-> (specs, classes): the class schemas first, in class order (class i may refer to the classes before it), then the rest."""
  specs = [None] * len(spec_trees)
  classes = []
  with own_classes([]):
    for i, ref in enumerate(cls_refs):
      if ref and specs[ref - 1] is None:
        specs[ref - 1] = c04.build(spec_trees[ref - 1])
      cls = make_class(i, specs[ref - 1] if ref else None)
      c04.CLASSES[(2, i)] = cls
      classes.append(cls)
    for n, t in enumerate(spec_trees):
      if specs[n] is None:
        specs[n] = c04.build(t)
    for i in range(3): c04.CLASSES.pop((2, i), None)
  return specs, classes

# ---- pv <-> Python -----------------------------------------------------------------------------------
def render_pv(v):
  """A stored (non-symbolic) value as a Typing.v pv tree; anything outside the vocabulary is (99)."""
  P = pg()
  if isinstance(v, P.Insertion): return [99]
  try:
    return c04.render_value(v)
  except c04.Unrenderable:
    return [99]
  except Exception:     # pylint: disable=broad-except
    return [99]

class TImpl(D.Impl):
  """Forest of live objects with a spec table."""
  def __init__(self, spec_trees, cls_refs):
    super().__init__()
    self.spec_trees = spec_trees
    self.specs, self.classes = build_specs_and_classes(spec_trees, cls_refs)
    self.spec_lines = [self.spec_line(t) for t in spec_trees]
    with own_classes(self.classes):
      self.decl_specs = [c04.build(t) for t in spec_trees]    # for the oracle only: never bound to a container of the case
    self.cls_refs = list(cls_refs)
    self.partial_used = False       # some step ran under an allow_partial(True) scope
    self.by_reference_roots = False # some root was constructed from symbolic values

  # -- literals and values
  def lit(self, lt):
    if lt[0] == 0:
      return self.leaf(lt[1])
    _, kind, flags, plain, items = lt
    sealed, aw, partial = map(bool, flags[:3])
    P = pg()
    if kind == 1:
      vals = [self.lit(v) for _, v in items]
      return vals if plain else P.List(vals, sealed=sealed, accessor_writable=aw, allow_partial=partial)
    kv = {D.dec_key(k): self.lit(v) for k, v in items}
    if kind == 0:
      return kv if plain else P.Dict(kv, sealed=sealed, accessor_writable=aw, allow_partial=partial)
    o = self.classes[kind - 2](sealed=sealed, allow_partial=partial, **kv)
    o.set_accessor_writable(aw)
    return o

  def typed_root(self, kind, ref, flags, pv):
    P = pg()
    sealed, aw, partial = map(bool, flags[:3])
    val = c04.build_value(pv)
    if kind == 0:
      return P.Dict(val, value_spec=self.specs[ref - 1] if ref else None, sealed=sealed, accessor_writable=aw, allow_partial=partial)
    if kind == 1:
      return P.List(val, value_spec=self.specs[ref - 1] if ref else None, sealed=sealed, accessor_writable=aw, allow_partial=partial)
    o = self.classes[kind - 2](sealed=sealed, allow_partial=partial, **val)
    o.set_accessor_writable(aw)
    return o

  def typed_root_from(self, kind, ref, flags, val):
    P = pg()
    sealed, aw, partial = map(bool, flags[:3])
    if kind == 0:
      return P.Dict(val, value_spec=self.specs[ref - 1] if ref else None, sealed=sealed, accessor_writable=aw, allow_partial=partial)
    if kind == 1:
      return P.List(val, value_spec=self.specs[ref - 1] if ref else None, sealed=sealed, accessor_writable=aw, allow_partial=partial)
    o = self.classes[kind - 2](sealed=sealed, allow_partial=partial, **val)
    o.set_accessor_writable(aw)
    return o

  def value(self, v):
    if v[0] == 3:
      return c04.build_value(v[1])
    if v[0] == 2:
      return pg().Insertion(self.value(v[1]))
    return super().value(v)

  # -- snapshots
  def spec_of(self, x):
    P = pg()
    if isinstance(x, (P.Dict, P.List)):
      return x.value_spec
    if isinstance(x, P.Object):
      return type(x).sym_fields
    return None

  @staticmethod
  def spec_line(tree):
    """Text of a spec tree with the dict values inside it (defaults, enum values) in key order: a class normalises its field
    defaults to symbolic dicts, which list their keys in schema order."""
    def nv(v):
      if v[0] in (6, 7): return [v[0], [nv(x) for x in v[1]]]
      if v[0] == 8: return [8, sorted([[k, nv(x)] for k, x in v[1]], key=lambda kv: kv[0])]
      return v
    def nm(m): return [m[0], [nv(x) for x in m[1]], m[2]]
    def ns(t):
      k = t[0]
      if k == 4: return [4, [nv(v) for v in t[1]], nm(t[2])]
      if k == 5: return [5, ns(t[1]), t[2], t[3], nm(t[4])]
      if k == 6: return [6, [ns(e) for e in t[1]], t[2], t[3], nm(t[4])]
      if k == 7: return [7, [[[kk, ns(fs)] for kk, fs in t[1][0]]] if t[1] else [], nm(t[2])]
      if k == 9: return [9, [ns(c) for c in t[1]], nm(t[2])]
      return t[:-1] + [nm(t[-1])]
    return trlib.to_line(ns(tree))

  def spec_ref(self, x):
    s = self.spec_of(x)
    if s is None:
      return 0
    if isinstance(x, pg().Object):
      for i, c in enumerate(self.classes):
        if type(x) is c:
          return self.cls_refs[i] if self.cls_refs[i] else -2 - i      # the built-in Any schema of class i
      return -1
    try:
      line = self.spec_line(c04.render(s))
    except Exception:       # pylint: disable=broad-except
      return -1
    for i, l in enumerate(self.spec_lines):
      if l == line:
        return i + 1
    return -1

  def kind_of(self, x):
    P = pg()
    if isinstance(x, P.Dict): return 0
    if isinstance(x, P.List): return 1
    for i, c in enumerate(self.classes):
      if type(x) is c: return 2 + i
    return -1

  def snap(self, x, expected_parent, canon=None, _seen=None):
    _seen = set() if _seen is None else _seen
    if id(x) in _seen:
      return [-7]
    _seen = _seen | {id(x)}
    items = []
    for k, v in D.sym_children(x):
      if D.is_sym(v):
        items.append([D.enc_key(k), [1, self.snap(v, x, canon, _seen)]])
      else:
        items.append([D.enc_key(k), [0, render_pv(v)]])
    return [self.kind_of(x), [D.enc_key(k) for k in x.sym_path.keys], int(x.sym_parent is expected_parent),
            [int(x.is_sealed), int(x.accessor_writable), int(x.allow_partial), self.spec_ref(x)], items]

  def snapshot(self):
    return [[] if r is None else [self.snap(r, None)] for r in self.roots]
  snapshot_solo = snapshot

  def enc_ret(self, v):
    # (key, value) only for popitem; any other tuple is a value
    if isinstance(v, tuple) and not getattr(self, 'popitem', False):
      return self.enc_ret_value(v)
    return super().enc_ret(v)

  def enc_ret_value(self, v):
    if isinstance(v, tuple):
      return [1, [8, render_pv(v)]]
    return super().enc_ret_value(v)

  def enc_leaf(self, v, canon):
    # used by apply_op for return values: SymCore leaf format where possible
    P = pg()
    if v is None: return [0]
    if isinstance(v, bool): return [1, int(v)]
    if isinstance(v, int): return [2, v]
    if isinstance(v, str): return [3] + [ord(c) for c in v]
    if P.MISSING_VALUE == v and not D.is_sym(v): return [4]
    return [8, render_pv(v)]

# ---- running a case on the implementation ------------------------------------------------------------
_orig_run_op = D.run_op
_orig_op_values = D.op_values
def _run_op(impl, t, op, new_results, val):
  if op[0] == LSETSLICE:
    a, b, c = [x[0] if x else None for x in op[2]]
    t[slice(a, b, c)] = [val(v) for v in op[3]]
    return None
  return _orig_run_op(impl, t, op, new_results, val)
def _op_values(op):
  if op[0] == LSETSLICE: return list(op[3])
  return _orig_op_values(op)

@contextlib.contextmanager
def patched(impl):
  """symcore_driver.apply_op with this case's classes and the additional slice operation."""
  saved = (D._CLASSES, D.run_op, D.op_values)
  D._CLASSES, D.run_op, D.op_values = impl.classes, _run_op, _op_values
  D.LIST_OPS.add(LSETSLICE)
  try:
    yield
  finally:
    D._CLASSES, D.run_op, D.op_values = saved
    D.LIST_OPS.discard(LSETSLICE)

def build_roots(impl, roots):
  """-> list of construction outcomes (0 | error code); a failed root leaves a dead slot."""
  inits = []
  for r in roots:
    try:
      with D.watchdog(D.WATCHDOG_S):
        if r[0] == 2:
          impl.by_reference_roots = True
          # (oracle only) a typed container constructed from values given by reference: pg.Dict({k: <root i>}, value_spec=...)
          items = [(D.dec_key(k), impl.value(v)) for k, v in r[4]]
          arg = [v for _, v in items] if r[1] == 1 else dict(items)
          x = impl.typed_root_from(r[1], r[2], r[3], arg)
        else:
          x = impl.lit(r[1]) if r[0] == 0 else impl.typed_root(r[1], r[2], r[3], r[4])
      if not D.is_sym(x):
        raise TypeError('not a symbolic root')
      impl.roots.append(x); inits.append(0)
      for i, y in enumerate(impl.roots[:-1]):      # a root that now sits inside the new one has left its slot
        if y is not None and y.sym_parent is not None:
          impl.moved[i] = y; impl.roots[i] = None
    except Exception as e:      # pylint: disable=broad-except
      impl.roots.append(None); inits.append(D.err_code(e))
  return inits

def scope_partial(scope):
  return D.eff(scope[3])

def run_case(case, after_step=None, after_init=None, guard=True):
  """guard: operations outside the vocabulary of the model (see op_supported) are answered 'not applicable' without being run."""
  _, spec_trees, cls_refs, roots, steps = case
  impl = TImpl(spec_trees, cls_refs)
  prime = len(case[0]) > 7 and bool(case[0][7])
  with patched(impl):
    inits = build_roots(impl, roots)
    if prime: prime_queries(impl)
    if after_init: after_init(impl, inits)
    snap0 = impl.snapshot()
    outs = []
    for n, (scope, op) in enumerate(steps):
      if scope_partial(scope) is True:
        impl.partial_used = True
      before = after_step.prepare(impl, scope, op) if after_step is not None and hasattr(after_step, 'prepare') else None
      if guard and not op_supported(impl, scope, op):
        res, info = [1, D.ERR_NA], dict(tag=op[0], pos=op[1], target=None, exception=None, new_roots=[], detached=[])
      else:
        impl.popitem = op[0] == D.DPOPITEM
        res, info = D.apply_op(impl, scope, op)
      if prime: prime_queries(impl)
      if after_step: after_step(impl, n, scope, op, res, info, before)
      outs.append([res, impl.snapshot()])
  return [inits, snap0, outs]

def prime_queries(impl):
  """The derived facts of every live node are asked for (entry 8 of the case's quirk list): sym_partial / is_partial, sym_missing,
  sym_nondefault cache their answers, and a stale cache would show in what later writes accept.  Pure queries: no effect on the model."""
  for root in list(impl.roots) + list(impl.moved.values()):
    if root is None: continue
    def visit(x, parent, key):
      for q in (lambda: x.sym_partial, lambda: x.is_partial, lambda: x.sym_missing(), lambda: x.sym_nondefault(), lambda: x.sym_missing(flatten=False)):
        try: q()
        except Exception:     # pylint: disable=broad-except
          pass
    D.walk(root, visit)

# ---- the direct oracle: the property text on the live objects ---------------------------------------------
def plain(v):
  """Deep plain copy of a stored value: symbolic dicts / lists become dict / list, leaves are kept."""
  P = pg()
  if isinstance(v, P.Dict): return {k: plain(x) for k, x in v.sym_items()}
  if isinstance(v, P.List): return [plain(x) for x in v.sym_values()]
  if isinstance(v, dict): return {k: plain(x) for k, x in v.items()}
  if isinstance(v, list): return [plain(x) for x in v]
  if isinstance(v, tuple): return tuple(plain(x) for x in v)
  if isinstance(v, P.utils.MissingValue): return P.MISSING_VALUE
  return v

def same_value(a, b):
  """Equal as Python values including the types of numbers (1 vs 1.0 vs True differ)."""
  P = pg()
  if isinstance(a, P.utils.MissingValue) or isinstance(b, P.utils.MissingValue):
    return isinstance(a, P.utils.MissingValue) and isinstance(b, P.utils.MissingValue)
  if isinstance(a, P.Object) or isinstance(b, P.Object):
    return a is b
  if type(a) is not type(b):
    return False
  if isinstance(a, dict):
    return list(a.keys()) == list(b.keys()) and all(same_value(a[k], b[k]) for k in a) if len(a) == len(b) and set(a) == set(b) else False
  if isinstance(a, (list, tuple)):
    return len(a) == len(b) and all(same_value(x, y) for x, y in zip(a, b))
  return a == b

def same_value_unordered(a, b):
  if isinstance(a, dict) and isinstance(b, dict):
    return set(a) == set(b) and all(same_value_unordered(a[k], b[k]) for k in a)
  if isinstance(a, (list, tuple)) and type(a) is type(b):
    return len(a) == len(b) and all(same_value_unordered(x, y) for x, y in zip(a, b))
  return same_value(a, b)

def spec_kind(s):
  return type(s).__name__

def field_kind(f):
  """Discriminator for a signature: the class of the field's value spec (+ frozen / union members)."""
  s = f.value
  k = spec_kind(s)
  if s.frozen: k += '.frozen'
  return k

def check_member(node, key, v, field, partial, where, hits):
  """One stored member against its field: accepted, maps to itself, frozen value."""
  P = pg()
  spec = field.value
  pv = plain(v)
  try:
    out = spec.apply(plain(v), allow_partial=partial)      # a second fresh plain copy (symbolic objects inside are shared)
  except (TypeError, ValueError, KeyError) as e:
    miss = isinstance(v, P.utils.MissingValue)
    clause = 'required-missing' if miss else 'member-rejected'
    kind_ = field_kind(field)
    if isinstance(spec, P.typing.Union) and not miss:
      # the value is what one candidate of the union hands out, but the union itself dispatches it to another candidate
      for c in spec.candidates:
        try:
          if same_value_unordered(plain(c.apply(plain(v), allow_partial=partial)), pv):
            kind_ = 'Union-dispatch'
        except Exception:     # pylint: disable=broad-except
          pass
    hits.append((clause, kind_, '%s: member %r = %s is rejected by its value spec %s (%s: %s)' % (
        where, key, P.format(v, compact=True)[:80], spec.format(compact=True)[:120], type(e).__name__, str(e)[:100])))
    return
  except Exception as e:      # pylint: disable=broad-except
    hits.append(('member-apply-raises', field_kind(field), '%s: re-applying the value spec of member %r raises %s' % (where, key, type(e).__name__)))
    return
  if not same_value_unordered(plain(out), pv):
    hits.append(('member-not-fixpoint', field_kind(field), '%s: member %r = %s does not map to itself under its value spec %s (-> %s)' % (
        where, key, P.format(v, compact=True)[:80], spec.format(compact=True)[:120], P.format(out, compact=True)[:80])))
  if spec.frozen and not same_value_unordered(plain(spec.default), pv):
    hits.append(('frozen-differs', field_kind(field), '%s: frozen member %r holds %s, frozen value is %s' % (
        where, key, P.format(v, compact=True)[:80], P.format(spec.default, compact=True)[:80])))

def check_node(impl, x, where, hits):
  """The schema clauses for one node that carries a schema."""
  P = pg(); T = P.typing
  spec = impl.spec_of(x)
  if spec is None:
    return
  partial = bool(x.allow_partial) or impl.partial_used
  ref = impl.spec_ref(x)
  if ref >= 1 and not isinstance(x, P.Object):
    spec = impl.decl_specs[ref - 1]        # the declared schema as a spec object of its own (the node's may have been written to)
  if ref == -1:
    hits.append(('schema-changed', '-', '%s: the value spec the node carries is none of the specs of the case any more (a write changed the schema itself): %s' % (
        where, spec.format(compact=True)[:160])))
  if isinstance(x, P.List):
    n = len(x)
    if n < spec.min_size:
      hits.append(('size-below-min', '-', '%s: %d elements, min_size is %d' % (where, n, spec.min_size)))
    if spec.max_size is not None and n > spec.max_size:
      hits.append(('size-above-max', '-', '%s: %d elements, max_size is %d' % (where, n, spec.max_size)))
    for i, v in x.sym_items():
      if isinstance(v, P.utils.MissingValue) and not partial:
        hits.append(('required-missing', 'list-placeholder', '%s: element %d is MISSING_VALUE (the placeholder of a removed element) in a list that does not accept partial values' % (where, i)))
        continue
      check_member(x, i, v, spec.element, partial, where, hits)
    return
  schema = spec.schema
  if schema is None:
    return
  items = list(x.sym_items())
  for k, v in items:
    f = schema.get_field(k)
    if f is None:
      hits.append(('undeclared-key', '-', '%s: key %r is not declared by the schema' % (where, k)))
      continue
    check_member(x, k, v, f, partial, where, hits)
  present = {k for k, _ in items}
  for ks, f in schema.fields.items():
    if ks.is_const and ks.text not in present:
      hits.append(('declared-key-absent', '-', '%s: declared key %r is absent' % (where, ks.text)))

def check_forest(impl):
  """-> [(clause, discriminator, detail)] over every node of every root (incl. nodes the user still holds after removal)."""
  hits = []
  for ri, root in enumerate(impl.roots):
    if root is None: continue
    def visit(x, parent, key, ri=ri):
      try:
        check_node(impl, x, 'root #%d at %r (%s)' % (ri, str(x.sym_path), type(x).__name__), hits)
      except Exception as e:      # pylint: disable=broad-except
        hits.append(('oracle-raises', type(e).__name__, 'checking root #%d at %r raised %r' % (ri, str(x.sym_path), e)))
    D.walk(root, visit)
  if not hits and not impl.partial_used and not getattr(impl, 'by_ref_used', False) and not impl.by_reference_roots:
    # (no allow_partial scope, nothing handed over by reference: every typed dict / list was created by its container)
    P = pg()
    for ri, root in enumerate(impl.roots):
      if root is None or hits: continue
      def visit(x, parent, key, ri=ri):
        if hits or parent is None or isinstance(x, P.Object) or impl.spec_of(x) is None: return
        try:
          ps = impl.spec_of(parent)
          f = ps.element.value if isinstance(parent, P.List) else ps.schema.get_field(key).value
          if f.frozen: return         # (a container held by a frozen field: open finding of its own)
        except Exception:     # pylint: disable=broad-except
          return
        if bool(x.allow_partial) and not bool(parent.allow_partial):
          hits.append(('partial-flag-differs', type(x).__name__, 'root #%d at %r (%s) accepts partial values, its container does not: a required member can be removed from it' % (
              ri, str(x.sym_path), type(x).__name__)))
      D.walk(root, visit)
  if not hits:
    for x, tags in foreign_specs(impl):
      if any(t not in LEGACY_TAGS for t in tags):
        hits.append(('looser-spec-accepted', tags[0], 'the %s at %r carries a value spec that is not within the spec of its field (%s): writes into it are only checked against its own spec' % (
            type(x).__name__, str(x.sym_path), ', '.join(tags))))
        break
  return hits

NONFIX_SIGNATURE = 'C03/member-not-fixpoint/apply/Union-result-dispatches-to-another-candidate'
FOREIGN_SIGNATURE = 'C03/symbolic-value/child-keeps-its-own-spec/later-write'
PLACEHOLDER_SIGNATURE = 'C03/required-missing/non-partial-list/placeholder-kept'

# ---- when may a value that carries its own spec stand in a field: the rule, written independently of the library ----------------------
# (the intended is_compatible: Typing.compat of coq/Model/Typing.v without quirk flags, on spec trees)
def _fixed(t): return bool(t[3]) and t[3][0] == t[2]
def _enum_typed(vals):
  """'int' / 'bool' when every non-None candidate has that exact type (the Enum then type-checks its values), else None."""
  ts = {v[0] for v in vals if v != [0]}
  return {frozenset([3]): 'int', frozenset([2]): 'bool'}.get(frozenset(ts))
def rel_tags(r, s, skip=frozenset()):
  return [x for x in _rel_tags(r, s, skip) if x not in skip]
def _rel_tags(r, s, skip):
  """Why a value acceptable to the sender spec tree s may be refused by the receiving spec tree r; [] = every value of s is one of r.
  skip: relations to disregard (those an active quirk of is_compatible lets through)."""
  rn, rd, rf = r[-1]; sn, sd, sf = s[-1]
  tags = []
  if rf and not (sf and rd == sd): tags.append('receiver-frozen')
  k = r[0]
  if k == 10: return tags
  if k == 9:
    if sn and not rn: tags.append('noneable')
    if s[0] == 9:
      for oc in s[1]:
        t = rel_tags(r, oc, skip)
        if t: tags.append(t[0]); break
    else:
      per = [rel_tags(c, s, skip) for c in r[1]]
      if not any(t == [] for t in per):
        known = [t for t in per if t and all(x in LEGACY_TAGS for x in t)]
        best = known[0] if known else (min(per, key=len) if per else ['union-empty'])
        tags.append(best[0])
    return tags
  if k == 4:
    typed = _enum_typed(r[1])
    def isin(v): return any(c04.build_value(v) == c04.build_value(w) and (typed is None or v == [0] or v[0] == w[0]) for w in r[1])
    if sf and sd and isin(sd[0]): return tags
    if s[0] != 4: return tags + ['kind:%s-into-%s' % (c04.KIND[s[0]], c04.KIND[k])]
    if sn and not rn: tags.append('noneable')
    if not all(isin(v) for v in s[1]): tags.append('enum-values')
    return tags
  if sn and not rn: tags.append('noneable')
  if s[0] != k: return tags + ['kind:%s-into-%s' % (c04.KIND[s[0]], c04.KIND[k])]
  if k in (1, 2):
    if r[1]:
      if not s[1]: tags.append('number-min-unbounded')
      elif s[1][0] < r[1][0]: tags.append('number-min-lower')
    if r[2]:
      if not s[2]: tags.append('number-max-unbounded')
      elif s[2][0] > r[2][0]: tags.append('number-max-larger')
  elif k == 5:
    if r[2] > s[2]: tags.append('list-min-size')
    if r[3]:
      if not s[3]: tags.append('list-max-size-unbounded')
      elif s[3][0] > r[3][0]: tags.append('list-max-size-larger')
    tags += rel_tags(r[1], s[1], skip)
  elif k == 6:
    if _fixed(r):
      if not _fixed(s) or len(r[1]) != len(s[1]): tags.append('tuple-size')
      else:
        for x, y in zip(r[1], s[1]): tags += rel_tags(x, y, skip)
    elif _fixed(s):
      n = len(s[1])
      if r[2] > n or (r[3] and r[3][0] < n): tags.append('tuple-size')
      for y in s[1]: tags += rel_tags(r[1][0], y, skip) if r[1] else ['tuple-size']
    else:
      if r[2] > s[2]: tags.append('tuple-min-size')
      if r[3] and (not s[3] or s[3][0] > r[3][0]): tags.append('tuple-max-size')
      if r[1] and s[1]: tags += rel_tags(r[1][0], s[1][0], skip)
  elif k == 7:
    if r[1]:
      if not s[1]: tags.append('dict-sender-without-schema')
      else:
        rfs = {trlib.to_line(kk): f for kk, f in r[1][0]}; sfs = {trlib.to_line(kk): f for kk, f in s[1][0]}
        if any(kk not in rfs for kk in sfs): tags.append('key-undeclared')
        for kk, f in rfs.items():
          if kk not in sfs: tags.append('key-missing')
          else: tags += rel_tags(f, sfs[kk], skip)
  elif k == 8:
    if list(s[1][:len(r[1])]) != list(r[1]): tags.append('class')
  return tags
# relations that an OPEN finding already covers under its own signature (C04: is_compatible ignores that the receiver is frozen)
LEGACY_TAGS = {'receiver-frozen'}

def foreign_specs(impl):
  """-> [(child, tags)]: symbolic children that carry a value spec of their own which is not within the spec of their field (a typed
  value that a field accepts keeps its spec, and later writes into it are checked against that spec only)."""
  P = pg(); out = []
  for root in impl.roots:
    if root is None: continue
    def visit(x, parent, key):
      if parent is None or isinstance(x, P.Object): return
      try:
        ps, cs = impl.spec_of(parent), impl.spec_of(x)
        if ps is None or cs is None: return
        if isinstance(parent, P.List): f = ps.element.value
        else:
          fd = ps.schema.get_field(key) if ps.schema is not None else None
          f = fd.value if fd is not None else None
        if f is None or f is cs: return
        if isinstance(f, (P.typing.List, P.typing.Dict)) and f == cs: return
        tags = rel_tags(c04.render(f), c04.render(cs))
        if tags: out.append((x, tags))
      except Exception:     # pylint: disable=broad-except
        pass
    D.walk(root, visit)
  return out

def cause_signature(impl, clause, by_reference, accepted):
  """The signature of a hit that goes back to a typed value standing in a field whose spec it is not within, or None.
  A relation that an open finding covers keeps that finding's signature; any other relation has a signature of its own."""
  fs = foreign_specs(impl)
  if not fs:
    return None
  new = [t for _, tags in fs for t in tags if t not in LEGACY_TAGS]
  if new:
    return 'C03/symbolic-value/looser-spec-accepted/%s' % new[0].split(':')[0]
  if by_reference:
    return 'C03/symbolic-value/other-clause/accepted'      # (the value was accepted, whatever became of the rest of a batch)
  return FOREIGN_SIGNATURE
BATCH_OPS = {D.LEXTEND, D.LIADD, D.LIMUL, D.DUPDATE, D.DIOR, D.REBIND, LSETSLICE}

def content_of(snap):
  """A snapshot without the tree annotations (stored path, parent link): kinds, flags, bound specs, keys and values."""
  if not snap: return snap
  def node(s):
    if s == [-7]: return s
    kind, _path, _par, flags, items = s
    return [kind, flags, [[k, it if it[0] == 0 else [1, node(it[1])]] for k, it in items]]
  return [[] if not r else [node(r[0])] for r in snap]

def diff_kind(before, after):
  if len(before) != len(after): return 'roots-changed'
  if content_of(before) != content_of(after):
    def strip_flags(c):
      def node(s):
        if s == [-7]: return s
        return [s[0], [[k, it if it[0] == 0 else [1, node(it[1])]] for k, it in s[2]]]
      return [[] if not r else [node(r[0])] for r in c]
    if strip_flags(content_of(before)) == strip_flags(content_of(after)): return 'flags-or-spec'
    return 'content'
  return 'parent-link-or-path'

class Oracle:
  """after_step hook: schema clauses on every node after every step; a rejected write must leave the forest as it was."""
  def __init__(self):
    self.hits = []            # (signature, what, step)
    self.failed = False
    self.stats = {}
    self.by_reference = False
    self.obj_writes = []
  def prepare(self, impl, scope, op):
    # does the operation hand a symbolic value to a container that checks its members (outside the model, see op_supported)
    self.by_reference = False
    self.obj_writes = []
    impl.partial_now = scope_partial(scope) is True
    try:
      if any(v[0] != 3 for v in _op_values(op)) or op[0] in (D.CLONE, D.LCOPY, D.DCOPY, D.LADD, D.LMUL): impl.by_ref_used = True
    except Exception:     # pylint: disable=broad-except
      impl.by_ref_used = True
    try:
      P = pg()
      for x, key, v in written_keyed(impl, op):
        if x is None or not typed_members(impl, x) or v[0] != 1: continue
        y = impl.at((v[1], v[2]))
        if isinstance(y, P.Object) and not (scope_partial(scope) is True or (scope_partial(scope) is None and x.allow_partial and op[0] != D.LADD)):
          t = field_tree(impl, x, key)
          if t is not None and t[0] == 8: self.obj_writes.append((x, y))
    except Exception:     # pylint: disable=broad-except
      pass
    try:
      for x, v in written(impl, op):
        while v[0] == 2: v = v[1]
        if x is not None and typed_members(impl, x):
          if (v[0] == 0 and v[1][0] == 1) or (v[0] == 1 and D.is_sym(impl.at((v[1], v[2])))):
            self.by_reference = True
      if op[0] in (D.LIMUL, D.LMUL, D.LADD, D.LCOPY, D.CLONE, D.DCOPY, D.LEXTEND, D.LIADD):
        t = impl.at(op[1])
        if D.is_sym(t) and typed_members(impl, t) and any(D.is_sym(v) for _, v in D.sym_children(t)) and op[0] in (D.LIMUL, D.LMUL, D.LADD, D.LCOPY):
          self.by_reference = True
    except Exception:     # pylint: disable=broad-except
      pass
    return impl.snapshot()
  def after_init(self, impl, inits):
    for clause, disc, detail in check_forest(impl):
      sig = cause_signature(impl, clause, True, True) if (impl.by_reference_roots or clause == 'looser-spec-accepted') else None
      self.hits.append((sig or 'C03/%s/construction/%s' % (clause, disc), '%s: after construction, %s' % (clause, detail), -1))
      self.failed = True
      break
  def __call__(self, impl, n, scope, op, res, info, before):
    if self.failed:
      return
    name = OP_NAMES.get(op[0], str(op[0]))
    st = self.stats
    st['steps'] = st.get('steps', 0) + 1
    hits = check_forest(impl)
    exc = info.get('exception')
    if isinstance(exc, D.Hang):
      hits.insert(0, ('does-not-return', '-', 'the operation does not return: %s' % exc))
    if res[0] == 1 and res[1] in SCHEMA_ERRORS:
      st['schema_errors'] = st.get('schema_errors', 0) + 1
      after = impl.snapshot()
      if op[0] not in BATCH_OPS:
        if after != before:
          hits.append(('rejected-not-stored', diff_kind(before, after),
                       'the call raised %s but the forest changed (%s)' % (type(exc).__name__, diff_kind(before, after))))
      else:
        r = op[1][0]
        # (a root moved into the target by an earlier element of the batch has left its slot)
        if any(a and b and a != b for i, (b, a) in enumerate(zip(before, after)) if i != r):      # (moved in / come back: not a change of content)
          hits.append(('rejected-not-stored', 'other-roots', 'a rejected batch changed a root it does not address'))
    elif res[0] == 1 and res[1] not in (D.ERR_NA, D.ERR_WRITE, D.ERR_INDEX, D.ERR_KEY, D.ERR_VALUE, D.ERR_TYPE, D.ERR_ASSERT):
      st['other_errors'] = st.get('other_errors', 0) + 1
      hits.append(('unexpected-exception', type(exc).__name__, 'the call raised %s: %s' % (type(exc).__name__, str(exc)[:120])))
    elif res[0] == 1 and res[1] in (D.ERR_WRITE, D.ERR_INDEX) and op[0] not in BATCH_OPS:
      after = impl.snapshot()
      if after != before:
        hits.append(('rejected-not-stored', 'refused-' + diff_kind(before, after), 'the call raised %s but the forest changed' % type(exc).__name__))
    if not hits and res[0] == 0 and self.obj_writes:
      # an object handed to an Object-typed field while partial values are not allowed must be fully bound -- found by walking
      # its content, not by asking sym_partial / is_partial (whose caches may be stale)
      for x, y in self.obj_writes:
        try:
          inside = any(n is y for n, _, _ in impl.reachable().values()) and y.sym_parent is not None
          if inside and not impl.partial_now and py_partial(impl, y):
            hits.append(('partial-object-accepted', 'Object', 'the %s stored at %r is not fully bound (a required field below it is MISSING_VALUE) '
                         'but was accepted by an Object field of a container that does not allow partial values' % (type(y).__name__, str(y.sym_path))))
            break
        except Exception:     # pylint: disable=broad-except
          pass
    if hits:
      self.failed = True
      clause, disc, detail = hits[0]
      what = '%s: after %s%s, %s' % (clause, name, '' if res[0] == 0 else ' raised ' + type(exc).__name__, detail)
      self.hits.append((self.signature(impl, scope, op, res, clause, disc, name), what, n))

  def signature(self, impl, scope, op, res, clause, disc, name):
    """(property, clause, operation kind, discriminator).  Two families are keyed by their cause rather than by the symptom, because
    one defect shows up under many clauses and operations: a symbolic value (a reference to a pg.Dict / pg.List / pg.Object, or a
    constructed one) written into a spec-checked container, and a write below the container held by a frozen field."""
    if clause == 'required-missing' and disc == 'list-placeholder':
      # a partial list that holds the placeholder of a removed element has become a list that is not partial: by copy() / +,
      # or handed by reference to a field that overrides its allow_partial flag (sym_missing does not count placeholders)
      return PLACEHOLDER_SIGNATURE
    if clause == 'partial-object-accepted':
      return 'C03/partial-object-accepted/%s/%s' % (name, disc)
    if self.by_reference or clause in ('member-rejected', 'member-not-fixpoint', 'required-missing', 'frozen-differs', 'looser-spec-accepted'):
      sig = cause_signature(impl, clause, self.by_reference, res[0] == 0)
      if sig: return sig
    if self.by_reference:
      return 'C03/symbolic-value/%s/%s' % ('required-missing' if clause == 'required-missing' else 'other-clause', 'rejected' if res[0] == 1 else 'accepted')
    if disc == 'Union-dispatch':
      return NONFIX_SIGNATURE
    if disc.endswith('.frozen') and clause in ('member-rejected', 'frozen-differs', 'member-not-fixpoint'):
      return 'C03/frozen-differs/deep-write/container-held-by-frozen-field'
    return 'C03/%s/%s/%s' % (clause, name, disc)

# ---- generators ----------------------------------------------------------------------------------------
def ek(k): return D.enc_key(k)
def S(x): return [ord(c) for c in x]

def walk_spec(t, fn, in_tuple=False):
  """fn(subtree, in_tuple) over a spec tree and the specs below it."""
  fn(t, in_tuple)
  k = t[0]
  if k == 5: walk_spec(t[1], fn, in_tuple)
  elif k == 6:
    for e in t[1]: walk_spec(e, fn, True)
  elif k == 7 and t[1]:
    for _, fs in t[1][0]: walk_spec(fs, fn, in_tuple)
  elif k == 9:
    for c in t[1]: walk_spec(c, fn, in_tuple)

def noneable_container_under_default(t, above=False):
  """A noneable Dict / List spec at or below a spec whose default holds a dict / list: symbolic_transform_fn refuses the plain
  container of the default (ensure_value_spec(noneable spec, Dict()) is 'not compatible') -- a TypeError outside the model."""
  n, d, fz = t[-1]
  here = above or bool(d and has_container(d[0]))
  if t[0] in (5, 7) and n and here: return True
  k = t[0]
  kids = [t[1]] if k == 5 else list(t[1]) if k in (6, 9) else [fs for _, fs in t[1][0]] if (k == 7 and t[1]) else []
  return any(noneable_container_under_default(c, here) for c in kids)

def supported(t):
  """Inside the modelled vocabulary: no Dict / List spec inside a Tuple spec (a symbolic container inside a tuple is not a tree node)."""
  bad = []
  def fn(s, in_tuple):
    if in_tuple and s[0] in (5, 7): bad.append(s)
    # symbolic_transform_fn refuses a plain dict / list default of a noneable Dict / List field (ensure_value_spec(field, Dict()))
    n, d, fz = s[-1]
    if s[0] in (5, 7) and n and d and d[0][0] in (6, 8): bad.append(s)
    # a spec frozen to a value with MISSING_VALUE inside (Dict(...).freeze() of a schema with required fields)
    if fz and d and has_missing(d[0]): bad.append(s)
    # open finding C03/frozen-differs: the container held by a frozen field can be written to in depth (and, for a class, is the
    # default object of the spec itself): frozen specs keep to atomic values in the correspondence
    if fz and d and has_container(d[0]): bad.append(s)
    # a Dict default holding MISSING_VALUE under a key of the StrKey() field: kept when the default is applied as a plain dict, deleted when a
    # symbolic dict is applied in place -- outside the model
    if s[0] == 7 and s[1] and d and d[0][0] == 8:
      consts = {tuple(kk[1]) for kk, _ in s[1][0] if kk[0] == 0}
      if any(tuple(k) not in consts and x == [1] for k, x in d[0][1]): bad.append(s)
    # a Union with a dict / list default: symbolic_transform_fn looks the candidate up with Union.get_candidate(Dict()), which can fail
    if s[0] == 9 and d and has_container(d[0]): bad.append(s)
  walk_spec(t, fn)
  return not bad and not noneable_container_under_default(t)

def has_missing(pv):
  if pv[0] == 1: return True
  if pv[0] in (6, 7): return any(has_missing(x) for x in pv[1])
  if pv[0] == 8: return any(has_missing(x) for _, x in pv[1])
  return False

def container_specs(t):
  out = []
  def fn(s, in_tuple):
    if s[0] in (5, 7) and not in_tuple: out.append(s)
  walk_spec(t, fn)
  return out

ANY_NONE = [10, [1, [[0]], 0]]
def default_class_schema(i):
  return c04.canon([7, [[[[0, S(n)], ANY_NONE] for n in D.CLASS_FIELDS[i]]], [0, [], 0]])

class TGen:
  def __init__(self, rng, quirks=(), p_invalid=0.2, focus=None):
    self.r = rng
    self.sg = c04.SpecGen(rng)
    self.quirks = list(quirks)
    self.p_invalid = p_invalid
    self.focus = focus

  # -- specs
  def field_spec(self, depth):
    for _ in range(30):
      t = self.sg.spec(depth)
      if supported(t): return t
    return [1, [], [], [0, [], 0]]

  def dict_spec(self, depth, keys=None, dyn=None):
    r = self.r
    for _ in range(30):
      ks = keys if keys is not None else r.sample(['a', 'b', 'c', 'x'], r.choice([1, 2, 2, 3]))
      fs = [[[0, S(k)], self.field_spec(depth - 1)] for k in ks]
      if (dyn if dyn is not None else (keys is None and r.random() < 0.35)):
        fs.insert(r.randint(0, len(fs)), [[1], self.field_spec(depth - 1)])
      t = c04.canon([7, [fs], [0, [], 0]])
      if t is not None: return t
    return c04.canon([7, [[[[0, S(k)], [1, [], [], [0, [], 0]]] for k in (keys or ['a'])]], [0, [], 0]])

  def list_spec(self, depth):
    r = self.r
    for _ in range(30):
      mn = r.choice([0, 0, 1, 2]); mx = r.choice([None, 1, 2, 3, 4])
      if mx is not None and mx < mn: mx = mn
      t = c04.canon([5, self.field_spec(depth - 1), mn, c04._opt(mx), [0, [], 0]])
      if t is not None: return t
    return c04.canon([5, [1, [], [], [0, [], 0]], 0, [], [0, [], 0]])

  # -- values
  def candidates(self, tree, spec, partial):
    """-> (valid, invalid) candidate values of a field, classified by the real library."""
    cands = c04.values_for(tree, self.r, limit=24)
    good, bad = [], []
    for v in cands:
      (good if c04.accepts(spec, v, partial) else bad).append(v)
    return good, bad

  def value_for(self, tree, spec, partial=False, p_invalid=None):
    r = self.r
    good, bad = self.candidates(tree, spec, partial)
    p = self.p_invalid if p_invalid is None else p_invalid
    if bad and (r.random() < p or not good):
      return r.choice(bad), False
    if good:
      return r.choice(good), True
    return [0], False

  def any_value(self, depth=1):
    r = self.r
    k = r.random()
    if k < 0.55 or depth <= 0:
      return r.choice([[0], c04.V(True), c04.V(0), c04.V(1), c04.V(2), c04.V(5), c04.V(-1), c04.V(1.5), c04.V(2.0), c04.V('a'), c04.V('b'), c04.V(''), c04.V((1, 'a')), c04.V(c04.A(1))])
    if k < 0.8:
      return [8, [[S(kk), self.any_value(depth - 1)] for kk in r.sample(['a', 'b', 'c', 'x', 'q'], r.choice([0, 1, 2]))]]
    return [6, [self.any_value(depth - 1) for _ in range(r.choice([0, 1, 2, 3]))]]

  # -- a whole case
  def flags(self, p=0.1):
    r = self.r
    return [int(r.random() < p * 0.5), int(r.random() > p), int(r.random() < 0.2)]

  def scope(self):
    r = self.r
    if r.random() < 0.7: return [[], [], [], []]
    def stack(p):
      if r.random() > p: return []
      return [r.choice([[], [0], [1]]) for _ in range(r.choice([1, 1, 2]))]
    notify = [r.randrange(2) for _ in range(r.choice([1, 1, 2]))] if r.random() < 0.4 else []
    return [stack(0.2), stack(0.3), notify, stack(0.45)]

  def plan(self):
    """-> (spec table, class refs, [(kind, ref, tree)]) for 1-3 typed roots."""
    r = self.r
    depth = r.choice([1, 2, 2, 3])
    cls_trees = [default_class_schema(i) if r.random() < 0.6 else self.dict_spec(depth, keys=D.CLASS_FIELDS[i], dyn=False) for i in range(3)]
    tops = []
    for _ in range(r.choice([1, 2, 2, 3])):
      k = r.choice([0, 0, 0, 1, 1, 1, 2, 3, 4])
      tops.append((k, self.dict_spec(depth) if k == 0 else self.list_spec(depth) if k == 1 else cls_trees[k - 2]))
    table, lines = [], {}
    def add(t):
      l = trlib.to_line(t)
      if l not in lines:
        lines[l] = len(table) + 1; table.append(t)
      return lines[l]
    refs = [add(t) for t in cls_trees]
    for t in cls_trees:
      for s in container_specs(t): add(s)
    plan = []
    for k, t in tops:
      ref = add(t)
      for s in container_specs(t): add(s)
      plan.append((k, ref, t))
    return table, refs, plan

  def case(self, nops, wild=False):
    r = self.r
    for _ in range(20):
      table, refs, plan = self.plan()
      try:
        TImpl(table, refs)      # the classes must be definable
        break
      except Exception:     # pylint: disable=broad-except
        continue
    specs = [c04.build(t) for t in table]
    roots = []
    for k, ref, t in plan:
      fl = self.flags()
      v, _ = self.value_for(t, specs[ref - 1], bool(fl[2]), p_invalid=0.12)
      if v[0] != (6 if k == 1 else 8):
        v = [6, []] if k == 1 else [8, []]
      roots.append([1, k, ref, fl, v])
    if r.random() < 0.35:
      g = _lit_gen(r)
      roots.append([0, g.node_lit(r.choice([0, 1, 2]), kind=r.choice([0, 1]))])
    case = [list(self.quirks), table, refs, roots, []]
    impl = TImpl(table, refs)
    with patched(impl):
      build_roots(impl, roots)
      for _ in range(nops):
        if sum(1 for x in impl.roots if x is not None) > 12: break
        op = self.op(impl, wild)
        if op is None: break
        sc = self.scope()
        if not wild and not op_supported(impl, sc, op):
          sc = [sc[0], sc[1], sc[2], []]
          if not op_supported(impl, sc, op): continue
        case[4].append([sc, op])
        try:
          D.apply_op(impl, sc, op)
        except Exception:     # pylint: disable=broad-except
          break
    return case

  # -- one operation on a live forest
  def field_of(self, impl, x, key):
    P = pg()
    spec = impl.spec_of(x)
    if spec is None: return None
    if isinstance(x, P.List): return spec.element
    if spec.schema is None: return None
    return spec.schema.get_field(key)

  def val(self, impl, x, key, wild, nodes, allow_ins=False):
    """A value for x[key]: from the field's value spec when there is one (mostly valid), otherwise anything."""
    r = self.r
    if allow_ins and r.random() < 0.12:
      return [2, self.val(impl, x, key, wild, nodes)]
    f = self.field_of(impl, x, key)
    typed = impl.spec_of(x) is not None
    if r.random() < (0.2 if typed else 0.35) and nodes:      # by reference (into a typed container: kept when the model covers it, see ref_modelled)
      y, ri, keys = r.choice(nodes)
      return [1, ri, [ek(k) for k in keys]]
    if (wild or not typed) and r.random() < 0.1:
      return [0, _lit_gen(r).node_lit(r.choice([0, 1]), plain=r.random() < 0.5, kind=r.choice([0, 1]))]
    if f is not None and r.random() < 0.93:
      try:
        v, _ = self.value_for(c04.render(f.value), f.value, bool(x.allow_partial))
        return [3, v]
      except Exception:     # pylint: disable=broad-except
        pass
    return [3, self.any_value(2)]

  def dkey(self, impl, x):
    """A key of a dict / object node: existing, declared, matching the dynamic field, or undeclared."""
    r = self.r
    spec = impl.spec_of(x)
    present = [k for k, _ in D.sym_children(x)]
    declared = []
    if spec is not None and getattr(spec, 'schema', None) is not None:
      declared = [ks.text for ks in spec.schema.fields.keys() if ks.is_const]
    k = r.random()
    if present and k < 0.45: return r.choice(present)
    if declared and k < 0.75: return r.choice(declared)
    if k < 0.95: return r.choice(['q', 'r', 'zz', 'a', 'b', 'c', 'x', 'y'])
    return r.choice([0, 3])

  def index(self, n):
    r = self.r
    k = r.random()
    if n > 0 and k < 0.6: return r.randrange(n)
    if n > 0 and k < 0.8: return -r.randrange(1, n + 1)
    if k < 0.9: return n
    return r.choice([n + 1, n + 3, -n - 1, -n - 2])

  LIST_TAGS = [D.LSET] * 3 + [D.LDEL] * 2 + [D.LAPPEND] * 3 + [D.LINSERT] * 2 + [D.LEXTEND] * 2 + [D.LPOP] * 2 + [D.LREMOVE, D.LCLEAR, D.LREVERSE, D.LSORT,
               D.LIADD, D.LIMUL, D.LADD, D.LMUL, D.LCOPY]
  DICT_TAGS = [D.DSET] * 5 + [D.DDEL] * 2 + [D.DPOP] * 2 + [D.DPOPITEM, D.DCLEAR] + [D.DSETDEFAULT] * 2 + [D.DUPDATE] * 3 + [D.DIOR, D.DCOPY]
  ANY_TAGS = [D.REBIND] * 4 + [D.CLONE, D.SEAL, D.SETAW]

  def op(self, impl, wild=False):
    r = self.r
    P = pg()
    nodes = list(impl.reachable().values())
    if not nodes: return None
    typed = [t for t in nodes if impl.spec_of(t[0]) is not None]
    for _ in range(30):
      x, ri, keys = r.choice(typed if typed and r.random() < 0.8 else nodes)
      pos = [ri, [ek(k) for k in keys]]
      kind = impl.kind_of(x)
      own = self.LIST_TAGS + ([LSETSLICE] * 2 if wild else []) if kind == 1 else self.DICT_TAGS if kind == 0 else [D.OSET] * 6
      tag = r.choice(own) if r.random() < 0.8 else r.choice(self.ANY_TAGS)
      if self.focus and r.random() < 0.6:
        cand = [t for t in own + self.ANY_TAGS if t in self.focus]
        if cand: tag = r.choice(cand)
      n = len(x) if isinstance(x, list) else 0
      V = lambda key, **kw: self.val(impl, x, key, wild, nodes, **kw)
      if tag == D.LSET: i = self.index(n); return [tag, pos, i, V(i)]
      if tag == D.LDEL: return [tag, pos, self.index(n)]
      if tag == D.LAPPEND: return [tag, pos, V(n)]
      if tag == D.LINSERT: i = self.index(n); return [tag, pos, i, V(i)]
      if tag in (D.LEXTEND, D.LIADD, D.LADD): return [tag, pos, [V(n) for _ in range(r.choice([0, 1, 2, 2, 3]))]]
      if tag == LSETSLICE:
        o = lambda: r.choice([[], [], [r.randrange(-n - 1, n + 2)]])
        return [tag, pos, [o(), o(), r.choice([[], [], [1], [2], [-1]])], [V(n) for _ in range(r.choice([0, 1, 2, 3]))]]
      if tag == D.LPOP: return [tag, pos, [] if r.random() < 0.4 else [self.index(n)]]
      if tag == D.LREMOVE:
        leaves = [v for _, v in D.sym_children(x) if v is None or isinstance(v, (bool, int, str))]
        if leaves and r.random() < 0.8: return [tag, pos, D.Impl.enc_leaf(impl, r.choice(leaves), None)]
        return [tag, pos, [2, r.randrange(4)]]
      if tag in (D.LCLEAR, D.LREVERSE, D.LCOPY, D.DPOPITEM, D.DCLEAR, D.DCOPY): return [tag, pos]
      if tag == D.LSORT: return [tag, pos, [r.randrange(4) for _ in range(n)], r.randrange(2)]
      if tag in (D.LIMUL, D.LMUL): return [tag, pos, r.choice([0, 1, 2, 2, 3, -1])]
      if tag == D.DSET: k = self.dkey(impl, x); return [tag, pos, r.randrange(2), ek(k), V(k)]
      if tag == D.DDEL: return [tag, pos, r.randrange(2), ek(self.dkey(impl, x))]
      if tag == D.DPOP: return [tag, pos, ek(self.dkey(impl, x)), [] if r.random() < 0.5 else [[2, 7]]]
      if tag == D.DSETDEFAULT: k = self.dkey(impl, x); return [tag, pos, ek(k), V(k)]
      if tag in (D.DUPDATE, D.DIOR):
        kvs, seen = [], set()
        for _ in range(r.choice([0, 1, 2, 2, 3])):
          k = self.dkey(impl, x)
          if k in seen: continue
          seen.add(k); kvs.append([ek(k), V(k)])
        return [tag, pos, kvs]
      if tag == D.OSET:
        fields = D.CLASS_FIELDS.get(kind - 2, ['x'])
        k = r.choice(fields) if r.random() < 0.92 else r.choice(['w', 'q'])
        return [tag, pos, ek(k), V(k)]
      if tag == D.REBIND: return [tag, pos, self.rebind_pairs(impl, x, wild, nodes)]
      if tag == D.CLONE: return [tag, pos, r.randrange(4)]
      if tag in (D.SEAL, D.SETAW): return [tag, pos, r.randrange(2)]
    return None

  def rebind_pairs(self, impl, x, wild, nodes):
    r = self.r
    slots = []
    def collect(node, path, depth):
      kids = D.sym_children(node)
      is_list = isinstance(node, list)
      for k, v in kids:
        slots.append((path + [k], node, k, is_list))
        if D.is_sym(v) and depth < 3: collect(v, path + [k], depth + 1)
      if is_list:
        slots.append((path + [len(kids)], node, len(kids), True)); slots.append((path + [len(kids) + 2], node, len(kids) + 2, True))
        if kids: slots.append((path + [-1], node, -1, True))
      else:
        k = self.dkey(impl, node)
        slots.append((path + [k], node, k, False))
    collect(x, [], 0)
    r.shuffle(slots)
    chosen = []
    want = r.choice([0, 1, 1, 2, 2, 3]) if r.random() < 0.97 else 0
    for s in slots:
      if len(chosen) >= want: break
      p = s[0]
      if any(p[:len(q[0])] == q[0] or q[0][:len(p)] == p for q in chosen): continue
      chosen.append(s)
    out = []
    for p, node, k, is_list in chosen:
      v = self.val(impl, node, k, wild, nodes, allow_ins=is_list)
      if is_list and r.random() < 0.15 and v[0] != 2: v = [2, v]
      out.append([[ek(kk) for kk in p], v])
    return out

def _lit_gen(rng):
  from harness.props import symcore_gen as G
  g = G.Gen(rng)
  # opaque objects are not part of the typed vocabulary
  def leaf(missing=0.0, _r=rng):
    k = _r.randrange(8)
    if k == 0: return [0]
    if k == 1: return [1, _r.randrange(2)]
    if k <= 4: return [2, _r.choice([0, 1, 2, 3, 5, -1])]
    return [3] + [ord(c) for c in _r.choice(G.LEAF_STRS)]
  g.leaf = leaf
  _node_lit = g.node_lit
  def node_lit(depth, plain=False, kind=None):
    # no objects inside untyped literals: their construction goes through the class schema
    if kind is None: kind = rng.choice([0, 1])
    lt = _node_lit(depth, plain=plain, kind=kind)
    def fix(l):
      if l[0] == 0: return l
      if l[1] >= 2: return [1, 0, l[2], l[3], []]
      return [1, l[1], l[2], l[3], [[k, fix(v)] for k, v in l[4]]]
    return fix(lt)
  g.node_lit = node_lit
  return g

# ---- the scope guard shared with the model: what the typed write path of the model covers ------------------
def has_container(pv):
  if pv[0] in (6, 8): return True
  if pv[0] == 7: return any(has_container(x) for x in pv[1])
  return False

def typed_members(impl, x):
  """x checks what is written into it against a field."""
  P = pg()
  s = impl.spec_of(x)
  if s is None: return False
  if isinstance(x, P.List): return True
  return s.schema is not None

def written_keyed(impl, op):
  """-> [(container node or None, key or None, value tree)] for every value the op writes (key: of a dict / object write)."""
  tag = op[0]
  try:
    t = impl.at(op[1])
  except D.NotApplicable:
    return []
  if tag in (D.REBIND,):
    out = []
    for p, v in op[2]:
      x = t
      ks = [D.dec_key(k) for k in p]
      for kk in ks[:-1]:
        try:
          if isinstance(x, list) and isinstance(kk, int) and -len(x) <= kk < 0: kk += len(x)
          x = x.sym_getattr(kk) if D.is_sym(x) and x.sym_hasattr(kk) else None
        except Exception:     # pylint: disable=broad-except
          x = None
        if x is None: break
      out.append((x if D.is_sym(x) else None, ks[-1] if ks else None, v))
    return out
  if tag == D.DSET: return [(t, D.dec_key(op[3]), op[4])]
  if tag in (D.DSETDEFAULT, D.OSET): return [(t, D.dec_key(op[2]), op[3])]
  if tag in (D.DUPDATE, D.DIOR): return [(t, D.dec_key(k), v) for k, v in op[2]]
  return [(t, None, v) for v in _op_values(op)]

def written(impl, op):
  """-> [(container node or None, value tree)] for every value the op writes."""
  return [(x, v) for x, _, v in written_keyed(impl, op)]

# ---- a symbolic value handed to a field by reference: the cases the model covers (SymCoreTyped.ref_decide) --------------------------
def t_frozen(t): return bool(t[-1][2])
def t_takes(dict_, t):
  """the value type of spec tree t lets a dict (list) through (Typing.vtype + SymCoreTyped.takes)."""
  k = t[0]
  if k == 10: return True
  if k == 7: return dict_
  if k == 5: return not dict_
  if k == 9: return all(t_vtyped(c) for c in t[1]) and any(t_takes(dict_, c) for c in t[1])
  return False
def t_vtyped(t):
  if t[0] == 4:      # Enum: typed when its candidates form a chain of types
    try:
      return c04.build(t).value_type is not None
    except Exception:     # pylint: disable=broad-except
      return True
  if t[0] == 9: return all(t_vtyped(c) for c in t[1])
  return True
def t_route(dict_, t):
  if t_frozen(t): return False
  k = t[0]
  if k == 7: return dict_
  if k == 5: return not dict_
  if k == 10: return True
  if k == 9:
    for c in t[1]:
      if t_takes(dict_, c): return t_route(dict_, c)
  return False
def t_bound(dict_, t):
  k = t[0]
  if k == 7: return t if dict_ else None
  if k == 5: return None if dict_ else t
  if k == 9:
    for c in t[1]:
      if t_takes(dict_, c): return t_bound(dict_, c)
  return None

def field_tree(impl, x, key):
  """The tree of the field a value written into container x under key is checked against, or None."""
  P = pg()
  s = impl.spec_of(x)
  if s is None: return None
  if isinstance(x, P.List): f = s.element.value
  else:
    if s.schema is None or key is None: return None
    fd = s.schema.get_field(key) if isinstance(key, str) else None
    if fd is None: return None
    f = fd.value
  return c04.render(f)

_TQ = None
def typing_quirks():
  """The quirk flags of the typing layer (Typing.quirks: C04's open findings about is_compatible), by replaying C04's witnesses."""
  global _TQ
  if _TQ is None:
    flags = []
    for _, w in c04.QUIRKS:
      got = []
      try:
        c04.oracle_case(w, lambda *a: got.append(a))
      except Exception:     # pylint: disable=broad-except
        got.append('raised')
      flags.append(1 if got else 0)
    _TQ = flags
  return list(_TQ)
def incompatible(t, st):
  """The field (tree t) refuses a value that carries the spec tree st: my containment rule, minus what an active quirk of is_compatible lets through."""
  tq = typing_quirks()
  skip = set()
  if tq[0]: skip.add('list-min-size')
  if tq[1]: skip.add('receiver-frozen')
  return bool(rel_tags(t, st, frozenset(skip)))

def py_partial(impl, y):
  """A required field is unset somewhere at or below y, found by walking the content (not by asking sym_partial): MISSING_VALUE as a
  member of a dict / object that carries a schema (SymCoreTyped.partial_node)."""
  P = pg()
  found = []
  def visit(n, parent, key):
    if isinstance(n, P.List): return
    sp = impl.spec_of(n)
    if sp is None or getattr(sp, 'schema', None) is None: return
    if any(isinstance(v, P.utils.MissingValue) for _, v in D.sym_children(n)): found.append(n)
  D.walk(y, visit)
  return bool(found)

def obj_checked(t):
  """-> 'yes' the field (tree t) is an Object spec (it refuses objects that are not fully bound), 'maybe' a Union, 'no' otherwise."""
  return 'yes' if t[0] == 8 else 'maybe' if t[0] == 9 else 'no'

def ref_modelled(impl, x, key, y, scope, into_copy=False):
  """y (symbolic) handed to the member-checking container x: True when the model covers what happens (stored as it is, or refused
  by the field), False when the field would bind / complete / re-flag it (answered 'not applicable' on both sides)."""
  P = pg()
  # a value that has a parent, or holds the target, is copied on the way: the copy of an object that is not partial but has an unfilled
  # attribute is refused by its class
  if unfilled(impl, y) and (y.sym_parent is not None or x.sym_root is y): return False
  try:
    t = field_tree(impl, x, key)
  except c04.Unrenderable:
    return False
  if t is None: return True
  p = scope_partial(scope)
  if p is None: p = bool(x.allow_partial) and not into_copy      # list + values: the values are written into the copy, which is not partial
  if isinstance(y, P.Object):
    if t_frozen(t): return False
    if not p and obj_checked(t) == 'maybe' and py_partial(impl, y):
      try:
        with own_classes(impl.classes):
          u = c04.build(t)
        impl_ok = True; u.apply(y, allow_partial=True)       # would the union take it at all
      except Exception:     # pylint: disable=broad-except
        impl_ok = False
      return not impl_ok
    return True
  dict_ = isinstance(y, P.Dict)
  ys = impl.spec_of(y)
  if ys is not None:
    try:
      if incompatible(t, c04.render(ys)): return True       # refused: ValueError
    except c04.Unrenderable:
      return False
  if t_route(dict_, t):
    b = t_bound(dict_, t)
    own = bool(x.allow_partial) and not into_copy      # (the flag must also be the container's own: a copy of the container applies its fields under that flag)
    if b is None: return ys is None or (bool(y.allow_partial) == bool(p) and bool(y.allow_partial) == own)
    if ys is None: return False
    try:
      same = TImpl.spec_line(c04.render(ys)) == TImpl.spec_line(b) and impl.spec_ref(y) >= 1
    except c04.Unrenderable:
      return False
    return same and bool(y.allow_partial) == bool(p) and bool(y.allow_partial) == own
  return ys is None

def scope_restrictive(scope):
  """An enclosing as_sealed(True) / allow_writable_accessors(False): it also governs the pg.Dict a written value has become while
  Schema.apply completes it through __setitem__ (WritePermissionError from inside the write) -- outside the model."""
  return D.eff(scope[0]) is True or D.eff(scope[1]) is False

def unfilled(impl, x):
  """An object at or below x that does not accept partial values and has an unfilled attribute: a copy constructs it again through
  the class, which is refused (dicts and lists are copied pass_through)."""
  P = pg()
  found = []
  def visit(n, parent, key):
    if isinstance(n, P.Object) and typed_members(impl, n) and not n._allow_partial and any(isinstance(v, P.utils.MissingValue) for _, v in D.sym_children(n)): found.append(n)
  D.walk(x, visit)
  return bool(found)

def any_typed(impl, x):
  found = []
  def visit(n, parent, key):
    if typed_members(impl, n): found.append(n)
  D.walk(x, visit)
  return bool(found)

def value_supported(impl, x, key, v, scope, into_copy=False):
  if x is None or not typed_members(impl, x):
    return True
  if v[0] == 1:
    try:
      y = impl.at((v[1], v[2]))
    except D.NotApplicable:
      return True
    if D.is_sym(y): return ref_modelled(impl, x, key, y, scope, into_copy)
  while v[0] == 2: v = v[1]
  scoped = scope_partial(scope) is not None or scope_restrictive(scope)
  def missing_ok():
    # MISSING_VALUE stands for the default of the field: fine under a scope when that holds no dict / list
    try:
      t = field_tree(impl, x, key)
    except c04.Unrenderable:
      return False
    return t is not None and not (t[-1][1] and has_container(t[-1][1][0]))
  if v[0] == 3:
    if v[1] == [1] and scoped: return missing_ok()
    return not (scoped and has_container(v[1]))
  if v[0] == 0:
    return v[1][0] == 0
  if v[0] == 1:
    try:
      y = impl.at((v[1], v[2]))
    except D.NotApplicable:
      return True
    if D.is_sym(y): return False
    if scoped and isinstance(y, pg().utils.MissingValue): return missing_ok()
    return True
  return False

def lit_has_obj(l):
  return l[0] == 1 and (l[1] >= 2 or any(lit_has_obj(v) for _, v in l[4]))

def op_supported(impl, scope, op):
  P = pg()
  for v in _op_values(op):
    while v[0] == 2: v = v[1]
    if v[0] == 0 and lit_has_obj(v[1]):
      return False            # objects are constructed through their class schema, not as SymCore literals
  for x, key, v in written_keyed(impl, op):
    if not value_supported(impl, x, key, v, scope, into_copy=op[0] == D.LADD):
      return False
  if (scope_restrictive(scope) or scope_partial(scope) is not None) and op[0] in (D.DDEL, D.DPOP, D.DCLEAR):
    # removing a declared key stores the default of its field, like assigning MISSING_VALUE
    try:
      t = impl.at(op[1])
    except D.NotApplicable:
      t = None
    if t is not None and D.is_sym(t) and typed_members(impl, t): return False
  if scope_restrictive(scope) or scope_partial(scope) is not None:
    # a value given by reference that has typed containers inside and has to be copied on the way (it has a parent, or holds the target):
    # the copy is constructed under the scope
    try:
      tgt_root = impl.roots[op[1][0]]
    except Exception:     # pylint: disable=broad-except
      tgt_root = None
    for v in _op_values(op):
      while v[0] == 2: v = v[1]
      if v[0] == 1:
        try:
          y = impl.at((v[1], v[2]))
        except D.NotApplicable:
          continue
        if D.is_sym(y) and any_typed(impl, y) and (y.sym_parent is not None or y is tgt_root): return False
  tag = op[0]
  if tag in (D.LSORT, D.LREVERSE):
    # two placeholders of removed elements in a typed list are distinct objects (MissingValue(spec)): sorting / reversing them counts as
    # a change there (and the notification purges them), while the leaves of the model are equal
    try:
      t = impl.at(op[1])
      if D.is_sym(t) and typed_members(impl, t) and sum(1 for _, v in D.sym_children(t) if isinstance(v, P.utils.MissingValue)) >= 2:
        return False
    except D.NotApplicable:
      pass
  if tag in (D.LIMUL, D.LMUL, D.LADD, D.LCOPY, D.CLONE, D.DCOPY, D.LEXTEND, D.LIADD):
    # re-inserting / copying typed symbolic children goes through the compatibility path of custom_apply (not modelled yet)
    try:
      t = impl.at(op[1])
    except D.NotApplicable:
      return True
    if not D.is_sym(t):
      return True
    if tag in (D.LIMUL, D.LMUL, D.LADD, D.LCOPY) and typed_members(impl, t) and any(D.is_sym(v) for _, v in D.sym_children(t)):
      return False
    if tag in (D.LMUL, D.LADD, D.LCOPY, D.DCOPY, D.CLONE) and (scope_restrictive(scope) or scope_partial(scope) is not None) and any_typed(impl, t):
      return False
    if tag in (D.LMUL, D.LADD, D.LCOPY, D.DCOPY, D.CLONE) and unfilled(impl, t):
      return False
    if tag in (D.LCOPY, D.LADD) and typed_members(impl, t) and any(isinstance(v, P.utils.MissingValue) for _, v in D.sym_children(t)):
      return False            # the copy of a typed list puts the placeholders of removed elements back after validating the rest
  return True

# ---- hand-written cases and the systematic sweep -------------------------------------------------------------
class Table:
  """Spec table of a case: the three class schemas first, then the given specs, each followed by the container specs inside it."""
  def __init__(self, class_specs=(None, None, None)):
    self.trees, self.lines = [], {}
    self.cls = [self.add(default_class_schema(i) if s is None else self.tree(s)) for i, s in enumerate(class_specs)]
  @staticmethod
  def tree(spec):
    t = spec if isinstance(spec, list) else c04.render(spec)
    with own_classes():
      c = c04.canon(t)
    if c is None: raise ValueError('spec is not constructible: %r' % (t,))
    return c
  def add(self, spec):
    t = self.tree(spec)
    l = trlib.to_line(t)
    if l not in self.lines:
      self.lines[l] = len(self.trees) + 1; self.trees.append(t)
      for s in container_specs(t):
        ls = trlib.to_line(s)
        if ls not in self.lines:
          self.lines[ls] = len(self.trees) + 1; self.trees.append(s)
    return self.lines[l]

NS = [[], [], [], []]
def PV(v): return [3, c04.render_value(v)]
def MISSING(): return pg().MISSING_VALUE
def troot(kind, ref, value, sealed=0, aw=1, partial=0): return [1, kind, ref, [sealed, aw, partial], c04.render_value(value)]
def mkcase(tab, roots, steps, quirks=()): return [list(quirks), tab.trees, tab.cls, roots, [list(s) for s in steps]]
def Pp(r, *keys): return [r, [ek(k) for k in keys]]

def corpus():
  """name -> (case, guard).  Witnesses of the repaired findings (they must hold now) and corner cases; guard False = outside the
  vocabulary of the model (run for the oracle only)."""
  T = pg().typing
  out = {}
  tb = Table(); L = tb.add(T.List(T.Int(), min_size=1, max_size=3))
  out['list-grows-past-max_size'] = (mkcase(tb, [troot(1, L, [1, 2, 3])], [
      (NS, [D.REBIND, Pp(0), [[[ek(0)], [2, PV(9)]]]]), (NS, [D.REBIND, Pp(0), [[[ek(3)], PV(9)]]]), (NS, [D.LAPPEND, Pp(0), PV(4)]),
      (NS, [D.LINSERT, Pp(0), 0, PV(4)]), (NS, [D.LEXTEND, Pp(0), [PV(4)]]), (NS, [D.LIADD, Pp(0), [PV(4)]]), (NS, [D.LIMUL, Pp(0), 2]),
      (NS, [D.LADD, Pp(0), [PV(4)]]), (NS, [D.LMUL, Pp(0), 2])]), True)
  out['slice-assignment-past-max_size'] = (mkcase(tb, [troot(1, L, [1, 2])], [
      (NS, [LSETSLICE, Pp(0), [[0], [1], []], [PV(5), PV(6), PV(7), PV(8)]])]), False)
  out['list-shrinks-below-min_size'] = (mkcase(tb, [troot(1, L, [1]), troot(1, L, [1]), troot(1, L, [1], partial=1)], [
      (NS, [D.LDEL, Pp(0), 0]), (NS, [D.LPOP, Pp(1), []]), (NS, [D.LREMOVE, Pp(0), [2, 1]]), (NS, [D.LCLEAR, Pp(0)]), (NS, [D.LIMUL, Pp(0), 0]),
      (NS, [D.REBIND, Pp(2), [[[ek(0)], PV(MISSING())]]]), (NS, [D.LSET, Pp(2), 0, PV(MISSING())])]), True)
  tb2 = Table(); L2 = tb2.add(T.List(T.Int(), min_size=2))
  off = D.sc(notify=[False])
  out['missing-placeholders-below-min_size'] = (mkcase(tb2, [troot(1, L2, [1, 2, 3], partial=1)], [
      (off, [D.LSET, Pp(0), 0, PV(MISSING())]), (off, [D.LSET, Pp(0), 1, PV(MISSING())]), (NS, [D.LAPPEND, Pp(0), PV(4)])]), True)
  tb3 = Table(); Dd = tb3.add(T.Dict([('a', T.Dict([('x', T.Int())])), ('b', T.Int(default=1))]))
  out['rejected-assignment-detaches-old-child'] = (mkcase(tb3, [troot(0, Dd, {'a': {'x': 1}})], [
      (NS, [D.DSET, Pp(0), 0, ek('a'), PV(5)]), (NS, [D.DSET, Pp(0), 1, ek('a'), PV({'x': 'bad'})]), (NS, [D.DPOP, Pp(0), ek('a'), []]),
      (NS, [D.DDEL, Pp(0), 0, ek('a')]), (NS, [D.REBIND, Pp(0), [[[ek('a')], PV(MISSING())]]]), (NS, [D.DUPDATE, Pp(0), [[ek('b'), PV(2)], [ek('a'), PV(7)]]])]), True)
  out['clear-drops-content-then-raises'] = (mkcase(tb3, [troot(0, Dd, {'a': {'x': 1}, 'b': 3}), troot(0, Dd, {'a': {'x': 1}}, aw=0), troot(0, Dd, {'a': {'x': 1}}, partial=1)], [
      (NS, [D.DCLEAR, Pp(0)]), (NS, [D.DCLEAR, Pp(1)]), (NS, [D.DCLEAR, Pp(2)]), (D.sc(aw=[False]), [D.DCLEAR, Pp(2)]), (D.sc(partial=[True]), [D.DCLEAR, Pp(0)])]), True)
  tbc = Table((T.Dict([('x', T.Int(default=0)), ('y', T.Dict([('b', T.Int(default=0))]))]), None, None))
  out['reset-to-default-stores-the-default-object'] = (mkcase(tbc, [troot(2, tbc.cls[0], {'y': {'b': 5}})], [
      (NS, [D.REBIND, Pp(0), [[[ek('y')], PV(MISSING())]]]), (NS, [D.DSET, Pp(0, 'y'), 0, ek('b'), PV(7)]), (NS, [D.CLONE, Pp(0), 0]),
      (NS, [D.REBIND, Pp(1), [[[ek('y')], PV(MISSING())]]])]), True)
  tb4 = Table(); Tt = tb4.add(T.Dict([('t', T.Tuple(T.Int())), ('u', T.Tuple([T.Int(), T.Str()]).noneable())])); Di = tb4.add(T.Dict([('x', T.Int())]))
  out['typed-dict-assigned-to-a-variable-length-tuple-field'] = (mkcase(tb4, [troot(0, Tt, {'t': (1,)}), troot(0, Di, {'x': 1})], [
      (NS, [D.DSET, Pp(0), 0, ek('t'), [1, 1, []]]), (NS, [D.DSET, Pp(0), 0, ek('u'), [1, 1, []]])]), False)
  tb5 = Table(); Un = tb5.add(T.Dict([('a', T.Union([T.Int(min_value=0), T.Str(), T.List(T.Int(), max_size=2)]).noneable()), (pg().typing.StrKey(), T.Float(max_value=2.5))]))
  out['union-and-dynamic-keys'] = (mkcase(tb5, [troot(0, Un, {'a': 1})], [
      (NS, [D.DSET, Pp(0), 0, ek('a'), PV('s')]), (NS, [D.DSET, Pp(0), 0, ek('a'), PV([1, 2])]), (NS, [D.DSET, Pp(0), 0, ek('a'), PV([1, 2, 3])]),
      (NS, [D.DSET, Pp(0), 0, ek('a'), PV(-1)]), (NS, [D.DSET, Pp(0), 0, ek('q'), PV(1)]), (NS, [D.DSET, Pp(0), 0, ek('q'), PV(3.0)]),
      (NS, [D.DSET, Pp(0), 0, ek(3), PV(1)]), (NS, [D.DDEL, Pp(0), 0, ek('q')]), (NS, [D.DDEL, Pp(0), 0, ek('a')]), (NS, [D.LAPPEND, Pp(0, 'a'), PV(1)])]), True)
  tb2 = Table(); Di = tb2.add(T.Dict([('y', T.Dict([('b', T.Bool()), ('c', T.Int(default=1))]))]))
  out['refused-symbolic-value-is-left-as-it-was'] = (mkcase(tb2, [troot(0, Di, {'y': {'b': True}}), [0, D.mk({'c': 2})], [0, D.mk([{'c': 2}])]], [(NS, [D.DSET, Pp(0), 0, ek('y'), [1, 1, []]]), (NS, [D.DSET, Pp(0), 0, ek('y'), [1, 1, []]]), (NS, [D.REBIND, Pp(0), [[[ek('y')], [1, 1, []]]]]), (NS, [D.DUPDATE, Pp(0), [[ek('y'), [1, 1, []]]]]), (NS, [D.DSET, Pp(0), 0, ek('y'), [1, 2, [ek(0)]]])]), False)
  tb3 = Table(); An = tb3.add(T.Dict([('x', T.Any())])); Pa = tb3.add(T.Dict([('c', T.Int()), ('b', T.Bool(default=True))]))
  out['partial-value-made-non-partial'] = (mkcase(tb3, [troot(0, An, {'x': 1}), troot(0, Pa, {}, partial=1)], [(NS, [D.DSET, Pp(0), 0, ek('x'), [1, 1, []]]), (NS, [D.DSET, Pp(0), 0, ek('x'), [1, 1, []]]), (NS, [D.REBIND, Pp(0), [[[ek('x')], [1, 1, []]]]])]), False)
  tb6 = Table(); Ay = tb6.add(T.Dict([('x', T.Any()), ('y', T.Int())])); Pb = tb6.add(T.Dict([('c', T.Int()), ('b', T.Bool(default=True))]))
  out['partial-value-in-a-refused-batch'] = (mkcase(tb6, [troot(0, Ay, {'x': 1, 'y': 1}), troot(0, Pb, {}, partial=1)],
                                                             [(NS, [D.DUPDATE, Pp(0), [[ek('x'), [1, 1, []]], [ek('y'), PV('bad')]]])]), False)
  ud = T.Union([T.List(T.Dict([('p', T.Int())])), T.Int()], default=[{'p': 1}])
  tbu = Table((T.Dict([('x', ud), ('y', T.Any(default=None))]), None, None)); Du = tbu.add(T.Dict([('x', copy.deepcopy(ud))]))
  out['union-field-with-a-container-default'] = (mkcase(tbu, [troot(2, tbu.cls[0], {}), troot(0, Du, {})], [
      (NS, [D.DDEL, Pp(0, 'x', 0), 0, ek('p')]), (NS, [D.DDEL, Pp(1, 'x', 0), 1, ek('p')]), (NS, [D.DPOP, Pp(0, 'x', 0), ek('p'), []])]), False)
  fz = T.List(T.Int()).freeze([1, 2])
  tbf = Table((T.Dict([('x', fz), ('y', T.Any(default=None))]), None, None)); Df = tbf.add(T.Dict([('x', T.Dict([('b', T.Int())]).freeze({'b': 1}))]))
  out['frozen-container-default-is-not-shared'] = (mkcase(tbf, [troot(2, tbf.cls[0], {}), troot(2, tbf.cls[0], {}), troot(0, Df, {}), troot(0, Df, {})], [
      (NS, [D.CLONE, Pp(0), 0]), (NS, [D.CLONE, Pp(2), 0])]), False)
  # found by the thorough tier (kept as they were generated)
  out['refused-list-add-hands-adopted-values-back'] = (trlib.parse_line('((0 1 1 1 0 0 1 0) ((7 ((((0 (120)) (10 (1 ((0)) 0))) ((0 (121)) (10 (1 ((0)) 0))))) (0 ((8 (((120) (0)) ((121) (0))))) 0)) (7 ((((0 (120)) (10 (1 ((0)) 0))) ((0 (121)) (10 (1 ((0)) 0))) ((0 (122)) (10 (1 ((0)) 0))))) (0 ((8 (((120) (0)) ((121) (0)) ((122) (0))))) 0)) (7 ((((0 (120)) (5 (10 (1 () 0)) 1 () (1 () 0))))) (0 ((8 (((120) (1))))) 0)) (5 (10 (1 () 0)) 1 () (1 () 0)) (5 (9 ((6 ((0 (0 ((2 0)) 1)) (3 (0 ((5 ())) 0))) 2 (2) (0 ((7 ((2 0) (5 (98))))) 1)) (10 (1 ((3 2)) 0))) (1 ((3 6)) 0)) 0 () (0 () 0))) (1 2 3) ((1 1 5 (0 1 0) (6 ((3 6)))) (1 3 2 (0 1 0) (8 ())) (0 (1 0 (0 1 1) 0 (((0 122) (0 (2 -1))))))) (((() () () ()) (5 (0 ()) ((3 (7 ((0))))))) ((() () (1) ()) (6 (0 ()) (0))) ((() () () (())) (40 (1 ()) ((((0 122)) (3 (3 1))) (((0 121)) (3 (2 0)))))) ((() (()) (0) ()) (13 (0 ()) ((1 0 ()) (3 (7 ((3 0) (0)))) (3 (4 128))))) ((() () () ()) (30 (1 ()) (0 122) (0 (1 1 (0 1 0) 1 (((1 0) (0 (1 0))) ((1 1) (0 (3)))))))) ((() () () ()) (5 (0 ()) ((3 (4 128)) (3 (2 0))))) ((() () () ()) (40 (1 ()) ((((0 121)) (1 0 ()))))) ((() () () ()) (4 (1 ((0 121))) 2 (1 1 ((0 122)))))))'), False)
  out['sort-of-a-typed-list-with-two-placeholders'] = (trlib.parse_line('((0 1 1 1 0 0 1 1) ((7 ((((0 (120)) (10 (1 ((0)) 0))) ((0 (121)) (10 (1 ((0)) 0))))) (0 ((8 (((120) (0)) ((121) (0))))) 0)) (7 ((((0 (120)) (10 (1 ((0)) 0))) ((0 (121)) (10 (1 ((0)) 0))) ((0 (122)) (10 (1 ((0)) 0))))) (0 ((8 (((120) (0)) ((121) (0)) ((122) (0))))) 0)) (7 ((((0 (120)) (10 (1 ((0)) 0))))) (0 ((8 (((120) (0))))) 0)) (5 (9 ((0 (0 ((2 0)) 1)) (4 ((2 1) (2 0)) (0 ((2 1)) 0))) (0 () 0)) 0 () (0 () 0)) (7 ((((0 (98)) (5 (2 () (0) (0 () 0)) 0 (5) (0 () 0))) ((0 (120)) (0 (0 ((2 0)) 0))))) (0 ((8 (((98) (1)) ((120) (2 0))))) 0)) (5 (2 () (0) (0 () 0)) 0 (5) (0 () 0)) (5 (2 (0) (32) (1 ((4 0)) 0)) 1 (1) (0 () 0))) (1 2 3) ((1 1 4 (0 1 1) (6 ())) (1 0 5 (0 1 0) (8 (((98) (6 ((2 1))))))) (1 1 7 (0 1 0) (6 ((0)))) (0 (1 0 (0 1 0) 0 (((0 98) (0 (2 1))))))) (((() () (0) ((0) (0))) (1 (0 ()) 0 (3 (3 1)))) ((() () () ()) (1 (2 ()) 0 (3 (0)))) ((() () () ()) (40 (2 ()) ((((1 3)) (3 (3 0))) (((1 0)) (2 (3 (4 32))))))) ((((0)) () (0) ()) (4 (0 ()) 0 (3 (1)))) ((() () (1 0) ((0) (1))) (4 (0 ()) -2 (3 (1)))) ((() () () ()) (10 (0 ()) (2 3) 1)) ((() () () ()) (1 (2 ()) -1 (3 (3 0))))))'), True)
  return out

def open_witnesses():
  """name -> case (run without the guard): the open findings, replayed at the start of every run."""
  T = pg().typing
  out = {}
  tb = Table(); Fz = tb.add(T.Dict([('a', T.Dict([('b', T.Int())]).freeze({'b': 1})), ('l', T.List(T.Int()).freeze([1]))]))
  out['frozen-container-written-in-depth'] = mkcase(tb, [troot(0, Fz, {})], [(NS, [D.DSET, Pp(0, 'a'), 0, ek('b'), PV(2)])])
  tb5 = Table(); Fa = tb5.add(T.Dict([('x', T.Union([T.Int(), T.Any().freeze(1)]))])); Li = tb5.add(T.List(T.Int()))
  out['typed-value-accepted-by-compatibility-only'] = mkcase(tb5, [troot(0, Fa, {'x': 2}), troot(1, Li, [])], [(NS, [D.DSET, Pp(0), 0, ek('x'), [1, 1, []]])])
  tb7 = Table(); Ll = tb7.add(T.List(T.List(T.Union([T.Int(), T.Any().freeze(1)]))))
  out['typed-child-keeps-its-own-spec'] = mkcase(tb7, [troot(1, Ll, [])], [(NS, [D.LINSERT, Pp(0), 0, [1, 0, []]]), (NS, [D.REBIND, Pp(0), [[[ek(0), ek(0)], PV([None])]]])])
  tb8 = Table(); Mn = tb8.add(T.Dict([('f', T.List(T.Int(), min_size=2))])); Lo = tb8.add(T.List(T.Int()))
  out['typed-list-with-smaller-min_size'] = mkcase(tb8, [troot(0, Mn, {'f': [1, 2]}), troot(1, Lo, [1, 2])], [(NS, [D.DSET, Pp(0), 0, ek('f'), [1, 1, []]]), (NS, [D.LPOP, Pp(0, 'f'), []])])
  tb9 = Table(); Pl = tb9.add(T.List(T.Int(), max_size=4))
  out['copy-of-a-partial-list-keeps-placeholders'] = mkcase(tb9, [troot(1, Pl, [1, 2], partial=1)], [(D.sc(notify=[False]), [D.LSET, Pp(0), 0, PV(MISSING())]), (NS, [D.LCOPY, Pp(0)])])
  tb4 = Table(); Un = tb4.add(T.Dict([('a', T.Union([T.Enum(True, [1, 'a']).freeze(), T.Bool().freeze(False)]))]))
  out['union-result-dispatches-to-another-candidate'] = mkcase(tb4, [troot(0, Un, {}, partial=1)], [(NS, [D.DSET, Pp(0), 0, ek('a'), PV(1.0)])])
  return out

def sweep_kinds():
  """(name, value spec) for the member under test: every spec class, with ranges / sizes / modifiers."""
  T = pg().typing
  return [
      ('Bool', T.Bool()), ('Int', T.Int(min_value=0, max_value=5)), ('Float', T.Float(min_value=0.0, max_value=2.5)), ('Str', T.Str()),
      ('Enum-str', T.Enum('a', ['a', 'b'])), ('Enum-num', T.Enum(MISSING(), [1, 2.5])), ('List', T.List(T.Int(min_value=0), min_size=1, max_size=2)),
      ('Tuple-fixed', T.Tuple([T.Int(), T.Str()])), ('Tuple-var', T.Tuple(T.Int(), min_size=1, max_size=2)),
      ('Dict', T.Dict([('p', T.Int(max_value=5)), ('q', T.Str(default='s'))])), ('Dict-dyn', T.Dict([(T.StrKey(), T.Int())])), ('Dict-free', T.Dict()),
      ('Object', T.Object(c04.A)), ('Union', T.Union([T.Int(min_value=0), T.Str()])), ('Union-list', T.Union([T.Bool(), T.List(T.Str(), max_size=1)])),
      ('Any', T.Any()), ('Int-noneable', T.Int(max_value=5).noneable()), ('Int-default', T.Int(default=3, min_value=1)),
      ('Int-frozen', T.Int(min_value=1).freeze(3)), ('Float-noneable-default', T.Float().noneable()), ('Enum-none', T.Enum(None, ['a', None])),
      ('List-nested', T.List(T.Dict([('p', T.Float())]), max_size=2)), ('Dict-nested', T.Dict([('p', T.Dict([('r', T.Int(default=1))])), ('l', T.List(T.Int(), default=[]))])),
  ]

def sweep_cases(rng, per_kind=6):
  """Every write path of every container form x every member spec x {valid values, each kind of rejected value}: one root, one operation.
  -> [(label, case)]"""
  T = pg().typing
  out = []
  for kname, k in sweep_kinds():
    ktree = Table.tree(k)
    kspec = c04.build(ktree)
    good, bad = [], []
    for v in c04.values_for(ktree, rng, limit=30):
      (good if c04.accepts(kspec, v, False) else bad).append(v)
    good = [v for v in good if v != [1]]
    if not good: continue
    rng.shuffle(bad)
    vals = [('valid', v) for v in good[:2]] + [('invalid', v) for v in bad[:per_kind]] + [('missing', [1])]
    g0 = good[0]
    # --- a Dict with a declared member, and one with a dynamic member
    for form in ('const', 'dyn'):
      tb = Table()
      sp = T.Dict([('a', copy.deepcopy(k)), ('b', T.Int(default=0))]) if form == 'const' else T.Dict([(T.StrKey(), copy.deepcopy(k)), ('b', T.Int(default=0))])
      try:
        ref = tb.add(sp)
      except ValueError:
        continue
      for partial in (0, 1):
        root = [1, 0, ref, [0, 1, partial], [8, [[S('a'), g0]]]]
        for cls, v in vals:
          val = [3, v]
          for path, op in (('setitem', [D.DSET, Pp(0), 0, ek('a'), val]), ('setattr', [D.DSET, Pp(0), 1, ek('a'), val]),
                           ('setdefault', [D.DSETDEFAULT, Pp(0), ek('z' if form == 'dyn' else 'a'), val]), ('update', [D.DUPDATE, Pp(0), [[ek('b'), PV(1)], [ek('a'), val]]]),
                           ('ior', [D.DIOR, Pp(0), [[ek('a'), val]]]), ('rebind', [D.REBIND, Pp(0), [[[ek('a')], val], [[ek('b')], PV(2)]]]),
                           ('setitem-undeclared', [D.DSET, Pp(0), 0, ek('zz'), val])):
            if partial and cls == 'invalid' and path not in ('setitem', 'rebind'): continue
            out.append(('Dict-%s/%s/%s/%s%s' % (form, path, kname, cls, '/partial' if partial else ''), mkcase(tb, [root], [(NS, op)])))
        for path, op in (('delitem', [D.DDEL, Pp(0), 0, ek('a')]), ('pop', [D.DPOP, Pp(0), ek('a'), []]), ('clear', [D.DCLEAR, Pp(0)]), ('popitem', [D.DPOPITEM, Pp(0)]),
                         ('copy', [D.DCOPY, Pp(0)]), ('clone', [D.CLONE, Pp(0), 1])):
          out.append(('Dict-%s/%s/%s%s' % (form, path, kname, '/partial' if partial else ''), mkcase(tb, [root], [(NS, op)])))
    # --- a List of such members
    tb = Table()
    try:
      ref = tb.add(T.List(copy.deepcopy(k), min_size=1, max_size=3))
    except ValueError:
      ref = None
    if ref is not None:
      for partial in (0, 1):
        for n0 in (1, 3):
          root = [1, 1, ref, [0, 1, partial], [6, [g0] * n0]]
          for cls, v in vals:
            val = [3, v]
            for path, op in (('setitem', [D.LSET, Pp(0), 0, val]), ('append', [D.LAPPEND, Pp(0), val]), ('insert', [D.LINSERT, Pp(0), 0, val]),
                             ('extend', [D.LEXTEND, Pp(0), [[3, g0], val]]), ('iadd', [D.LIADD, Pp(0), [val]]), ('add', [D.LADD, Pp(0), [val]]),
                             ('rebind-replace', [D.REBIND, Pp(0), [[[ek(-1)], val]]]), ('rebind-insert', [D.REBIND, Pp(0), [[[ek(0)], [2, val]]]]),
                             ('rebind-append', [D.REBIND, Pp(0), [[[ek(n0)], val]]])):
              if (partial or n0 == 3) and cls == 'invalid' and path not in ('setitem', 'append'): continue
              out.append(('List/%s/%s/%s/len%d%s' % (path, kname, cls, n0, '/partial' if partial else ''), mkcase(tb, [root], [(NS, op)])))
          for path, op in (('delitem', [D.LDEL, Pp(0), 0]), ('pop', [D.LPOP, Pp(0), []]), ('clear', [D.LCLEAR, Pp(0)]), ('imul', [D.LIMUL, Pp(0), 2]), ('imul0', [D.LIMUL, Pp(0), 0]),
                           ('mul', [D.LMUL, Pp(0), 2]), ('copy', [D.LCOPY, Pp(0)]), ('reverse', [D.LREVERSE, Pp(0)]), ('clone', [D.CLONE, Pp(0), 0])):
            out.append(('List/%s/%s/len%d%s' % (path, kname, n0, '/partial' if partial else ''), mkcase(tb, [root], [(NS, op)])))
    # --- an Object with such a field
    try:
      tb = Table((T.Dict([('x', copy.deepcopy(k)), ('y', T.Int(default=0))]), None, None))
    except ValueError:
      continue
    for partial in (0, 1):
      root = [1, 2, tb.cls[0], [0, 1, partial], [8, [[S('x'), g0]]]]
      for cls, v in vals:
        val = [3, v]
        for path, op in (('setattr', [D.OSET, Pp(0), ek('x'), val]), ('rebind', [D.REBIND, Pp(0), [[[ek('y')], PV(1)], [[ek('x')], val]]])):
          out.append(('Object/%s/%s/%s%s' % (path, kname, cls, '/partial' if partial else ''), mkcase(tb, [root], [(NS, op)])))
        # construction with this value
        out.append(('Object/init/%s/%s%s' % (kname, cls, '/partial' if partial else ''), mkcase(tb, [[1, 2, tb.cls[0], [0, 1, partial], [8, [[S('x'), v]]]]], [])))
      out.append(('Object/init-unexpected/%s' % kname, mkcase(tb, [[1, 2, tb.cls[0], [0, 1, partial], [8, [[S('x'), g0], [S('w'), [3, 1]]]]]], [])))
      out.append(('Object/init-missing/%s' % kname, mkcase(tb, [[1, 2, tb.cls[0], [0, 1, partial], [8, []]]], [])))
  return out

# ---- typed values handed to typed fields (oracle only): every relation between the sender's own spec and the field's spec ---------------
def typed_sender_relations():
  """-> [(name, receiving leaf spec R, sender's leaf spec S, values both accept, values only S accepts)].  The leaf sits in a field 'v'
  of a Dict spec (sender: a pg.Dict that carries Dict([('v', S)])) or is the element of a List spec (sender: a pg.List bound to List(S))."""
  T = pg().typing
  I, F, E, L = T.Int, T.Float, T.Enum, T.List
  A, B, X = c04.A, c04.B, c04.X
  R05 = lambda: I(min_value=0, max_value=5)
  F05 = lambda: F(min_value=0.0, max_value=5.0)
  Eab = lambda: E('a', ['a', 'b'])
  Dab = lambda: T.Dict([('a', I()), ('b', T.Str(default='d'))])
  return [
      # numeric ranges
      ('int/equal', R05(), R05(), [3], []),
      ('int/tighter', R05(), I(min_value=1, max_value=4), [2], []),
      ('int/sender-no-max', R05(), I(min_value=0), [3], [50]),
      ('int/sender-no-min', R05(), I(max_value=5), [3], [-7]),
      ('int/sender-larger-max', R05(), I(min_value=0, max_value=9), [3], [8]),
      ('int/sender-lower-min', R05(), I(min_value=-3, max_value=5), [3], [-2]),
      ('int/sender-unbounded', R05(), I(), [3], [50, -7]),
      ('int/disjoint', R05(), I(min_value=7, max_value=9), [], [8]),
      ('int/receiver-min-only/sender-bounded', I(min_value=0), R05(), [3], []),
      ('int/receiver-min-only/sender-unbounded', I(min_value=0), I(), [3], [-7]),
      ('int/receiver-min-only/sender-max-only', I(min_value=0), I(max_value=5), [3], [-7]),
      ('int/receiver-max-only/sender-min-only', I(max_value=5), I(min_value=0), [3], [50]),
      ('int/receiver-max-only/sender-bounded', I(max_value=5), R05(), [3], []),
      ('int/receiver-unbounded', I(), R05(), [3], []),
      ('float/equal', F05(), F05(), [2.5], []),
      ('float/tighter', F05(), F(min_value=1.0, max_value=4.0), [2.5], []),
      ('float/sender-no-max', F05(), F(min_value=0.0), [2.5], [50.0]),
      ('float/sender-no-min', F05(), F(max_value=5.0), [2.5], [-7.5]),
      ('float/sender-larger-max', F05(), F(min_value=0.0, max_value=9.0), [2.5], [8.0]),
      ('float/sender-lower-min', F05(), F(min_value=-3.0, max_value=5.0), [2.5], [-2.0]),
      ('float/sender-unbounded', F05(), F(), [2.5], [50.0]),
      ('float/receiver-max-only/sender-min-only', F(max_value=5.0), F(min_value=0.0), [2.5], [50.0]),
      ('kind/int-into-float', F05(), R05(), [3], []),
      ('kind/float-into-int', R05(), F05(), [], [2.5]),
      ('kind/bool-into-str', T.Str(), T.Bool(), [], [True]),
      ('kind/str-into-enum', Eab(), T.Str(), ['a'], ['zz']),
      ('kind/int-into-any', T.Any(), I(), [3], []),
      # enum candidates
      ('enum/equal', Eab(), Eab(), ['a'], []),
      ('enum/tighter', Eab(), E('a', ['a']), ['a'], []),
      ('enum/sender-more-values', Eab(), E('a', ['a', 'b', 'x']), ['a'], ['x']),
      ('enum/disjoint', Eab(), E('x', ['x']), [], ['x']),
      ('enum/int-vs-float-values', E(1, [1, 2]), E(1.0, [1.0, 2.0]), [], [1.0]),
      # noneable
      ('noneable/sender-only', R05(), R05().noneable(), [3], [None]),
      ('noneable/receiver-only', R05().noneable(), R05(), [3], []),
      ('noneable/str-sender-only', T.Str(), T.Str().noneable(), ['a'], [None]),
      ('noneable/enum-sender-only', Eab(), E('a', ['a', 'b', None]), ['a'], [None]),
      # frozen
      ('frozen/receiver-only', I().freeze(1), I(), [1], [2]),
      ('frozen/both-same', I().freeze(1), I().freeze(1), [1], []),
      ('frozen/both-differ', I().freeze(1), I().freeze(2), [], [2]),
      # sizes (the leaf is a list / tuple)
      ('size/equal', L(I(), min_size=1, max_size=2), L(I(), min_size=1, max_size=2), [[1]], []),
      ('size/tighter', L(I(), max_size=3), L(I(), min_size=1, max_size=2), [[1]], []),
      ('size/sender-no-max', L(I(), max_size=2), L(I()), [[1]], [[1, 2, 3]]),
      ('size/sender-larger-max', L(I(), max_size=2), L(I(), max_size=4), [[1]], [[1, 2, 3]]),
      ('size/sender-lower-min', L(I(), min_size=2), L(I()), [[1, 2]], [[1]]),
      ('size/sender-lower-min-both-bounded', L(I(), min_size=2, max_size=3), L(I(), min_size=1, max_size=3), [[1, 2]], [[1]]),
      ('size/element-looser', L(R05(), max_size=2), L(I(min_value=0), max_size=2), [[1]], [[50]]),
      ('size/tuple-sender-no-max', T.Tuple(I(), max_size=2), T.Tuple(I()), [(1,)], [(1, 2, 3)]),
      ('size/tuple-fixed-vs-variable', T.Tuple([I(), I()]), T.Tuple(I()), [(1, 2)], [(1,)]),
      # key sets (the leaf is a dict)
      ('keys/equal', Dab(), Dab(), [{'a': 1, 'b': 'x'}], []),
      ('keys/sender-lacks-defaulted-key', Dab(), T.Dict([('a', I())]), [{'a': 1}], []),
      ('keys/sender-lacks-required-key', Dab(), T.Dict([('b', T.Str(default='d'))]), [], [{'b': 'x'}]),
      ('keys/sender-extra-key', Dab(), T.Dict([('a', I()), ('b', T.Str(default='d')), ('z', I(default=0))]), [], [{'a': 1, 'b': 'x', 'z': 1}]),
      ('keys/sender-dynamic-key', Dab(), T.Dict([('a', I()), ('b', T.Str(default='d')), (T.StrKey(), I())]), [{'a': 1, 'b': 'x'}], [{'a': 1, 'b': 'x', 'q': 1}]),
      ('keys/sender-without-schema', Dab(), T.Dict(), [{'a': 1, 'b': 'x'}], [{'q': 1}]),
      ('keys/receiver-without-schema', T.Dict(), Dab(), [{'a': 1, 'b': 'x'}], []),
      ('keys/field-looser', T.Dict([('a', R05())]), T.Dict([('a', I(min_value=0))]), [{'a': 1}], [{'a': 50}]),
      # classes
      ('class/equal', T.Object(A), T.Object(A), [A(1)], []),
      ('class/sender-subclass', T.Object(A), T.Object(B), [B(1)], []),
      ('class/sender-superclass', T.Object(B), T.Object(A), [B(1)], [A(2)]),
      ('class/unrelated', T.Object(A), T.Object(X), [], [X(1)]),
      # unions
      ('union/sender-fits-a-candidate', T.Union([R05(), T.Str()]), I(min_value=1, max_value=2), [2], []),
      ('union/sender-looser-than-every-candidate', T.Union([R05(), T.Str()]), I(min_value=0, max_value=9), [3], [8]),
      ('union/sender-no-max', T.Union([R05(), T.Str()]), I(min_value=0), [3], [50]),
      ('union/sender-other-kind', T.Union([R05(), T.Str()]), T.Bool(), [], [True]),
      ('union/sender-union-with-more-candidates', T.Union([R05(), T.Str()]), T.Union([R05(), T.Str(), T.Bool()]), [3], [True]),
      ('union/sender-union-subset', T.Union([R05(), T.Str(), T.Bool()]), T.Union([R05(), T.Str()]), [3], []),
  ]

def numeric_bound_relations():
  """The grid of numeric bounds on both sides: receiver (min, max) x sender (min, max) over {absent, negative, 0 / 0.0, positive}, for Int
  and Float, flat and as the element of a List / a Tuple and as a Dict field; the contents are derived from the two ranges."""
  T = pg().typing
  grid = [(None, None), (None, 0), (0, None), (None, 5), (-3, None), (0, 0), (-3, 0), (0, 5), (-3, 5)]
  probes = [-50, -7, -5, -3, -2, -1, 0, 1, 3, 5, 8, 50]
  def within(v, lo, hi): return (lo is None or v >= lo) and (hi is None or v <= hi)
  out = []
  for tname, mk, conv in (('int', lambda lo, hi: T.Int(min_value=lo, max_value=hi), int),
                          ('float', lambda lo, hi: T.Float(min_value=None if lo is None else float(lo), max_value=None if hi is None else float(hi)), float)):
    for rlo, rhi in grid:
      for slo, shi in grid:
        inside = [conv(v) for v in probes if within(v, rlo, rhi) and within(v, slo, shi)][:1]
        outside = [conv(v) for v in probes if within(v, slo, shi) and not within(v, rlo, rhi)]
        outside = outside[:1] + outside[-1:] if len(outside) > 1 else outside
        name = 'bounds/%s/recv(%s,%s)/send(%s,%s)' % (tname, rlo, rhi, slo, shi)
        out.append((name, mk(rlo, rhi), mk(slo, shi), inside, outside))
        if 0 in (rlo, rhi) and (rlo, rhi) != (slo, shi) and (slo, shi) in ((None, None), (None, 5), (-3, None), (0, None), (None, 0)):
          wrap = lambda f: (lambda v: f(v))
          out.append((name + '/in-list', T.List(mk(rlo, rhi)), T.List(mk(slo, shi)), [[v] for v in inside], [[v] for v in outside]))
          out.append((name + '/in-tuple', T.Tuple([mk(rlo, rhi)]), T.Tuple([mk(slo, shi)]), [(v,) for v in inside], [(v,) for v in outside]))
          out.append((name + '/in-dict', T.Dict([('k', mk(rlo, rhi))]), T.Dict([('k', mk(slo, shi))]), [{'k': v} for v in inside], [{'k': v} for v in outside]))
  return out

def typed_sender_cases(rng, full):
  """Every relation x {sender a typed pg.Dict, a typed pg.List} x receiver {Dict field, List element, Object attribute} x write path
  (incl. construction) x {content both specs accept, content only the sender's spec accepts}, each followed by a write into the stored
  child that only the sender's spec allows.  full=False: three write paths per combination (one per receiver), rotating.  -> [(label, case)]"""
  T = pg().typing
  out = []
  n = 0
  for idx, (rname, R, S, inside, outside) in enumerate(typed_sender_relations() + numeric_bound_relations()):
    grid = rname.startswith('bounds/')
    try:
      rt = Table.tree(R); Rspec = c04.build(rt)
    except (ValueError, c04.Unrenderable):
      continue
    ok = [v for v in inside if c04.acc_py(Rspec, v)] or [c04.build_value(v) for v in c04.values_for(rt, rng, limit=20) if v != [1] and c04.accepts(Rspec, v, False)]
    if not ok: continue
    r_ok = ok[0]
    for shape in ('dict', 'list'):
      if grid and not full and shape != ('dict', 'list')[idx % 2]: continue      # the bound grid, quick tier: one shape, one receiver per relation
      mk = (lambda leaf: T.Dict([('v', copy.deepcopy(leaf))])) if shape == 'dict' else (lambda leaf: T.List(copy.deepcopy(leaf)))
      wrap = (lambda c: {'v': c}) if shape == 'dict' else (lambda c: [c])
      contents = [('inside', c) for c in inside[:1]] + [('outside', c) for c in outside[:2]]
      if grid and not full: contents = [('outside', c) for c in outside[:1]] or contents[:1]
      later = outside[0] if outside else None
      for recv in ('Dict', 'List', 'Object'):
        if grid and not full and recv != ('Dict', 'List', 'Object')[(idx // 2) % 3]: continue
        try:
          if recv == 'Object':
            tb = Table((T.Dict([('x', mk(R)), ('y', T.Any(default=None))]), None, None)); rref = tb.cls[0]
          else:
            tb = Table(); rref = tb.add(T.Dict([('f', mk(R)), ('n', T.Int(default=0))]) if recv == 'Dict' else T.List(mk(R), max_size=3))
          sref = tb.add(mk(S))
        except (ValueError, c04.Unrenderable):
          continue
        key = {'Dict': 'f', 'List': 0, 'Object': 'x'}[recv]
        kind_ = {'Dict': 0, 'List': 1, 'Object': 2}[recv]
        init = {'Dict': {'f': wrap(r_ok)}, 'List': [wrap(r_ok)], 'Object': {'x': wrap(r_ok)}}[recv]
        val = [1, 1, []]
        if recv == 'Dict':
          paths = [('setitem', [D.DSET, Pp(0), 0, ek('f'), val], 'f'), ('setattr', [D.DSET, Pp(0), 1, ek('f'), val], 'f'),
                   ('update', [D.DUPDATE, Pp(0), [[ek('n'), PV(1)], [ek('f'), val]]], 'f'), ('ior', [D.DIOR, Pp(0), [[ek('f'), val]]], 'f'),
                   ('rebind', [D.REBIND, Pp(0), [[[ek('f')], val]]], 'f'), ('construction', None, 'f')]
        elif recv == 'List':
          paths = [('setitem', [D.LSET, Pp(0), 0, val], 0), ('append', [D.LAPPEND, Pp(0), val], 1), ('insert', [D.LINSERT, Pp(0), 0, val], 0),
                   ('extend', [D.LEXTEND, Pp(0), [val]], 1), ('iadd', [D.LIADD, Pp(0), [val]], 1), ('slice', [LSETSLICE, Pp(0), [[0], [1], []], [val]], 0),
                   ('rebind', [D.REBIND, Pp(0), [[[ek(0)], val]]], 0), ('rebind-insert', [D.REBIND, Pp(0), [[[ek(0)], [2, val]]]], 0), ('construction', None, 0)]
        else:
          paths = [('setattr', [D.OSET, Pp(0), ek('x'), val], 'x'), ('rebind', [D.REBIND, Pp(0), [[[ek('x')], val]]], 'x'), ('construction', None, 'x')]
        for cname, c in contents:
          n += 1
          chosen = [paths[n % len(paths)]] if not full else [paths[n % len(paths)], paths[(n + 3) % len(paths)]] if grid else paths
          for pname, op, child in chosen:
            try:
              sender = troot(0 if shape == 'dict' else 1, sref, wrap(c))
              if op is None:
                roots = [sender, [2, kind_, rref, [0, 1, 0], [[ek(key), [1, 0, []]]]]]; ri = 1; steps = []
              else:
                roots = [troot(kind_, rref, init), sender]; ri = 0; steps = [(NS, op)]
              if later is not None:
                steps.append((NS, [D.DSET, Pp(ri, child), 0, ek('v'), PV(later)] if shape == 'dict' else [D.LAPPEND, Pp(ri, child), PV(later)]))
              out.append(('typed-sender/%s/%s/%s/%s/%s' % (rname, shape, recv, pname, cname), mkcase(tb, roots, steps)))
            except (ValueError, c04.Unrenderable):
              continue
  return out

def ref_sweep_cases(rng):
  """Symbolic values handed over by reference (correspondence): every member spec kind x receiver {Dict field, dynamic key, List element,
  Object attribute} x sender {an object, an untyped dict, an untyped list, a typed dict / list bound to the very spec the field binds,
  the same with the other allow_partial flag, a child of another tree (copied on the way)} x write path.  -> [(label, case)]"""
  T = pg().typing
  out = []
  for kname, k in sweep_kinds():
    try:
      ktree = Table.tree(k)
    except ValueError:
      continue
    kspec = c04.build(ktree)
    good = [v for v in c04.values_for(ktree, rng, limit=30) if v != [1] and c04.accepts(kspec, v, False)]
    if not good: continue
    g0 = good[0]
    own = [v for v in good if v[0] in (6, 8)]          # a dict / list the member spec itself accepts (for the typed sender)
    for recv in ('Dict', 'Dict-dyn', 'List', 'Object'):
      try:
        if recv == 'Object':
          tb = Table((T.Dict([('x', copy.deepcopy(k)), ('y', T.Int(default=0))]), None, None)); rref = tb.cls[0]
        elif recv == 'List':
          tb = Table(); rref = tb.add(T.List(copy.deepcopy(k), max_size=3))
        else:
          tb = Table(); rref = tb.add(T.Dict([('a' if recv == 'Dict' else T.StrKey(), copy.deepcopy(k)), ('b', T.Int(default=0))]))
        kref = tb.add(k) if ktree[0] in (5, 7) else 0
      except ValueError:
        continue
      key = {'Dict': 'a', 'Dict-dyn': 'a', 'List': 0, 'Object': 'x'}[recv]
      kind_ = {'Dict': 0, 'Dict-dyn': 0, 'List': 1, 'Object': 2}[recv]
      init = [6, [g0]] if recv == 'List' else [8, [[S(key), g0]]]
      obj = lambda c: troot(2 + c, tb.cls[c], {'x': 1})
      # (name, further roots (slots 1..), steps before the write, the value)
      senders = [('object', [obj(1)], [], [1, 1, []]), ('untyped-dict', [[0, D.mk({'q': 1})]], [], [1, 1, []]), ('untyped-list', [[0, D.mk([1])]], [], [1, 1, []]),
                 ('child-of-another-tree', [[0, D.mk({'k': {'q': 1}})]], [], [1, 1, [ek('k')]]),
                 ('object-child-of-another-tree', [[0, D.mk({'k': 1})], obj(1 if recv == 'Object' else 0)], [(NS, [D.DSET, Pp(1), 0, ek('o'), [1, 2, []]])], [1, 1, [ek('o')]])]
      if kref and own:
        sk = 0 if ktree[0] == 7 else 1
        senders += [('typed-same-spec', [[1, sk, kref, [0, 1, 0], own[0]]], [], [1, 1, []]), ('typed-same-spec-partial', [[1, sk, kref, [0, 1, 1], own[0]]], [], [1, 1, []])]
      for sname, sroots, pre, val in senders:
        if recv in ('Dict', 'Dict-dyn'):
          paths = [('setitem', [D.DSET, Pp(0), 0, ek(key), val]), ('setattr', [D.DSET, Pp(0), 1, ek(key), val]), ('setdefault-new', [D.DSETDEFAULT, Pp(0), ek('z'), val]),
                   ('update', [D.DUPDATE, Pp(0), [[ek('b'), PV(1)], [ek(key), val]]]), ('ior', [D.DIOR, Pp(0), [[ek(key), val]]]),
                   ('rebind', [D.REBIND, Pp(0), [[[ek(key)], val], [[ek('b')], PV(2)]]])]
        elif recv == 'List':
          paths = [('setitem', [D.LSET, Pp(0), 0, val]), ('append', [D.LAPPEND, Pp(0), val]), ('insert', [D.LINSERT, Pp(0), 0, val]),
                   ('extend', [D.LEXTEND, Pp(0), [[3, g0], val]]), ('iadd', [D.LIADD, Pp(0), [val]]), ('add', [D.LADD, Pp(0), [val]]),
                   ('rebind', [D.REBIND, Pp(0), [[[ek(0)], val]]]), ('rebind-insert', [D.REBIND, Pp(0), [[[ek(0)], [2, val]]]])]
        else:
          paths = [('setattr', [D.OSET, Pp(0), ek('x'), val]), ('rebind', [D.REBIND, Pp(0), [[[ek('y')], PV(1)], [[ek('x')], val]]])]
        for partial in (0, 1):
          root = [1, kind_, rref, [0, 1, partial], init]
          for pname, op in paths:
            # afterwards: a write into the sender's old slot (or what is left there), and a copy of the receiver
            out.append(('by-reference/%s/%s/%s/%s%s' % (kname, recv, sname, pname, '/partial' if partial else ''),
                        mkcase(tb, [root] + sroots, pre + [(NS, op), (NS, [D.DSET, Pp(1), 0, ek('w'), PV(1)]), (NS, [D.CLONE, Pp(0), 0])])))
  return out

def nested_object_cases():
  """Objects inside objects (Object specs of the case's own classes: ObjB.x : Object(ObjA), ObjC.x : Object(ObjB)) and in typed lists /
  dicts: a subtree is made partial under allow_partial(True) at depth 1 or 2 (or not at all), before or after the derived facts of its
  ancestors were asked for (priming, entry 8 of the quirk list), and is then handed -- by reference, it has no parent -- to an Object field
  of a container outside the scope (refused: not fully bound) or inside it (accepted).  -> [(label, case)]"""
  T = pg().typing
  OA, OB = ensure_case_classes()[:2]
  schA = T.Dict([('x', T.Int()), ('y', T.Any(default=None))])
  schB = T.Dict([('x', T.Object(OA).noneable()), ('y', T.Any(default=None)), ('z', T.Any(default=None))])
  schC = T.Dict([('x', T.Object(OB).noneable())])
  out = []
  PART = D.sc(partial=[True])
  MISS = PV(MISSING())
  for recv in ('ObjC.x', 'List', 'Dict', 'Union-field'):
    tb = Table((schA, schB, schC))
    if recv == 'List': rref = tb.add(T.List(T.Object(OB), max_size=3)); rroot = troot(1, rref, [])
    elif recv == 'Dict': rref = tb.add(T.Dict([('m', T.Object(OB).noneable())])); rroot = troot(0, rref, {})
    elif recv == 'Union-field': rref = tb.add(T.Dict([('m', T.Union([T.Int(), T.Object(OB)]).noneable())])); rroot = troot(0, rref, {})
    else: rroot = troot(4, tb.cls[2], {})
    roots = [troot(2, tb.cls[0], {'x': 1}), troot(3, tb.cls[1], {}), rroot]          # a, b, receiver
    val = [1, 1, []]
    if recv == 'ObjC.x':
      writes = [('setattr', [D.OSET, Pp(2), ek('x'), val]), ('rebind', [D.REBIND, Pp(2), [[[ek('x')], val]]])]
    elif recv == 'List':
      writes = [('append', [D.LAPPEND, Pp(2), val]), ('insert', [D.LINSERT, Pp(2), 0, val]), ('extend', [D.LEXTEND, Pp(2), [val]]), ('iadd', [D.LIADD, Pp(2), [val]]),
                ('rebind', [D.REBIND, Pp(2), [[[ek(0)], val]]])]
    else:
      writes = [('setitem', [D.DSET, Pp(2), 0, ek('m'), val]), ('setattr', [D.DSET, Pp(2), 1, ek('m'), val]), ('update', [D.DUPDATE, Pp(2), [[ek('m'), val]]]),
                ('rebind', [D.REBIND, Pp(2), [[[ek('m')], val]]])]
    holes = [('complete', []), ('depth-2-rebind', [(PART, [D.REBIND, Pp(1), [[[ek('x'), ek('x')], MISS]]])]),
             ('depth-2-setattr', [(PART, [D.OSET, Pp(1, 'x'), ek('x'), MISS])]),
             ('depth-2-then-filled', [(PART, [D.OSET, Pp(1, 'x'), ek('x'), MISS]), (NS, [D.OSET, Pp(1, 'x'), ek('x'), PV(2)])])]
    for hname, hsteps in holes:
      for wname, wop in writes:
        for wscope, wsn in ((NS, 'outside'), (PART, 'inside')):
          for prime in (0, 1):
            steps = [(NS, [D.OSET, Pp(1), ek('x'), [1, 0, []]])] + hsteps + [(wscope, wop), (NS, [D.CLONE, Pp(2), 0])]
            c = mkcase(tb, roots, steps)
            out.append(('nested-object/%s/%s/%s/%s/%s' % (recv, hname, wname, wsn, 'primed' if prime else 'unprimed'), c, prime))
    # depth 1: the object itself lacks a required attribute
    for wscope, wsn in ((NS, 'outside'), (PART, 'inside')):
      for prime in (0, 1):
        steps = [(PART, [D.OSET, Pp(0), ek('x'), MISS]), (wscope, [D.OSET, Pp(1), ek('x'), [1, 0, []]]), (NS, [D.CLONE, Pp(1), 0])]
        out.append(('nested-object/%s/depth-1/setattr/%s/%s' % (recv, wsn, 'primed' if prime else 'unprimed'), mkcase(tb, roots, steps), prime))
  return out

# ---- fields with a user transform (outside the spec vocabulary of the model: checked directly) --------------------------------------
def transform_field_checks():
  """Every write path into a Dict / List / Object whose member spec has a user transform: a value the transform-free twin of the spec
  refuses must be refused and leave the content as it was; an accepted one must be stored in a form the twin accepts.
  -> [(label, problem or None)]"""
  P = pg(); T = P.typing
  ident = lambda v: v
  def plain_tr(v):       # a transform that hands back a plain copy (list / dict), as `transform=list` does
    return list(v) if isinstance(v, list) else dict(v) if isinstance(v, dict) else v
  kinds0 = [('List-max_size', lambda tr: T.List(T.Int(), max_size=2, transform=tr), [1], [[6, 7, 8], ['a'], 5]),
           ('List-element', lambda tr: T.List(T.Int(min_value=0), transform=tr), [2], [[-1], 'x']),
           ('Dict-schema', lambda tr: T.Dict([('a', T.Int())], transform=tr), {'a': 1}, [{'a': 'bad'}, {'zz': 1}, [1]]),
           ('Int-range', lambda tr: T.Int(min_value=0, max_value=5, transform=tr), 3, [9, 'a']),
           ('Str', lambda tr: T.Str(transform=tr), 'a', [1])]
  out0 = []
  for tn, t in (('identity', ident), ('plain-copy', plain_tr)):
    label = 'transform-field/Dict-extended-after-set_default/%s/spec.apply/{a: 50}' % tn
    problem = None
    try:
      child = T.Dict(transform=t).set_default({'a': 1})
      child.extend(T.Dict([('a', T.Int(max_value=10))]))
      try:
        child.apply({'a': 50}); problem = "{'a': 50} was accepted against the inherited Int(max_value=10)"
      except (TypeError, ValueError, KeyError):
        pass
      child.apply({'a': 5})
    except Exception as e:      # pylint: disable=broad-except
      problem = problem or 'raised %s: %s' % (type(e).__name__, str(e)[:80])
    out0.append((label, problem))
    label = 'transform-field/List-frozen-after-construction/%s/spec.apply/[3]' % tn
    problem = None
    try:
      sp = T.List(T.Int(), transform=t); sp.apply([1]); sp.extend(T.List(T.Int(max_value=2)))
      try:
        sp.apply([3]); problem = '[3] was accepted after the element was narrowed to Int(max_value=2)'
      except (TypeError, ValueError, KeyError):
        pass
    except Exception as e:      # pylint: disable=broad-except
      problem = problem or 'raised %s: %s' % (type(e).__name__, str(e)[:80])
    out0.append((label, problem))
  # a frozen container field: every instance gets its own copy of the frozen value (writing into one does not change the schema)
  for cname, mkf, write in (('List', lambda: T.List(T.Int()).freeze([1, 2]), lambda v: v.append(3)), ('Dict', lambda: T.Dict([('b', T.Int())]).freeze({'b': 1}), lambda v: v.__setitem__('b', 2))):
    label = 'transform-field/frozen-default/-/shared-default-object/%s' % cname
    problem = None
    try:
      class Fz(P.Object):
        x: mkf()
      a, b = Fz(), Fz()
      try: write(a.x)
      except Exception:     # pylint: disable=broad-except
        pass
      dflt = Fz.__schema__.get_field('x').value.default
      if plain(b.x) != plain(mkf().default) or plain(dflt) != plain(mkf().default) or plain(Fz().x) != plain(mkf().default):
        problem = 'a write into the frozen %s of one instance changed the frozen value of the class: %s' % (cname, P.format(dflt, compact=True)[:60])
    except Exception as e:      # pylint: disable=broad-except
      problem = 'raised %s: %s' % (type(e).__name__, str(e)[:80])
    out0.append((label, problem))
  # a refused use_value_spec leaves the value as it was (not bound to the spec it violates)
  for cname, mkv, mks in (('List', lambda: P.List([5, 'a']), lambda: T.List(T.Int())), ('Dict', lambda: P.Dict(a='x', b=2), lambda: T.Dict([('a', T.Int()), ('c', T.Int(default=7))])),
                          ('Dict-nested', lambda: P.Dict(x=P.Dict(a='bad'), c=1), lambda: T.Dict([('c', T.Int()), ('x', T.Dict([('a', T.Int())]))]))):
    label = 'transform-field/use_value_spec/-/refused/%s' % cname
    problem = None
    try:
      v = mkv(); before = plain(v)
      try:
        v.use_value_spec(mks(), allow_partial=True); problem = 'the content was accepted'
      except (TypeError, ValueError, KeyError):
        inner = [x for x in (v.sym_values() if isinstance(v, P.Dict) else []) if isinstance(x, (P.Dict, P.List))]
        if v.value_spec is not None or any(x.value_spec is not None for x in inner): problem = 'the refused value stays bound to the spec it violates'
        elif v.allow_partial: problem = 'the refused value keeps the allow_partial flag of the failed call'
        elif not same_value_unordered(plain(v), before): problem = 'the content of the refused value changed: %s' % P.format(v, compact=True)[:60]
    except Exception as e:      # pylint: disable=broad-except
      problem = 'raised %s: %s' % (type(e).__name__, str(e)[:80])
    out0.append((label, problem))
  kinds = [(n + '/' + tn, (lambda tr, mk=mk, t=t: mk(t if tr is not None else None)), good, bads)
           for n, mk, good, bads in kinds0 for tn, t in (('identity', ident), ('plain-copy', plain_tr))]
  out = []
  for kname, mk, good, bads in kinds:
    try:
      twin = mk(None)
    except TypeError:
      continue
    class Base(P.Object):
      x: mk(None)
    Sub = P.members([('x', mk(ident))])(type('Sub', (Base,), {}))        # the transform comes with the subclass, the bounds are inherited
    def containers():
      d = P.Dict(value_spec=T.Dict([('x', mk(ident))]), x=copy.deepcopy(good))
      l = P.List([copy.deepcopy(good)], value_spec=T.List(mk(ident), max_size=3))
      o = Sub(x=copy.deepcopy(good))
      return d, l, o
    paths = [('Dict.setitem', lambda d, l, o, v: d.__setitem__('x', v), 0), ('Dict.setattr', lambda d, l, o, v: setattr(d, 'x', v), 0),
             ('Dict.update', lambda d, l, o, v: d.update({'x': v}), 0), ('Dict.rebind', lambda d, l, o, v: d.rebind(x=v), 0),
             ('Dict.construction', lambda d, l, o, v: P.Dict(value_spec=T.Dict([('x', mk(ident))]), x=v), None),
             ('List.setitem', lambda d, l, o, v: l.__setitem__(0, v), 1), ('List.append', lambda d, l, o, v: l.append(v), 1),
             ('List.insert', lambda d, l, o, v: l.insert(0, v), 1), ('List.extend', lambda d, l, o, v: l.extend([v]), 1),
             ('List.construction', lambda d, l, o, v: P.List([v], value_spec=T.List(mk(ident))), None),
             ('Object.rebind', lambda d, l, o, v: o.rebind(x=v), 2), ('Object.construction', lambda d, l, o, v: Sub(x=v), None)]
    for pname, write, which in paths:
      for bad in bads:
        label = 'transform-field/%s/%s/%r' % (kname, pname, bad)
        cs = containers()
        before = [plain(c) if not isinstance(c, P.Object) else plain(c.sym_init_args) for c in cs]
        problem = None
        try:
          made = write(*cs, copy.deepcopy(bad))
          tgt = made if which is None else cs[which]
          problem = 'the value %r was accepted: %s' % (bad, P.format(tgt, compact=True)[:120])
        except (TypeError, ValueError, KeyError):
          after = [plain(c) if not isinstance(c, P.Object) else plain(c.sym_init_args) for c in cs]
          if not same_value_unordered(before, after):
            problem = 'the write of %r was refused but the content changed' % (bad,)
        except Exception as e:      # pylint: disable=broad-except
          problem = 'the write of %r raised %s' % (bad, type(e).__name__)
        out.append((label, problem))
      cs = containers()
      label = 'transform-field/%s/%s/valid' % (kname, pname)
      problem = None
      try:
        made = write(*cs, copy.deepcopy(good))
        tgt = made if which is None else cs[which]
        stored = tgt.x if not isinstance(tgt, P.List) else tgt[-1] if pname in ('List.append', 'List.extend') else tgt[0]
        twin.apply(plain(stored))
      except Exception as e:        # pylint: disable=broad-except
        problem = 'a valid value is refused or stored in a form its spec refuses (%s: %s)' % (type(e).__name__, str(e)[:80])
      out.append((label, problem))
      # ... and the stored container checks later writes into it
      if problem is None and isinstance(stored, (P.List, P.Dict)):
        label = 'transform-field/%s/%s/later-write' % (kname, pname)
        problem = None
        try:
          if stored.value_spec is None:
            problem = 'the stored %s carries no value spec' % type(stored).__name__
          else:
            try:
              if isinstance(stored, P.List): stored.append('not-an-int')
              else: stored['a'] = 'not-an-int'
              problem = 'a write into the stored value that its spec refuses was accepted: %s' % P.format(stored, compact=True)[:80]
            except (TypeError, ValueError, KeyError):
              pass
        except Exception as e:      # pylint: disable=broad-except
          problem = 'checking the stored value raised %s' % type(e).__name__
        out.append((label, problem))
  return out0 + out

# ---- the check ---------------------------------------------------------------------------------------------------
ERR_NAMES = {1: 'WritePermissionError', 2: 'KeyError', 3: 'IndexError', 4: 'TypeError', 5: 'ValueError', 6: 'AssertionError', 7: 'AttributeError',
             9: 'other', 97: 'hang', 99: 'not-applicable'}

def describe_diff(case, a, b):
  d = dict(case=trlib.to_line(case)[:3000])
  if a is None or b is None or not isinstance(b, list) or len(b) != 3:
    d['difference'] = 'no outcome from %s' % ('the implementation' if a is None else 'the model')
    return d
  if a[0] != b[0]:
    d.update(difference='construction outcomes', implementation=a[0], model=b[0]); return d
  if a[1] != b[1]:
    d['difference'] = 'initial forest'; return d
  for n, (x, y) in enumerate(zip(a[2], b[2])):
    if x != y:
      op = case[4][n][1]
      d.update(step=n, op=OP_NAMES.get(op[0], op[0]), differs='result' if x[0] != y[0] else 'snapshot',
               implementation=trlib.to_line(x[0] if x[0] != y[0] else x[1])[:1200], model=trlib.to_line(y[0] if x[0] != y[0] else y[1])[:1200])
      return d
  return d

def py_snippet(case, guard=True):
  return ('import sys; sys.path[:0] = ["/verif", "/repo"]\nfrom harness.props import c03\nfrom harness.lib import tr\n'
          'case = tr.parse_line(%r)\norc = c03.Oracle()\nc03.run_case(case, after_step=orc, after_init=orc.after_init, guard=%r)\nprint(orc.hits)\n'
          % (trlib.to_line(case), guard))

def spec_kinds_of(case):
  ks = set()
  for t in case[1]:
    walk_spec(t, lambda s, it: ks.add(c04.KIND[s[0]] + ('.frozen' if s[-1][2] else '') + ('.default' if s[-1][1] else '') + ('.noneable' if s[-1][0] else '')))
  return ks

def run_one(ctx, case, kind, guard, impl_outs, sample_ok=True):
  """Runs one case on the implementation with the oracle attached; records hits and histograms.  -> outcome tree or None"""
  orc = Oracle()
  try:
    out = run_case(case, after_step=orc, after_init=orc.after_init, guard=guard)
  except Exception as e:       # the driver itself failed: fail closed
    out = None
    ctx.broken.append(dict(kind='driver-crash', name=type(e).__name__, detail=repr(e)[:300] + ' on ' + trlib.to_line(case)[:600]))
  for sig, what, step in orc.hits:
    ctx.hit(sig, what, dict(case=trlib.to_line(case), step=step, guard=guard, snippet=py_snippet(case, guard)))
  for k, v in orc.stats.items():
    ctx.extra.setdefault('oracle_stats', {}); ctx.extra['oracle_stats'][k] = ctx.extra['oracle_stats'].get(k, 0) + v
  nontrivial = False
  if out is not None:
    for init in out[0]:
      ctx.hist('construction', 'ok' if init == 0 else ERR_NAMES.get(init, init))
    for (sc_, op), (res, snap) in zip(case[4], out[2]):
      typed = False
      for r in snap:
        if r and r[0][3][3] != 0: typed = True
      ctx.hist('operations', OP_NAMES.get(op[0], op[0]))
      ctx.hist('outcomes', 'ok' if res[0] == 0 else ERR_NAMES.get(res[1], res[1]))
      ctx.hist('scopes', 'none' if not any(sc_) else ('partial ' if sc_[3] else '') + ('other' if any(sc_[:3]) else ''))
      if op[0] in D.MUTATING and typed and (res[0] == 0 or res[1] in SCHEMA_ERRORS):
        nontrivial = True
    if not case[4] and any(r and r[0][3][3] != 0 for r in out[1]):
      nontrivial = True
    for k in spec_kinds_of(case): ctx.hist('spec_kinds', k)
    ctx.hist('steps_per_case', len(case[4]))
  ctx.count(trlib.to_line(case), nontrivial=nontrivial, kind=kind.split(':')[0],
            sample=dict(kind=kind, case=trlib.to_line(case)[:900]) if (sample_ok and nontrivial and kind == 'random' and len(ctx.samples) < 4) or len(ctx.samples) < 1 else None)
  impl_outs.append(out)
  return out

def run(ctx):
  ctx.build()
  t0 = time.time()
  rng = ctx.rng
  base_quirks = D.quirk_flags()
  # --- open findings: replayed first.  One of them has a flag in the model (a value that its own spec does not map to itself is
  # stored all the same); the others lie outside the vocabulary of the model or outside the hypotheses of the theorems.
  nonfix = 0
  for name, case in open_witnesses().items():
    case[0] = list(base_quirks) + [1]
    orc = Oracle()
    try:
      run_case(case, after_step=orc, after_init=orc.after_init, guard=False)
    except Exception as e:       # pylint: disable=broad-except
      ctx.broken.append(dict(kind='driver-crash', name=type(e).__name__, detail='witness %s: %r' % (name, e)))
    ctx.extra.setdefault('open_witnesses', {})[name] = [h[0] for h in orc.hits] or 'holds now'
    for sig, what, step in orc.hits:
      ctx.hit(sig, what, dict(case=trlib.to_line(case), step=step, guard=False, snippet=py_snippet(case, False)))
      if sig == NONFIX_SIGNATURE: nonfix = 1
  tq = typing_quirks()
  quirks = list(base_quirks) + [nonfix] + tq
  ctx.extra['typing_quirk_flags'] = dict(zip([n for n, _ in c04.QUIRKS], tq))
  ctx.extra['quirk_flags'] = dict(copy_drops_missing=quirks[0], stores_non_fixpoint=nonfix)
  # --- cases for the correspondence (model vocabulary; the guard answers 'not applicable' on both sides for the rest)
  cases, kinds, impl_outs = [], [], []
  for name, (c, guard) in corpus().items():
    c[0] = list(quirks)
    if guard:
      cases.append(c); kinds.append('corpus:' + name)
    else:
      run_one(ctx, c, 'corpus-oracle-only:' + name, False, [])
  sweep = sweep_cases(rng)
  keep = 1.0 if ctx.thorough else 0.2
  for lab, c in sweep:
    if rng.random() < keep:
      c[0] = list(quirks); cases.append(c); kinds.append('sweep:' + lab)
  ctx.extra['sweep'] = dict(total=len(sweep), run=sum(1 for k in kinds if k.startswith('sweep')), exhaustive=bool(ctx.thorough))
  # values handed over by reference: the cases the model covers (an object; an untyped dict / list into a field that routes it to Any
  # or takes none; a typed dict / list that carries the spec the field binds) and, answered 'not applicable' on both sides, the others
  rsweep = ref_sweep_cases(rng)
  tsweep = [(lab, c) for lab, c in typed_sender_cases(rng, bool(ctx.thorough)) if all(r[0] != 2 for r in c[3]) and all(op[0] != LSETSLICE for _, op in c[4])]
  for lab, c in rsweep + tsweep:
    if lab.startswith('typed-sender/bounds/') and rng.random() > 0.3: continue      # (the bound grid runs in full through the oracle below)
    if ctx.thorough or rng.random() < 0.1:
      c[0] = list(quirks); cases.append(c); kinds.append('sweep-by-reference:' + lab.split('/')[0])
  nested = nested_object_cases()
  for lab, c, prime in nested:
    c[0] = list(quirks) + [prime]; cases.append(c); kinds.append('sweep-nested-objects')
  ctx.extra['sweep_nested_objects'] = dict(cases=len(nested))
  ctx.extra['sweep_by_reference'] = dict(total=len(rsweep) + len(tsweep), run=sum(1 for k in kinds if k.startswith('sweep-by-reference')), exhaustive=bool(ctx.thorough))
  n = ctx.scale(900, 17000)
  gens = [(TGen(rng, quirks), 'random', 0.6), (TGen(rng, quirks, p_invalid=0.5), 'random-invalid', 0.2),
          (TGen(rng, quirks, focus={D.REBIND, D.DUPDATE, D.LEXTEND, D.LIADD, D.LIMUL, D.DCLEAR, D.LCLEAR, D.DPOP, D.LPOP, D.LDEL}), 'batch-and-removal', 0.2)]
  for g, kind, w in gens:
    for _ in range(int(n * w)):
      cases.append(g.case(rng.choice([4, 8, 10, 12]))); kinds.append(kind)
  for case, kind in zip(cases, kinds):
    if len(case[0]) < 8: case[0] = list(case[0]) + [rng.randrange(2)]      # entry 8: the derived facts of every node are asked for after every step
    run_one(ctx, case, kind, True, impl_outs)
  ctx.log('implementation ran %d cases in %.1fs' % (len(cases), time.time() - t0))
  model_outs = ctx.model_run(cases)
  # Open finding (Union result dispatched to another candidate): from the first point at which a value that its own field does not
  # map to itself is stored, the code's behaviour depends on how often each write path happens to re-apply the field (a constructor
  # and a copy apply twice, __setitem__ once).  The model is run a second time with the flag off (there such a store is an error);
  # where the two model runs part is that point, and the history is compared up to it.  Nothing is cut once the finding is repaired.
  if nonfix:
    strict = ctx.model_run([[c[0][:1] + [0] + c[0][2:]] + c[1:] for c in cases], vm_sample=0)
    cut = dict(histories=0, at_construction=0, steps_dropped=0)
    for i, (b, b0) in enumerate(zip(model_outs, strict)):
      if b == b0 or not (isinstance(b, list) and len(b) == 3 and isinstance(b0, list) and len(b0) == 3): continue
      cut['histories'] += 1
      a = impl_outs[i]
      if b[0] != b0[0] or b[1] != b0[1]:
        cut['at_construction'] += 1; cut['steps_dropped'] += len(b[2])
        impl_outs[i] = model_outs[i] = [[], [], []]      # not compared
        continue
      j = next(k for k, (x, y) in enumerate(zip(b[2], b0[2])) if x != y)
      cut['steps_dropped'] += len(b[2]) - j
      model_outs[i] = [b[0], b[1], b[2][:j]]
      if isinstance(a, list) and len(a) == 3: impl_outs[i] = [a[0], a[1], a[2][:j]]
    ctx.extra['compared_up_to_first_non_fixpoint_store'] = cut
  diffs = {}
  for c, a, b in zip(cases, impl_outs, model_outs):
    if a != b:
      diffs[id(c)] = describe_diff(c, a, b)
  bad = ctx.compare('SymCoreTyped.run vs typed pg.Dict / pg.List / pg.Object (construction outcomes, result and snapshot with bound specs of every root after every step)',
                    cases, impl_outs, model_outs, describe=lambda c: diffs.get(id(c)))
  # --- oracle only (wall-clock budget in the quick tier: what is skipped is reported)
  deadline = None if ctx.thorough else t0 + 100.0
  skipped = {}
  # typed values (a pg.Dict / pg.List that carries its own value spec) handed to typed fields, every relation between the two specs x
  # every write path incl. construction x content inside / outside the field's spec, then a write into the stored child
  t2 = time.time()
  ts = typed_sender_cases(rng, bool(ctx.thorough))
  done = 0
  for lab, c in ts:
    if deadline and time.time() > deadline: break
    c[0] = list(quirks)
    run_one(ctx, c, 'typed-sender:' + lab.split('/')[1], False, [], sample_ok=False); done += 1
  if done < len(ts): skipped['typed_sender_sweep'] = len(ts) - done
  ctx.extra['typed_sender_sweep'] = dict(cases=done, relations=len(typed_sender_relations()), exhaustive=bool(ctx.thorough))
  ctx.log('typed values into typed fields: %d cases in %.1fs' % (done, time.time() - t2))
  # symbolic values written into typed containers, slice assignment, frozen containers (outside the model)
  t1 = time.time()
  wild = TGen(rng, quirks)
  nw = ctx.scale(250, 5000)
  done = 0
  for _ in range(nw):
    if deadline and time.time() > deadline: break
    wc = wild.case(rng.choice([4, 8, 10]), wild=True)
    wc[0] = list(quirks) + [rng.randrange(2)]
    run_one(ctx, wc, 'oracle-only', False, [], sample_ok=False); done += 1
  if done < nw: skipped['oracle_only_histories'] = nw - done
  ctx.log('oracle-only histories: %d in %.1fs' % (done, time.time() - t1))
  if skipped: ctx.extra['skipped_for_wall_clock'] = skipped
  # fields with a user transform: every write path, directly (they are outside the spec vocabulary of the cases)
  tfc = transform_field_checks()
  for label, problem in tfc:
    ctx.count(label, nontrivial=True, kind='transform-field')
    if problem:
      parts = label.split('/')
      ctx.hit('C03/member-rejected/%s/transform-field' % parts[3], '%s: %s' % (label, problem), dict(kind='transform-field', label=label))
  ctx.extra['transform_field_checks'] = dict(checks=len(tfc), problems=sum(1 for _, p in tfc if p))
  ctx.extra['corpus_cases'] = len(corpus())
  # --- violation search when something is broken and the oracle has not hit: more histories biased to the op kinds that disagree
  if ctx.is_broken() and not ctx.hits:
    ops = set()
    for i in bad[:50]:
      d = diffs.get(id(cases[i])) or {}
      ops |= {t for t, nm in OP_NAMES.items() if nm == d.get('op')}
    g = TGen(rng, quirks, p_invalid=0.4, focus=ops or set(D.MUTATING))
    for k in range(ctx.scale(1500, 12000)):
      run_one(ctx, g.case(8, wild=(k % 2 == 1)), 'search', k % 2 == 0, [], sample_ok=False)
      if ctx.hits: break

def replay(ctx, rp):
  c = rp['case']
  if c.get('kind') == 'transform-field':
    bad = [(l, p) for l, p in transform_field_checks() if l == c['label'] and p]
    for l, p in bad: print('  still fails:', l, '|', p)
    return not bad
  case = trlib.parse_line(c['case'])
  orc = Oracle()
  run_case(case, after_step=orc, after_init=orc.after_init, guard=bool(c.get('guard', True)))
  for h in orc.hits:
    print('  still fails:', h[0], '|', h[1])
  return not orc.hits

"""C08 — write protection: sealed or accessor-protected values cannot be changed."""
from harness.props import symcore_driver as D

META = dict(
    id='C08',
    model_run='PG.Model.SymCore.run',
    runner_name='SymCore',
    model_targets=['Model/SymCore.vo'],
    technique='Coq proof over the SymCore model (every mutating operation of an enumerated op type returns (s, Err WritePermission) on a protected target; '
              'deep seal by structural induction; scope precedence) + step-level correspondence against pg.Dict/pg.List/pg.Object under all flag/scope '
              'combinations + exhaustive surface-completeness sweep of every callable attribute + direct oracle (error class and unchanged forest)',
    design_ref='DESIGN.md §5 C08, design/C08.md',
    level_text=('Theorems (any forest, any scope stack): for every operation of the enumerated `mutating` set whose target (for rebind: the owner of a written key, '
                'for an Object also the object itself) is treated as sealed, step returns the unchanged state and WritePermission; accessor operations on a '
                'non-writable target likewise, while rebind ignores the accessor flag; seal(b) sets the flag of every node below; the innermost scope override '
                'takes precedence over the per-object flag; slice assignment / slice deletion (C02 extension of the model) on a list treated as sealed or with '
                'non-writable accessors return the unchanged state and WritePermission (C08_slice_write_refused). Tie: correspondence of the model with the implementation on generated histories with sealed / '
                'accessor-protected nodes and nested scopes; every callable attribute of pg.List / pg.Dict / pg.Object instances and of the list/dict bases '
                'is classified read-only or mapped to a model operation (exhaustive, run every time; pg.functor objects included); protection is re-checked on every '
                'copy route (clone shallow/deep, copy.copy/deepcopy, children of copied containers, from_json(to_json)) of sealed / accessor-protected values and '
                'through every public view that hands out a part of the value (discovered with dir(): e.g. sym_init_args), every mutator; protection as a state invariant '
                'over generated histories on typed and untyped containers, objects and functors (flags of every node equal a harness shadow after every step, behavioural '
                're-probe of every protected node at the end); direct oracle on every step.'),
    level_note=('Trusted: Coq kernel; extraction cross-checked against vm_compute; driver/generator; the classification table of read-only attributes in c08.py '
                '(each entry is additionally executed on a sealed instance and must leave it unchanged). Slice assignment / deletion are modelled by the C02 extension (tied by the C02 correspondence; here classified and executed in the surface sweep). Not modelled: '
                'value specs, sym_setparent/sym_setpath/sym_setorigin/use_value_spec plumbing (excluded by name with reason).'),
    rule='a case is (forest literal, list of (scope stack, operation)); non-trivial when a mutating operation is attempted on a target that is treated as sealed or is not accessor-writable',
    trusted_base=['extraction: ExtrOcamlBasic only; ocaml/main.ml lexer/printer; cross-checked against vm_compute on a sample',
                  'implementation driver harness/props/symcore_driver.py and generator symcore_gen.py', 'read-only classification table in harness/props/c08.py (executed, not only listed)'],
    assumptions=['protection is decided by the flag of the written container (and the scope): a descendant that the user explicitly unsealed below a sealed ancestor is writable (design/C08.md)'],
)

# mutators that (also) go through the accessor check
ACCESSOR_DEPENDENT = D.ACCESSOR_OPS | {D.LREMOVE, D.DSETDEFAULT}

def leaf_enc(impl, v):
  return impl.enc_leaf(v, None)

def own_items(impl, o):
  """What a sealed container itself holds: its flags, keys, leaf values and the identities of its symbolic children
  (a child that was explicitly unsealed may legitimately change below it)."""
  return ([o.is_sealed, o.accessor_writable, o.allow_partial],
          [(repr(k), id(v) if D.is_sym(v) else tuple(impl.enc_leaf(v, None))) for k, v in D.sym_children(o)])

def would_change(impl, target, op):
  """True only when the operation certainly changes the target if it is allowed to run (syntactic, conservative)."""
  tag = op[0]
  P = D.pg()
  def is_missing_leaf(v):
    return v[0] == 0 and v[1][0] == 0 and v[1][1] == [4]
  def is_node_lit(v):
    return v[0] == 0 and v[1][0] == 1
  n = len(target) if isinstance(target, (list, dict)) else 0
  if tag == D.LAPPEND: return not is_missing_leaf(op[2])
  if tag == D.LINSERT: return True
  if tag in (D.LEXTEND, D.LIADD): return any(not is_missing_leaf(v) for v in op[2])
  if tag == D.LCLEAR or tag == D.DCLEAR or tag == D.DPOPITEM: return n > 0
  if tag == D.LPOP: return n > 0 and (not op[2] or -n <= op[2][0] < n)
  if tag == D.LDEL: return -n <= op[2] < n
  if tag == D.LSET: return -n <= op[2] < n and is_node_lit(op[3])
  if tag == D.LREVERSE:
    snap = impl.snap(target, target.sym_parent, None)[4]
    items = [i[1] for i in snap]
    return items != items[::-1]
  if tag == D.LIMUL: return n > 0 and op[2] != 1
  if tag == D.LREMOVE:
    v = impl.leaf(op[2])
    return any((not D.is_sym(x)) and x == v for _, x in D.sym_children(target))
  if tag == D.DSET:
    k = D.dec_key(op[3])
    return (k not in target and not is_missing_leaf(op[4])) or (k in target and is_node_lit(op[4]))
  if tag in (D.DDEL,): return D.dec_key(op[3]) in target
  if tag == D.DPOP: return D.dec_key(op[2]) in target
  if tag == D.DSETDEFAULT: return D.dec_key(op[2]) not in target and not is_missing_leaf(op[3])
  if tag in (D.DUPDATE, D.DIOR): return any(D.dec_key(k) not in target and not is_missing_leaf(v) for k, v in op[2])
  if tag == D.OSET:
    k = D.dec_key(op[2])
    return k in D.CLASS_FIELDS.get(D.kind_of(target) - 2, []) and is_node_lit(op[3])
  return False

class Oracle:
  def __init__(self):
    self.hits = []
    self.stats = dict(protected_attempts=0, accessor_attempts=0, seal_calls=0)
  def prepare(self, impl, scope, op):
    tag = op[0]
    try:
      target = impl.at(op[1])
      for v in D.op_values(op):
        self._check_refs(impl, v)
    except D.NotApplicable:
      return None
    if not D.is_sym(target):
      return None
    k = D.kind_of(target)
    if (tag in D.LIST_OPS and k != 1) or (tag in D.DICT_OPS and k != 0) or (tag in D.OBJ_OPS and k < 2):
      return None
    s_scope, a_scope = D.eff(scope[0]), D.eff(scope[1])
    sealed = lambda x: x.is_sealed if s_scope is None else s_scope
    writable = lambda x: x.accessor_writable if a_scope is None else a_scope
    owners = [target]
    if tag == D.REBIND:
      owners = [target] if k >= 2 else []
      for p, _ in op[2]:
        x = target
        ok = bool(p)
        for kk in p[:-1]:
          kk = D.dec_key(kk)
          if D.is_sym(x) and x.sym_hasattr(kk): x = x.sym_getattr(kk)
          else: ok = False; break
        if ok and D.is_sym(x): owners.append(x)
    prot = [o for o in owners if sealed(o)]
    return dict(forest=impl.snapshot(), target=target, protected=prot, s_scope=s_scope,
                prot_snaps=[own_items(impl, o) for o in prot],
                how='scope' if s_scope is not None else 'flag', ahow='scope' if a_scope is not None else 'flag',
                writable=writable(target), would_change=would_change(impl, target, op))
  def _check_refs(self, impl, v):
    if v[0] == 1: impl.at((v[1], v[2]))
    elif v[0] == 2: self._check_refs(impl, v[1])
  def __call__(self, impl, n, scope, op, res, info, before):
    if before is None:
      return
    P = D.pg()
    tag = op[0]
    name = D.OP_NAMES[tag]
    exc = info.get('exception')
    refused = isinstance(exc, P.WritePermissionError)
    after = impl.snapshot()
    changed = after != before['forest']
    def hit(clause, disc, what):
      self.hits.append(('C08/%s/%s/%s' % (clause, name, disc), what, n))
    if tag in D.MUTATING and before['protected']:
      self.stats['protected_attempts'] += 1
      if tag == D.REBIND:
        for o, s0 in zip(before['protected'], before['prot_snaps']):
          if own_items(impl, o) != s0:
            hit('sealed-changed', before['how'], 'rebind changed a container that is treated as sealed (%s)' % before['how'])
            break
      else:
        if changed:
          hit('sealed-changed', before['how'], '%s changed a value that is treated as sealed (%s); outcome %s' % (
              name, before['how'], type(exc).__name__ if exc else 'no error'))
        elif before['would_change'] and not refused:
          hit('sealed-no-error', before['how'], '%s on a sealed value raised %s instead of WritePermissionError' % (name, type(exc).__name__ if exc else 'nothing'))
    elif tag in D.ACCESSOR_OPS and not before['writable']:
      self.stats['accessor_attempts'] += 1
      if changed:
        hit('accessor-changed', before['ahow'], '%s changed a value whose accessors are not writable (%s)' % (name, before['ahow']))
      elif before['would_change'] and not refused:
        hit('accessor-no-error', before['ahow'], '%s raised %s instead of WritePermissionError' % (name, type(exc).__name__ if exc else 'nothing'))
    # the innermost scope override wins over the per-object flag: inside as_sealed(False) nothing is sealed, and with
    # writable accessors (by scope or flag) no mutator may be refused
    if refused and before['s_scope'] is False and (tag not in ACCESSOR_DEPENDENT or before['writable']):
      hit('scope-ignored', 'as_sealed(False)', '%s raised WritePermissionError inside pg.as_sealed(False) (accessor writable: %s)' % (name, before['writable']))
    if tag == D.REBIND and refused and not before['protected']:
      hit('rebind-refused', before['ahow'], 'rebind raised WritePermissionError although no written container is treated as sealed (accessor_writable=%s)' % before['writable'])
    if tag == D.SEAL and exc is None:
      self.stats['seal_calls'] += 1
      want = bool(op[2])
      bad = []
      D.walk(before['target'], lambda x, p, k: bad.append(x) if x.is_sealed != want else None)
      if bad:
        hit('seal-not-deep', 'seal(%s)' % want, 'after seal(%s) a node below (path %r) still has is_sealed=%s' % (want, str(bad[0].sym_path), bad[0].is_sealed))

def run(ctx):
  D.run_property(ctx, 'C08', Oracle, extra=surface_sweep)

def replay(ctx, rp):
  if rp.get('case', {}).get('kind') == 'surface':
    return not surface_probe_one(rp['case'])
  if rp.get('case', {}).get('kind') == 'protection':
    return not run_protection_case(rp['case'])
  if rp.get('case', {}).get('kind') == 'history':
    return not run_history_case(rp['case'])
  return D.replay_property(ctx, rp, Oracle)

# ----------------------------------------------------------------------------------------------------
# Surface completeness sweep (exhaustive, every run): every callable attribute of pg.List / pg.Dict /
# pg.Object instances and of the list / dict bases is either mapped to a model operation (MAPPED),
# classified read-only (and executed on a sealed instance: it must leave the instance unchanged), or
# excluded by name with a reason (plumbing that is not part of the mutating API).
MAPPED = {
    'List': {'__setitem__': 'LSet (slice form: executed in the sweep only)', '__delitem__': 'LDel', 'append': 'LAppend', 'insert': 'LInsert', 'extend': 'LExtend',
             'pop': 'LPop', 'remove': 'LRemove', 'clear': 'LClear', 'reverse': 'LReverse', 'sort': 'LSort', '__iadd__': 'LIAdd', '__imul__': 'LIMul',
             '__add__': 'LAdd', '__mul__': 'LMul', '__rmul__': 'LMul', 'copy': 'LCopy', 'rebind': 'Rebind', 'sym_rebind': 'Rebind', 'clone': 'Clone', 'sym_clone': 'Clone',
             '__copy__': 'Clone', '__deepcopy__': 'Clone', 'seal': 'Seal', 'sym_seal': 'Seal (non-recursive setter of the flag)', 'set_accessor_writable': 'SetAW'},
    'Dict': {'__setitem__': 'DSet', '__setattr__': 'DSet', '__delitem__': 'DDel', '__delattr__': 'DDel', 'pop': 'DPop', 'popitem': 'DPopItem', 'clear': 'DClear',
             'setdefault': 'DSetDefault', 'update': 'DUpdate', '__ior__': 'DIOr', 'copy': 'DCopy', 'rebind': 'Rebind', 'sym_rebind': 'Rebind', 'clone': 'Clone',
             'sym_clone': 'Clone', '__copy__': 'Clone', '__deepcopy__': 'Clone', 'seal': 'Seal', 'sym_seal': 'Seal (non-recursive setter of the flag)', 'set_accessor_writable': 'SetAW'},
    'Object': {'__setattr__': 'OSet', 'rebind': 'Rebind', 'sym_rebind': 'Rebind', 'clone': 'Clone', 'sym_clone': 'Clone', '__copy__': 'Clone', '__deepcopy__': 'Clone',
               'seal': 'Seal', 'sym_seal': 'Seal (non-recursive setter of the flag)', 'set_accessor_writable': 'SetAW'},
}
# a pg.functor object is a pg.Object whose arguments can also be un-bound by attribute deletion (not in the model: executed in the sweeps only)
MAPPED['Functor'] = dict(MAPPED['Object'], __delattr__='argument reset (del f.x): executed in the sweeps only')
EXCLUDED = {
    'sym_setparent': 'tree plumbing called by the containers themselves (TopologyAware interface); not a content mutator',
    'sym_setpath': 'tree plumbing called by the containers themselves (TopologyAware interface); not a content mutator',
    'sym_setorigin': 'origin tracking metadata only',
    'use_value_spec': 'schema binding (C03)',
    'custom_apply': 'pg.typing.CustomTyping interface used by value specs (C03)',
    '__init__': 'constructor', '__new__': 'constructor', '__orig_init__': 'constructor (the undecorated __init__ kept by the functor class wrapper)', '__init_subclass__': 'class machinery', '__subclasshook__': 'class machinery',
    '__setstate__': 'pickle protocol: re-runs the constructor on a blank instance', '__reduce__': 'pickle protocol', '__reduce_ex__': 'pickle protocol',
    '__getstate__': 'pickle protocol', '__class_getitem__': 'typing', '__delattr__@Object': 'object.__delattr__: symbolic fields are not instance attributes',
    'save': 'writes a file (C05)', 'load': 'class method (C05)', 'from_json': 'class method (C05)', 'partial': 'class method constructor',
    '__call__': 'user-defined behaviour',
}

def _instances():
  P = D.pg()
  A, B, C = D.classes()
  return {
      'List': lambda: P.List([1, P.Dict(a=1), [2, 3], 'x']),
      'Dict': lambda: P.Dict(a=1, b=P.Dict(c=2), l=[1, 2]),
      'Object': lambda: B(x=1, y=P.Dict(a=1), z=[1]),
      'Functor': lambda: _functor()(x=5, y=P.Dict(a=1)),
  }

def _args_for(name, kind):
  """Candidate argument tuples to call a read-only attribute with."""
  P = D.pg()
  first = {'List': 0, 'Dict': 'a', 'Object': 'x', 'Functor': 'x'}[kind]
  return [(), (first,), (first, None), (P.KeyPath(first),), ('%s' % first,), (lambda k, v, p: P.TraverseAction.ENTER,), (1,), ([1],), ({'a': 1},), (None, None)]

import contextlib as _cl, os as _os, sys as _sys
@_cl.contextmanager
def quiet():
  """Silences whatever the called attribute prints (also through file descriptors captured at import time)."""
  _sys.stdout.flush(); _sys.stderr.flush()
  saved = (_os.dup(1), _os.dup(2))
  devnull = _os.open(_os.devnull, _os.O_WRONLY)
  try:
    _os.dup2(devnull, 1); _os.dup2(devnull, 2)
    with _cl.redirect_stdout(open(_os.devnull, 'w')), _cl.redirect_stderr(open(_os.devnull, 'w')):
      yield
  finally:
    _sys.stdout.flush(); _sys.stderr.flush()
    _os.dup2(saved[0], 1); _os.dup2(saved[1], 2)
    for fd in saved + (devnull,):
      _os.close(fd)

def surface_probe_one(c):
  """Replays one sweep finding {kind:'surface', cls, name, mode}: True iff it still fails."""
  return bool(_surface_hits(only=(c['cls'], c['name']))) or bool(_mutator_hits(only=(c['cls'], c['name']))[0])

def _surface_hits(only=None):
  import io, contextlib as cl
  P = D.pg()
  hits = []
  makers = _instances()
  listed = {}
  for kind, make in makers.items():
    inst = make()
    names = sorted(set(dir(inst)) | set(dir(list if kind == 'List' else dict if kind == 'Dict' else object)))
    for name in names:
      if only and (kind, name) != only:
        continue
      try:
        attr = getattr(inst, name)
      except Exception:        # pylint: disable=broad-except
        continue
      if not callable(attr):
        continue
      if name.startswith('_') and not (name.startswith('__') and name.endswith('__')):
        continue        # private by convention: not part of the public surface the property is about
      if name in MAPPED[kind]:
        listed[(kind, name)] = 'mapped: ' + MAPPED[kind][name]; continue
      if name in EXCLUDED or (name + '@' + kind) in EXCLUDED:
        listed[(kind, name)] = 'excluded: ' + EXCLUDED.get(name, EXCLUDED.get(name + '@' + kind)); continue
      # everything else is claimed read-only: execute it on a sealed instance with every candidate argument tuple
      listed[(kind, name)] = 'read-only (executed)'
      ran = False
      for args in _args_for(name, kind):
        x = make()
        x.seal()
        impl = D.Impl(); impl.roots.append(x)
        s0 = impl.snapshot()
        try:
          with quiet(), D.watchdog(5):
            getattr(x, name)(*args)
          ran = True
        except P.WritePermissionError:
          ran = True
        except BaseException:      # pylint: disable=broad-except
          pass
        if impl.snapshot() != s0:
          hits.append(('C08/surface/%s.%s/changes-sealed-instance' % (kind, name),
                       '%s.%s%r is not mapped to a model operation and changes a sealed instance' % (kind, name, args),
                       dict(kind='surface', cls=kind, name=name)))
          break
  return hits if only else (hits, listed)

MUTATOR_CALLS = {
    'List': {'__setitem__': [(0, 5), (slice(0, 1), [7])], '__delitem__': [(0,)], 'append': [(1,)], 'insert': [(0, 1)], 'extend': [([1],)], 'pop': [()], 'remove': [(1,)],
             'clear': [()], 'reverse': [()], 'sort': [()], '__iadd__': [([1],)], '__imul__': [(2,), (0,)], 'rebind': [({0: 9},)], 'sym_rebind': [({0: 9},)]},
    'Dict': {'__setitem__': [('a', 5), ('new', 1)], '__setattr__': [('a', 5)], '__delitem__': [('a',)], '__delattr__': [('a',)], 'pop': [('a',)], 'popitem': [()],
             'clear': [()], 'setdefault': [('new', 1)], 'update': [({'a': 7},)], '__ior__': [({'a': 7},)], 'rebind': [({'a': 9},)], 'sym_rebind': [({'a': 9},)]},
    'Object': {'__setattr__': [('x', 5)], 'rebind': [({'x': 9},)], 'sym_rebind': [({'x': 9},)]},
    'Functor': {'__setattr__': [('x', 7)], '__delattr__': [('x',)], 'rebind': [({'x': 9},)], 'sym_rebind': [({'x': 9},)]},
}
def _mutator_hits(only=None):
  """Every mapped mutator, called directly (dunder names included) on an instance sealed by flag / by scope, must raise
  WritePermissionError and leave the instance unchanged."""
  P = D.pg()
  makers = _instances()
  hits, n = [], 0
  for kind, table in MUTATOR_CALLS.items():
    for name, arglists in table.items():
      if only and (kind, name) != only:
        continue
      for args in arglists:
        for how in ('flag', 'scope'):
          x = makers[kind]()
          if how == 'flag': x.seal()
          impl = D.Impl(); impl.roots.append(x)
          s0 = impl.snapshot()
          err = None
          try:
            with (P.as_sealed(True) if how == 'scope' else _cl.nullcontext()), quiet():
              getattr(x, name)(*args)
          except BaseException as e:     # pylint: disable=broad-except
            err = e
          n += 1
          if impl.snapshot() != s0 or not isinstance(err, P.WritePermissionError):
            hits.append(('C08/surface/%s.%s/sealed-%s' % (kind, name, how),
                         '%s.%s%r on an instance treated as sealed (%s): %s, instance %s' % (
                             kind, name, args, how, type(err).__name__ if err else 'no error', 'changed' if impl.snapshot() != s0 else 'unchanged'),
                         dict(kind='surface', cls=kind, name=name)))
  return hits, n

# ----------------------------------------------------------------------------------------------------
# Protection of COPIES and through VIEWS (every run).  The claim is stated on what a value reports about itself: a
# value that reports is_sealed (resp. accessor_writable == False) -- however it came about: sealed directly, as part of
# a sealed container, or as ANY copy of such a value -- must refuse every mutator (resp. every accessor write) reached
# (a) on the value itself, (b) on every symbolic object that any public attribute / zero-argument accessor of the value
# hands out and that belongs to the value (its parent chain reaches the value: children, the attribute container of a
# pg.Object behind `sym_init_args`, ...).  "Mutator" is decided by a twin: the same call on an unprotected twin value
# changes the twin.  Nothing here names a particular accessor: views are discovered with dir().
_FUNCTOR = []
def _functor():
  if not _FUNCTOR:
    P = D.pg()
    @P.functor()
    def c08_add(x=1, y=2):
      return (x, y)
    _FUNCTOR.append(c08_add)
  return _FUNCTOR[0]

def _prot_values():
  P = D.pg()
  A, B, C = D.classes()
  F = _functor()
  return {
      'List': lambda: P.List([1, P.Dict(a=1), [2, 3], 'x']),
      'Dict': lambda: P.Dict(a=1, b=P.Dict(c=2), l=[1, 2]),
      'ObjA': lambda: A(x=1, y=P.Dict(a=1)),
      'ObjB': lambda: B(x=1, y=P.Dict(a=1), z=[1]),
      'Functor': lambda: F(x=5, y=P.Dict(a=1)),
      'TypedDict': lambda: P.Dict(x=5, y='bar', value_spec=_typed()[0]),
      'TypedList': lambda: P.List([1, 2, 3], value_spec=_typed()[1]),
      'TypedObject': lambda: _typed()[2](a=2, d=dict(x=3, y='q'), l=[4, 5], o=P.Dict(k=1)),
      'Dict-of-objects': lambda: P.Dict(o=A(x=1, y=[1]), f=F(x=5, y=6), l=[B(x=2)]),
      'List-of-objects': lambda: P.List([A(x=1, y=[1]), F(x=5, y=6)]),
      'Object-of-objects': lambda: B(x=A(x=1), y=F(x=5, y=6), z=[A(x=3)]),
  }

def _copy_routes():
  import copy as _copy
  P = D.pg()
  return {
      'original': lambda v: v,
      'clone()': lambda v: v.clone(),
      'clone(deep=True)': lambda v: v.clone(deep=True),
      'copy.copy': _copy.copy,
      'copy.deepcopy': _copy.deepcopy,
      'child of a cloned Dict': lambda v: P.Dict(h=v).clone()['h'],
      'child of a deep-cloned List': lambda v: P.List([0, v]).clone(deep=True)[1],
      'from_json(to_json())': lambda v: P.from_json(v.to_json()),
  }

def _protect(v, how):
  if how == 'sealed': v.seal()
  elif how == 'no-accessor-write': v.set_accessor_writable(False)
  return v

_SKIP_CALL = ('sym_set', 'sym_rebind', 'sym_seal', 'sym_clone', 'sym_jsonify', 'sym_hash', 'sym_eq', 'sym_ne', 'sym_lt', 'sym_gt', 'sym_contains', 'sym_descendants')
def _step(n, step):
  """One step of an access path: ('attr', name) | ('call', name, index)."""
  P = D.pg()
  a = getattr(n, step[1])
  if step[0] == 'attr':
    return a
  r = a()
  if isinstance(r, P.Symbolic):
    got = [r]
  elif isinstance(r, dict):
    got = list(r.values())
  elif isinstance(r, (list, tuple)) or hasattr(r, '__next__'):
    got = list(r)
  else:
    got = []
  got = [g[1] if isinstance(g, tuple) and len(g) == 2 else g for g in got]
  return got[step[2]] if step[2] is not None else got

def _resolve(x, path):
  n = x
  for st in path:
    n = _step(n, st)
  return n

def _symbolic_parts(x):
  """(label, access path, object) for x itself, everything stored below it and every symbolic object that a public attribute or a zero-argument
  public accessor hands out and that belongs to x (its parent chain reaches x)."""
  P = D.pg()
  out, seen = [], set()
  def belongs(y):
    n, k = y, 0
    while n is not None and k < 64:
      if n is x: return True
      n = n.sym_parent; k += 1
    return False
  def add(label, path, y):
    if isinstance(y, P.Symbolic) and id(y) not in seen and belongs(y):
      seen.add(id(y)); out.append((label, path, y))
  add('self', (), x)
  i = 0
  while i < len(out):
    label, path, n = out[i]; i += 1
    for name in sorted(dir(n)):
      if name.startswith('_'):
        continue
      try:
        with D.watchdog(5):
          a = getattr(n, name)
      except BaseException:     # pylint: disable=broad-except
        continue
      if not callable(a):
        add('%s.%s' % (label, name), path + (('attr', name),), a)
      elif name.startswith(('sym_', 'keys', 'values', 'items')) and not name.startswith(_SKIP_CALL):
        try:
          with D.watchdog(5):
            got = _step(n, ('call', name, None))
        except BaseException:   # pylint: disable=broad-except
          continue
        for j, y in enumerate(got):
          add('%s.%s()[%d]' % (label, name, j), path + (('call', name, j),), y)
  return out

def _mutator_table(y):
  """Calls to try on a symbolic object, by its type; every mapped mutator of the surface tables plus attribute deletion on objects."""
  P = D.pg()
  if isinstance(y, P.List):
    return MUTATOR_CALLS['List']
  if isinstance(y, P.Dict):
    keys = list(y.sym_keys())
    k = keys[0] if keys else 'a'
    t = {'__setitem__': [(k, 55), ('new', 1)], '__setattr__': [(k, 55)], '__delitem__': [(k,)], '__delattr__': [(k,)], 'pop': [(k,)], 'popitem': [()], 'clear': [()],
         'setdefault': [('new', 1)], 'update': [({k: 77},)], '__ior__': [({k: 77},)], 'rebind': [({k: 99},)], 'sym_rebind': [({k: 99},)]}
    return t
  f = 'x' if y.sym_hasattr('x') else 'a'
  return {'__setattr__': [(f, 55)], '__delattr__': [(f,)], 'rebind': [({f: 99},)], 'sym_rebind': [({f: 99},)]}
ACCESSOR_WRITES = ('__setitem__', '__setattr__', '__delitem__', '__delattr__')

def _protection_cases():
  for vname in _prot_values():
    for how in ('sealed', 'no-accessor-write'):
      for route in _copy_routes():
        yield dict(kind='protection', value=vname, how=how, route=route)

def _unprotect(t):
  t.seal(False)
  D.walk(t, lambda n, p, k: n.set_accessor_writable(True))
  return t

_PATHS = {}
def run_protection_case(case, counters=None):
  """Returns hits [(sig, what)] for one (value, protection, copy route)."""
  P = D.pg()
  make = _prot_values()[case['value']]
  route = _copy_routes()[case['route']]
  how = case['how']
  hits = []
  with quiet():
    try:
      c0 = route(_protect(make(), how))
    except BaseException as e:        # pylint: disable=broad-except
      return [('C08/copy-raises/%s/%s' % (case['route'], how), 'copying a %s %s by %s raises %s' % (how, case['value'], case['route'], type(e).__name__))]
    key = (case['value'], case['route'])
    if key not in _PATHS:
      _PATHS[key] = [(l, p) for l, p, _ in _symbolic_parts(c0)]
    for label, path in _PATHS[key]:
      try:
        y0 = _resolve(c0, path)
      except BaseException:           # pylint: disable=broad-except
        continue
      chain = _owners(y0, c0)
      owner_sealed = any(n.is_sealed for n in chain)
      owner_noacc = any(not n.accessor_writable for n in chain)
      if not (owner_sealed or owner_noacc):
        continue
      for name, arglists in _mutator_table(y0).items():
        if not (owner_sealed or name in ACCESSOR_WRITES):
          continue
        for args in arglists:
          # the twin: same shape, same route, not protected -- does this call change it?
          try:
            t = _unprotect(route(make())); ty = _resolve(t, path)
            c = route(_protect(make(), how)); y = _resolve(c, path)
          except BaseException:       # pylint: disable=broad-except
            continue
          if not hasattr(ty, name) or not hasattr(y, name):
            continue
          timpl = D.Impl(); timpl.roots.append(t)
          ts0 = timpl.snapshot()
          try:
            with D.watchdog(5):
              getattr(ty, name)(*args)
          except BaseException:       # pylint: disable=broad-except
            pass
          effective = timpl.snapshot() != ts0
          impl = D.Impl(); impl.roots.append(c)
          s0 = impl.snapshot()
          err = None
          try:
            with D.watchdog(5):
              getattr(y, name)(*args)
          except BaseException as e:  # pylint: disable=broad-except
            err = e
          if counters is not None:
            counters['calls'] += 1; counters['effective'] += effective
          changed = impl.snapshot() != s0
          if changed or (effective and not isinstance(err, P.WritePermissionError)):
            via = 'the value itself' if label == 'self' else 'the part / view `%s`' % label[5:]
            tname = 'List' if isinstance(y, P.List) else 'Dict' if isinstance(y, P.Dict) else 'Functor' if isinstance(y, P.Functor) else 'Object'
            where = 'self' if label == 'self' else label.split('.')[-1].split('(')[0]
            hits.append(('C08/%s-bypassed/%s@%s/%s' % ('sealed' if owner_sealed else 'accessor-protection', tname, where, 'copy' if case['route'] != 'original' else 'original'),
                         '%s %s obtained by %s: %s.%s%r through %s: %s, value %s' % (
                             how, case['value'], case['route'], tname, name, args, via, type(err).__name__ if err else 'no error', 'changed' if changed else 'unchanged')))
  return hits

def _owners(y, top):
  """y and the nodes above it up to top (the nodes whose protection covers y: seal is deep; accessor flag is per node: only y and the object a view belongs to)."""
  out, n, k = [], y, 0
  while n is not None and k < 64:
    out.append(n)
    if n is top: break
    n = n.sym_parent; k += 1
  # accessor protection is not inherited by children: keep y and, for an internal view (not stored as an item of its parent), the parent it is a view of
  if len(out) >= 2:
    par = out[1]
    stored = any(v is y for _, v in D.sym_children(par))
    acc = [y] if stored else [y, par]
  else:
    acc = [y]
  class _N:       # sealed: any node on the chain; accessor: acc only
    pass
  res = []
  for n in out:
    m = _N(); m.is_sealed = n.is_sealed; m.accessor_writable = n.accessor_writable if any(n is a for a in acc) else True
    res.append(m)
  return res

def protection_sweep(ctx):
  import time
  t0 = time.time()
  counters = dict(calls=0, effective=0)
  n = 0
  for case in _protection_cases():
    n += 1
    ctx.evaluations += 1
    for sig, what in run_protection_case(case, counters):
      ctx.hit(sig, what, case)
  ctx.extra['protection_sweep'] = dict(cases=n, mutator_calls=counters['calls'], effective_on_unprotected_twin=counters['effective'],
                                       values=sorted(_prot_values()), routes=sorted(_copy_routes()),
                                       what='every value shape (List, Dict, Object, functor, containers of them) x sealed / accessor-protected x every copy route; on the result, every '
                                            'mutator of the surface tables on the value itself, on everything below it and on every symbolic object a public attribute / accessor hands '
                                            'out that belongs to it (views discovered with dir(): e.g. sym_init_args); a call that changes an unprotected twin must raise '
                                            'WritePermissionError and leave the protected value unchanged')
  ctx.log('protection sweep (copies and views): %d cases, %d mutator calls (%d effective on the unprotected twin) in %.1fs' % (n, counters['calls'], counters['effective'], time.time() - t0))

# ----------------------------------------------------------------------------------------------------
# Protection as a STATE INVARIANT over histories (every run).  A shadow copy of the protection flags of every node is kept by
# the harness: it changes only when the history explicitly changes protection (seal(b): the whole subtree; set_accessor_writable(b):
# the node and the views that belong to it).  After EVERY step -- successful, refused or failed -- every node reachable from the
# root (children and views) must report the flags of the shadow; nodes seen for the first time enter the shadow with the flags they
# report.  At the end of the history protection is re-probed behaviourally on the live objects: every mutator on every node whose
# shadow says sealed, every accessor write on every node whose shadow says not accessor-writable, outside any scope and inside
# allow_writable_accessors(True) > allow_writable_accessors(None); the tree must stay exactly as it was.
_TYPED = []
def _typed():
  """(dict spec, list spec, typed class)."""
  if not _TYPED:
    P = D.pg()
    T = P.typing
    dspec = T.Dict([('x', T.Int(default=1)), ('y', T.Str(default='foo'))])
    lspec = T.List(T.Int())
    @P.members([('a', T.Int(default=1)), ('d', T.Dict([('x', T.Int(default=1)), ('y', T.Str(default='foo'))])), ('l', T.List(T.Int(), default=[])),
                ('o', T.Any(default=None))])
    class C08Typed(P.Object):
      pass
    @P.members([('a', T.Int(default=1)), ('d', T.Dict([('x', T.Int(default=1))]))])
    class C08TypedW(P.Object):
      allow_symbolic_assignment = True
    _TYPED.extend([dspec, lspec, C08Typed, C08TypedW])
  return _TYPED

_VIEW_ATTRS = {}
def _views(n):
  """Symbolic objects that public non-callable attributes of n hand out, that belong to n and are not stored as its items (names cached per class)."""
  P = D.pg()
  cls = type(n)
  if cls not in _VIEW_ATTRS:
    names = []
    kids = [id(v) for _, v in D.sym_children(n)]
    for name in sorted(dir(n)):
      if name.startswith('_'):
        continue
      try:
        a = getattr(n, name)
      except BaseException:   # pylint: disable=broad-except
        continue
      if isinstance(a, P.Symbolic) and not callable(a) or (isinstance(a, P.Symbolic) and isinstance(a, (P.Dict, P.List))):
        if a is not n and id(a) not in kids and a.sym_parent is n:
          names.append(name)
    _VIEW_ATTRS[cls] = names
  out = []
  for name in _VIEW_ATTRS[cls]:
    try:
      a = getattr(n, name)
    except BaseException:     # pylint: disable=broad-except
      continue
    if isinstance(a, P.Symbolic) and a.sym_parent is n:
      out.append((name, a))
  return out

def _all_nodes(root):
  """[(label, node, owner-or-None)] for everything stored below root plus the views; owner is set for a view."""
  out, seen = [], set()
  def visit(label, n, owner):
    if id(n) in seen: return
    seen.add(id(n)); out.append((label, n, owner))
    for name, v in _views(n):
      visit(label + '.' + name, v, n)
    for k, v in D.sym_children(n):
      if D.is_sym(v):
        visit('%s[%r]' % (label, k), v, None)
  visit('root', root, None)
  return out

def _history_root(rng):
  P = D.pg()
  A, B, C = D.classes()
  dspec, lspec, T1, T2 = _typed()
  F = _functor()
  def aw(): return rng.random() < 0.5
  kids = dict(
      td=lambda: P.Dict(x=5, y='bar', value_spec=dspec, accessor_writable=aw()),
      tl=lambda: P.List([1, 2, 3], value_spec=lspec, accessor_writable=aw()),
      ud=lambda: P.Dict(a=1, b=P.Dict(c=2, accessor_writable=aw()), l=[1, 2], accessor_writable=aw()),
      ul=lambda: P.List([1, P.Dict(a=1), [2, 3]], accessor_writable=aw()),
      ob=lambda: B(x=1, y=P.Dict(a=1), z=[1]),
      oa=lambda: A(x=1, y=[P.Dict(a=1)]),
      t1=lambda: T1(a=2, d=dict(x=3, y='q'), l=[4, 5], o=P.Dict(k=1)),
      t2=lambda: T2(a=2, d=dict(x=3)),
      fn=lambda: F(x=5, y=P.Dict(a=1)),
  )
  names = sorted(kids)
  rng.shuffle(names)
  root = P.Dict({k: kids[k]() for k in names[:rng.randint(3, 6)]})
  for label, n, owner in _all_nodes(root):
    if owner is None and n is not root and rng.random() < 0.25:
      n.seal()
    elif owner is None and rng.random() < 0.2:
      n.set_accessor_writable(rng.random() < 0.5)
  return root

def _history_ops(n, rng):
  """Candidate (name, args) on node n."""
  P = D.pg()
  dspec, lspec, T1, T2 = _typed()
  ops = []
  for name, arglists in _mutator_table(n).items():
    for args in arglists:
      ops.append((name, args))
  if isinstance(n, P.Dict):
    ops += [('use_value_spec', (None,)), ('use_value_spec', (dspec,)), ('clear', ()), ('clear', ()), ('update', ({'x': 9},)), ('pop', ('y', None)), ('rebind', ({'x': 3},)),
            ('__setitem__', ('x', 7)), ('__delitem__', ('y',))]
  elif isinstance(n, P.List):
    ops += [('use_value_spec', (None,)), ('use_value_spec', (lspec,)), ('clear', ()), ('append', (4,)), ('rebind', ({0: 8},)), ('__setitem__', (0, 6))]
  else:
    ops += [('rebind', ({'a': 7},)), ('__setattr__', ('a', 8)), ('rebind', ({'d': {'x': 4}},)), ('rebind', ({'o': [1]},))]
  ops += [('seal', (True,)), ('seal', (False,)), ('set_accessor_writable', (True,)), ('set_accessor_writable', (False,)), ('clone', ()), ('clone', (True,))]
  return ops

def _scopes(rng):
  P = D.pg()
  r = rng.random()
  if r < 0.55: return 'no scope', lambda: [ _cl.nullcontext() ]
  if r < 0.65: return 'as_sealed(False)', lambda: [P.as_sealed(False)]
  if r < 0.72: return 'as_sealed(True)', lambda: [P.as_sealed(True)]
  if r < 0.80: return 'allow_writable_accessors(True)', lambda: [P.allow_writable_accessors(True)]
  if r < 0.86: return 'allow_writable_accessors(False)', lambda: [P.allow_writable_accessors(False)]
  if r < 0.93: return 'notify_on_change(False)', lambda: [P.notify_on_change(False)]
  return 'allow_writable_accessors(True) > as_sealed(False)', lambda: [P.allow_writable_accessors(True), P.as_sealed(False)]

def run_history_case(case, counters=None):
  """One generated history {kind:'history', seed, steps}.  Returns hits [(sig, what)] (first failure only)."""
  import random
  P = D.pg()
  rng = random.Random(case['seed'])
  with quiet():
    root = _history_root(rng)
    keep = []          # strong references: ids must not be reused
    shadow = {}        # id -> [sealed, accessor_writable]
    def observe(first, opdesc):
      for label, n, owner in _all_nodes(root):
        if id(n) not in shadow:
          shadow[id(n)] = [n.is_sealed, n.accessor_writable]; keep.append(n)
          continue
        exp = shadow[id(n)]
        got = [n.is_sealed, n.accessor_writable]
        if got != exp:
          which = 'sealed' if got[0] != exp[0] else 'accessor_writable'
          typed = 'typed' if getattr(n, 'value_spec', None) is not None or not isinstance(n, (P.Dict, P.List)) else 'untyped'
          return ('C08/protection-lost/%s/%s-%s' % (opdesc[0], which, typed),
                  'after %s%r on %s (%s): %s %s reports %s = %s, it was %s and the history never changed it' % (
                      opdesc[0], opdesc[1], opdesc[2], opdesc[3], type(n).__name__, label, which, got[0] if which == 'sealed' else got[1], exp[0] if which == 'sealed' else exp[1]))
      return None
    observe(True, None)
    for step in range(case['steps']):
      nodes = _all_nodes(root)
      label, n, owner = nodes[rng.randrange(len(nodes))]
      ops = _history_ops(n, rng)
      name, args = ops[rng.randrange(len(ops))]
      sname, mk = _scopes(rng)
      if not hasattr(n, name):
        continue
      if owner is not None and name in ('seal', 'set_accessor_writable'):
        continue      # the protection of the members a view shows is the owner's: it is changed on the owner (unsealing a view is an explicit unprotect the owner does not report)
      err = None
      try:
        with _cl.ExitStack() as st, D.watchdog(5):
          for c in mk(): st.enter_context(c)
          getattr(n, name)(*args)
      except BaseException as e:      # pylint: disable=broad-except
        err = e
      if counters is not None:
        counters['steps'] += 1; counters['ok'] += err is None
        counters['ops'][name] = counters['ops'].get(name, 0) + 1
      if err is None and name == 'seal':
        for _, m, _o in _all_nodes(n):
          shadow.setdefault(id(m), [m.is_sealed, m.accessor_writable])[0] = args[0]
          if all(m is not k for k in keep): keep.append(m)
      if err is None and name == 'set_accessor_writable':
        shadow[id(n)][1] = args[0]
        for _, v in _views(n):
          shadow.setdefault(id(v), [v.is_sealed, v.accessor_writable])[1] = args[0]
      h = observe(False, (name, args, '%s %s' % (type(n).__name__, label), sname + (', raised %s' % type(err).__name__ if err else '')))
      if h:
        return [h]
    # behavioural re-probe on the live objects
    impl = D.Impl(); impl.roots.append(root)
    for label, n, owner in _all_nodes(root):
      sealed, awr = shadow[id(n)]
      if not sealed and awr:
        continue
      for name, arglists in _mutator_table(n).items():
        if not sealed and name not in ACCESSOR_WRITES:
          continue
        for args in arglists:
          if not hasattr(n, name):
            continue
          for sname, mk in (('no scope', lambda: []), ('allow_writable_accessors(True) > allow_writable_accessors(None)', lambda: [P.allow_writable_accessors(True), P.allow_writable_accessors(None)])):
            s0 = impl.snapshot()
            err = None
            try:
              with _cl.ExitStack() as st, D.watchdog(5):
                for c in mk(): st.enter_context(c)
                getattr(n, name)(*args)
            except BaseException as e:    # pylint: disable=broad-except
              err = e
            if counters is not None:
              counters['probes'] += 1
            if impl.snapshot() != s0:
              typed = 'typed' if getattr(n, 'value_spec', None) is not None or not isinstance(n, (P.Dict, P.List)) else 'untyped'
              return [('C08/protection-not-enforced/%s.%s/%s-%s' % ('List' if isinstance(n, P.List) else 'Dict' if isinstance(n, P.Dict) else 'Object', name,
                                                                  'sealed' if sealed else 'accessor', typed),
                       'at the end of the history %s %s is %s (flags as the history left them) but %s%r (%s) %s and changes the tree' % (
                           type(n).__name__, label, 'sealed' if sealed else 'not accessor-writable', name, args, sname,
                           'raises %s' % type(err).__name__ if err else 'raises nothing'))]
  return []

def history_sweep(ctx):
  import time
  t0 = time.time()
  n = ctx.scale(220, 6000)
  counters = dict(steps=0, ok=0, probes=0, ops={})
  base = ctx.rng.randrange(1 << 30)
  for i in range(n):
    case = dict(kind='history', seed=base + i, steps=ctx.rng.choice([4, 8, 12]))
    ctx.evaluations += 1
    for sig, what in run_history_case(case, counters):
      ctx.hit(sig, what, case)
  ctx.extra['protection_history_sweep'] = dict(
      histories=n, steps=counters['steps'], steps_without_exception=counters['ok'], end_of_history_probes=counters['probes'], operations=dict(sorted(counters['ops'].items())),
      what='generated histories on a tree of typed (value_spec) and untyped Dict / List, Object (incl. typed fields), functor nodes with random sealed / accessor flags, under random '
           'scopes; operations: every mutator of the surface tables, clear / update / pop / rebind, seal / unseal, set_accessor_writable, use_value_spec(None | spec), clone; '
           'after every step the flags of every node (children and views) equal the harness shadow; at the end every protected node is re-probed with every mutator')
  ctx.log('protection history sweep: %d histories, %d steps (%d without exception), %d end-of-history probes in %.1fs' % (n, counters['steps'], counters['ok'], counters['probes'], time.time() - t0))

def surface_sweep(ctx):
  hits, listed = _surface_hits()
  for sig, what, case in hits:
    ctx.hit(sig, what, case)
  ctx.extra['surface_sweep'] = dict(exhaustive=True, callable_attributes=len(listed),
                                    mapped=sum(1 for v in listed.values() if v.startswith('mapped')),
                                    read_only_executed=sum(1 for v in listed.values() if v.startswith('read-only')),
                                    excluded={'%s.%s' % k: v for k, v in listed.items() if v.startswith('excluded')})
  ctx.log('surface sweep: %d callable attributes (%d mapped, %d executed as read-only on a sealed instance, %d excluded by name), %d hits' % (
      len(listed), ctx.extra['surface_sweep']['mapped'], ctx.extra['surface_sweep']['read_only_executed'], len(ctx.extra['surface_sweep']['excluded']), len(hits)))
  mh, n = _mutator_hits()
  for sig, what, case in mh:
    ctx.hit(sig, what, case)
  ctx.extra['surface_sweep']['mutator_calls_on_sealed'] = n
  protection_sweep(ctx)
  history_sweep(ctx)

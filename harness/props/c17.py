"""C17 — scoped settings restore exactly and never leak across threads."""
import copy, json, os, sys, threading, time, zlib
from harness.lib import tr as trlib
from harness.translators import scope_defs

META = dict(
    id='C17',
    model_run='PG.Model.Scopes.run',
    model_targets=['Model/Scopes.vo'],
    instance_obligations=[
        'generated two-store managers (dynamic_evaluate with base.set_dynamic_evaluate_fn inlined, load_types_for_deserialization, contextual_scope loop) satisfy their characterisation lemmas (Proofs/ScopesRestore.v)',
        'generated_keys_distinct (Proofs/ScopesInstance.v: the thread-local keys regenerated from the source are pairwise distinct, vm_compute)',
        'generated_flags_cover (Proofs/ScopesInstance.v: every flag manager the property names has a generated value scope and a getter on the same key)',
        'generated scope definitions satisfy the restore lemmas (Proofs/ScopesRestore.v re-checked against the regenerated Gen/ScopeDefs.v)'],
    technique=('Coq proof over an executable model of per-thread / process-wide stores and well-nested scope programs (induction on programs, small-step machine for '
               'interleavings) + scope definitions regenerated from the source by a fail-closed Python-subset-to-Gallina translator + differential correspondence '
               '(sweep, random nested programs, real threads under a deterministic event scheduler) + direct restore/effective/no-leak oracle'),
    design_ref='DESIGN.md §5 C17',
    level_text=('Refinement theorem: for every program the model of the code yields exactly the observations and exception behaviour of a store-free specification in which scopes are lexical and getters follow the documented nesting rules. '
                'Theorems (any well-nested program over all 22 managers — the 19 library managers plus the three parts DynamicEvaluationContext.collect/apply are composed of — any depth, normal and exceptional exits, failing enters): the state after equals the state before '
                '(syntactically for the value scopes, observationally where thread_local_pop / contextual_scope leave an empty container behind); inside a scope the getter returns the '
                'documented nesting rule; for every interleaving of machine steps of any number of threads a thread that uses thread-local managers behaves exactly as when run alone; '
                'only dynamic_evaluate(per_thread=False) and load_types_for_deserialization touch the process-wide store.'),
    level_note=('Trusted: Coq kernel; translator harness/translators/scope_defs.py; ScopesBase.v primitives (tied to thread_local.py by source fingerprints and by the correspondence); '
                'extraction cross-checked against vm_compute. All 19 managers and the getters with logic (get_context, get_permission, current_mappings, get_dynamic_evaluate_fn) are regenerated from the source; '
                'hand-written are only the specifications the generated loops are proved against (contextual_merge, detour_spec) and the top-of-stack read of the on-demand type registry. What the settings DO (formatting, type checking, ...) is not modelled: it is probed by the oracle only. Values are immutable in the model: aliasing between the stored options, the argument dicts of the caller and dict objects shared between scopes / threads is decided by the oracle (arguments unchanged, deep restore, no leak) and by the correspondence.'),
    rule=('a case is a well-nested program (or 2-4 programs and an event schedule); distinct by canonical program text; non-trivial when some scope is nested inside another scope '
          'or is left by an exception, or when at least two threads are inside scopes at the same time'),
    trusted_base=['translator harness/translators/scope_defs.py (fail-closed Python-subset compiler)',
                  'coq/Model/ScopesBase.v models thread_local_has/get/set/del/push/peek/pop by hand; the translator refuses to run when their source fingerprint changes',
                  'extraction: ExtrOcamlBasic only; ocaml/main.ml lexer/printer; cross-checked against vm_compute on a sample',
                  'harness canonicalisation: real objects (functions, classes, timers, permissions) are mapped to small integers'],
    assumptions=['threading.local gives every thread its own attribute namespace (Python semantics)',
                 'values held by settings are atoms or dicts of atoms nested to any depth (string keys without path syntax); utils.merge on them is the deep merge of Model/ScopesBase.v atom_merge (checked by the correspondence)'],
)
GENERATED = {'Gen/ScopeDefs.v': scope_defs.translate}

# ------------------------------------------------------------------------------------------------
# pools (JSON-able ids <-> real objects)
CMS = ['flag', 'perm', 'str', 'repr', 'view', 'ctx', 'contextual', 'detour', 'wrappers', 'timeit', 'dyn', 'dyng', 'loadtypes']
# user-level dynamic evaluation: DynamicEvaluationContext.collect() / .apply(); the model composes them (see wire_prog)
COMPOSITE = ['collect', 'apply']
N_PT_CONTEXTS = 2                    # contexts 0..1 are per-thread, 2..3 process-wide
CM_TAG = {n: i for i, n in enumerate(CMS)}
GETTERS = ['flag', 'perm', 'str', 'repr', 'view', 'ctx', 'contextual', 'detour', 'timeit', 'dyn', 'loadtypes', 'dynstack', 'dyngstack']
G_TAG = {n: i for i, n in enumerate(GETTERS)}
GETTER_OF = dict(flag='flag', perm='perm', str='str', repr='repr', view='view', ctx='ctx', contextual='contextual', detour='detour',
                 wrappers='detour', timeit='timeit', dyn='dyn', dyng='dyn', loadtypes='loadtypes', collect='dyn', apply='dyn')
PROCESS_WIDE = {'dyng', 'loadtypes', 'collect', 'apply'}
KW_NAMES = dict(str=['compact', 'verbose', 'hide_default_values', 'hide_missing_values'],
                repr=['compact', 'verbose', 'hide_default_values', 'hide_missing_values'],
                view=['enable_summary_tooltip', 'collapse_level', 'uncollapse', 'key_style'],
                ctx=['a', 'b', 'c', 'd'])
SUB_NAMES = ['hide_default_values', 'hide_frozen', 'custom', 'level']     # keys of dict-valued options, at any depth
# dict objects that are passed (the same object) to several scopes / from several threads; as values: {'shared': i}
SHARED_TEMPLATES = [{'d': [[1, True]]}, {'d': [[2, {'d': [[3, 1]]}], [0, False]]}]
CTX_NAMES = ['x', 'y', 'z']
TYPE_NAMES = ['TA', 'TB']            # T0 -> 'TA', T1 -> 'TB', T2 -> 'TA' (a second class with the same __name__)
TIMER_NAMES = ['t0', 't1', 't2']
N_DETOUR = 5                         # plain classes K0..K4; user classes U0..U2 = ids 5..7; their wrappers = ids 8..10

class Boom(Exception):
  pass

_POOL = {}
def pool():
  if _POOL:
    return _POOL
  import pyglove as pg
  from pyglove.core.symbolic import flags
  from pyglove.core.utils import thread_local, contextual, formatting, timing, error_utils, json_conversion
  from pyglove.core.coding import permissions, execution
  from pyglove.core.detouring import class_detour
  from pyglove.core.hyper import base as hyper_base, dynamic_evaluation
  from pyglove.core.views import base as views_base
  from pyglove.core.symbolic import class_wrapper
  classes = []
  for i in range(N_DETOUR):
    classes.append(type('K%d' % i, (), {'__init__': lambda self, x=0: setattr(self, 'x', x)}))
  users = [type('U%d' % i, (), {'__init__': lambda self, x=0: setattr(self, 'x', x)}) for i in range(3)]
  wrappers = [pg.wrap(u, [('x', pg.typing.Int(default=0))]) for u in users]
  classes += users + wrappers
  types = [type(TYPE_NAMES[0], (), {}), type(TYPE_NAMES[1], (), {}), type(TYPE_NAMES[0], (), {})]
  fns = [None, (lambda x: 1), (lambda x: 2), (lambda x: 3)]
  shared = [py_value(t, None) for t in SHARED_TEMPLATES]
  contexts = {}
  _POOL.update(pg=pg, flags=flags, thread_local=thread_local, contextual=contextual, formatting=formatting, timing=timing,
               error_utils=error_utils, json_conversion=json_conversion, permissions=permissions, execution=execution,
               class_detour=class_detour, hyper_base=hyper_base, dynamic_evaluation=dynamic_evaluation, views_base=views_base,
               class_wrapper=class_wrapper, shared=shared, contexts=contexts, classes=classes, class_id={c: i for i, c in enumerate(classes)}, types=types,
               type_id={c: i for i, c in enumerate(types)}, fns=fns, fn_id={id(f): i for i, f in enumerate(fns) if f is not None})
  return _POOL

# ------------------------------------------------------------------------------------------------
# wire encoding
def norm_value(v):
  """{'shared': i} -> the value of that shared dict; nested dict values are {'d': [[key, value], ...]}"""
  if isinstance(v, dict):
    if 'shared' in v:
      return norm_value(SHARED_TEMPLATES[v['shared']])
    return {'d': [[k, norm_value(x)] for k, x in v['d']]}
  return v

def py_value(v, shared):
  """the real Python value of an argument value (shared dicts by identity)"""
  if isinstance(v, dict):
    if 'shared' in v:
      return shared[v['shared']]
    return {SUB_NAMES[k]: py_value(x, shared) for k, x in v['d']}
  return v

def e_atom(a):
  if isinstance(a, dict):
    return [4, [[k, e_atom(v)] for k, v in norm_value(a)['d']]]
  if a is None: return [0]
  if isinstance(a, bool): return [1, 1 if a else 0]
  if isinstance(a, int): return [2, a]
  if isinstance(a, (list, tuple)) and len(a) == 3: return [3, a[0], 1 if a[1] else 0, 1 if a[2] else 0]
  raise TypeError('not an atom: %r' % (a,))
def e_dict(pairs):
  return [[k, e_atom(v)] for k, v in pairs]
def V_atom(a): return [0, e_atom(a)]
def V_dict(pairs): return [1, e_dict(pairs)]
def V_stack(dicts): return [2, [e_dict(d) for d in dicts]]

def py_dict_pairs(pairs):
  """Python dict semantics on a list of (key, value): position of first occurrence, value of the last."""
  d = {}
  for k, v in pairs:
    d[k] = v
  return list(d.items())

def wire_arg(cm, arg):
  kind = cm[0] if isinstance(cm, list) else cm
  if kind == 'timeit':
    return V_atom(arg % 10)          # 10 + i = the i-th REUSED TimeIt object of the thread: the same model (see design/C17.md)
  if kind in ('flag', 'perm', 'dyn', 'dyng'):
    return V_atom(arg)
  if kind in ('str', 'repr', 'view', 'ctx'):
    return V_dict(py_dict_pairs([(k, v) for k, v in arg]))
  if kind == 'contextual':
    return V_dict(py_dict_pairs([(k, (v, c, a)) for k, v, c, a in arg]))
  if kind == 'detour':
    return V_dict([(s, d) for s, d in arg])          # a sequence of pairs, duplicates kept
  if kind == 'wrappers':
    return V_dict([(5 + i, 8 + i) for i in arg])
  if kind == 'loadtypes':
    return V_dict(py_dict_pairs([([0, 1, 0][t], t) for t in arg]))
  raise RuntimeError(cm)

def wire_cm(cm):
  return [0, cm[1]] if isinstance(cm, list) else [CM_TAG[cm]]
def wire_getter(g):
  return [0, g[1]] if isinstance(g, list) else [G_TAG[g]]
def wire_prog(p):
  t = p[0]
  if t == 'skip': return [0]
  if t == 'obs': return [1, wire_getter(p[1])]
  if t == 'raise': return [2]
  if t == 'seq': return [3, wire_prog(p[1]), wire_prog(p[2])]
  if t == 'catch': return [4, wire_prog(p[1])]
  if t == 'scope' and p[1] in COMPOSITE:
    # collect()/apply() of context i = the mixing guard, then dynamic_evaluate(bound method), then the stack of active contexts
    i = p[2]
    pt = i < N_PT_CONTEXTS
    fn = (100 if p[1] == 'collect' else 200) + i
    inner = [5, [14 if pt else 15], V_dict([(0, i)]), wire_prog(p[3])]
    mid = [5, [CM_TAG['dyn' if pt else 'dyng']], V_atom(fn), inner]
    return [5, [13], V_atom(bool(pt)), mid]
  if t == 'scope': return [5, wire_cm(p[1]), wire_arg(p[1], p[2]), wire_prog(p[3])]
  raise RuntimeError(p)

def seq(*ps):
  ps = [p for p in ps if p is not None]
  if not ps: return ['skip']
  out = ps[-1]
  for p in reversed(ps[:-1]):
    out = ['seq', p, out]
  return out

def cm_kind(cm): return cm[0] if isinstance(cm, list) else cm
def cm_name(cm, info):
  if isinstance(cm, list):
    return info['flags'][cm[1]]['scope']
  return dict(perm='permission', str='str_format', repr='repr_format', view='view_options', ctx='context', contextual='contextual_override',
              detour='detour', wrappers='apply_wrappers', timeit='timeit', dyn='dynamic_evaluate(per_thread=True)',
              dyng='dynamic_evaluate(per_thread=False)', loadtypes='load_types_for_deserialization',
              collect='DynamicEvaluationContext.collect', apply='DynamicEvaluationContext.apply')[cm]

def prog_stats(p, depth=0, under_exc=False):
  """(max scope depth, number of scopes, scopes left by an exception, managers used)"""
  t = p[0]
  if t in ('skip', 'obs', 'raise'):
    return (0, 0, 0, set())
  if t == 'seq':
    a, b = prog_stats(p[1]), prog_stats(p[2])
    return (max(a[0], b[0]), a[1] + b[1], a[2] + b[2], a[3] | b[3])
  if t == 'catch':
    return prog_stats(p[1])
  a = prog_stats(p[3])
  return (a[0] + 1, a[1] + 1, a[2] + (1 if raises(p[3]) else 0), a[3] | {cm_kind(p[1])})

def raises(p):
  """Does an exception escape p (ignoring enter failures)?"""
  t = p[0]
  if t == 'raise': return True
  if t == 'seq': return raises(p[1]) or raises(p[2])
  if t == 'scope': return raises(p[3])
  return False

# ------------------------------------------------------------------------------------------------
# the real library
class Real:
  """Builds real context managers, reads the real getters, dumps the real stores (as wire values)."""
  def __init__(self, info):
    self.info = info
    self.P = pool()
    self.key_kind = {}
    for f in info['flags']:
      self.key_kind[('tls', f['key'])] = 'atom'
    self.key_kind[('tls', info['format_keys']['str_format'])] = 'stack:str'
    self.key_kind[('tls', info['format_keys']['repr_format'])] = 'stack:repr'
    al = info['aliases']
    self.key_kind[('tls', al['k_permission'])] = 'perm'
    self.key_kind[('tls', al['k_context'])] = 'stack:ctx'
    self.key_kind[('tls', al['k_view_options'])] = 'stack:view'
    self.key_kind[('tls', al['k_timing'])] = 'timer'
    self.key_kind[('tls', info['dyn_key'])] = 'fn'
    self.key_kind[('tls', info.get('dynstack_key', 'dynamic_evaluation_stack'))] = 'stack:dynctx'
    for ns, s, ident in info['keys']:
      if ns == 'contextual': self.key_kind[(ns, s)] = 'contextual'
      if ns == 'detour': self.key_kind[(ns, s)] = 'stack:detour'
    self.view_key = al['k_view_options']
    self.timing_key = al['k_timing']

  # -- managers -----------------------------------------------------------------------------------
  def make_cm(self, cm, arg):
    P = self.P
    k = cm_kind(cm)
    if k == 'flag':
      return getattr(P['flags'], self.info['flags'][cm[1]]['scope'])(arg)
    if k == 'perm':
      return P['permissions'].permission(P['permissions'].CodePermission(arg))
    if k in ('str', 'repr', 'view', 'ctx'):
      kw = {KW_NAMES[k][n]: py_value(v, P['shared']) for n, v in arg}
      self.last_kw = (kw, copy.deepcopy(kw))
      if k == 'str': return P['formatting'].str_format(**kw)
      if k == 'repr': return P['formatting'].repr_format(**kw)
      if k == 'view': return P['views_base'].view_options(**kw)
      return P['execution'].context(**kw)
    if k == 'contextual':
      C = P['contextual']
      return C.contextual_override(**{CTX_NAMES[n]: C.ContextualOverride(v, c, a) for n, v, c, a in arg})
    if k == 'detour':
      return P['class_detour'].detour([(P['classes'][s], P['classes'][d]) for s, d in arg])
    if k == 'wrappers':
      return P['class_wrapper'].apply_wrappers([P['classes'][8 + i] for i in arg])
    if k == 'timeit':
      if arg >= 10:
        # one TimeIt object per (thread, name), entered again and again (never while it is active: see linearize)
        pool_ = self.timers.__dict__.setdefault('pool', {})
        if arg not in pool_:
          pool_[arg] = P['timing'].timeit(TIMER_NAMES[arg - 10])
        return pool_[arg]
      return P['timing'].timeit(TIMER_NAMES[arg])
    if k == 'dyn':
      return P['dynamic_evaluation'].dynamic_evaluate(P['fns'][arg or 0], per_thread=True)
    if k == 'dyng':
      return P['dynamic_evaluation'].dynamic_evaluate(P['fns'][arg or 0], per_thread=False)
    if k == 'loadtypes':
      return P['json_conversion'].JSONConvertible.load_types_for_deserialization(*[P['types'][t] for t in arg])
    if k in COMPOSITE:
      c = self.context(arg)
      return c.collect() if k == 'collect' else c.apply([])
    raise RuntimeError(cm)

  def context(self, i):
    """DynamicEvaluationContext number i: per-thread ones belong to the thread, process-wide ones to the process"""
    D = self.P['dynamic_evaluation'].DynamicEvaluationContext
    if i < N_PT_CONTEXTS:
      pool_ = self.timers.__dict__.setdefault('contexts', {})
      if i not in pool_:
        pool_[i] = D(per_thread=True)
      return pool_[i]
    if i not in self.P['contexts']:
      self.P['contexts'][i] = D(per_thread=False)
    return self.P['contexts'][i]

  def context_id(self, c):
    for pool_ in (self.timers.__dict__.get('contexts', {}), self.P['contexts']):
      for i, x in pool_.items():
        if x is c:
          return i
    return -995

  last_kw = None
  timers = threading.local()

  # -- conversion of real values --------------------------------------------------------------------
  def kw_pairs(self, kind, d):
    names = KW_NAMES[kind]
    return [(names.index(k) if k in names else -997, self.atom(v)) for k, v in d.items()]
  def atom(self, v, seen=()):
    """real value -> comparable / encodable value; never raises: a cyclic dict (a defect can merge a dict into itself) becomes -999,
    anything unexpected -998"""
    if v is None or isinstance(v, (bool, int)):
      return v
    if isinstance(v, dict):
      if id(v) in seen or len(seen) > 8:
        return -999
      return {'d': [[SUB_NAMES.index(k) if k in SUB_NAMES else -997, self.atom(x, seen + (id(v),))] for k, x in v.items()]}
    return -998

  def reset_shared(self):
    """-> indices of shared argument dicts that were mutated; they are rebuilt from the templates"""
    bad = []
    for i, t in enumerate(SHARED_TEMPLATES):
      if self.atom(self.P['shared'][i]) != norm_value(t):
        bad.append(i)
        self.P['shared'][i].clear()
        self.P['shared'][i].update(py_value(t, None))
    return bad
  def perm_bits(self, p):
    return None if p is None else int(p.value)
  def fn_id(self, f):
    if f is None:
      return None
    if getattr(f, '__self__', None) is not None and getattr(f, '__name__', '') in ('add_decision_point', 'evaluate'):
      return (100 if f.__name__ == 'add_decision_point' else 200) + self.context_id(f.__self__)
    return self.P['fn_id'].get(id(f), -994)
  def class_pairs(self, d):
    return [(self.P['class_id'][s], self.P['class_id'][t]) for s, t in d.items()]
  def type_pairs(self, d):
    return [(TYPE_NAMES.index(n), self.P['type_id'][c]) for n, c in d.items()]
  def ov_pairs(self, d):
    return [(CTX_NAMES.index(k), (o.value, bool(o.cascade), bool(o.override_attrs))) for k, o in d.items()]

  # -- getters (python level; used by both the correspondence and the oracle) ---------------------
  def get(self, g):
    P = self.P
    k = g[0] if isinstance(g, list) else g
    if k == 'flag':
      return self.atom(getattr(P['flags'], self.info['flags'][g[1]]['getter'])())
    if k == 'perm':
      return self.perm_bits(P['permissions'].get_permission())
    if k == 'str':
      return self.kw_pairs('str', P['thread_local'].thread_local_kwargs(self.info['format_keys']['str_format']))
    if k == 'repr':
      return self.kw_pairs('repr', P['thread_local'].thread_local_kwargs(self.info['format_keys']['repr_format']))
    if k == 'view':
      return self.kw_pairs('view', P['thread_local'].thread_local_peek(self.view_key, {}))
    if k == 'ctx':
      return self.kw_pairs('ctx', P['execution'].get_context())
    if k == 'contextual':
      C = P['contextual']
      return self.ov_pairs({n: C.get_contextual_override(n) for n in C.all_contextual_values()})
    if k == 'detour':
      return self.class_pairs(P['class_detour'].current_mappings())
    if k == 'timeit':
      t = P['thread_local'].thread_local_get(self.timing_key, None)
      return None if t is None else TIMER_NAMES.index(t.name)
    if k == 'dyn':
      return self.fn_id(P['hyper_base'].get_dynamic_evaluate_fn())
    if k == 'loadtypes':
      st = P['json_conversion'].JSONConvertible._TYPE_REGISTRY._ondemand_registry_stack
      return self.type_pairs(st[-1]) if st else []
    if k == 'dynstack':
      return [self.context_id(c) for c in (P['thread_local'].thread_local_get(self.info.get('dynstack_key', 'dynamic_evaluation_stack'), None) or [])]
    if k == 'dyngstack':
      return [self.context_id(c) for c in P['dynamic_evaluation']._dynamic_evaluation_stack._global_stack]
    raise RuntimeError(g)

  def observe(self, g):
    k = g[0] if isinstance(g, list) else g
    v = self.get(g)
    if k in ('flag', 'perm', 'timeit', 'dyn'):
      return V_atom(v)
    if k in ('dynstack', 'dyngstack'):
      return V_stack([[(0, i)] for i in v])
    return V_dict(v)

  def all_getters(self):
    return [['flag', i] for i in range(len(self.info['flags']))] + GETTERS[1:]

  def snapshot(self):
    out = {}
    for g in self.all_getters():
      try:
        out[json.dumps(g)] = self.get(g)
      except Exception as e:   # pylint: disable=broad-except
        out[json.dumps(g)] = 'getter raised %s' % type(e).__name__
    return out

  # -- behavioural probes: what the settings DO, read without any getter -------------------------------
  def _probe_objects(self):
    if not hasattr(self, '_po'):
      pg = self.P['pg']
      A = pg.members([('x', pg.typing.Int()), ('y', pg.typing.Int())])(type('ProbeA', (pg.Object,), {}))
      foo = pg.symbolize(lambda x, y: x + y) if False else None
      def foo_fn(x, y):
        return x + y
      self._po = dict(A=A, foo=pg.symbolize(foo_fn), nested=pg.Dict(x=1, y=pg.Dict(z=2)))
    return self._po

  def behaviour(self):
    """Each entry is observed through what the library does, not through the getter of the setting."""
    P = self.P; pg = P['pg']; po = self._probe_objects()
    def tryw(f):
      try:
        f(); return 'ok'
      except Exception as e:   # pylint: disable=broad-except
        return type(e).__name__
    def tryv(f):
      try:
        return f()
      except Exception as e:   # pylint: disable=broad-except
        return 'raised ' + type(e).__name__
    out = {}
    out['write_unsealed'] = tryv(lambda: tryw(lambda d=pg.Dict(x=1): d.rebind(x=2)))
    out['write_sealed'] = tryv(lambda: tryw(lambda d=pg.Dict(x=1).seal(): d.rebind(x=2)))
    out['setattr_writable'] = tryv(lambda: tryw(lambda d=pg.Dict(x=1): setattr(d, 'x', 2)))
    out['setattr_not_writable'] = tryv(lambda: tryw(lambda d=pg.Dict(x=1, accessor_writable=False): setattr(d, 'x', 2)))
    def notified():
      calls = []
      d3 = pg.Dict(x=1, onchange_callback=lambda u: calls.append(1))
      tryw(lambda: d3.rebind(x=2))
      return len(calls)
    out['notified'] = tryv(notified)
    out['bad_value'] = tryv(lambda: tryw(lambda d=pg.Dict(x=1, value_spec=pg.typing.Dict([('x', pg.typing.Int())])): d.rebind(x='a')))
    out['partial_object'] = tryw(lambda: po['A'](x=1))
    def origin():
      a = pg.Dict(x=1)
      c = a.clone()
      return c.sym_origin is not None and c.sym_origin.source is a
    out['origin_tracked'] = tryv(origin)
    def functor():
      r = po['foo'](1, 2)
      return isinstance(r, int) and r == 3
    out['functor_called'] = tryv(functor)
    out['str_multiline'] = tryv(lambda: '\n' in str(po['nested']))
    out['repr_multiline'] = tryv(lambda: '\n' in repr(po['nested']))
    def view():
      with P['views_base'].view_options() as o:
        return self.kw_pairs('view', o)
    out['view_options'] = tryv(view)
    C = P['contextual']
    out['contextual_value'] = tryv(lambda: [C.contextual_value(n, None) for n in CTX_NAMES])
    ex, errors = P['execution'], __import__('pyglove.core.coding.errors', fromlist=['x'])
    def ev(code):
      try:
        return ('value', ex.evaluate(code))
      except errors.CodeError as e:
        return ('CodeError', type(e.cause).__name__)
    out['assign_allowed'] = tryv(lambda: ev('x = 1')[0])
    out['context_a'] = tryv(lambda: ev('a'))
    out['constructed'] = tryv(lambda: [self.P['class_id'].get(type(c()), -1) for c in self.P['classes'][:8]])
    def oneof():
      f = P['hyper_base'].get_dynamic_evaluate_fn()
      if getattr(f, '__self__', None) is not None:
        return 'context'          # a DynamicEvaluationContext would register / consume a decision point: not probed
      r = pg.oneof([10, 20])
      return r if isinstance(r, int) else 'OneOf'
    out['oneof'] = tryv(oneof)
    J = P['json_conversion'].JSONConvertible
    out['type_by_name'] = tryv(lambda: [self.P['type_id'].get(J.class_from_typename(n)) for n in TYPE_NAMES])
    return out

  def predicted_behaviour(self, snap):
    """What behaviour() must return according to the documented meaning of the values the getters return.  A probe that
    builds symbolic objects is only predicted when the *other* object-level flags are neutral (sealing, accessor
    writability, type checking and partial values change how objects are constructed, which is not C17's business)."""
    names = [f['scope'] for f in self.info['flags']]
    def flag(n, default):
      return snap[json.dumps(['flag', names.index(n)])] if n in names else default
    sealed, acc = flag('as_sealed', None), flag('allow_writable_accessors', None)
    tc, partial = flag('enable_type_check', True), flag('allow_partial', None)
    neutral = dict(sealed=sealed is None, acc=acc is None, tc=bool(tc), partial=partial is None)
    def quiet(*own):
      return all(v for k, v in neutral.items() if k not in own)
    out = {}
    if quiet('sealed'):
      out['write_unsealed'] = 'WritePermissionError' if sealed is True else 'ok'
      out['write_sealed'] = 'ok' if sealed is False else 'WritePermissionError'
    if quiet('acc'):
      out['setattr_writable'] = 'WritePermissionError' if acc is False else 'ok'
      out['setattr_not_writable'] = 'ok' if acc is True else 'WritePermissionError'
    if quiet():
      out['notified'] = 1 if flag('notify_on_change', True) else 0
      out['origin_tracked'] = bool(flag('track_origin', False))
      out['functor_called'] = bool(flag('auto_call_functors', None))
      dm = dict(snap['"detour"'])
      out['constructed'] = [dm.get(i, i) for i in range(8)]
      out['oneof'] = ('context' if snap['"dyn"'] >= 100 else snap['"dyn"']) if snap['"dyn"'] is not None else 'OneOf'
    if quiet('tc'):
      out['bad_value'] = 'TypeError' if tc else 'ok'
    if quiet('partial'):
      out['partial_object'] = 'ok' if partial is True else 'TypeError'
    out['str_multiline'] = not dict(snap['"str"']).get(0, False)
    out['repr_multiline'] = not dict(snap['"repr"']).get(0, True)
    out['view_options'] = snap['"view"']
    cx = dict(snap['"contextual"'])
    out['contextual_value'] = [cx[i][0] if i in cx else None for i in range(len(CTX_NAMES))]
    perm = snap['"perm"']
    out['assign_allowed'] = 'value' if (perm is None or perm & 1) else 'CodeError'
    c = dict(snap['"ctx"'])
    out['context_a'] = ('value', c[0]) if 0 in c else ('CodeError', 'NameError')
    tt = dict(snap['"loadtypes"'])
    out['type_by_name'] = [tt.get(i) for i in range(len(TYPE_NAMES))]
    return out

  # -- raw stores, normalised like Model/Scopes.v nrm ------------------------------------------------
  def raw_local(self):
    P = self.P
    out = []
    missing = object()
    for ns, s, ident in self.info['keys']:
      if ns == 'tls':
        v = P['thread_local'].thread_local_get(s, missing) if P['thread_local'].thread_local_has(s) else missing
      elif ns == 'contextual':
        v = getattr(P['contextual']._global_contextual_overrides, s, missing)
      else:
        v = getattr(P['class_detour']._global_detour_context._tls, s, missing)
      kind = self.key_kind[(ns, s)]
      if v is missing:
        out.append([]); continue
      if kind == 'atom': w = V_atom(self.atom(v))
      elif kind == 'perm': w = V_atom(self.perm_bits(v))
      elif kind == 'timer': w = V_atom(None if v is None else TIMER_NAMES.index(v.name))
      elif kind == 'fn': w = V_atom(self.fn_id(v))
      elif kind == 'contextual':
        if not v: out.append([]); continue
        w = V_dict(self.ov_pairs(v))
      elif kind.startswith('stack:'):
        if not v: out.append([]); continue
        sub = kind[6:]
        if sub == 'dynctx':
          w = V_stack([[(0, self.context_id(c))] for c in v])
        else:
          w = V_stack([self.class_pairs(d) if sub == 'detour' else self.kw_pairs(sub, d) for d in v])
      else:
        raise RuntimeError(kind)
      out.append([w])
    return out

  def raw_global(self):
    P = self.P
    g = P['hyper_base']._global_dynamic_evaluate_fn
    st = P['json_conversion'].JSONConvertible._TYPE_REGISTRY._ondemand_registry_stack
    gs = P['dynamic_evaluation']._dynamic_evaluation_stack._global_stack
    return [[] if g is None else [V_atom(self.fn_id(g))], [] if not st else [V_stack([self.type_pairs(d) for d in st])],
            [] if not gs else [V_stack([[(0, self.context_id(c))] for c in gs])]]

  def reset_globals(self):
    P = self.P
    gs = P['dynamic_evaluation']._dynamic_evaluation_stack._global_stack
    dirty = P['hyper_base']._global_dynamic_evaluate_fn is not None or bool(P['json_conversion'].JSONConvertible._TYPE_REGISTRY._ondemand_registry_stack) or bool(gs)
    del gs[:]
    P['hyper_base']._global_dynamic_evaluate_fn = None
    del P['json_conversion'].JSONConvertible._TYPE_REGISTRY._ondemand_registry_stack[:]
    return dirty


class Interp:
  """Runs a program with real `with` statements; gate() is called before every visible event."""
  def __init__(self, real, gate=None):
    self.real, self.gate = real, gate or (lambda: None)
    self.obs = []
    self.obs_g = []      # the getter of every observation, in order
    self.ncatch = 0
  def run(self, p):
    t = p[0]
    if t == 'skip':
      return
    if t == 'obs':
      self.gate()
      try:
        self.obs.append(self.real.observe(p[1]))
      except Exception as e:   # pylint: disable=broad-except
        self.obs.append([0, [2, -996]])           # the getter itself failed: an outcome, not a harness crash
      self.obs_g.append(p[1])
    elif t == 'raise':
      raise Boom()
    elif t == 'seq':
      self.run(p[1]); self.run(p[2])
    elif t == 'catch':
      self.ncatch += 1
      if self.ncatch % 2 == 0:
        with self.real.P['error_utils'].catch_errors([Boom, AssertionError, ValueError]):
          self.run(p[1])
      else:
        try:
          self.run(p[1])
        except (Boom, AssertionError, ValueError):
          pass
    elif t == 'scope':
      self.gate()
      with self.real.make_cm(p[1], p[2]):
        try:
          self.run(p[3])
        finally:
          self.gate()
    else:
      raise RuntimeError(p)
  def top(self, p):
    """-> exception flag as the model prints it (0/1), or (3 name) for an exception the model cannot produce"""
    try:
      self.run(p)
      return 0
    except (Boom, AssertionError, ValueError):
      return 1
    except Exception as e:    # pylint: disable=broad-except
      return [3] + [ord(c) for c in type(e).__name__]


def in_fresh_thread(fn):
  box = {}
  def target():
    try:
      box['r'] = fn()
    except BaseException as e:   # pylint: disable=broad-except
      box['e'] = e
  t = threading.Thread(target=target)
  t.start(); t.join()
  if 'e' in box:
    raise box['e']
  return box['r']


def impl_single(real, prog):
  def body():
    it = Interp(real)
    exc = it.top(prog)
    real.last_getters = it.obs_g
    return [0, it.obs, exc, real.raw_local(), real.raw_global()]
  try:
    return in_fresh_thread(body)
  finally:
    real.reset_globals()
    real.reset_shared()


def impl_threads(real, progs, sched):
  """Real threads, one per program, advanced one visible event at a time in the order given by sched."""
  n = len(progs)
  go = [threading.Semaphore(0) for _ in range(n)]
  arrived = [threading.Semaphore(0) for _ in range(n)]
  done = [False] * n
  res = [None] * n
  def worker(i):
    def gate():
      arrived[i].release()
      go[i].acquire()
    it = Interp(real, gate)
    try:
      gate()                       # wait to be started by the controller
      exc = it.top(progs[i])
      res[i] = (it.obs, exc, real.raw_local(), it.obs_g)
    except BaseException as e:     # pylint: disable=broad-except
      res[i] = ([], [4] + [ord(c) for c in repr(e)[:40]], [], [])
    done[i] = True
    arrived[i].release()
  ths = [threading.Thread(target=worker, args=(i,)) for i in range(n)]
  for i, t in enumerate(ths):
    t.start()
    arrived[i].acquire()           # parked at the start gate
  for i in range(n):               # run every thread up to its first event
    go[i].release(); arrived[i].acquire()
  def tick(i):
    if not done[i]:
      go[i].release(); arrived[i].acquire()
  for i in sched:
    if i < n:
      tick(i)
  for i in range(n):
    while not done[i]:
      tick(i)
  for t in ths:
    t.join()
  out = [1, [r[0] for r in res], [r[1] for r in res], [r[2] for r in res], real.raw_global()]
  real.last_thread_getters = [r[3] for r in res]
  real.reset_globals()
  real.reset_shared()
  return out

# ------------------------------------------------------------------------------------------------
# the direct oracle: the property text on the real library, independent of the model
def deep_merge_pairs(old, new):
  """reference deep merge on [(key, value)] lists with {'d': [...]} for dict values: a key whose old and new values are both dicts
  is merged recursively in place of the old one; anything else replaces / is appended"""
  out = [[k, v] for k, v in old]
  for k, v in new:
    hit = [e for e in out if e[0] == k]
    if hit:
      o = hit[0][1]
      if isinstance(o, dict) and isinstance(v, dict):
        hit[0][1] = {'d': [list(x) for x in deep_merge_pairs(o['d'], v['d'])]}
      else:
        hit[0][1] = copy.deepcopy(v)
    else:
      out.append([k, copy.deepcopy(v)])
  return [(k, v) for k, v in out]


def local_fns(stack):
  """the per-thread evaluate functions of the enclosing scopes of this thread, outermost first"""
  out = []
  for e in stack:
    if e[0] == 'dyn':
      out.append(e[1])
    elif e[0] in COMPOSITE and e[1] < N_PT_CONTEXTS:
      out.append((100 if e[0] == 'collect' else 200) + e[1])
  return out


def expected_inside(kind, arg, before, stack):
  """The documented nesting rule: what the manager's getter must return right after entering."""
  if kind in COMPOSITE:
    fn = (100 if kind == 'collect' else 200) + arg
    if arg < N_PT_CONTEXTS:
      return fn
    mine = local_fns(stack)                               # a per-thread function of this thread hides the process-wide one
    return mine[-1] if mine else fn
  if kind == 'timeit':
    return arg % 10
  if kind in ('flag', 'dyn'):
    return arg                                            # innermost wins
  if kind == 'dyng':
    mine = local_fns(stack)           # a per-thread function of this thread takes precedence
    return mine[-1] if mine else arg
  if kind == 'perm':
    return before if before is not None else arg          # outermost wins
  if kind == 'view':
    return deep_merge_pairs(before, [[k, norm_value(v)] for k, v in arg])          # documented: a deep merge
  if kind in ('str', 'repr', 'ctx'):
    d = dict(before); d.update(py_dict_pairs([(k, norm_value(v)) for k, v in arg])); return list(d.items())
  if kind == 'contextual':
    d = dict(before)
    for k, v, c, a in arg:
      if k in d and d[k][1]:
        continue                                          # an outer override marked cascade wins
      d[k] = (v, bool(c), bool(a))
    return list(d.items())
  if kind in ('detour', 'wrappers'):
    maps = arg if kind == 'detour' else [(5 + i, 8 + i) for i in arg]
    outer = dict(before)
    d = dict(before)
    for s, t in maps:
      if s in outer:
        continue                                          # the outer scope's mapping takes precedence
      d[s] = outer.get(t, t)                              # transitive through the outer scope
    return list(d.items())
  if kind == 'loadtypes':
    d = dict(before); d.update(py_dict_pairs([([0, 1, 0][t], t) for t in arg])); return list(d.items())
  raise RuntimeError(kind)


class Oracle:
  def __init__(self, real):
    self.real = real
    self.hits = []        # (signature, what)
    self.fresh = None
    self.behaviour = True
    self.tainted = set()  # getters already reported as not restored by an inner scope (not blamed on the enclosing ones again)
  def hit(self, sig, what):
    if not any(s == sig for s, _ in self.hits):
      self.hits.append((sig, what))
  def describe_value(self, got, inner, outer, fresh):
    if got == outer: return 'outer-value'
    if got == inner: return 'inner-value'
    if got == fresh: return 'default'
    return 'other'
  def run(self, p, stack):
    real = self.real
    t = p[0]
    if t in ('skip', 'obs'):
      return
    if t == 'raise':
      raise Boom()
    if t == 'seq':
      self.run(p[1], stack); self.run(p[2], stack); return
    if t == 'catch':
      try:
        self.run(p[1], stack)
      except (Boom, AssertionError, ValueError):
        pass
      return
    cm, arg, body = p[1], p[2], p[3]
    kind = cm_kind(cm)
    name = cm_name(cm, real.info)
    g = ['flag', cm[1]] if kind == 'flag' else GETTER_OF[kind]
    gk = json.dumps(g)
    before = real.snapshot()
    exp = expected_inside(kind, arg, before[gk], stack)
    also = {}        # further getters the manager is documented to change: getter key -> expected value
    if kind in COMPOSITE:
      sk = '"dynstack"' if arg < N_PT_CONTEXTS else '"dyngstack"'
      also[sk] = before[sk] + [arg]
    entered = False
    exc = None
    inside = None
    kwrec = None
    try:
      cmobj = real.make_cm(cm, arg)
      kwrec = real.last_kw if kind in KW_NAMES else None
      with cmobj:
        entered = True
        inside = real.snapshot()
        self.check_behaviour(inside, 'inside `with %s(%r)`' % (name, arg))
        if inside[gk] != exp:
          self.hit('C17/effective/%s/getter-returns-%s' % (name, self.describe_value(inside[gk], exp, before[gk], self.fresh[gk])),
                   'inside `with %s(%r)` (enclosing scopes %r) the getter returns %r, the documented nesting rule gives %r' % (name, arg, [(e[2], e[1]) for e in stack], inside[gk], exp))
        if kind in COMPOSITE and (before['"dyngstack"'] if arg < N_PT_CONTEXTS else before['"dynstack"']):
          self.hit('C17/mixing-not-refused/%s' % name, '%s(%r) was entered although a %s context is active (documented: nested contexts must be all per-thread '
                   'or all process-wide, ValueError)' % (name, arg, 'process-wide' if arg < N_PT_CONTEXTS else 'per-thread'))
        for k2, want in also.items():
          if inside[k2] != want:
            self.hit('C17/effective/%s/%s' % (name, k2.replace('"', '')), 'inside `with %s(%r)` the getter %s returns %r instead of %r' % (name, arg, k2, inside[k2], want))
        for k2 in before:
          if k2 != gk and k2 not in also and inside[k2] != before[k2]:
            self.hit('C17/interference/%s/changes-%s' % (name, k2), 'entering %s changed the unrelated getter %s from %r to %r' % (name, k2, before[k2], inside[k2]))
        self.run(body, stack + [(kind, arg, name)])
    except BaseException as e:   # pylint: disable=broad-except
      exc = e
    after = real.snapshot()
    how = 'normally' if exc is None else ('by exception' if entered else 'because entering failed')
    if not entered:
      per_thread = kind == 'dyn' or (kind in COMPOSITE and arg < N_PT_CONTEXTS)
      allowed = per_thread and isinstance(exc, AssertionError) and real.P['hyper_base']._global_dynamic_evaluate_fn is not None
      if kind in COMPOSITE and isinstance(exc, ValueError):
        # documented: nested contexts must be all per-thread or all process-wide
        allowed = bool(before['"dyngstack"']) if per_thread else bool(before['"dynstack"'])
      if not allowed:
        self.hit('C17/enter-fails/%s/%s' % (name, type(exc).__name__), 'entering %s(%r) raised %r' % (name, arg, exc))
    elif exc is not None and not isinstance(exc, Boom) and not (isinstance(exc, (AssertionError, ValueError)) and self.expected_assert(body)):
      self.hit('C17/exit-raises/%s/%s' % (name, type(exc).__name__), 'leaving %s(%r) raised %r' % (name, arg, exc))
    if kwrec is not None and kwrec[0] != kwrec[1]:
      self.hit('C17/argument-mutated/%s' % name, 'the dict passed to %s(%r) was changed by the library (or by a scope nested in it): %r -> %r'
               % (name, arg, kwrec[1], kwrec[0]))
    for k2 in before:
      if after[k2] != before[k2] and k2 not in self.tainted:
        self.tainted.add(k2)
        d = self.describe_value(after[k2], inside[k2] if inside else None, None, self.fresh[k2])
        self.hit('C17/restore/%s/%s-left-at-%s' % (name, k2.replace('"', ''), d),
                 'after leaving `with %s(%r)` %s (enclosing scopes %r) the getter %s returns %r, before entering it returned %r'
                 % (name, arg, how, [(e[2], e[1]) for e in stack], k2, after[k2], before[k2]))
    if exc is not None:
      raise exc
  def check_behaviour(self, snap, where):
    """The settings are effective: what the library does agrees with the documented meaning of what the getters return."""
    if not self.behaviour:
      return
    got, want = self.real.behaviour(), self.real.predicted_behaviour(snap)
    for k in want:
      if got[k] != want[k]:
        self.hit('C17/behaviour/%s/disagrees-with-getter' % k, '%s the probe %s gives %r, the getters (%s) imply %r'
                 % (where, k, got[k], {a: b for a, b in snap.items() if b not in (None, [])}, want[k]))

  def expected_assert(self, body):
    """An AssertionError may legitimately escape a body that tries to enter a per-thread dynamic_evaluate under a process-wide one."""
    t = body[0]
    if t == 'seq': return self.expected_assert(body[1]) or self.expected_assert(body[2])
    if t == 'scope': return cm_kind(body[1]) in ('dyn', 'collect', 'apply') or self.expected_assert(body[3])
    return False


def oracle_single(real, prog, behaviour=True):
  o = Oracle(real)
  o.behaviour = behaviour
  def body():
    o.fresh = real.snapshot()
    o.check_behaviour(o.fresh, 'in a fresh thread')
    try:
      o.run(prog, [])
    except (Boom, AssertionError, ValueError):
      pass
    end = real.snapshot()
    if not o.tainted:
      o.check_behaviour(end, 'after the whole program')
    for k in end:
      if end[k] != o.fresh[k] and k not in o.tainted:
        o.hit('C17/restore/program-end/%s' % k.replace('"', ''), 'after the whole program the getter %s returns %r instead of %r' % (k, end[k], o.fresh[k]))
  try:
    in_fresh_thread(body)
  except Exception as e:   # pylint: disable=broad-except
    o.hit('C17/unexpected-exception/%s' % type(e).__name__, 'the program ended with %r' % (e,))
  if real.reset_globals():
    o.hit('C17/restore/process-wide-state-left-behind', 'a process-wide setting is still installed after the program ended')
  bad = real.reset_shared()
  if bad and not any(s_.startswith('C17/argument-mutated/') for s_, _ in o.hits):
    o.hit('C17/argument-mutated/shared-dict', 'a dict object passed as an option value to several scopes was changed by the library: shared[%s]' % bad)
  return o.hits


def thread_local_positions(prog):
  """Getters observed by prog in order (static order, valid when no enter fails)."""
  out = []
  def go(p):
    t = p[0]
    if t == 'obs': out.append(p[1]); return False
    if t == 'raise': return True
    if t == 'seq': return go(p[1]) or go(p[2])
    if t == 'catch': go(p[1]); return False
    if t == 'scope': return go(p[3])
    return False
  go(prog)
  return out


def oracle_threads(real, progs, sched, impl_out):
  """No-leak: what a thread reads through the thread-local getters equals what it reads when run alone.
  Must be called right after impl_threads (uses the getters recorded by that run)."""
  hits = []
  kinds = [prog_stats(p)[3] for p in progs]
  inter_g = real.last_thread_getters
  for i, p in enumerate(progs):
    others_global = any('dyng' in k for j, k in enumerate(kinds) if j != i)
    if 'dyn' in kinds[i] and others_global:
      continue        # control flow may legitimately depend on the other thread (documented process-wide manager)
    solo = impl_single(real, p)
    solo_g = real.last_getters
    a, b = impl_out[1][i], solo[1]
    if inter_g[i] != solo_g or impl_out[2][i] != solo[2]:
      hits.append(('C17/leak/control-flow-differs', 'thread %d observes getters %s (exception flag %s) in the interleaving and %s (%s) alone'
                   % (i, inter_g[i], impl_out[2][i], solo_g, solo[2])))
      continue
    for g, x, y in zip(solo_g, a, b):
      gk = g[0] if isinstance(g, list) else g
      if gk in ('dyn', 'loadtypes'):
        continue      # reads the process-wide store: allowed to differ
      if x != y:
        hits.append(('C17/leak/%s/visible-in-another-thread' % (cm_name(g, real.info) if isinstance(g, list) else gk),
                     'thread %d reads %s through getter %s in the interleaving but %s when run alone' % (i, x, g, y)))
        break
    if impl_out[3][i] != solo[3] and 'dyn' not in kinds[i]:
      hits.append(('C17/leak/thread-store-differs', 'thread %d ends with store %s in the interleaving and %s alone' % (i, impl_out[3][i], solo[3])))
  return hits


def oracle_propagation(real):
  """pg.with_contextual_override propagates explicitly; without it another thread sees nothing."""
  C = real.P['contextual']
  hits = []
  box = {}
  def a_thread():
    with C.contextual_override(x=1, y=C.ContextualOverride(2, True, False)):
      with C.contextual_override(z=3, y=5):
        box['inside'] = real.get('contextual')
        box['wrapped'] = C.with_contextual_override(lambda: real.get('contextual'))
        box['plain'] = lambda: real.get('contextual')
        box['b_plain'] = in_fresh_thread(box['plain'])
        box['b_wrapped'] = in_fresh_thread(box['wrapped'])
    box['after'] = real.get('contextual')
  in_fresh_thread(a_thread)
  if box['b_plain'] != []:
    hits.append(('C17/leak/contextual_override/visible-in-another-thread', 'another thread sees %r without explicit propagation' % (box['b_plain'],)))
  if box['b_wrapped'] != box['inside']:
    hits.append(('C17/propagation/with_contextual_override/differs', 'the wrapped function sees %r in another thread, the wrapping thread saw %r' % (box['b_wrapped'], box['inside'])))
  if box['after'] != []:
    hits.append(('C17/restore/contextual_override/after-propagation', 'overrides %r remain after the scopes' % (box['after'],)))
  late = in_fresh_thread(box['wrapped'])      # the wrapper carries the captured overrides, not the current ones
  if late != box['inside']:
    hits.append(('C17/propagation/with_contextual_override/not-captured', 'the wrapper called after the scope sees %r' % (late,)))
  return hits

# ------------------------------------------------------------------------------------------------
# generators
ATOMS = [True, False, None, 0, 1, 2, 7]
def gen_value(rng, depth):
  """a dict-valued option nested up to `depth`, or one of the shared dict objects"""
  r = rng.random()
  if r < 0.3:
    return {'shared': rng.randrange(len(SHARED_TEMPLATES))}
  keys = rng.sample(range(4), rng.randint(0, 3))
  return {'d': [[k, gen_value(rng, depth - 1) if (depth > 1 and rng.random() < 0.35) else rng.choice(ATOMS)] for k in keys]}

def gen_arg(rng, kind):
  if kind == 'flag': return rng.choice([True, False, None])
  if kind == 'perm': return rng.choice([0, 1, 2, 3, 5, 9, 64, 128, 254, 255, rng.randrange(256)])
  if kind in ('str', 'repr', 'view', 'ctx'):
    names = rng.sample(range(4), rng.randint(0, 3))
    # dict-valued options: any key of view_options (deep merge); only keys the behavioural probes do not interpret for the others
    dict_ok = dict(view=(0, 1, 2, 3), str=(2, 3), repr=(2, 3), ctx=(1, 2, 3))[kind]
    return [[n, gen_value(rng, 2) if (n in dict_ok and rng.random() < (0.6 if kind == 'view' else 0.25)) else rng.choice(ATOMS)] for n in names]
  if kind == 'contextual':
    names = rng.sample(range(3), rng.randint(0, 3))
    return [[n, rng.randint(0, 5), rng.random() < .4, rng.random() < .3] for n in names]
  if kind == 'detour':
    out = []
    for _ in range(rng.randint(1, 3)):
      s = rng.randrange(N_DETOUR); d = rng.choice([x for x in range(N_DETOUR) if x != s])
      out.append([s, d])
    return out
  if kind == 'wrappers': return rng.sample(range(3), rng.randint(1, 3))
  if kind == 'timeit': return rng.randrange(3) + (10 if rng.random() < 0.5 else 0)
  if kind in ('dyn', 'dyng'): return rng.choice([None, 1, 2, 3])
  if kind == 'loadtypes': return [rng.randrange(3) for _ in range(rng.randint(0, 3))]
  if kind in COMPOSITE: return rng.randrange(4)
  raise RuntimeError(kind)

SWEEP_POOL = dict(
    flag=[True, False, None], perm=[0, 3, 255],
    str=[[], [[0, True]], [[0, False], [1, 2]], [[2, {'d': [[0, True]]}]], [[2, {'shared': 0}]]],
    repr=[[], [[0, True]], [[0, False], [1, 2]], [[2, {'d': [[0, True]]}]], [[2, {'shared': 0}]]],
    view=[[], [[0, True]], [[0, False], [1, 2]],
          [[0, {'d': [[0, True]]}]], [[0, {'d': [[0, False], [2, 1]]}], [1, 2]], [[0, {'shared': 0}]], [[0, {'shared': 1}]],
          [[0, {'d': [[1, False], [2, {'d': [[3, 2], [0, None]]}]]}]]],
    ctx=[[], [[0, 1]], [[0, 2], [1, None]], [[1, {'d': [[0, True]]}]], [[1, {'shared': 0}]]],
    contextual=[[[0, 1, False, False]], [[0, 2, True, False]], [[0, 3, False, True], [1, 4, True, True]]],
    detour=[[[0, 1]], [[0, 2], [1, 0]], [[2, 0], [0, 3]]], wrappers=[[0], [1, 2]], timeit=[0, 1, 10, 11],
    dyn=[None, 1, 2], dyng=[None, 1, 2], loadtypes=[[], [0], [2, 1]], collect=[0, 2], apply=[1, 2])
RELATED = dict(dyn=['dyn', 'dyng'], dyng=['dyng', 'dyn'], collect=['collect', 'apply', 'dyn', 'dyng'], apply=['apply', 'collect', 'dyn', 'dyng'], detour=['detour', 'wrappers'], wrappers=['wrappers', 'detour'])

def all_cms(nflags):
  return [['flag', i] for i in range(nflags)] + CMS[1:] + COMPOSITE
def getter_for(cm):
  return ['flag', cm[1]] if isinstance(cm, list) else GETTER_OF[cm]

def linearize(p, active=frozenset()):
  """A reused TimeIt object is never entered while it is active (context manager objects are not re-entrant): the inner use becomes a fresh timer."""
  t = p[0]
  if t == 'seq': return ['seq', linearize(p[1], active), linearize(p[2], active)]
  if t == 'catch': return ['catch', linearize(p[1], active)]
  if t == 'scope':
    cm, arg = p[1], p[2]
    if cm == 'timeit' and arg >= 10:
      if arg in active:
        return ['scope', cm, arg - 10, linearize(p[3], active)]
      return ['scope', cm, arg, linearize(p[3], active | {arg})]
    return ['scope', cm, arg, linearize(p[3], active)]
  return p

def sweep_cases(nflags):
  """every manager x argument x outer state {unset, each value of each related manager} x {normal, exceptional} exit"""
  out = []
  for cm in all_cms(nflags):
    k = cm_kind(cm)
    g = ['obs', getter_for(cm)]
    outers = [None]
    for rk in RELATED.get(k, [k]):
      rcm = cm if rk == k else rk
      outers += [(rcm, a) for a in SWEEP_POOL[rk]]
    # an earlier, already closed, scope of the same / a related manager (what it leaves behind must not matter)
    siblings = [None] + [(cm if rk == k else rk, SWEEP_POOL[rk][-1]) for rk in RELATED.get(k, [k])]
    for arg in SWEEP_POOL[k]:
      for outer in outers:
        for sib in siblings:
          for exc in (False, True):
            if exc:
              core = seq(g, ['catch', ['scope', cm, arg, seq(g, ['raise'])]], g)
            else:
              core = seq(g, ['scope', cm, arg, g], g)
            if sib:
              core = seq(['scope', sib[0], sib[1], ['skip']], core)
            p = seq(['scope', outer[0], outer[1], core], g) if outer else core
            out.append(linearize(p))
  # a re-used manager OBJECT (class based: pg.timeit returns a TimeIt that can be entered again): first use under one parent, second use
  # under another / under none, each left normally or by exception
  g = ['obs', 'timeit']
  def use(exc):
    return ['catch', ['scope', 'timeit', 10, seq(g, ['raise'])]] if exc else ['scope', 'timeit', 10, g]
  for e1 in (False, True):
    for e2 in (False, True):
      out.append(seq(['scope', 'timeit', 0, seq(use(e1), g)], g, use(e2), g))
      out.append(seq(use(e1), g, ['scope', 'timeit', 1, seq(use(e2), g)], g))
      out.append(seq(['scope', 'timeit', 0, seq(use(e1), g, ['scope', 'timeit', 11, seq(use(e2), g)], g)], g))
      out.append(seq(use(e1), g, use(e2), g))
  return out

NEST_POOL = dict(
    flag=[True, False], perm=[3, 255], str=[[[0, True]], [[0, False]]], repr=[[[0, True]], [[0, False]]],
    view=[[[0, True]], [[0, False]]], ctx=[[[0, 1]], [[0, 2]]], contextual=[[[0, 1, False, False]], [[0, 2, False, False]]],
    detour=[[[0, 1]], [[0, 2]]], wrappers=[[0], [1]], timeit=[0, 1], dyn=[1, 2], dyng=[1, 2], loadtypes=[[0], [2]],
    collect=[0, 1], apply=[0, 1])
NEST_POOL3 = dict(str=[[1, 2]], repr=[[1, 2]], view=[[0, {'d': [[0, True]]}]], ctx=[[1, 2]], flag=None)

def nest_sweep(nflags):
  """Every manager nested in ITSELF to depth 3 and 4 with every sequence of argument values from a pool of two, repeats included
  (A>B>A, A>A>B, A>B>A>B, ...; for the keyword managers also depth 3 over three values), an observation after every enter and after
  every exit, leaving normally or by an exception raised in the innermost body and caught outside level j (for every j)."""
  import itertools
  out = []
  for cm in all_cms(nflags):
    k = cm_kind(cm)
    g = ['obs', getter_for(cm)]
    pools = [(NEST_POOL[k], (3, 4))]
    if NEST_POOL3.get(k) is not None:
      pools.append((NEST_POOL[k] + [NEST_POOL3[k]], (3,)))
    elif k == 'flag':
      pools.append(([True, False, None], (3,)))
    seen_seq = set()
    for pool_, depths in pools:
      for d in depths:
        for seq_ in itertools.product(range(len(pool_)), repeat=d):
          key = (d, tuple(json.dumps(pool_[i]) for i in seq_))
          if key in seen_seq:
            continue
          seen_seq.add(key)
          for caught_at in [None] + list(range(d)):
            def build(level):
              if level == d:
                return seq(g, ['raise']) if caught_at is not None else g
              node = ['scope', cm, pool_[seq_[level]], seq(g, build(level + 1), g) if level + 1 < d or caught_at is None else seq(g, build(level + 1))]
              if caught_at == level:
                node = ['catch', node]
              return node
            out.append(linearize(seq(g, build(0), g)))
  return out

def gen_block(rng, depth, cms, enclosing, p_raise):
  n = rng.choice([1, 1, 2, 2, 3])
  stmts = []
  for _ in range(n):
    r = rng.random()
    if depth > 0 and r < 0.45:
      cm = rng.choice(cms)
      stmts.append(['scope', cm, gen_arg(rng, cm_kind(cm)), gen_block(rng, depth - 1, cms, enclosing + [cm], p_raise)])
    elif depth > 0 and r < 0.55:
      stmts.append(['catch', gen_block(rng, depth - 1, cms, enclosing, max(p_raise, 0.3))])
    elif r < 0.55 + p_raise:
      stmts.append(['raise'])
    else:
      if enclosing and rng.random() < 0.7:
        stmts.append(['obs', getter_for(rng.choice(enclosing))])
      else:
        stmts.append(['obs', getter_for(rng.choice(cms))])
  return seq(*stmts)

def gen_prog(rng, cms, max_depth=6):
  """a spine of nested scopes of a chosen depth (so that deep nesting is common) with random blocks around it"""
  depth = rng.choice([1, 2, 3, 3, 4, 4, 5, 6, 6][:3 + max_depth])
  depth = min(depth, max_depth)
  p_raise = rng.choice([0.0, 0.08, 0.15])
  # bias towards few managers so that the same manager nests under itself with a non-default outer value
  k = rng.choice([1, 2, 3, len(cms)])
  sub = rng.sample(cms, min(k, len(cms)))
  def spine(d, enclosing):
    if d == 0:
      return gen_block(rng, 1, sub, enclosing, p_raise)
    cm = rng.choice(sub)
    inner = spine(d - 1, enclosing + [cm])
    pre = gen_block(rng, 0, sub, enclosing + [cm], 0.0) if rng.random() < .5 else None
    post = gen_block(rng, 1 if rng.random() < .3 else 0, sub, enclosing + [cm], p_raise if rng.random() < .5 else 0.0) if rng.random() < .7 else None
    body = seq(pre, inner, post)
    node = ['scope', cm, gen_arg(rng, cm_kind(cm)), body]
    if rng.random() < 0.25:
      node = ['catch', node]
    return seq(node, ['obs', getter_for(cm)])
  return linearize(spine(depth, []))

def shrink(prog, fails):
  """Greedy delta-debugging on the program tree: replace a node by a child / drop a statement while `fails` still holds."""
  def variants(p):
    t = p[0]
    if t == 'seq':
      yield p[1]; yield p[2]
      for v in variants(p[1]): yield ['seq', v, p[2]]
      for v in variants(p[2]): yield ['seq', p[1], v]
    elif t == 'catch':
      yield p[1]
      for v in variants(p[1]): yield ['catch', v]
    elif t == 'scope':
      yield p[3]
      for v in variants(p[3]): yield ['scope', p[1], p[2], v]
    elif t in ('obs', 'raise'):
      yield ['skip']
  cur = prog
  improved = True
  budget = 300
  while improved and budget > 0:
    improved = False
    for v in variants(cur):
      budget -= 1
      if budget <= 0:
        break
      if fails(v):
        cur = v; improved = True
        break
  return cur

# ------------------------------------------------------------------------------------------------
FALLBACK_INFO = dict(
    flags=[dict(scope=s, getter=g, key=k, initial=i, getter_default=d) for s, g, k, i, d in [
        ('notify_on_change', 'is_change_notification_enabled', '_enable_change_notification', True, True),
        ('track_origin', 'is_tracking_origin', '_enable_origin_tracking', False, False),
        ('enable_type_check', 'is_type_check_enabled', '_enable_type_check', True, True),
        ('allow_writable_accessors', 'is_under_accessor_writable_scope', '_accessor_writable', None, None),
        ('as_sealed', 'is_under_sealed_scope', '_sealed', None, None),
        ('allow_partial', 'is_under_partial_scope', '_allow_partial', None, None),
        ('auto_call_functors', 'should_call_functors_during_init', '_allow_auto_call_functors', False, None)]],
    format_keys=dict(str_format='_str_format_kwargs', repr_format='_repr_format_kwargs'),
    aliases=dict(k_permission='__code_run_permission__', k_context='__code_run_context__', k_view_options='__view_options__', k_timing='__timing_context__'),
    dyn_key='dynamic_evaluate_fn',
    keys=[('tls', k, '') for k in ['_enable_change_notification', '_enable_origin_tracking', '_enable_type_check', '_accessor_writable', '_sealed',
                                   '_allow_partial', '_allow_auto_call_functors', '_str_format_kwargs', '_repr_format_kwargs', '__code_run_permission__',
                                   '__code_run_context__', '__view_options__', '__timing_context__']]
         + [('contextual', '__contextual_overrides__', 'k_contextual'), ('detour', 'detour_stack', 'k_detour'), ('tls', 'dynamic_evaluate_fn', ''),
            ('tls', 'dynamic_evaluation_stack', 'k_dynstack')],
    dynstack_key='dynamic_evaluation_stack')

def get_info(ctx=None):
  try:
    return scope_defs.translate()[1], True
  except Exception:   # pylint: disable=broad-except
    return FALLBACK_INFO, False

def corpus_programs():
  """Minimised programs kept from earlier failures and findings (corpus/C17/*.json); always run first."""
  from harness.lib.common import VERIF
  out = []
  d = os.path.join(VERIF, 'corpus', 'C17')
  if os.path.isdir(d):
    for f in sorted(os.listdir(d)):
      if f.endswith('.json'):
        c = json.load(open(os.path.join(d, f)))
        out += c.get('programs', [])
  return out

def canon(p):
  return json.dumps(p, separators=(',', ':'))

def run(ctx):
  info = ctx.regen('Gen/ScopeDefs.v', scope_defs.translate)
  ctx.build()
  translated = info is not None
  if info is None:
    info = FALLBACK_INFO
  real = Real(info)
  rng = ctx.rng
  nflags = len(info['flags'])
  cms = all_cms(nflags)
  ctx.extra['managers'] = [cm_name(c, info) for c in cms]
  ctx.extra['hand_written_manager_source'] = dict(fingerprints=info.get('hand_written_fingerprints'), changed=info.get('hand_written_changed'))
  ctx.extra['translator_notes'] = info.get('notes')
  ctx.extra['translated_from_source'] = dict(
      flags=[(f['scope'], f['key'], f['initial'], f['getter'], f['getter_default']) for f in info['flags']],
      keys=[(ns, s) for ns, s, _ in info['keys']], primitive_fingerprints=info.get('primitive_fingerprints'))

  # ---- single-thread cases: (A) exhaustive sweep, (B) random nested programs ------------------------------
  progs = [(p, 'corpus') for p in corpus_programs()] + [(p, 'sweep') for p in sweep_cases(nflags)]
  n_sweep = len([1 for _, k in progs if k == 'sweep'])
  for _ in range(ctx.scale(500, 30000)):
    progs.append((gen_prog(rng, cms), 'random'))
  # the one hand-written manager (class detouring): every pair of mapping lists of length <= 2 over three classes, nested
  pairs = [[a, b] for a in range(3) for b in range(3) if a != b]
  lists = [[]] + [[x] for x in pairs] + [[x, y] for x in pairs for y in pairs]
  det = [seq(['scope', 'detour', o, seq(['obs', 'detour'], ['scope', 'detour', i, ['obs', 'detour']], ['obs', 'detour'])], ['obs', 'detour'])
         for o in lists for i in lists]
  if not ctx.thorough:
    det = rng.sample(det, 150)
  ctx.extra['detour_small_scope'] = dict(exhaustive=bool(ctx.thorough), cases=len(det), what='outer x inner mapping lists of length <= 2 over 3 classes')
  progs += [(p, 'detour-small-scope') for p in det]
  nest = nest_sweep(nflags)
  ctx.extra['nesting_sweep'] = dict(exhaustive=True, cases=len(nest),
                                    what='every manager nested in itself to depth 3 and 4, every sequence of two argument values (keyword managers and flags: also depth 3 over three), '
                                         'observation after every enter and exit, normal exit or exception caught outside level j for every j')
  progs += [(p, 'nesting-sweep') for p in nest]
  trs, impl_outs, descrs = [], [], []
  seen = set()
  for p, kind in progs:
    key = canon(p)
    if key in seen:
      continue
    seen.add(key)
    depth, nsc, nexc, used = prog_stats(p)
    out = impl_single(real, p)
    trs.append([0, wire_prog(p)]); impl_outs.append(out); descrs.append(dict(kind=kind, prog=p))
    if kind == 'sweep' or rng.random() < 0.25:      # the big-step semantics on the same program (must agree with the machine)
      trs.append([2, wire_prog(p)]); impl_outs.append(out); descrs.append(dict(kind=kind + '/big-step', prog=p))
    nt = depth >= 2 or nexc > 0
    ctx.count(key, nontrivial=nt, kind=kind,
              sample=dict(kind=kind, program=p, observations=out[1], escaped=out[2]) if (kind == 'random' and depth >= 3 and len(ctx.samples) < 3) or len(ctx.samples) < 1 else None)
    ctx.hist('scope_depth', depth); ctx.hist('scopes_per_program', min(nsc, 12)); ctx.hist('scopes_left_by_exception', min(nexc, 5))
    ctx.hist('exception_escapes_program', out[2] if isinstance(out[2], int) else 'unexpected')
    for u in used:
      ctx.hist('managers', u)
    ctx.hist('observations_per_program', min(len(out[1]), 20))
    for g_ in real.last_getters:
      ctx.hist('getters_observed', g_[0] if isinstance(g_, list) else g_)
  ctx.extra['sweep'] = dict(exhaustive=True, cases=n_sweep,
                            what='every manager x argument pool x outer state {unset, each pool value of the same and of each related manager} x {normal, exceptional} exit')

  # ---- (C) real threads under a deterministic event scheduler ------------------------------------------------
  tcases = []
  for _ in range(ctx.scale(150, 6000)):
    n = rng.choice([2, 2, 3, 4])
    r = rng.random()
    if r < 0.5:
      sub = [c for c in cms if cm_kind(c) not in PROCESS_WIDE]                # thread-local managers only
    elif r < 0.75:
      sub = [c for c in cms if c not in COMPOSITE]      # collect()/apply() enter as ONE event but are three scopes in the model: single-thread cases only
    else:
      sub = [c for c in cms if cm_kind(c) in ('dyn', 'dyng', 'loadtypes', 'flag', 'contextual')]
    same = rng.sample(sub, min(len(sub), rng.choice([1, 2, 3])))               # all threads fight over the same few managers
    ps = [gen_prog(rng, same, max_depth=3) for _ in range(n)]
    nev = sum(2 * prog_stats(p)[1] + len(thread_local_positions(p)) for p in ps)
    sched = [rng.randrange(n) for _ in range(rng.randint(nev // 2, nev + 2))]
    tcases.append((ps, sched))
  # the same dict OBJECT passed as an option value by two threads, one of which overrides sub-keys in a nested scope
  for k_, key_ in (('view', 0), ('str', 2), ('repr', 2), ('ctx', 1)):
    g_ = ['obs', k_]
    for sh in range(len(SHARED_TEMPLATES)):
      t0 = ['scope', k_, [[key_, {'shared': sh}]], seq(g_, g_, g_)]
      t1 = ['scope', k_, [[key_, {'shared': sh}]], seq(['scope', k_, [[key_, {'d': [[1, False], [2, 7], [0, {'d': [[3, 5]]}]]}]], g_], g_)]
      for sched in ([0, 0, 1, 1, 1, 1, 1, 0, 0], [1, 1, 0, 0, 1, 1, 0, 1, 0], [1, 1, 1, 1, 1, 0, 0, 0, 0]):
        tcases.append(([t0, t1], sched))
  thread_hits = []
  for ps, sched in tcases:
    out = impl_threads(real, ps, sched)
    thread_hits.append(oracle_threads(real, ps, sched, out))
    trs.append([1, [wire_prog(p) for p in ps], sched]); impl_outs.append(out); descrs.append(dict(kind='threads', progs=ps, sched=sched))
    ctx.count(canon([ps, sched]), nontrivial=sum(1 for p in ps if prog_stats(p)[1] > 0) >= 2, kind='threads',
              sample=dict(kind='threads', programs=ps, schedule=sched, observations=out[1]) if len(ctx.samples) < 5 else None)
    ctx.hist('threads', len(ps)); ctx.hist('schedule_length', min(len(sched) // 5 * 5, 60))

  model_outs = ctx.model_run(trs)
  lookup = {id(t): d for t, d in zip(trs, descrs)}
  bad = ctx.compare('Scopes.run vs the real context managers', trs, impl_outs, model_outs, describe=lambda c: lookup.get(id(c)))

  # ---- direct oracle on every case ---------------------------------------------------------------------------
  oracle_evals = 0
  probe_evals = 0
  skipped_for_time = 0
  def shrink_threads(case, sig):
    """greedy: drop schedule entries, then shrink each thread's program, while the same signature is still hit"""
    ps, sched = [p for p in case['progs']], list(case['sched'])
    def fails(ps_, sc_):
      return sig in [s_ for s_, _ in oracle_threads(real, ps_, sc_, impl_threads(real, ps_, sc_))]
    budget = [60]
    i = 0
    while i < len(sched) and budget[0] > 0:
      budget[0] -= 1
      cand = sched[:i] + sched[i + 1:]
      if fails(ps, cand):
        sched = cand
      else:
        i += 1
    for t in range(len(ps)):
      def f(q, t=t):
        if budget[0] <= 0:
          return False
        budget[0] -= 1
        return fails(ps[:t] + [q] + ps[t + 1:], sched)
      ps[t] = shrink(ps[t], f)
    return dict(kind='threads', progs=ps, sched=sched)
  def report(hits, case, fails=None):
    for sig, what in hits:
      c = case
      if case.get('kind') == 'threads' and not any(h['signature'] == sig for h in ctx.hits) and not any(f_['signature'] == sig for f_ in ctx.open_findings()):
        c = shrink_threads(case, sig)
      if fails is not None and case.get('kind') == 'single':
        small = shrink(case['prog'], lambda q: sig in [s for s, _ in oracle_single(real, q)])
        c = dict(kind='single', prog=small)
        w2 = [w for s, w in oracle_single(real, small) if s == sig]
        what = w2[0] if w2 else what
      ctx.hit(sig, what, dict(c, info_flags=[f['scope'] for f in info['flags']]))
  done = set()
  for d in descrs:
    if d['kind'] == 'threads':
      continue
    key = canon(d['prog'])
    if key in done:
      continue
    done.add(key)
    if not ctx.thorough and d['kind'].startswith('random') and time.time() - ctx.t0 > 85:
      skipped_for_time += 1          # wall-clock budget of the quick tier on a busy machine: sweeps and corpus always run
      continue
    oracle_evals += 1
    # the behavioural probes cost ~3 ms per scope: on every sweep / corpus program, on a quarter of the random ones (all in the thorough tier)
    probes = ctx.thorough or not (d['kind'].startswith('random') or d['kind'].startswith('nesting-sweep')) or (zlib.crc32(key.encode()) % 4 == 0 and d['kind'].startswith('random'))
    probe_evals += 1 if probes else 0
    hits = oracle_single(real, d['prog'], behaviour=probes)
    if hits:
      report(hits, dict(kind='single', prog=d['prog']), fails=True)
  for (ps, sched), hits in zip(tcases, thread_hits):
    oracle_evals += 1
    report(hits, dict(kind='threads', progs=ps, sched=sched))
  report(oracle_propagation(real), dict(kind='propagation'))
  # the flag managers the property names are exercised by the oracle even when the translator no longer finds them in flags.py
  missing = [f for f in FALLBACK_INFO['flags'] if f['scope'] not in [g['scope'] for g in info['flags']]]
  if missing:
    info2 = dict(info, flags=info['flags'] + missing)
    real2 = Real(info2)
    ctx.extra['flags_not_found_by_translator'] = [f['scope'] for f in missing]
    for j in range(nflags, nflags + len(missing)):
      cmj = ['flag', j]
      for p in sweep_cases(nflags + len(missing)):
        if prog_stats(p)[3] == {'flag'} and canon(cmj) in canon(p):
          hits = oracle_single(real2, p)
          if hits:
            for sig, what in hits:
              ctx.hit(sig, what, dict(kind='single', prog=p, flags=[f['scope'] for f in info2['flags']]))
      g = ['obs', cmj]
      for a in (True, False):
        ps = [['scope', cmj, a, seq(g, g)], seq(g, g, g)]
        for sched in ([0, 1, 0, 1, 0, 1], [1, 0, 0, 1, 1, 0]):
          for sig, what in oracle_threads(real2, ps, sched, impl_threads(real2, ps, sched)):
            ctx.hit(sig, what, dict(kind='threads', progs=ps, sched=sched, flags=[f['scope'] for f in info2['flags']]))
  ctx.extra['oracle_evaluations'] = oracle_evals
  ctx.extra['oracle_evaluations_skipped_for_wall_clock_budget'] = skipped_for_time
  ctx.extra['oracle_evaluations_with_behavioural_probes'] = probe_evals

  # ---- targeted search when something no longer checks and nothing failed yet --------------------------------------
  if ctx.is_broken() and not ctx.hits:
    suspects = set()
    for i in bad[:50]:
      d = descrs[i]
      for p in ([d['prog']] if 'prog' in d else d['progs']):
        suspects |= prog_stats(p)[3]
    sub = [c for c in cms if cm_kind(c) in suspects] or cms
    ctx.log('targeted search over managers %s' % sorted(suspects or {'all'}))
    for _ in range(ctx.scale(1500, 6000)):
      p = gen_prog(rng, sub)
      hits = oracle_single(real, p)
      if hits:
        report(hits, dict(kind='single', prog=p), fails=True)
        break
    if not ctx.hits:
      for _ in range(ctx.scale(150, 600)):
        n = rng.choice([2, 3])
        ps = [gen_prog(rng, sub, max_depth=3) for _ in range(n)]
        sched = [rng.randrange(n) for _ in range(rng.randint(4, 30))]
        hits = oracle_threads(real, ps, sched, impl_threads(real, ps, sched))
        if hits:
          report(hits, dict(kind='threads', progs=ps, sched=sched))
          break


def replay(ctx, rp):
  info, _ = get_info()
  want = rp['case'].get('flags')
  if want and want != [f['scope'] for f in info['flags']]:
    by = {f['scope']: f for f in FALLBACK_INFO['flags'] + info['flags']}
    info = dict(info, flags=[by[n] for n in want if n in by])
  real = Real(info)
  c = rp['case']
  if c.get('kind') == 'single':
    hits = oracle_single(real, c['prog'])
  elif c.get('kind') == 'threads':
    hits = oracle_threads(real, c['progs'], c['sched'], impl_threads(real, c['progs'], c['sched']))
  else:
    hits = oracle_propagation(real)
  sig = rp.get('signature')
  for h in hits:
    print('  still fails:', h)
  return not hits

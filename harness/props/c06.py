"""C06 — symbolic equality, hashing and ordering obey their algebraic laws."""
import functools, json, math, os, sys
from harness.lib import tr as trlib
from harness.translators import type_order, compare_dispatch

META = dict(
    id='C06',
    model_run='PG.Model.Compare.run',
    model_targets=['Model/Compare.vo'],
    instance_obligations=['generated_table_ok (Proofs/CompareInstance.v: ranks_ok Gen.TypeOrder.tbl = true, vm_compute, re-checked on the table regenerated from the current base.py)',
                          'generated_dispatch_ok (Proofs/CompareInstance.v: dispatch_ok Gen.CompareDispatch.eq_branches lt_branches = true, vm_compute, re-checked on the branch order regenerated from the current base.eq / base.lt)'],
    technique=('Coq proof over an executable model of pg.eq/ne/lt/gt/hash and the object operators (normal form + lexicographic tree order) + two fail-closed ast translators '
               '(type-order table of _type_order; branch order of base.eq / base.lt with fingerprinted branch bodies and helper methods) whose outputs are re-proved adequate each run '
               '+ differential correspondence on pairs/triples/sorts + the laws as a direct oracle, incl. an exhaustive small-scope triple sweep'),
    design_ref='DESIGN.md §5 C06; design/C06.md',
    level_text=('Theorems (all values of the quantifier: None, MISSING, bool/int/finite float, str, list/pg.List, tuples of one comparable family, '
                'dict/pg.Dict with unique str/int/float keys (bool / integral float keys as their int) in any order, objects of any classes incl. different classes sharing a __qualname__, any nesting depth): eq is an equivalence, ne its negation, '
                'eq implies equal hash pre-image, lt never raises, trichotomy, transitivity, irreflexivity, gt is flip, sorting never raises and returns a sorted permutation which is THE stable sort (so the insertion sort of the model equals any stable sort, e.g. timsort), '
                'object ==/!=/hash() agree, the `left is right` shortcut is invisible, eq_f / lt_f are the interpretation of the regenerated branch order. Tie: the type-order table and the branch order of base.eq / base.lt are regenerated every run and ranks_ok / dispatch_ok re-proved; model and implementation are run on the same '
                'pairs/triples/sort inputs (>= 40 % equal up to representation); the laws themselves are evaluated on the real objects on every case, and on all ~1.7 million ordered triples of a 119-value small-scope set.'),
    level_note=('Trusted: Coq kernel; translators harness/translators/type_order.py and compare_dispatch.py; extraction (ExtrOcamlBasic) cross-checked against vm_compute; CPython hash() is a function of the ==-class of a leaf '
                'and of the element hashes for tuple/frozenset. Not modelled: identity between nested sub-objects (only top-level `left is right`), user-overridden sym_eq/sym_lt, callables, sets (Python `<` on sets is the subset order, not total), NaN/inf (excluded), '
                'tuples containing containers / objects or mutually incomparable primitives (outside the quantifier; Python compares and hashes their items natively), functions (pg.lt of two functions raises TypeError), pg.Ref (overrides sym_eq by identity of the referent), the id-based hash of classes that do not opt in.'),
    rule=('a case is an ordered pair, a triple, or a list to sort, of value trees; distinct by the canonical trees; a pair is non-trivial when at least one side is a container/object '
          'or the two leaves have different Python types'),
    trusted_base=['translator harness/translators/type_order.py (fail-closed ast reader of _type_order)',
                  'translator harness/translators/compare_dispatch.py (fail-closed ast reader of the branch order of base.eq / base.lt; branch bodies, ne, gt, _key_order, callable_eq, Object.sym_eq/sym_lt/sym_hash/__eq__/__ne__/__hash__, Dict/List.sym_hash/__hash__ must keep the fingerprints of the text the model was transcribed from)',
                  'extraction: ExtrOcamlBasic only; ocaml/main.ml lexer/printer; cross-checked against vm_compute on a sample',
                  'CPython: hash(x) depends only on the ==-class of a leaf x; hash of tuple/frozenset depends only on the element hashes'],
    assumptions=['NaN and infinities are excluded (Python == is not reflexive on NaN)',
                 'classes used do not override sym_eq/sym_lt/sym_hash; the class uid of the model is the position of the class in the (module, id(class)) order among classes of one __qualname__'],
)
GENERATED = {'Gen/TypeOrder.v': type_order.translate, 'Gen/CompareDispatch.v': compare_dispatch.translate}

# ------------------------------------------------------------------------------------------------
# value trees (exactly the wire format of Model/Compare.v)
#   (0) MISSING (1) None (2 b) (3 z) (4 m e) (5 cps) (6 sym (v..)) (7 (v..)) (8 sym ((key v)..)) (9 cps ((key v)..) uid);  key: (0 cps) | (1 z)
#   uid: position of the class among the classes of that __qualname__ ordered by (module, id(class)) -- 0 for all but 'A', which has
#   three classes: the one of CLASS_FIELDS (module 'builtins') and two more, both in module 'c06_twin' (so the id tie-break is used too)
def S(s): return [ord(c) for c in s]
def US(cps): return ''.join(chr(c) for c in cps)
MISSING, NONE = [0], [1]
def B(b): return [2, 1 if b else 0]
def Iv(z): return [3, z]
def F(m, e): return [4, m, e]
def Sv(s): return [5, S(s)]
def Lv(sym, xs): return [6, 1 if sym else 0, list(xs)]
def Tv(xs): return [7, list(xs)]
def Dv(sym, kvs): return [8, 1 if sym else 0, [[mk_key(k), v] for k, v in kvs]]
def Ov(name, kvs, uid=0): return [9, S(name), [[mk_key(k), v] for k, v in kvs], uid]
def mk_key(k):
  # an int key may carry a flavour: (1 z) int, (1 z 1) the bool of that value, (1 z 2) the float of that value -- the same dict key
  # for Python (True == 1 == 1.0, equal hashes); the model is given (1 z)
  if isinstance(k, list): return k
  if isinstance(k, str): return [0, S(k)]
  if isinstance(k, bool): return [1, int(k), 1]
  if isinstance(k, float):
    if k == int(k): return [1, int(k), 2]
    n, d = k.as_integer_ratio()            # a non-integral float is (2h+1) / 2^e for exactly one (h, e)
    return [2, (n - 1) // 2, d.bit_length() - 1]
  return [1, k]
def key_py(k):
  if k[0] == 0: return US(k[1])
  if k[0] == 2: return math.ldexp(2 * k[1] + 1, -k[2])
  return k[1] if len(k) < 3 or k[2] == 0 else (bool(k[1]) if k[2] == 1 else float(k[1]))
def kid(k): return json.dumps(k[:3] if k[0] == 2 else k[:2])
def wire_key(k): return k[:3] if k[0] == 2 else k[:2]
def strip(v):
  """The tree the model is given: key flavours removed."""
  if v[0] == 6: return [6, v[1], [strip(x) for x in v[2]]]
  if v[0] == 7: return [7, [strip(x) for x in v[1]]]
  if v[0] in (8, 9): return [v[0], v[1], [[wire_key(k), strip(x)] for k, x in v[2]]] + v[3:]
  return v

CLASS_FIELDS = {'A': ['x', 'y'], 'A1': ['x', 'y'], 'A2': ['x', 'y', 'z'], 'Bb': ['x', 'y'], 'Zq': ['q', 'p'], 'Nc': ['p'], 'Wr': ['x', 'y'], 'fn': ['x', 'y']}
OPT_IN = {'A', 'A1', 'A2', 'Bb', 'Zq', 'fn'}
_CLS = {}
_UID = {}
def classes():
  """pg.Object classes used by the generator: a base class, a subclass without and one with extra fields,
  an unrelated class with the same fields, a class whose fields are declared in non-alphabetical order, a
  class that does not opt into symbolic comparison, a pg.symbolize wrapper class, a pg.functor class, and two more
  classes whose __qualname__ is also 'A'."""
  if len(_CLS) > 2: return _CLS
  import pyglove as pg
  ns = {}
  src = '''
import pyglove as pg
class A(pg.Object):
  x: pg.typing.Any()
  y: pg.typing.Any()
class A1(A):
  pass
class A2(A):
  z: pg.typing.Any()
class Bb(pg.Object):
  x: pg.typing.Any()
  y: pg.typing.Any()
class Zq(pg.Object):
  q: pg.typing.Any()
  p: pg.typing.Any()
class Nc(pg.Object):
  use_symbolic_comparison = False
  p: pg.typing.Any()
@pg.symbolize
class Wr:                      # a plain class symbolized into a wrapper class (does not opt into symbolic comparison)
  def __init__(self, x, y):
    self.x = x; self.y = y
@pg.functor()
def fn(x, y):                  # a functor class (opts in)
  return (x, y)
'''
  exec(compile(src, 'c06_classes', 'exec'), ns)
  import types
  mod = types.ModuleType('c06_twin'); sys.modules['c06_twin'] = mod; ns2 = mod.__dict__
  twins = []
  for _ in range(2):
    exec(compile('import pyglove as pg\nclass A(pg.Object):\n  x: pg.typing.Any()\n  y: pg.typing.Any()\n', 'c06_twin', 'exec'), ns2)
    twins.append(ns2['A'])
  same_name = sorted([ns['A']] + twins, key=lambda c: (c.__module__, id(c)))
  assert same_name[0] is ns['A'] and len({id(c) for c in same_name}) == 3 and all(c.__qualname__ == 'A' for c in same_name)
  _CLS['A#1'], _CLS['A#2'] = same_name[1], same_name[2]
  _UID.update({id(c): i for i, c in enumerate(same_name)})
  for n in CLASS_FIELDS:
    c = ns[n]
    assert c.__qualname__ == n and [str(k) for k in c.__schema__.keys()] == CLASS_FIELDS[n] and bool(c.use_symbolic_comparison) == (n in OPT_IN), (n, c.__qualname__, list(c.__schema__.keys()))
    _CLS[n] = c
  return _CLS

def canon(v, under_sym=False):
  """Forces what PyGlove forces: containers inside a symbolic container/object are symbolic; object fields are in
  declaration order and complete (absent = MISSING)."""
  t = v[0]
  if t == 6:
    sym = 1 if (v[1] or under_sym) else 0
    return [6, sym, [canon(x, bool(sym)) for x in v[2]]]
  if t == 7:
    return [7, [canon(x, under_sym) for x in v[1]]]
  if t == 8:
    sym = 1 if (v[1] or under_sym) else 0
    return [8, sym, [[([1, k[1]] if sym and k[0] == 2 else k[:2] if sym and k[0] == 1 and len(k) > 2 and k[2] == 2 else k), canon(x, bool(sym))] for k, x in v[2]]]
  if t == 9:
    name = US(v[1]); got = {key_py(k): x for k, x in v[2]}
    return [9, v[1], [[mk_key(f), canon(got.get(f, MISSING), True)] for f in CLASS_FIELDS[name]], v[3]]
  return v

def buildable(v, under_sym=False, in_tuple=False):
  """Can the tree be realised exactly?  (pg.List / pg.Dict silently drop MISSING items; tuples hold leaves only.)"""
  t = v[0]
  if t == 0: return True if in_tuple else not under_sym
  if t in (6, 8, 9) and in_tuple: return False
  if t == 6: return all(buildable(x, bool(v[1]) or under_sym) for x in v[2])
  if t == 7: return not in_tuple and all(buildable(x, False, True) for x in v[1])
  if t == 8: return all(buildable(x, bool(v[1]) or under_sym) for _, x in v[2]) and len({kid(k) for k, _ in v[2]}) == len(v[2])
  if t == 9: return all(x[0] == 0 or buildable(x, True) for _, x in v[2])
  return True

def build(v):
  import pyglove as pg
  t = v[0]
  if t == 0: return pg.MISSING_VALUE
  if t == 1: return None
  if t == 2: return bool(v[1])
  if t == 3: return v[1]
  if t == 4:
    f = math.ldexp(v[1], -v[2]); assert f.as_integer_ratio() == _ratio(v[1], v[2]), v
    return f
  if t == 5: return US(v[1])
  if t == 6:
    xs = [build(x) for x in v[2]]
    return pg.List(xs) if v[1] else xs
  if t == 7: return tuple(build(x) for x in v[1])
  if t == 8:
    d = {key_py(k): build(x) for k, x in v[2]}
    return pg.Dict(d) if v[1] else d
  if t == 9:
    cls = classes()[US(v[1]) + ('#%d' % v[3] if v[3] else '')]
    kw = {key_py(k): build(x) for k, x in v[2] if x[0] != 0}
    return cls.partial(**kw) if len(kw) < len(v[2]) else cls(**kw)
  raise ValueError(v)

def _ratio(m, e):
  from fractions import Fraction
  fr = Fraction(m, 2 ** e)
  return (fr.numerator, fr.denominator)

def readback(o):
  """Value tree of a real object (used to check that build() realised the tree it was given)."""
  import pyglove as pg
  if isinstance(o, pg.utils.MissingValue): return MISSING
  if o is None: return NONE
  if isinstance(o, bool): return B(o)
  if isinstance(o, int): return Iv(o)
  if isinstance(o, float):
    n, d = o.as_integer_ratio(); return F(n, d.bit_length() - 1)
  if isinstance(o, str): return Sv(o)
  if isinstance(o, list): return [6, 1 if isinstance(o, pg.List) else 0, [readback(x) for x in (o.sym_values() if isinstance(o, pg.List) else o)]]
  if isinstance(o, tuple): return [7, [readback(x) for x in o]]
  if isinstance(o, dict):
    items = o.sym_items() if isinstance(o, pg.Dict) else o.items()
    return [8, 1 if isinstance(o, pg.Dict) else 0, [[mk_key(k), readback(x)] for k, x in items]]
  if isinstance(o, pg.Object):
    return [9, S(type(o).__qualname__), [[mk_key(k), readback(x)] for k, x in o.sym_items()], _UID.get(id(type(o)), 0)]
  raise ValueError(type(o))

def norm_float(v):
  """(4 m e) with m odd or e = 0, so that equal floats have equal trees (for readback comparison only)."""
  if v[0] == 4:
    m, e = v[1], v[2]
    while e > 0 and m % 2 == 0: m //= 2; e -= 1
    return [4, m, e]
  if v[0] == 6: return [6, v[1], [norm_float(x) for x in v[2]]]
  if v[0] == 7: return [7, [norm_float(x) for x in v[1]]]
  if v[0] in (8, 9): return [v[0], v[1], [[k, norm_float(x)] for k, x in v[2]]] + v[3:]
  return v

# ------------------------------------------------------------------------------------------------
# generator
STRS = ['', 'a', 'b', 'ab', 'abc', 'A', 'B', '7', '0', 'x', 'y', 'é', 'a b']
KEYS = ['a', 'b', 'c', 'x', 'y', 'A', '', 'k1', 0, 1, 2, -1, 10]
BIG = [2 ** 53, 2 ** 53 + 1, -(2 ** 60), 10 ** 20]

def is_num(v): return v[0] in (2, 3, 4)
def num_value(v):
  from fractions import Fraction
  return Fraction(v[1]) if v[0] in (2, 3) else Fraction(v[1], 2 ** v[2])

class Gen:
  def __init__(self, rng, fam):
    self.r, self.fam = rng, fam           # fam: 'num' | 'str' | None (tuples unrestricted: outside the theorems' domain)
  def num(self):
    r = self.r; k = r.random()
    if k < .18: return B(r.random() < .5)
    if k < .60: return Iv(r.choice([0, 1, 1, 2, 3, -1, -2, 5, 7, r.randint(-20, 20)]))
    if k < .65: return Iv(r.choice(BIG))
    if k < .70: return F(r.choice([2 ** 53, -(2 ** 60), 2 ** 53 + 2]), 0)
    if k < .85: return F(r.choice([0, 1, 2, 3, -1, 5]), 0)          # integer-valued floats
    return F(r.choice([1, 3, 5, -1, -3, 7, 11]), r.randint(1, 6))
  def leaf(self, missing_ok):
    r = self.r; k = r.random()
    if k < .07 and missing_ok: return MISSING
    if k < .16: return NONE
    if k < .62: return self.num()
    return Sv(r.choice(STRS))
  def tuple_(self):
    r = self.r; n = r.choice([0, 1, 1, 2, 2, 3])
    if self.fam == 'num': return Tv([self.num() for _ in range(n)])
    if self.fam == 'str': return Tv([Sv(r.choice(STRS)) for _ in range(n)])
    return Tv([self.leaf(True) for _ in range(n)])
  def keys(self, n, str_only=False):
    pool = [k for k in KEYS if isinstance(k, str)] if str_only or self.r.random() < .55 else KEYS
    ks = self.r.sample(pool, min(n, len(pool)))
    return [self.flavour(k) for k in ks]
  def flavour(self, k):
    r = self.r
    if isinstance(k, int) and not isinstance(k, bool) and r.random() < .3:
      c = r.random()
      if c < .35 and k in (0, 1): return bool(k)
      if c < .7: return float(k)
      return k + r.choice([.5, .25, -.5, .75])          # a non-integral float key (plain dicts only; canon() drops it under pg.Dict)
    return k
  def value(self, d, under_sym=False, missing_ok=True):
    r = self.r; k = r.random()
    if d <= 0 or k < .40: return self.leaf(missing_ok and not under_sym)
    if k < .56:
      sym = under_sym or r.random() < .6
      return Lv(sym, [self.value(d - 1, sym) for _ in range(r.choice([0, 1, 1, 2, 2, 3]))])
    if k < .64: return self.tuple_()
    if k < .82:
      sym = under_sym or r.random() < .6
      return Dv(sym, [(kk, self.value(d - 1, sym)) for kk in self.keys(r.choice([0, 1, 2, 2, 3, 3]))])
    name = r.choice(['A', 'A', 'A1', 'A2', 'Bb', 'Zq', 'Nc', 'Wr', 'fn'])
    fs = CLASS_FIELDS[name]
    return Ov(name, [(f, MISSING if r.random() < .08 else self.value(d - 1, True)) for f in fs])

  # an equal value in another representation
  def variant(self, v, under_sym=False):
    r = self.r; t = v[0]
    if is_num(v):
      q = num_value(v)
      if r.random() < .35: return v
      if q.denominator == 1:
        z = q.numerator; opts = [Iv(z)]
        if abs(z) <= 2 ** 53: opts.append(F(z, 0))
        if z in (0, 1): opts.append(B(bool(z)))
        return r.choice(opts)
      return r.choice([v, F(v[1] * 2, v[2] + 1)])
    if t == 6:
      sym = under_sym or (r.random() < .5)
      return Lv(sym, [self.variant(x, sym) for x in v[2]])
    if t == 7: return Tv([self.variant(x, under_sym) for x in v[1]])
    if t == 8:
      sym = under_sym or (r.random() < .5)
      ents = [[(mk_key(r.choice([k[1], float(k[1])] + ([bool(k[1])] if k[1] in (0, 1) else []))) if k[0] == 1 and r.random() < .3 else k), self.variant(x, sym)] for k, x in v[2]]
      if r.random() < .8: r.shuffle(ents)
      return [8, 1 if sym else 0, ents]
    if t == 9: return [9, v[1], [[k, self.variant(x, True)] for k, x in v[2]], v[3]]
    return v

  # a nearby different value
  def mutant(self, v, under_sym=False):
    r = self.r; t = v[0]
    if t in (0, 1, 2, 3, 4, 5):
      k = r.random()
      if is_num(v) and k < .5:
        q = num_value(v)
        return Iv(int(q) + r.choice([1, -1])) if q.denominator == 1 and r.random() < .7 else (F(v[1] + 2, v[2]) if v[0] == 4 and abs(v[1]) < 2 ** 50 else F(1, 1))
      if t == 5 and k < .6: return Sv(US(v[1]) + r.choice(['', 'a', 'b'])) if r.random() < .5 else Sv(r.choice(STRS))
      return self.leaf(not under_sym)
    if t == 6:
      xs = list(v[2]); sym = bool(v[1]) or under_sym; k = r.random()
      if xs and k < .45:
        i = r.randrange(len(xs)); xs[i] = self.mutant(xs[i], sym)
      elif xs and k < .6: xs.pop()
      elif len(xs) >= 2 and k < .75:
        i, j = r.sample(range(len(xs)), 2); xs[i], xs[j] = xs[j], xs[i]
      elif k < .88: xs.insert(r.randrange(len(xs) + 1), self.value(1, sym))     # lengths differ and the items shift
      else: xs.append(self.value(1, sym))
      return Lv(sym, xs)
    if t == 7:
      xs = list(v[1]); k = r.random()
      if xs and k < .5:
        i = r.randrange(len(xs)); xs[i] = self.mutant(xs[i]) if self.fam is None else (self.num() if self.fam == 'num' else Sv(r.choice(STRS)))
      elif xs and k < .7: xs.pop()
      else: xs.append(self.num() if self.fam != 'str' else Sv(r.choice(STRS)))
      return Tv(xs)
    if t == 8:
      ents = [list(e) for e in v[2]]; sym = bool(v[1]) or under_sym; k = r.random()
      if ents and k < .4:
        i = r.randrange(len(ents)); ents[i][1] = self.mutant(ents[i][1], sym)
      elif ents and k < .55: ents.pop(r.randrange(len(ents)))
      elif ents and k < .8:
        i = r.randrange(len(ents)); used = {kid(e[0]) for e in ents}
        cand = [kk for kk in KEYS if kid(mk_key(kk)) not in used]
        if cand: ents[i][0] = mk_key(r.choice(cand))
      else:
        used = {kid(e[0]) for e in ents}
        cand = [kk for kk in KEYS if kid(mk_key(kk)) not in used]
        if cand: ents.append([mk_key(r.choice(cand)), self.value(1, sym)])
      if r.random() < .5: r.shuffle(ents)
      return [8, 1 if sym else 0, ents]
    if t == 9:
      name = US(v[1]); ents = [list(e) for e in v[2]]; k = r.random()
      if k < .5 and ents:
        i = r.randrange(len(ents)); ents[i][1] = self.mutant(ents[i][1], True)
        return [9, v[1], ents, v[3]]
      same = [n for n in CLASS_FIELDS if n != name and CLASS_FIELDS[n] == CLASS_FIELDS[name]]
      if name == 'A' and k < .58: return [9, v[1], ents, r.choice([u for u in (0, 1, 2) if u != v[3]])]      # same __qualname__, different class
      if same and k < .85: return [9, S(r.choice(same)), ents, 0]
      if name in ('A', 'A1'): return [9, S('A2'), ents + [[mk_key('z'), self.value(1, True)]], 0]
      return Ov(name, [(key_py(kk), self.value(1, True)) for kk, _ in ents])
    return v

def in_domain(v, fam, twins_ok=False):
  """Mirror of Compare.cmp_ok (the theorems' domain) for the generator's class table."""
  t = v[0]
  if t == 6: return all(in_domain(x, fam, twins_ok) for x in v[2])
  if t == 7: return fam is not None and all((is_num(x) if fam == 'num' else x[0] == 5) for x in v[1])
  if t in (8, 9):
    return len({kid(k) for k, _ in v[2]}) == len(v[2]) and all(in_domain(x, fam, twins_ok) for _, x in v[2])
  return True

def kind_of(v):
  return ['missing', 'none', 'bool', 'int', 'float', 'str', 'list', 'tuple', 'dict', 'object'][v[0]]
def is_container(v): return v[0] >= 6
def depth_of(v):
  if v[0] == 6: return 1 + max([depth_of(x) for x in v[2]] + [0])
  if v[0] == 7: return 1 + max([depth_of(x) for x in v[1]] + [0])
  if v[0] in (8, 9): return 1 + max([depth_of(x) for _, x in v[2]] + [0])
  return 0

def dict_family():
  """Small-scope family of dicts over one key set {'a','b'}: both insertion orders x plain / pg.Dict x every assignment of
  three nearby values to the two keys (so members differ at 0, 1 or 2 keys, in the same or in opposite directions)."""
  vals = [Iv(1), F(3, 1), Iv(2)]
  out = []
  for order in (('a', 'b'), ('b', 'a')):
    for sym in (0, 1):
      for va in vals:
        for vb in vals:
          d = {'a': va, 'b': vb}
          out.append(Dv(sym, [(k, d[k]) for k in order]))
  return out

def float_key_family():
  """Plain dicts over the keys {0.5, 1, 'a'} (a non-integral float, an int written as int / bool / float, a str): three
  insertion orders x every assignment of two values."""
  out = []
  for order in ((0.5, 1, 'a'), ('a', True, 0.5), (1.0, 'a', 0.5)):
    for bits in range(8):
      vals = {0.5: Iv(1 + (bits & 1)), 1: Iv(1 + (bits >> 1 & 1)), 'a': Iv(1 + (bits >> 2 & 1))}
      out.append(Dv(0, [(k, vals[k if isinstance(k, str) or k != 1 else 1]) for k in order]))
  return out

WRAPS = [None, 'list', 'pglist', 'field', 'value', 'pgvalue', 'deep']
def wrap(v, how):
  """The same context around every member of a family, so that the comparison reaches the members."""
  if how is None: return v
  if how == 'list': return Lv(0, [Iv(0), v])
  if how == 'pglist': return Lv(1, [v, Sv('z')])
  if how == 'field': return Ov('A', [('x', Iv(1)), ('y', v)])
  if how == 'value': return Dv(0, [('k', v)])
  if how == 'pgvalue': return Dv(1, [(1, Iv(0)), ('k', v)])
  return Lv(0, [Dv(0, [('m', Ov('Zq', [('q', v), ('p', NONE)]))])])

def keyed_family(rng, g, n):
  """n dicts (or objects holding them) over ONE shared key set: insertion orders permuted independently (an earlier member's
  order is reused half of the time, so several members share a possibly non-sorted order while others differ), the value
  under each key drawn independently from a few nearby candidates (equal in another representation, or slightly different),
  so members differ at several keys, in either direction; plain dict / pg.Dict / mixed; optionally nested."""
  keys = g.keys(rng.choice([2, 2, 3, 3, 4]))
  cand = {}
  for k in keys:
    base = canon(g.value(rng.choice([0, 0, 1]), under_sym=True), True)
    cs = [base, canon(g.variant(base, True), True)]
    for _ in range(rng.choice([1, 2])):
      cs.append(canon(g.mutant(rng.choice(cs), True), True))
    cand[kid(mk_key(k))] = [c for c in cs if buildable(c, True)] or [Iv(0)]
  flavour = rng.choice(['dict', 'dict', 'pgdict', 'mixed'])
  how = rng.choice(WRAPS)
  orders, out = [], []
  for _ in range(n):
    if orders and rng.random() < .5: order = rng.choice(orders)
    else:
      order = list(keys); rng.shuffle(order)
    orders.append(order)
    sym = flavour == 'pgdict' or (flavour == 'mixed' and rng.random() < .5)
    out.append(canon(wrap(Dv(sym, [(k, rng.choice(cand[kid(mk_key(k))])) for k in order]), how)))
  return out

def pool():
  """Small values for the small-scope sweep of all ordered pairs (tuples of numbers only)."""
  a1, b2 = ('a', Iv(1)), ('b', Iv(2))
  P = [MISSING, NONE, B(False), B(True), Iv(0), Iv(1), Iv(2), Iv(-1), F(1, 0), F(1, 1), F(5, 1), Iv(2 ** 53 + 1), F(2 ** 53, 0),
       Sv(''), Sv('a'), Sv('b'), Sv('ab'), Sv('7'),
       Lv(0, []), Lv(1, []), Lv(0, [Iv(1)]), Lv(1, [F(1, 0)]), Lv(0, [Iv(1), Iv(2)]), Lv(1, [Sv('a')]), Lv(0, [Lv(0, [])]), Lv(0, [NONE]), Lv(0, [MISSING]),
       Tv([]), Tv([Iv(1)]), Tv([B(True)]), Tv([Iv(1), Iv(2)]), Tv([F(3, 1)]),
       Dv(0, []), Dv(1, []), Dv(0, [a1]), Dv(1, [a1]), Dv(1, [a1, b2]), Dv(1, [b2, a1]), Dv(0, [b2, a1]), Dv(1, [('a', Iv(2)), ('b', Iv(1))]),
       Dv(1, [(1, Iv(1))]), Dv(0, [(1, Iv(1))]), Dv(1, [(1, Iv(1)), a1]), Dv(1, [a1, (1, Iv(1))]), Dv(1, [('a', NONE)]), Dv(0, [('a', MISSING)]),
       Dv(1, [('a', Dv(1, [a1, b2]))]), Dv(1, [('a', Dv(1, [b2, a1]))]),
       Ov('A', [('x', Iv(1)), ('y', Iv(2))]), Ov('A', [('x', F(1, 0)), ('y', Iv(2))]), Ov('A', [('x', Iv(2)), ('y', Iv(1))]), Ov('A1', [('x', Iv(1)), ('y', Iv(2))]),
       Ov('A2', [('x', Iv(1)), ('y', Iv(2)), ('z', Iv(3))]), Ov('Bb', [('x', Iv(1)), ('y', Iv(2))]), Ov('Zq', [('q', Iv(1)), ('p', Iv(2))]),
       Ov('Zq', [('q', Iv(2)), ('p', Iv(1))]), Ov('Nc', [('p', Iv(1))]), Ov('A', [('x', Iv(1))]), Ov('A', [('x', NONE), ('y', NONE)]),
       Ov('A', [('x', Dv(1, [a1, b2])), ('y', Lv(1, [Iv(1)]))]), Ov('A', [('x', Dv(1, [b2, a1])), ('y', Lv(1, [B(True)]))]),
       Ov('Wr', [('x', Iv(1)), ('y', Iv(2))]), Ov('fn', [('x', Iv(1)), ('y', Iv(2))]), Ov('fn', [('x', Iv(1))]),
       Ov('A', [('x', Iv(1)), ('y', Iv(2))], uid=1), Ov('A', [('x', Iv(0)), ('y', Iv(2))], uid=2)]
  return [canon(v) for v in P]

# ------------------------------------------------------------------------------------------------
# implementation driver (prints exactly what Model/Compare.run prints)
def _code(e):
  return 1 if isinstance(e, TypeError) else 2 if isinstance(e, RecursionError) else 9
def _res(f):
  try: return [0, 1 if f() else 0]
  except BaseException as e: return [1, _code(e)]
def _hash(o):
  import pyglove as pg
  try: return 0, pg.hash(o)
  except BaseException as e: return _code(e), None
def _plain(f):
  try: return 1 if f() else 0
  except BaseException as e: return [9, _code(e)]

def impl_pair(oa, ob, ops):
  import pyglove as pg
  ca, ha = _hash(oa); cb, hb = _hash(ob)
  out = [_plain(lambda: pg.eq(oa, ob)), _plain(lambda: pg.ne(oa, ob)), _res(lambda: pg.lt(oa, ob)), _res(lambda: pg.gt(oa, ob)),
         [ca, cb, 1 if (ca == 0 and cb == 0 and ha == hb) else 0]]
  if ops == 2:
    out.append([_plain(lambda: oa == ob), _plain(lambda: oa != ob)])
  elif ops:
    try: hc = 0 if hash(oa) == pg.hash(oa) else 8
    except BaseException as e: hc = _code(e)
    out.append([_plain(lambda: oa == ob), _plain(lambda: oa != ob), hc])
  else:
    out.append([])
  return out

def _cmp(x, y):
  import pyglove as pg
  return -1 if pg.lt(x, y) else (1 if pg.lt(y, x) else 0)
def impl_sort(objs):
  try:
    return [0, sorted(range(len(objs)), key=functools.cmp_to_key(lambda i, j: _cmp(objs[i], objs[j])))]
  except BaseException as e:
    return [1, _code(e)]
def impl_probe(o):
  from pyglove.core.symbolic import base
  return [S(base._type_order(o)), _hash(o)[0]]

# ------------------------------------------------------------------------------------------------
# the direct oracle: the laws themselves on the real objects
def _try(f):
  try: return ('ok', f())
  except BaseException as e: return ('raise', type(e).__name__)

def dict_disc(ta, tb):
  if ta[0] == 9 and tb[0] == 9 and ta[1] == tb[1] and ta[3] != tb[3]: return 'same-qualname-different-class'
  if ta[0] in (8, 9) and tb[0] in (8, 9):
    ka = [kid(k) for k, _ in ta[2]]; kb = [kid(k) for k, _ in tb[2]]
    mixed = len({k[0] for k, _ in ta[2]} | {k[0] for k, _ in tb[2]}) > 1
    if sorted(ka) == sorted(kb) and ka != kb: return 'key-order-differs'
    if mixed: return 'int-and-str-keys'
    return 'same-key-order' if ka == kb else 'different-keys'
  return '-'

def pair_laws(ta, tb):
  """Returns [(clause, detail)] violated by the ordered pair (ta, tb) on the implementation."""
  import pyglove as pg
  oa, ob = build(ta), build(tb)
  out = []
  e_ab, e_ba, e_aa = _try(lambda: pg.eq(oa, ob)), _try(lambda: pg.eq(ob, oa)), _try(lambda: pg.eq(oa, oa))
  n_ab = _try(lambda: pg.ne(oa, ob))
  l_ab, l_ba, g_ab = _try(lambda: pg.lt(oa, ob)), _try(lambda: pg.lt(ob, oa)), _try(lambda: pg.gt(oa, ob))
  same = ta == tb     # two separately built copies of one value: reflexivity / irreflexivity
  for nm, r in (('eq', e_ab), ('eq', e_ba), ('ne', n_ab)):
    if r[0] == 'raise': out.append(('%s-raises' % nm, r[1]))
  if e_aa == ('ok', False) or (same and e_ab == ('ok', False)): out.append(('eq-refl', 'pg.eq(a, a) is False'))
  if e_ab[0] == e_ba[0] == 'ok' and bool(e_ab[1]) != bool(e_ba[1]): out.append(('eq-sym', 'pg.eq(a, b)=%s but pg.eq(b, a)=%s' % (e_ab[1], e_ba[1])))
  if e_ab[0] == n_ab[0] == 'ok' and bool(n_ab[1]) == bool(e_ab[1]): out.append(('ne-negation', 'pg.ne(a, b) == pg.eq(a, b) == %s' % e_ab[1]))
  if e_ab == ('ok', True):
    ca, ha = _hash(oa); cb, hb = _hash(ob)
    if ca == 0 and cb == 0 and ha != hb: out.append(('eq-implies-hash', 'pg.eq(a, b) but pg.hash(a) != pg.hash(b)'))
  for r in (l_ab, l_ba, g_ab):
    if r[0] == 'raise': out.append(('lt-raises', r[1])); break
  if same and l_ab == ('ok', True): out.append(('lt-irrefl', 'pg.lt(a, a) is True'))
  if l_ab[0] == l_ba[0] == e_ab[0] == 'ok':
    n = [bool(l_ab[1]), bool(e_ab[1]), bool(l_ba[1])].count(True)
    if n != 1: out.append(('trichotomy', 'lt(a,b)=%s eq(a,b)=%s lt(b,a)=%s' % (l_ab[1], e_ab[1], l_ba[1])))
  if g_ab[0] == l_ba[0] == 'ok' and bool(g_ab[1]) != bool(l_ba[1]): out.append(('gt-flip', 'pg.gt(a, b) != pg.lt(b, a)'))
  if ta[0] == 9 and US(ta[1]) in OPT_IN:
    o_eq, o_ne = _try(lambda: oa == ob), _try(lambda: oa != ob)
    if o_eq[0] == 'raise' or (e_ab[0] == 'ok' and bool(o_eq[1]) != bool(e_ab[1])): out.append(('op-eq', 'a == b gives %s, pg.eq(a, b) gives %s' % (o_eq[1], e_ab[1])))
    if o_ne[0] == 'raise' or (n_ab[0] == 'ok' and bool(o_ne[1]) != bool(n_ab[1])): out.append(('op-ne', 'a != b gives %s, pg.ne(a, b) gives %s' % (o_ne[1], n_ab[1])))
    h = _try(lambda: hash(oa) == pg.hash(oa))
    if h != ('ok', True): out.append(('op-hash', 'hash(a) vs pg.hash(a): %s' % (h[1],)))
    if tb[0] == 9 and US(tb[1]) in OPT_IN and o_eq == ('ok', True):
      h2 = _try(lambda: hash(oa) == hash(ob))
      if h2 != ('ok', True): out.append(('op-hash', 'a == b but hash(a) != hash(b)'))
  return out

def triple_laws(ta, tb, tc):
  import pyglove as pg
  a, b, c = build(ta), build(tb), build(tc)
  out = []
  E = lambda x, y: _try(lambda: pg.eq(x, y)); Lt = lambda x, y: _try(lambda: pg.lt(x, y))
  if E(a, b) == ('ok', True) and E(b, c) == ('ok', True) and E(a, c) != ('ok', True): out.append(('eq-trans', 'eq(a,b) and eq(b,c) but eq(a,c) is %s' % (E(a, c)[1],)))
  if Lt(a, b) == ('ok', True) and Lt(b, c) == ('ok', True) and Lt(a, c) != ('ok', True): out.append(('lt-trans', 'lt(a,b) and lt(b,c) but lt(a,c) is %s' % (Lt(a, c)[1],)))
  if E(a, b) == ('ok', True) and Lt(b, c) == ('ok', True) and Lt(a, c) != ('ok', True): out.append(('lt-respects-eq', 'eq(a,b) and lt(b,c) but lt(a,c) is %s' % (Lt(a, c)[1],)))
  if E(b, c) == ('ok', True) and Lt(a, b) == ('ok', True) and Lt(a, c) != ('ok', True): out.append(('lt-respects-eq', 'lt(a,b) and eq(b,c) but lt(a,c) is %s' % (Lt(a, c)[1],)))
  return out

def sort_laws(ts):
  import pyglove as pg
  objs = [build(t) for t in ts]
  r = impl_sort(objs)
  if r[0] == 1: return [('sort-raises', {1: 'TypeError', 2: 'RecursionError'}.get(r[1], 'other'))]
  idx = r[1]
  if sorted(idx) != list(range(len(objs))): return [('sort-not-permutation', str(idx))]
  for i in range(len(idx) - 1):
    if _try(lambda: pg.lt(objs[idx[i + 1]], objs[idx[i]])) != ('ok', False):
      return [('sort-not-sorted', 'result has an element less than its predecessor')]
    if idx[i + 1] < idx[i] and _try(lambda: pg.lt(objs[idx[i]], objs[idx[i + 1]])) != ('ok', True):
      return [('sort-not-stable', 'two items that are not less than each other come out in swapped order')]
  return []

def sub_pairs(ta, tb):
  """Smaller pairs to try when shrinking a failing pair."""
  out = []
  if ta[0] == tb[0] and ta[0] in (6, 7):
    xa, xb = (ta[2], tb[2]) if ta[0] == 6 else (ta[1], tb[1])
    out += [(x, y) for x, y in zip(xa, xb)]
    mk = (lambda s, xs: [6, s[1], xs]) if ta[0] == 6 else (lambda s, xs: [7, xs])
    for i in range(max(len(xa), len(xb))):
      out.append((mk(ta, xa[:i] + xa[i + 1:]), mk(tb, xb[:i] + xb[i + 1:])))
  if ta[0] in (8, 9) and tb[0] in (8, 9):
    da = {kid(k): x for k, x in ta[2]}; db = {kid(k): x for k, x in tb[2]}
    out += [(da[k], db[k]) for k in da if k in db]
    if ta[0] == 9 and tb[0] == 9:      # objects: compare their attribute dicts instead
      if ta[1] == tb[1] and ta[3] == tb[3]: out.append(([8, 1, ta[2]], [8, 1, tb[2]]))
    if ta[0] == 8 and tb[0] == 8:
      for k in list(da) + [k for k in db if k not in da]:
        out.append(([8, ta[1], [e for e in ta[2] if kid(e[0]) != k]], [8, tb[1], [e for e in tb[2] if kid(e[0]) != k]]))
  return out

def shrink_pair(ta, tb, clause):
  for _ in range(40):
    for (xa, xb) in sub_pairs(ta, tb):
      try:
        if buildable(xa) and buildable(xb) and any(c == clause for c, _ in pair_laws(xa, xb)):
          ta, tb = xa, xb; break
      except Exception:
        continue
    else:
      break
  return ta, tb

def sub_triples(ts):
  """Smaller triples to try when shrinking a failing triple: the items under one position / key of all three."""
  out = []
  if all(t[0] == 6 for t in ts) or all(t[0] == 7 for t in ts):
    xs = [t[2] if t[0] == 6 else t[1] for t in ts]
    out += [list(z) for z in zip(*xs)]
  if all(t[0] in (8, 9) for t in ts):
    ds = [{kid(k): x for k, x in t[2]} for t in ts]
    out += [[d[k] for d in ds] for k in ds[0] if all(k in d for d in ds)]
  return out

def shrink_triple(ts, clause):
  for _ in range(20):
    for sub in sub_triples(ts):
      try:
        if all(buildable(x) for x in sub) and any(c == clause for c, _ in triple_laws(*sub)):
          ts = sub; break
      except Exception:
        continue
    else:
      break
  return ts

def signature(clause, ta, tb, detail=''):
  disc = dict_disc(ta, tb)
  if clause.endswith('raises'): disc = (disc + '/' if disc != '-' else '') + str(detail)
  return 'C06/%s/%s-vs-%s/%s' % (clause, kind_of(ta), kind_of(tb), disc)

def show(t):
  """Python-ish rendering of a value tree for reports."""
  k = t[0]
  if k == 0: return 'MISSING'
  if k == 1: return 'None'
  if k == 2: return str(bool(t[1]))
  if k == 3: return str(t[1])
  if k == 4: return repr(math.ldexp(t[1], -t[2]))
  if k == 5: return repr(US(t[1]))
  if k == 6: return ('pg.List([%s])' if t[1] else '[%s]') % ', '.join(show(x) for x in t[2])
  if k == 7: return '(%s%s)' % (', '.join(show(x) for x in t[1]), ',' if len(t[1]) == 1 else '')
  if k == 8: return ('pg.Dict({%s})' if t[1] else '{%s}') % ', '.join('%r: %s' % (key_py(kk), show(x)) for kk, x in t[2])
  return '%s%s(%s)' % (US(t[1]), "'" if t[3] else '', ', '.join('%s=%s' % (key_py(kk), show(x)) for kk, x in t[2]))

# ------------------------------------------------------------------------------------------------
def _ops_flag(ta): return 0 if ta[0] != 9 else (1 if US(ta[1]) in OPT_IN else 2)

def make_cases(ctx):
  """-> list of dict(kind='pair'|'triple'|'sort'|'probe', vals=[trees], fam, dom, src)."""
  rng = ctx.rng
  cases = []
  P = pool()
  # (A) small-scope sweep: every ordered pair of the pool
  for a in P:
    for b in P:
      cases.append(dict(kind='pair', vals=[a, b], fam='num', dom=in_domain(a, 'num') and in_domain(b, 'num'), src='sweep'))
  for a in P:
    cases.append(dict(kind='pair', vals=[a, a], fam='num', dom=in_domain(a, 'num'), src='self'))
  # (A') tuples outside the theorems' domain too (None / MISSING / mixed families inside): Python's own tuple `<`, TypeError paths
  TP = [Tv([]), Tv([Iv(1)]), Tv([F(1, 0)]), Tv([Iv(1), Iv(2)]), Tv([Sv('a')]), Tv([Sv('a'), Sv('b')]), Tv([NONE]), Tv([NONE, Iv(1)]), Tv([NONE, Iv(2)]),
        Tv([MISSING]), Tv([Iv(1), Sv('a')]), Tv([Iv(1), NONE]), Tv([B(True), Sv('a')]), Tv([Iv(1), Iv(2), Sv('x')]), Lv(0, [Tv([NONE]), Tv([Iv(1)])]), Lv(1, [Tv([NONE]), Tv([NONE])])]
  for a in TP:
    for b in TP:
      cases.append(dict(kind='pair', vals=[a, b], fam='num', dom=in_domain(a, 'num') and in_domain(b, 'num'), src='sweep-tuples'))
  # (A'') triples over the pool: transitivity across kinds
  for _ in range(ctx.scale(1200, 30000)):
    vals = [rng.choice(P) for _ in range(3)]
    cases.append(dict(kind='triple', vals=vals, fam='num', dom=all(in_domain(v, 'num') for v in vals), src='pool'))
  # (A3) dicts over a shared key set: all ordered pairs of the small family; triples of it (bare and nested)
  DF = [canon(v) for v in dict_family()]
  for a in DF:
    for b in DF:
      cases.append(dict(kind='pair', vals=[a, b], fam='num', dom=True, src='sweep-dicts'))
  for _ in range(ctx.scale(1500, 40000)):
    how = rng.choice(WRAPS)
    vals = [canon(wrap(rng.choice(DF), how)) for _ in range(3)]
    cases.append(dict(kind='triple', vals=vals, fam='num', dom=True, src='pool-dicts'))
  FK = [canon(v) for v in float_key_family()]
  for a in FK:
    for b in FK:
      cases.append(dict(kind='pair', vals=[a, b], fam='num', dom=True, src='sweep-float-keys'))
  # (A4) random families over a shared key set: pairs, triples, sorts
  for n, count in ((2, ctx.scale(500, 8000)), (3, ctx.scale(500, 8000)), (5, ctx.scale(80, 1500))):
    for _ in range(count):
      fam = rng.choice(['num', 'str'])
      vals = keyed_family(rng, Gen(rng, fam), n)
      if not all(buildable(v) for v in vals): continue
      dom = all(in_domain(v, fam) for v in vals)
      if n == 5 and not dom: continue
      cases.append(dict(kind={2: 'pair', 3: 'triple', 5: 'sort'}[n], vals=vals, fam=fam, dom=dom, src='keyed-family'))
  # (B) random pairs, (C) random triples
  def fresh(g, d):
    for _ in range(50):
      v = canon(g.value(d))
      if buildable(v): return v
    return Iv(0)
  def rel(g, v):
    """a value related to v: equal in another representation (most often), a near miss, or unrelated."""
    k = rng.random()
    for _ in range(30):
      if k < .56: w, how = canon(g.variant(v)), 'variant'
      elif k < .83: w, how = canon(g.mutant(v)), 'mutant'
      else: w, how = fresh(g, rng.choice([0, 1, 2, 3])), 'independent'
      if buildable(w): return w, how
    return v, 'variant'
  npairs, ntriples, nsorts = ctx.scale(2500, 40000), ctx.scale(700, 12000), ctx.scale(250, 4000)
  for i in range(npairs):
    fam = rng.choice(['num', 'num', 'str', None]) if rng.random() < .3 else rng.choice(['num', 'str'])
    g = Gen(rng, fam)
    a = fresh(g, rng.choice([0, 1, 2, 2, 3, 3]))
    if rng.random() < .04: b, how = a, 'self'
    else: b, how = rel(g, a)
    dom = in_domain(a, fam) and in_domain(b, fam)
    cases.append(dict(kind='pair', vals=[a, b], fam=fam, dom=dom, src=how))
    if rng.random() < .5: cases.append(dict(kind='pair', vals=[b, a], fam=fam, dom=dom, src=how + '-flipped'))
  for i in range(ntriples):
    fam = rng.choice(['num', 'str'])
    g = Gen(rng, fam)
    a = fresh(g, rng.choice([0, 1, 2, 2, 3]))
    b, h1 = rel(g, a)
    c, h2 = rel(g, b if rng.random() < .6 else a)
    vals = [a, b, c]; rng.shuffle(vals)
    cases.append(dict(kind='triple', vals=vals, fam=fam, dom=all(in_domain(v, fam) for v in vals), src='%s+%s' % (h1, h2)))
  for i in range(nsorts):
    fam = rng.choice(['num', 'str'])
    g = Gen(rng, fam)
    vals = []
    if rng.random() < .3: vals = [rng.choice(P) for _ in range(rng.randint(2, 7))] if fam == 'num' else []
    vals = [v for v in vals if in_domain(v, fam)]
    while len(vals) < rng.randint(3, 9):
      w = rel(g, rng.choice(vals))[0] if vals and rng.random() < .5 else fresh(g, rng.choice([0, 1, 2, 3]))
      if in_domain(w, fam): vals.append(w)
    rng.shuffle(vals)
    cases.append(dict(kind='sort', vals=vals, fam=fam, dom=all(in_domain(v, fam) for v in vals), src='sort'))
  for v in [MISSING, NONE, B(True), Iv(3), F(3, 1), Sv('s'), Lv(0, []), Lv(1, []), Tv([]), Dv(0, []), Dv(1, [])] + \
           [canon(Ov(n, [(f, Iv(1)) for f in fs])) for n, fs in CLASS_FIELDS.items()]:
    cases.append(dict(kind='probe', vals=[v], fam='num', dom=True, src='probe'))
  return cases

def expand(case):
  """Model/implementation runs of one case: list of (wire case, callable -> implementation outcome)."""
  k, vals = case['kind'], case['vals']
  if k == 'pair':
    a, b = vals
    def f():
      oa = build(a); ob = oa if case['src'] == 'self' else build(b)
      return impl_pair(oa, ob, _ops_flag(a))
    return [([0, strip(a), strip(b), _ops_flag(a), 1 if case['src'] == 'self' else 0], f)]
  if k == 'triple':
    out = []
    objs = {}
    def mk(i, j):
      def f():
        if not objs: objs.update({n: build(v) for n, v in enumerate(vals)})
        return impl_pair(objs[i], objs[j], _ops_flag(vals[i]))
      return f
    for i in range(3):
      for j in range(3):
        if i != j: out.append(([0, strip(vals[i]), strip(vals[j]), _ops_flag(vals[i]), 0], mk(i, j)))
    return out
  if k == 'sort':
    return [([1, [strip(v) for v in vals]], lambda: impl_sort([build(v) for v in vals]))]
  return [([2, strip(vals[0])], lambda: impl_probe(build(vals[0])))]

_SELF = {}
_PAIRC = {}
def oracle(case):
  """-> [(signature, what, shrunk-case)] on the implementation."""
  k, vals = case['kind'], case['vals']
  hits = []
  if k == 'pair':
    a, b = vals
    if a != b and not case.get('noself'):
      for v in (a, b):
        key = json.dumps(v)
        if key not in _SELF:
          _SELF[key] = oracle(dict(kind='pair', vals=[v, v], fam=case['fam']))
        hits += _SELF[key]
    ckey = json.dumps([a, b])
    if ckey in _PAIRC:
      return hits + _PAIRC[ckey]
    mine = []
    for clause, detail in pair_laws(a, b):
      sa, sb = shrink_pair(a, b, clause)
      d2 = [d for c, d in pair_laws(sa, sb) if c == clause]
      detail = d2[0] if d2 else detail
      mine.append((signature(clause, sa, sb, detail), '%s: a = %s, b = %s: %s' % (clause, show(sa), show(sb), detail), dict(kind='pair', vals=[sa, sb], fam=case['fam'])))
    _PAIRC[ckey] = mine
    hits += mine
  elif k == 'triple':
    for i, j in ((0, 1), (1, 2), (0, 2), (1, 0), (2, 1), (2, 0)):
      hits += oracle(dict(kind='pair', vals=[vals[i], vals[j]], fam=case['fam']))
    if not hits:
      import itertools
      for p in itertools.permutations(vals):
        for clause, detail in triple_laws(*p):
          q = shrink_triple(list(p), clause)
          d2 = [d for c, d in triple_laws(*q) if c == clause]
          hits.append(('C06/%s/%s' % (clause, '-'.join(kind_of(v) for v in q)), '%s: a = %s, b = %s, c = %s: %s' % (clause, show(q[0]), show(q[1]), show(q[2]), d2[0] if d2 else detail),
                       dict(kind='triple', vals=q, fam=case['fam'])))
        if hits: break
  elif k == 'sort':
    for v in vals:
      hits += oracle(dict(kind='pair', vals=[v, v], fam=case['fam']))
    if not hits:
      for clause, detail in sort_laws(vals):
        # shrink: drop elements while it still fails
        cur = list(vals); changed = True
        while changed and len(cur) > 2:
          changed = False
          for i in range(len(cur)):
            c2 = cur[:i] + cur[i + 1:]
            if any(c == clause for c, _ in sort_laws(c2)): cur = c2; changed = True; break
        if len(cur) == 2:
          hits += oracle(dict(kind='pair', vals=cur, fam=case['fam']))
        if not hits:
          hits.append(('C06/%s/%s' % (clause, '-'.join(sorted({kind_of(v) for v in cur}))), '%s: sorted([%s]): %s' % (clause, ', '.join(show(v) for v in cur), detail),
                       dict(kind='sort', vals=cur, fam=case['fam'])))
  return hits

def run(ctx):
  info = ctx.regen('Gen/TypeOrder.v', type_order.translate)
  ctx.regen('Gen/CompareDispatch.v', compare_dispatch.translate)
  ctx.build()
  classes()
  cases = make_cases(ctx)
  # de-duplicate
  seen, uniq = set(), []
  for c in cases:
    key = json.dumps([c['kind'], c['vals'], c['src'] == 'self'])
    if key in seen: continue
    seen.add(key); uniq.append(c)
  cases = uniq
  wire, impl, owner = [], [], []
  bad_build = 0
  for ci, c in enumerate(cases):
    # the objects PyGlove builds must be exactly the trees the model is given
    for v in c['vals']:
      if norm_float(readback(build(v))) != norm_float(v):
        bad_build += 1
        ctx.log('GENERATOR: tree not realised exactly: %s -> %s' % (trlib.to_line(v), trlib.to_line(readback(build(v)))))
    for w, f in expand(c):
      wire.append(w); impl.append(f()); owner.append(ci)
  if bad_build:
    ctx.broken.append(dict(kind='harness', name='build/readback', detail='%d value trees were not realised exactly by PyGlove' % bad_build))
  model = ctx.model_run(wire)
  # hash collisions: the model compares pre-images; the implementation compares integers. Different pre-images may collide
  # (hash(-1) == hash(-2) in CPython); such a case is not a disagreement.
  collisions = 0; coll_samples = []
  for w, io, mo in zip(wire, impl, model):
    if w[0] == 0 and mo is not None and isinstance(mo, list) and len(mo) >= 5 and isinstance(io[4], list):
      if io[4][:2] == [0, 0] and mo[4] == [0, 0, 0] and io[4][2] == 1:
        collisions += 1; io[4][2] = 0
        if len(coll_samples) < 5: coll_samples.append([show(w[1]), show(w[2])])
  ctx.extra['hash_collisions_tolerated'] = dict(count=collisions, samples=coll_samples,
      note='pairs whose hash pre-images differ in the model but whose CPython hashes coincide (e.g. hash(-1) == hash(-2)); not a disagreement')
  desc = {id(w): cases[o] for w, o in zip(wire, owner)}
  def describe(w):
    c = desc.get(id(w))
    return dict(kind=c['kind'], src=c['src'], values=[show(v) for v in (w[1:3] if w[0] == 0 else c['vals'])]) if c else None
  bad = ctx.compare('Compare.run vs pg.eq/ne/lt/gt/hash/==/sorted', wire, impl, model, describe=describe)
  # coverage
  n_eq = n_pairs = 0
  for c in cases:
    vals = c['vals']
    nt = any(is_container(v) for v in vals) or len({v[0] for v in vals}) > 1
    sample = None
    if nt and c['src'] not in ('sweep', 'probe') and len(ctx.samples) < 6 and max(depth_of(v) for v in vals) >= 2:
      sample = dict(kind=c['kind'], how=c['src'], values=[show(v) for v in vals])
    ctx.count(json.dumps([c['kind'], c['vals']]), nontrivial=nt, sample=sample, kind=c['kind'] + ':' + c['src'])
    ctx.hist('in_theorem_domain', c['dom'])
    ctx.hist('max_depth', max(depth_of(v) for v in vals))
    if c['kind'] == 'pair':
      ctx.hist('pair_top_kinds', '%s/%s' % (kind_of(vals[0]), kind_of(vals[1])))
  for w, io in zip(wire, impl):
    if w[0] == 0 and not desc[id(w)]['src'].startswith(('sweep', 'pool', 'keyed')):
      n_pairs += 1
      rel = 'eq' if io[0] == 1 else 'lt' if io[2] == [0, 1] else 'gt' if io[3] == [0, 1] else 'raises' if (io[2][0] == 1 or io[3][0] == 1) else 'none-of-the-three'
      n_eq += io[0] == 1
      ctx.hist('random_pair_outcome', rel)
      ctx.hist('hash_defined', 'both' if io[4][:2] == [0, 0] else 'not-both')
  ctx.extra['random_pairs_equal_up_to_representation'] = dict(pairs=n_pairs, equal=n_eq, fraction=round(n_eq / max(n_pairs, 1), 3))
  ctx.extra['sweep'] = dict(exhaustive=True, what='all ordered pairs of the %d pool values' % len(pool()), pairs=len(pool()) ** 2)
  # the direct oracle on every case of the theorems' domain (and on the disagreeing ones)
  n_or = 0
  todo = [c for c in cases if c['kind'] != 'probe' and (c['dom'] or all(in_domain(v, c['fam'], True) for v in c['vals']))] + [cases[owner[i]] for i in bad[:50] if cases[owner[i]]['kind'] != 'probe']
  for c in todo:
    n_or += 1
    for sig, what, shrunk in oracle(c):
      ctx.hit(sig, what, shrunk)
  ctx.extra['oracle_evaluations'] = n_or
  small = []
  for v in pool() + [canon(v) for v in dict_family()] + [canon(v) for v in float_key_family()[::2]] + [canon(wrap(v, h)) for v in dict_family()[::5] for h in ('list', 'field', 'pgvalue')]:
    if in_domain(v, 'num') and v not in small: small.append(v)
  exhaustive_triples(ctx, small)
  # targeted search when something no longer checks and no failing input was found yet
  if ctx.is_broken() and not ctx.hits:
    P = pool() + [canon(v) for v in dict_family()]; rng = ctx.rng
    for _ in range(ctx.scale(4000, 40000)):
      vals = [rng.choice(P) for _ in range(3)]
      for sig, what, shrunk in oracle(dict(kind='triple', vals=vals, fam='num')):
        ctx.hit(sig, what, shrunk)
      if ctx.hits: break
    for _ in range(ctx.scale(500, 5000)):
      if ctx.hits: break
      vals = [rng.choice(P) for _ in range(rng.randint(3, 8))]
      for sig, what, shrunk in oracle(dict(kind='sort', vals=vals, fam='num')):
        ctx.hit(sig, what, shrunk)

def exhaustive_triples(ctx, values):
  """Every ordered triple of `values` against eq-transitivity, lt-transitivity and lt-respects-eq, decided on the n x n matrices
  of pg.eq / pg.lt (rows as bit masks, so all n^3 triples cost n^2 mask operations).  A failing triple goes through the
  ordinary triple oracle (shrinking, signature, replay)."""
  import pyglove as pg
  n = len(values)
  xs, ys = [build(v) for v in values], [build(v) for v in values]     # two copies: no identity shortcut
  E, L, bad = [0] * n, [0] * n, []
  for i in range(n):
    for j in range(n):
      e, l = _try(lambda: pg.eq(xs[i], ys[j])), _try(lambda: pg.lt(xs[i], ys[j]))
      if e[0] != 'ok' or l[0] != 'ok': bad.append((i, j)); continue
      if e[1]: E[i] |= 1 << j
      if l[1]: L[i] |= 1 << j
  fails = []
  def first_bit(m): return (m & -m).bit_length() - 1
  for i in range(n):
    for j in range(n):
      if E[i] >> j & 1:
        if E[j] & ~E[i]: fails.append((i, j, first_bit(E[j] & ~E[i])))          # eq(i,j), eq(j,k), not eq(i,k)
        if L[j] & ~L[i]: fails.append((i, j, first_bit(L[j] & ~L[i])))          # eq(i,j), lt(j,k), not lt(i,k)
      if L[i] >> j & 1:
        if L[j] & ~L[i]: fails.append((i, j, first_bit(L[j] & ~L[i])))          # lt(i,j), lt(j,k), not lt(i,k)
        if E[j] & ~L[i]: fails.append((i, j, first_bit(E[j] & ~L[i])))          # lt(i,j), eq(j,k), not lt(i,k)
  for (i, j) in bad[:3]:
    for sig, what, shrunk in oracle(dict(kind='pair', vals=[values[i], values[j]], fam='num')):
      ctx.hit(sig, what, shrunk)
  for (i, j, k) in fails[:5]:
    for sig, what, shrunk in oracle(dict(kind='triple', vals=[values[i], values[j], values[k]], fam='num')):
      ctx.hit(sig, what, shrunk)
  ctx.extra['exhaustive_triples'] = dict(exhaustive=True, values=n, triples=n ** 3, failing=len(fails), pairs_raising=len(bad),
      what='all ordered triples of the small-scope values (pool, dict family, tuples; those in the theorems\' domain): eq-trans, lt-trans, lt-respects-eq (both sides)')

def replay(ctx, rp):
  classes()
  c = rp['case']
  hits = oracle(dict(kind=c['kind'], vals=c['vals'], fam=c.get('fam', 'num')))
  for h in hits:
    print('  still fails:', h[0], '|', h[1])
  return not hits
